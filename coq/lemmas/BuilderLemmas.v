(* BuilderLemmas.v -- commutation of clause-adding calls of different kinds (C08). *)
From PV Require Import Base Builder lemmas.BuilderFrames.
From Coq Require Import Lia.
Local Open Scope list_scope.

Section Lemmas.
Variable term : Type.
Variable fields_tables : term -> list (option tbl).
Variable find_tables : term -> list (option tbl).
Variable and_ : term -> term -> term.
Variable is_empty : term -> bool.
Variable field_of : string -> option tbl -> term.
Variable wrap_int : Z -> term.
Variable star : term.
Variable is_star : term -> bool.
Variable sel_table : term -> option (option tbl).
Variable mk_rollup : list term -> term.
Variable rollup_args : term -> option (list term).

Notation stp := (step term fields_tables find_tables and_ is_empty field_of wrap_int star is_star sel_table mk_rollup rollup_args).
Notation rn := (run term fields_tables find_tables and_ is_empty field_of wrap_int star is_star sel_table mk_rollup rollup_args).
Notation kof := (kind_of term).
Notation eqv := (equiv term).
Notation sjoin := (step_join term find_tables).
Notation vtab := (validate_table term fields_tables).

(* ---- slot sets ------------------------------------------------------------------------------ *)
Lemma smem_app : forall x a b, smem x (a ++ b) = smem x a || smem x b.
Proof. induction a; simpl; intros; [reflexivity|]. rewrite IHa. apply orb_assoc. Qed.

Lemma disjoint_spec : forall a b, disjoint a b = true -> forall x, smem x a = true -> smem x b = false.
Proof.
  induction a; simpl; intros b H x Hx; [discriminate|].
  apply andb_true_iff in H. destruct H as [H1 H2].
  apply orb_true_iff in Hx. destruct Hx as [Hx|Hx].
  - apply slot_eqb_eq in Hx. subst. destruct (smem a b); [discriminate|reflexivity].
  - eapply IHa; eauto.
Qed.

Lemma not_in_deps_writes : forall x k, smem x (deps k) = false -> smem x (writes k) = false.
Proof. intros x k H. unfold deps in H. rewrite smem_app in H. apply orb_false_iff in H. tauto. Qed.

(* ---- two calls with independent footprints commute exactly ------------------------------------ *)
Lemma commute_independent : forall c1 c2 s a b,
  independent (kof c1) (kof c2) = true ->
  stp s c1 = Ok a -> stp a c2 = Ok b ->
  exists a', stp s c2 = Ok a' /\ stp a' c1 = Ok b.
Proof.
  intros c1 c2 s a b Hi H1 H2.
  unfold independent in Hi. apply andb_true_iff in Hi. destruct Hi as [D1 D2].
  pose proof (disjoint_spec _ _ D1) as N1. pose proof (disjoint_spec _ _ D2) as N2.
  assert (W1 := step_writes _ _ _ _ _ _ _ _ _ _ _ _ c1 s a H1).
  (* c2 from s *)
  assert (R2 : agree_out term (kof c2) (stp a c2) (stp s c2)).
  { apply step_reads. intros x Hx. apply eq_on_sym. apply W1.
    destruct (smem x (writes (kof c1))) eqn:E; [|reflexivity]. rewrite (N1 x E) in Hx. discriminate. }
  rewrite H2 in R2. unfold agree_out in R2.
  destruct (stp s c2) as [a'|e] eqn:H2'; [|contradiction].
  assert (W2 := step_writes _ _ _ _ _ _ _ _ _ _ _ _ c2 s a' H2').
  assert (R1 : agree_out term (kof c1) (stp s c1) (stp a' c1)).
  { apply step_reads. intros x Hx. apply W2.
    destruct (smem x (writes (kof c2))) eqn:E; [|reflexivity]. rewrite (N2 x E) in Hx. discriminate. }
  rewrite H1 in R1. unfold agree_out in R1.
  destruct (stp a' c1) as [b'|e] eqn:H1'; [|contradiction].
  exists a'. split; [reflexivity|]. rewrite H1'. f_equal.
  assert (W1' := step_writes _ _ _ _ _ _ _ _ _ _ _ _ c1 a' b' H1').
  assert (W2' := step_writes _ _ _ _ _ _ _ _ _ _ _ _ c2 a b H2).
  apply qstate_ext. intro x.
  destruct (smem x (writes (kof c1))) eqn:E1.
  - (* written by c1 only *)
    apply eq_on_trans with a.
    + apply eq_on_sym. apply R1. exact E1.
    + apply W2'. apply not_in_deps_writes. apply N1. exact E1.
  - destruct (smem x (writes (kof c2))) eqn:E2.
    + apply eq_on_trans with a'.
      * apply eq_on_sym. apply W1'. exact E1.
      * apply eq_on_sym. apply R2. exact E2.
    + apply eq_on_trans with a'; [apply eq_on_sym; apply W1'; exact E1|].
      apply eq_on_trans with s; [apply eq_on_sym; apply W2; exact E2|].
      apply eq_on_trans with a; [apply W1; exact E1|]. apply W2'. exact E2.
Qed.

(* ---- render-equivalence ------------------------------------------------------------------------ *)
Lemma equiv_refl : forall s, eqv s s.
Proof. intro s. split; [intros; apply eq_on_refl|reflexivity]. Qed.

Lemma equiv_trans : forall a b c, eqv a b -> eqv b c -> eqv a c.
Proof.
  intros a b c [H1 H2] [H3 H4]. split.
  - intros x Hx. eapply eq_on_trans; [apply H1|apply H3]; exact Hx.
  - congruence.
Qed.

Lemma forced_ext : forall a b : qstate term,
  (forall x, slot_eqb x S_foreign_table = false -> eq_on term x a b) -> forced term a = forced term b.
Proof.
  intros a b H. unfold forced.
  pose proof (H S_joins eq_refl) as Hj. pose proof (H S_from eq_refl) as Hf.
  pose proof (H S_update_table eq_refl) as Hu. simpl in Hj, Hf, Hu. rewrite Hj, Hf, Hu. reflexivity.
Qed.

(* the renderer cannot tell equivalent states apart *)
Lemma render_equiv : forall T (R : bool -> qstate term -> T) a b, eqv a b -> render term R a = render term R b.
Proof.
  intros T R a b [H1 H2]. unfold render. rewrite H2. f_equal.
  apply qstate_ext. intro x. pose proof (H1 x) as Hx. destruct x; simpl in *; try (apply Hx; reflexivity). reflexivity.
Qed.

Ltac destr_matches H :=
  repeat match type of H with
         | context [match ?e with _ => _ end] => destruct e eqn:?
         end.

(* ---- with_namespace is forced once it is forced ------------------------------------------------- *)
Lemma step_join_nonnil : forall fr upd joins cnt item how spec j c,
  sjoin fr upd joins cnt item how spec = Ok (j, c) -> is_nil j = false.
Proof.
  intros fr upd joins cnt item how spec j c H. unfold step_join, step_join_bt in H.
  destr_matches H; try discriminate; inversion H; subst; destruct joins; reflexivity.
Qed.

Lemma forced_mono : forall c s t, commuting (kof c) = true -> stp s c = Ok t ->
  forced term s = true -> forced term t = true.
Proof.
  intros c s t Hc H F.
  destruct c; simpl in Hc; try discriminate;
    try (pose proof (step_writes _ _ _ _ _ _ _ _ _ _ _ _ _ s t H S_joins eq_refl) as Ej;
         pose proof (step_writes _ _ _ _ _ _ _ _ _ _ _ _ _ s t H S_from eq_refl) as Ef;
         pose proof (step_writes _ _ _ _ _ _ _ _ _ _ _ _ _ s t H S_update_table eq_refl) as Eu;
         simpl in Ej, Ef, Eu; unfold forced in *; rewrite <- Ej, <- Ef, <- Eu; exact F).
  cbn [step] in H. unfold bind in H.
  destruct (sjoin (q_from term s) (q_update_table term s) (q_joins term s)
                  (q_subquery_count term s) item how spec) as [[j c']|e] eqn:E; [|discriminate].
  inversion H. unfold forced. simpl. rewrite (step_join_nonnil _ _ _ _ _ _ _ _ _ E). reflexivity.
Qed.

(* ---- equivalence is preserved by every later clause-adding call ---------------------------------- *)
Lemma step_equiv_generic : forall c s s' t, commuting (kof c) = true ->
  smem S_foreign_table (deps (kof c)) = false ->
  eqv s s' -> stp s c = Ok t -> exists t', stp s' c = Ok t' /\ eqv t t'.
Proof.
  intros c s s' t Hc Hnf [E W] H.
  assert (R : agree_out term (kof c) (stp s c) (stp s' c)).
  { apply step_reads. intros x Hx. apply E.
    destruct (slot_eqb x S_foreign_table) eqn:Ex; [|reflexivity].
    apply slot_eqb_eq in Ex. subst. rewrite Hnf in Hx. discriminate. }
  rewrite H in R. unfold agree_out in R. destruct (stp s' c) as [t'|e] eqn:H'; [|contradiction].
  exists t'. split; [reflexivity|].
  assert (P1 : forall x, slot_eqb x S_foreign_table = false -> eq_on term x t t').
  { intros x Hx. destruct (smem x (writes (kof c))) eqn:Ew; [apply R; exact Ew|].
    apply eq_on_trans with s; [apply eq_on_sym; eapply step_writes; eauto|].
    apply eq_on_trans with s'; [apply E; exact Hx|]. eapply step_writes; eauto. }
  split; [exact P1|].
  pose proof (not_in_deps_writes _ _ Hnf) as Hnw.
  pose proof (step_writes _ _ _ _ _ _ _ _ _ _ _ _ c s t H S_foreign_table Hnw) as F1.
  pose proof (step_writes _ _ _ _ _ _ _ _ _ _ _ _ c s' t' H' S_foreign_table Hnw) as F2.
  simpl in F1, F2. unfold with_namespace_of in *. rewrite <- F1, <- F2.
  rewrite <- (forced_ext _ _ P1). rewrite <- (forced_ext _ _ E) in W.
  destruct (forced term t) eqn:Ft; [reflexivity|].
  destruct (forced term s) eqn:Fs.
  - rewrite (forced_mono c s t Hc H Fs) in Ft. discriminate.
  - exact W.
Qed.

Lemma equiv_reads : forall s s', eqv s s' ->
  q_from term s = q_from term s' /\ q_update_table term s = q_update_table term s' /\
  q_joins term s = q_joins term s' /\ q_wheres term s = q_wheres term s' /\
  q_prewheres term s = q_prewheres term s'.
Proof.
  intros s s' [E _].
  pose proof (E S_from eq_refl). pose proof (E S_update_table eq_refl). pose proof (E S_joins eq_refl).
  pose proof (E S_wheres eq_refl). pose proof (E S_prewheres eq_refl). simpl in *. tauto.
Qed.

Lemma step_equiv : forall c s s' t, commuting (kof c) = true -> eqv s s' -> stp s c = Ok t ->
  exists t', stp s' c = Ok t' /\ eqv t t'.
Proof.
  intros c s s' t Hc Heq H.
  destruct (smem S_foreign_table (deps (kof c))) eqn:Hnf; [|eapply step_equiv_generic; eauto].
  destruct c; simpl in Hnf; try discriminate; clear Hnf Hc;
    destruct (equiv_reads _ _ Heq) as (Ef & Eu & Ej & Ew & Ep); destruct Heq as [E W];
    cbn [step] in H |- *; rewrite <- Ef, <- Eu, <- Ej; try rewrite <- Ew; try rewrite <- Ep.
  - (* where *)
    destruct (is_empty c).
    + inversion H; subst. exists s'. split; [reflexivity|]. split; assumption.
    + inversion H; subst; clear H. eexists. split; [reflexivity|]. split.
      * intros y Hy. pose proof (E y Hy) as Ey. destruct y; simpl in *; try discriminate; try exact Ey; reflexivity.
      * unfold with_namespace_of, forced in *. simpl. rewrite <- Ef, <- Eu, <- Ej in *.
        destruct (vtab (q_from term s) (q_update_table term s) (q_joins term s) c); [exact W|].
        rewrite !orb_true_r. reflexivity.
  - (* prewhere *)
    inversion H; subst; clear H. eexists. split; [reflexivity|]. split.
    + intros y Hy. pose proof (E y Hy) as Ey. destruct y; simpl in *; try discriminate; try exact Ey; reflexivity.
    + unfold with_namespace_of, forced in *. simpl. rewrite <- Ef, <- Eu, <- Ej in *.
      destruct (vtab (q_from term s) (q_update_table term s) (q_joins term s) c); [exact W|].
      rewrite !orb_true_r. reflexivity.
Qed.

(* ---- the special pairs ------------------------------------------------------------------------------ *)
Lemma foreign_or_comm : forall (v1 v2 f : bool),
  (if v2 then (if v1 then f else true) else true) = (if v1 then (if v2 then f else true) else true).
Proof. destruct v1, v2; reflexivity. Qed.

(* where / prewhere: both "or" into _foreign_table and read nothing the other writes: exact commutation *)
Lemma swap_where_prewhere : forall s x y a b,
  stp s (CWhere term x) = Ok a -> stp a (CPrewhere term y) = Ok b ->
  exists a', stp s (CPrewhere term y) = Ok a' /\ stp a' (CWhere term x) = Ok b.
Proof.
  intros s x y a b H1 H2. cbn [step] in *. destruct (is_empty x) eqn:Ex.
  - inversion H1; subst. eexists. split; [reflexivity|]. cbn [step]. try rewrite Ex. exact H2.
  - inversion H1; subst; clear H1. inversion H2; subst; clear H2.
    eexists. split; [reflexivity|]. cbn [step]. try rewrite Ex. simpl. f_equal.
    rewrite foreign_or_comm. reflexivity.
Qed.

Lemma swap_prewhere_where : forall s x y a b,
  stp s (CPrewhere term y) = Ok a -> stp a (CWhere term x) = Ok b ->
  exists a', stp s (CWhere term x) = Ok a' /\ stp a' (CPrewhere term y) = Ok b.
Proof.
  intros s x y a b H1 H2. cbn [step] in *. destruct (is_empty x) eqn:Ex.
  - inversion H1; subst. inversion H2; subst. eexists. split; [reflexivity|]. reflexivity.
  - inversion H1; subst; clear H1. inversion H2; subst; clear H2.
    eexists. split; [reflexivity|]. cbn [step]. simpl. f_equal.
    rewrite foreign_or_comm. reflexivity.
Qed.

(* where / prewhere against join: _validate_table reads _joins, so the flag may differ -- but then a join is
   present and with_namespace is forced anyway *)
Lemma equiv_joined : forall a b : qstate term,
  (forall x, slot_eqb x S_foreign_table = false -> eq_on term x a b) ->
  is_nil (q_joins term a) = false -> eqv a b.
Proof.
  intros a b E N. split; [exact E|].
  unfold with_namespace_of. rewrite <- (forced_ext _ _ E).
  unfold forced. rewrite N. reflexivity.
Qed.

Lemma swap_filter_join : forall s c item how spec a b,
  (exists x, c = CWhere term x) \/ (exists x, c = CPrewhere term x) ->
  stp s c = Ok a -> stp a (CJoin term item how spec) = Ok b ->
  exists a' b', stp s (CJoin term item how spec) = Ok a' /\ stp a' c = Ok b' /\ eqv b b'.
Proof.
  intros s c item how spec a b Hc H1 H2.
  destruct Hc as [[x ->]|[x ->]]; cbn [step] in H1.
  - destruct (is_empty x) eqn:Ex.
    + inversion H1; subst. exists b, b. split; [exact H2|]. split; [cbn [step]; try rewrite Ex; reflexivity|apply equiv_refl].
    + inversion H1; subst; clear H1. cbn [step] in H2. simpl in H2. unfold bind in H2.
      destruct (sjoin (q_from term s) (q_update_table term s) (q_joins term s)
                      (q_subquery_count term s) item how spec) as [[j c']|e] eqn:E; [|discriminate].
      inversion H2; subst; clear H2.
      eexists. eexists. split; [cbn [step]; rewrite E; reflexivity|].
      split; [cbn [step]; try rewrite Ex; reflexivity|].
      apply equiv_joined.
      * intros y Hy. destruct y; simpl in *; try discriminate; reflexivity.
      * simpl. exact (step_join_nonnil _ _ _ _ _ _ _ _ _ E).
  - inversion H1; subst; clear H1. cbn [step] in H2. simpl in H2. unfold bind in H2.
    destruct (sjoin (q_from term s) (q_update_table term s) (q_joins term s)
                    (q_subquery_count term s) item how spec) as [[j c']|e] eqn:E; [|discriminate].
    inversion H2; subst; clear H2.
    eexists. eexists. split; [cbn [step]; rewrite E; reflexivity|].
    split; [cbn [step]; reflexivity|].
    apply equiv_joined.
    + intros y Hy. destruct y; simpl in *; try discriminate; reflexivity.
    + simpl. exact (step_join_nonnil _ _ _ _ _ _ _ _ _ E).
Qed.

Lemma swap_join_filter : forall s c item how spec a b,
  (exists x, c = CWhere term x) \/ (exists x, c = CPrewhere term x) ->
  stp s (CJoin term item how spec) = Ok a -> stp a c = Ok b ->
  exists a' b', stp s c = Ok a' /\ stp a' (CJoin term item how spec) = Ok b' /\ eqv b b'.
Proof.
  intros s c item how spec a b Hc H1 H2.
  cbn [step] in H1. unfold bind in H1.
  destruct (sjoin (q_from term s) (q_update_table term s) (q_joins term s)
                  (q_subquery_count term s) item how spec) as [[j c']|e] eqn:E; [|discriminate].
  inversion H1; subst; clear H1.
  destruct Hc as [[x ->]|[x ->]]; cbn [step] in H2.
  - destruct (is_empty x) eqn:Ex.
    + inversion H2; subst; clear H2. eexists. eexists. split; [cbn [step]; try rewrite Ex; reflexivity|].
      split; [cbn [step]; rewrite E; reflexivity|apply equiv_refl].
    + inversion H2; subst; clear H2. eexists. eexists. split; [cbn [step]; try rewrite Ex; reflexivity|].
      split; [cbn [step]; simpl; rewrite E; reflexivity|].
      apply equiv_joined.
      * intros y Hy. destruct y; simpl in *; try discriminate; reflexivity.
      * simpl. exact (step_join_nonnil _ _ _ _ _ _ _ _ _ E).
  - inversion H2; subst; clear H2. eexists. eexists. split; [cbn [step]; reflexivity|].
    split; [cbn [step]; simpl; rewrite E; reflexivity|].
    apply equiv_joined.
    + intros y Hy. destruct y; simpl in *; try discriminate; reflexivity.
    + simpl. exact (step_join_nonnil _ _ _ _ _ _ _ _ _ E).
Qed.

(* ---- do_join as written reads _with, but its result does not depend on it -------------------------------------- *)
Lemma omem_app : forall x a b, omem x (a ++ b) = omem x a || omem x b.
Proof. induction a; simpl; intros; [reflexivity|]. rewrite IHa. apply orb_assoc. Qed.

Lemma omem_wq : forall ft (w : list (string * term)),
  match ft with Some (Wq _) => False | _ => True end ->
  omem ft (map (fun x => Some (Wq (fst x))) w) = false.
Proof.
  intros ft w H. induction w as [|x w IH]; [reflexivity|]. simpl. rewrite IH.
  destruct ft as [[m al|m|al id]|]; try reflexivity. contradiction.
Qed.

Lemma join_valid_code : forall bt (w : list (string * term)) joins item tabs,
  join_valid term (bt ++ map (fun x => Some (Wq (fst x))) w) joins item tabs = join_valid term bt joins item tabs.
Proof.
  intros bt w joins item tabs. unfold join_valid. induction tabs as [|ft r IH]; [reflexivity|].
  cbn [forallb]. rewrite IH. f_equal. destruct ft as [[m al|m|al id]|]; try reflexivity;
    rewrite omem_app, omem_wq by exact I; rewrite orb_false_r; reflexivity.
Qed.

Lemma auto_alias_code : forall bt tb (w : list (string * term)) joins item,
  auto_alias term (bt ++ map (fun x => Some (Wq (fst x))) w) tb joins item = auto_alias term bt tb joins item.
Proof.
  intros bt tb w joins item. destruct item as [m [al|]| |]; try reflexivity.
  unfold auto_alias. rewrite omem_app, omem_wq by exact I. rewrite orb_false_r. reflexivity.
Qed.

Theorem step_join_code_eq : forall fr upd w joins cnt item how spec,
  step_join_code term find_tables fr upd w joins cnt item how spec = sjoin fr upd joins cnt item how spec.
Proof.
  intros. unfold step_join_code, step_join, step_join_bt, base_tables_code.
  destruct (tag_item cnt item) as [item1 cnt1].
  destruct spec; rewrite ?auto_alias_code, ?join_valid_code; reflexivity.
Qed.

(* ---- two adjacent successful calls of different kinds commute up to render-equivalence --------------- *)
Theorem swap_adjacent : forall s c1 c2 a b,
  commuting (kof c1) = true -> commuting (kof c2) = true -> kind_eqb (kof c1) (kof c2) = false ->
  stp s c1 = Ok a -> stp a c2 = Ok b ->
  exists a' b', stp s c2 = Ok a' /\ stp a' c1 = Ok b' /\ eqv b b'.
Proof.
  intros s c1 c2 a b K1 K2 Kd H1 H2.
  destruct (footprint_cases _ _ K1 K2 Kd) as [Hi|Hs].
  - destruct (commute_independent c1 c2 s a b Hi H1 H2) as [a' [Ha Hb]].
    exists a', b. split; [exact Ha|]. split; [exact Hb|apply equiv_refl].
  - destruct c1; simpl in Hs; try discriminate; destruct c2; simpl in Hs; try discriminate.
    + (* join, where *) eapply swap_join_filter; eauto.
    + (* join, prewhere *) eapply swap_join_filter; eauto.
    + (* where, join *) eapply swap_filter_join; eauto.
    + (* where, prewhere *)
      destruct (swap_where_prewhere _ _ _ _ _ H1 H2) as [a' [Ha Hb]].
      exists a', b. split; [exact Ha|]. split; [exact Hb|apply equiv_refl].
    + (* prewhere, join *) eapply swap_filter_join; eauto.
    + (* prewhere, where *)
      destruct (swap_prewhere_where _ _ _ _ _ H1 H2) as [a' [Ha Hb]].
      exists a', b. split; [exact Ha|]. split; [exact Hb|apply equiv_refl].
Qed.

(* ---- kind-preserving interleavings = sequences of adjacent transpositions of different kinds ----------- *)
Lemma kind_eqb_refl : forall k, kind_eqb k k = true.
Proof. destruct k; reflexivity. Qed.
Lemma kind_eqb_eq : forall a b, kind_eqb a b = true -> a = b.
Proof. destruct a, b; simpl; intro H; try discriminate; reflexivity. Qed.
Lemma kind_eqb_sym : forall a b, kind_eqb a b = kind_eqb b a.
Proof. destruct a, b; reflexivity. Qed.

Inductive kperm : list (call term) -> list (call term) -> Prop :=
| kp_refl : forall l, kperm l l
| kp_swap : forall l1 c1 c2 l2, kind_eqb (kof c1) (kof c2) = false ->
    kperm (l1 ++ c1 :: c2 :: l2) (l1 ++ c2 :: c1 :: l2)
| kp_trans : forall a b c, kperm a b -> kperm b c -> kperm a c.

Lemma kperm_cons : forall x a b, kperm a b -> kperm (x :: a) (x :: b).
Proof.
  intros x a b H. induction H.
  - apply kp_refl.
  - apply (kp_swap (x :: l1)). assumption.
  - eapply kp_trans; eauto.
Qed.

(* move c to the right through a block p of calls of other kinds *)
Lemma kperm_move : forall c p q, kfilter term (kof c) p = [] -> kperm (c :: p ++ q) (p ++ c :: q).
Proof.
  intros c p. induction p as [|d p IH]; intros q H; [apply kp_refl|].
  simpl in H. unfold kfilter in H. simpl in H.
  destruct (kind_eqb (kof d) (kof c)) eqn:E; [discriminate|].
  eapply kp_trans.
  - apply (kp_swap [] c d (p ++ q)). rewrite kind_eqb_sym. exact E.
  - simpl. apply kperm_cons. apply IH. exact H.
Qed.

Lemma kfilter_app : forall k a b, kfilter term k (a ++ b) = kfilter term k a ++ kfilter term k b.
Proof. intros. unfold kfilter. apply filter_app. Qed.

Lemma kfilter_split : forall k l c rest, kfilter term k l = c :: rest ->
  exists p q, l = p ++ c :: q /\ kfilter term k p = [] /\ kfilter term k q = rest.
Proof.
  intros k l. induction l as [|d l IH]; intros c rest H; [discriminate|].
  unfold kfilter in H. simpl in H. destruct (kind_eqb (kof d) k) eqn:E.
  - inversion H; subst. exists [], l. split; [reflexivity|]. split; reflexivity.
  - destruct (IH _ _ H) as (p & q & Hl & Hp & Hq). exists (d :: p), q. subst l.
    split; [reflexivity|]. split; [|exact Hq]. unfold kfilter. simpl. rewrite E. exact Hp.
Qed.

Lemma same_kind_order_kperm : forall l1 l2, same_kind_order term l1 l2 -> kperm l1 l2.
Proof.
  induction l1 as [|c r IH]; intros l2 H.
  - destruct l2 as [|d l2]; [apply kp_refl|].
    specialize (H (kof d)). unfold kfilter in H. simpl in H. rewrite kind_eqb_refl in H. discriminate.
  - pose proof (H (kof c)) as Hc. unfold kfilter in Hc at 1. simpl in Hc. rewrite kind_eqb_refl in Hc.
    symmetry in Hc. destruct (kfilter_split _ _ _ _ Hc) as (p & q & Hl & Hp & Hq). subst l2.
    assert (Hr : same_kind_order term r (p ++ q)).
    { intro k. specialize (H k). rewrite kfilter_app in *. unfold kfilter in H at 1. simpl in H.
      unfold kfilter in H at 3. simpl in H. fold (kfilter term k r) in H. fold (kfilter term k q) in H.
      destruct (kind_eqb (kof c) k) eqn:E.
      - apply kind_eqb_eq in E. subst k. rewrite Hp in *. simpl in *. inversion H. reflexivity.
      - exact H. }
    eapply kp_trans; [apply kperm_cons; apply IH; exact Hr|]. apply kperm_move. exact Hp.
Qed.

Lemma kperm_in : forall a b, kperm a b -> forall x, In x a <-> In x b.
Proof.
  intros a b H. induction H; intro x.
  - tauto.
  - rewrite !in_app_iff. simpl. tauto.
  - rewrite IHkperm1. apply IHkperm2.
Qed.

Lemma all_commuting_kperm : forall a b, kperm a b -> all_commuting term a = true -> all_commuting term b = true.
Proof.
  intros a b H Ha. unfold all_commuting in *. rewrite forallb_forall in *.
  intros x Hx. apply Ha. apply (kperm_in _ _ H). exact Hx.
Qed.

(* ---- running lists of calls -------------------------------------------------------------------------- *)
Lemma run_app : forall l1 l2 s, rn s (l1 ++ l2) = bind (rn s l1) (fun m => rn m l2).
Proof.
  induction l1 as [|c l1 IH]; intros l2 s; [reflexivity|].
  simpl. destruct (stp s c); simpl; [apply IH|reflexivity].
Qed.

Lemma run_equiv : forall l s s' q, all_commuting term l = true -> eqv s s' -> rn s l = Ok q ->
  exists q', rn s' l = Ok q' /\ eqv q q'.
Proof.
  induction l as [|c l IH]; intros s s' q Hc He H.
  - simpl in *. inversion H; subst. exists s'. split; [reflexivity|exact He].
  - simpl in Hc. apply andb_true_iff in Hc. destruct Hc as [Hc1 Hc2].
    simpl in H. destruct (stp s c) as [t|e] eqn:Hs; [|discriminate]. simpl in H.
    destruct (step_equiv c s s' t Hc1 He Hs) as [t' [Ht' Et]].
    destruct (IH t t' q Hc2 Et H) as [q' [Hq' Eq]].
    exists q'. split; [|exact Eq]. simpl. rewrite Ht'. exact Hq'.
Qed.

Lemma all_commuting_app : forall a b, all_commuting term (a ++ b) = all_commuting term a && all_commuting term b.
Proof. intros. unfold all_commuting. apply forallb_app. Qed.

Lemma run_kperm : forall l1 l2, kperm l1 l2 -> all_commuting term l1 = true ->
  forall s q1, rn s l1 = Ok q1 -> exists q2, rn s l2 = Ok q2 /\ eqv q1 q2.
Proof.
  intros l1 l2 H. induction H; intros Hc s q1 Hr.
  - exists q1. split; [exact Hr|apply equiv_refl].
  - rewrite all_commuting_app in Hc. apply andb_true_iff in Hc. destruct Hc as [_ Hc].
    simpl in Hc. apply andb_true_iff in Hc. destruct Hc as [K1 Hc]. apply andb_true_iff in Hc. destruct Hc as [K2 Hc].
    rewrite run_app in Hr. destruct (rn s l1) as [m|e] eqn:Hm; [|discriminate]. simpl in Hr.
    destruct (stp m c1) as [a|e] eqn:Ha; [|discriminate]. simpl in Hr.
    destruct (stp a c2) as [b|e] eqn:Hb; [|discriminate]. simpl in Hr.
    destruct (swap_adjacent m c1 c2 a b K1 K2 H Ha Hb) as (a' & b' & Ha' & Hb' & Eb).
    destruct (run_equiv l2 b b' q1 Hc Eb Hr) as [q2 [Hq2 Eq]].
    exists q2. split; [|exact Eq]. rewrite run_app, Hm. simpl. rewrite Ha'. simpl. rewrite Hb'. simpl. exact Hq2.
  - destruct (IHkperm1 Hc s q1 Hr) as [q2 [H2 E2]].
    destruct (IHkperm2 (all_commuting_kperm _ _ H Hc) s q2 H2) as [q3 [H3 E3]].
    exists q3. split; [exact H3|]. eapply equiv_trans; eauto.
Qed.

(* any interleaving that keeps the relative order of the calls of every kind *)
Theorem interleaving_commutes : forall s0 l1 l2,
  all_commuting term l1 = true -> same_kind_order term l1 l2 ->
  forall q1, rn s0 l1 = Ok q1 -> exists q2, rn s0 l2 = Ok q2 /\ eqv q1 q2.
Proof.
  intros s0 l1 l2 Hc Hk q1 Hr.
  exact (run_kperm l1 l2 (same_kind_order_kperm l1 l2 Hk) Hc s0 q1 Hr).
Qed.


(* ---- repeated calls accumulate in call order --------------------------------------------------------------- *)
Lemma run_fold : forall (A : Type) (P : qstate term -> A) (U : A -> call term -> A),
  (forall s c t, stp s c = Ok t -> P t = U (P s) c) ->
  forall l s q, rn s l = Ok q -> P q = fold_left U l (P s).
Proof.
  intros A P U HU. induction l as [|c l IH]; intros s q H.
  - simpl in H. inversion H. reflexivity.
  - simpl in H. destruct (stp s c) as [t|e] eqn:Hs; [|discriminate]. simpl in H.
    simpl. rewrite <- (HU _ _ _ Hs). apply IH. exact H.
Qed.

Ltac step_cases H :=
  match type of H with
  | step _ _ _ _ _ _ _ _ _ _ _ _ _ ?c = _ =>
      destruct c; cbn [step] in H; unfold bind in H; destr_matches H; try discriminate; inversion H; subst; try reflexivity;
      simpl; match goal with E : is_empty _ = _ |- _ => rewrite E end; reflexivity
  end.

Notation acw := (acc_wheres term and_ is_empty).
Notation acp := (acc_prewheres term and_).
Notation ach := (acc_havings term and_ is_empty).

Lemma wheres_accumulate : forall l s q, rn s l = Ok q -> q_wheres term q = fold_left acw l (q_wheres term s).
Proof. apply (run_fold _ (q_wheres term) acw). intros s c t H. step_cases H. Qed.
Lemma prewheres_accumulate : forall l s q, rn s l = Ok q -> q_prewheres term q = fold_left acp l (q_prewheres term s).
Proof. apply (run_fold _ (q_prewheres term) acp). intros s c t H. step_cases H. Qed.
Lemma havings_accumulate : forall l s q, rn s l = Ok q -> q_havings term q = fold_left ach l (q_havings term s).
Proof. apply (run_fold _ (q_havings term) ach). intros s c t H. step_cases H. Qed.
Lemma with_accumulate : forall l s q, rn s l = Ok q -> q_with term q = fold_left (acc_with term) l (q_with term s).
Proof. apply (run_fold _ (q_with term) (acc_with term)). intros s c t H. step_cases H. Qed.
Lemma force_accumulate : forall l s q, rn s l = Ok q ->
  q_force_indexes term q = fold_left (acc_force term) l (q_force_indexes term s).
Proof. apply (run_fold _ (q_force_indexes term) (acc_force term)). intros s c t H. step_cases H. Qed.
Lemma use_accumulate : forall l s q, rn s l = Ok q ->
  q_use_indexes term q = fold_left (acc_use term) l (q_use_indexes term s).
Proof. apply (run_fold _ (q_use_indexes term) (acc_use term)). intros s c t H. step_cases H. Qed.
Lemma updates_accumulate : forall l s q, rn s l = Ok q ->
  q_updates term q = fold_left (acc_updates term) l (q_updates term s).
Proof. apply (run_fold _ (q_updates term) (acc_updates term)). intros s c t H. step_cases H. Qed.
Lemma values_accumulate : forall l s q, rn s l = Ok q ->
  q_values term q = fold_left (acc_values term) l (q_values term s).
Proof. apply (run_fold _ (q_values term) (acc_values term)). intros s c t H. step_cases H. Qed.

(* ORDER BY terms: in call order, names resolved against the first FROM item, which no clause-adding call changes *)
Lemma order_loop_spec : forall fr o items acc r, order_loop term field_of fr o acc items = Ok r ->
  r = acc ++ map (fun i => (match i with OTerm _ t => t | OStr _ n => field_of n (hd_error fr) end, o)) items.
Proof.
  intros fr o. induction items as [|i items IH]; intros acc r H.
  - simpl in H. inversion H. rewrite app_nil_r. reflexivity.
  - simpl in H. unfold bind in H. destruct (order_item term field_of fr i) as [t|e] eqn:E; [|discriminate].
    apply IH in H. subst r. rewrite <- app_assoc. simpl. f_equal. f_equal. f_equal.
    destruct i; simpl in E.
    + destruct fr; [discriminate|]. inversion E. reflexivity.
    + inversion E. reflexivity.
Qed.

Lemma orderbys_accumulate : forall l s q, all_commuting term l = true -> rn s l = Ok q ->
  q_orderbys term q = fold_left (acc_orderbys term field_of (q_from term s)) l (q_orderbys term s)
  /\ q_from term q = q_from term s.
Proof.
  induction l as [|c l IH]; intros s q Hc H.
  - simpl in H. inversion H. split; reflexivity.
  - simpl in Hc. apply andb_true_iff in Hc. destruct Hc as [Hc1 Hc2].
    simpl in H. destruct (stp s c) as [t|e] eqn:Hs; [|discriminate]. simpl in H.
    destruct (IH t q Hc2 H) as [Ho Hf].
    assert (Ef : q_from term t = q_from term s).
    { destruct c; simpl in Hc1; try discriminate;
        (symmetry; exact (step_writes _ _ _ _ _ _ _ _ _ _ _ _ _ s t Hs S_from eq_refl)). }
    split; [|congruence]. rewrite Ho, Ef. simpl. f_equal.
    destruct c; try (exact (eq_sym (step_writes _ _ _ _ _ _ _ _ _ _ _ _ _ s t Hs S_orderbys eq_refl))).
    cbn [step] in Hs. unfold bind in Hs.
    destruct (order_loop term field_of (q_from term s) order (q_orderbys term s) items) as [r|e] eqn:E; [|discriminate].
    inversion Hs. simpl. apply order_loop_spec in E. exact E.
Qed.

End Lemmas.
