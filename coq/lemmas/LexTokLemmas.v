(* LexTokLemmas.v — the token view of a term flattens to exactly the text Terms.render produces, and it is
   uniform in the string payloads (mutual induction over term / tlist / wlist / oterm). *)
From PV Require Import Base Crit gen.TermsTable Terms gen.C03Table Lex lemmas.LexLemmas.
Local Open Scope string_scope.

Scheme term_mind3 := Induction for term Sort Prop
  with tlist_mind3 := Induction for tlist Sort Prop
  with wlist_mind3 := Induction for wlist Sort Prop
  with oterm_mind3 := Induction for oterm Sort Prop.
Combined Scheme term_all_ind3 from term_mind3, tlist_mind3, wlist_mind3, oterm_mind3.

(* ------------------------------------------------------------------------------------------- *)
(* 1. flatten (toks c t) = render c t                                                           *)
(* ------------------------------------------------------------------------------------------- *)
Lemma cflatten_app (a b : list ctok) : cflatten (a ++ b)%list = cflatten a ++ cflatten b.
Proof. unfold cflatten. induction a as [|t a IH]; cbn; [reflexivity|]. rewrite IH, app_assoc_s. reflexivity. Qed.
Lemma cflatten_cons t (r : list ctok) : cflatten (t :: r) = ctok_text t ++ cflatten r.
Proof. reflexivity. Qed.
Lemma cflatten_nil : cflatten [] = "".
Proof. reflexivity. Qed.
Lemma cflatten_one t : cflatten [t] = ctok_text t.
Proof. unfold cflatten. cbn. apply app_nil_r_s. Qed.

Lemma cflatten_alias c qc ts alias : cflatten (alias_toks c qc ts alias) = alias_sql c qc (cflatten ts) alias.
Proof.
  destruct alias as [a|]; cbn [alias_toks]; [|reflexivity].
  rewrite cflatten_app, cflatten_one. reflexivity.
Qed.
Lemma cflatten_tparen b ts : cflatten (tparen b ts) = paren b (cflatten ts).
Proof.
  destruct b; cbn [tparen paren]; [|reflexivity].
  rewrite cflatten_cons, cflatten_app, cflatten_one. reflexivity.
Qed.
Lemma cflatten_topnd sl t ts : cflatten (topnd sl t ts) = opnd sl t (cflatten ts).
Proof. unfold topnd, opnd. apply cflatten_tparen. Qed.
Lemma cflatten_tjoin sep l : cflatten (tjoin sep l) = join sep (map cflatten l).
Proof.
  induction l as [|x r IH]; [reflexivity|]. destruct r as [|y r'].
  - reflexivity.
  - change (tjoin sep (x :: y :: r')) with (x ++ CText sep :: tjoin sep (y :: r'))%list.
    rewrite cflatten_app, cflatten_cons, IH. reflexivity.
Qed.
Lemma cflatten_lit c s : cflatten (lit_toks c s) = fq (sq c) (double_quote (sq c) s).
Proof.
  unfold lit_toks. destruct (sq c) as [[|ch [|b r]]|]; cbn [one_char]; rewrite cflatten_one; reflexivity.
Qed.

Lemma app_empty_s (a b : string) : (match a ++ b with "" => true | _ => false end)
  = (match a with "" => true | _ => false end) && (match b with "" => true | _ => false end).
Proof. destruct a; reflexivity. Qed.
Lemma cflatten_empty ts : all_empty ts = match cflatten ts with "" => true | _ => false end.
Proof.
  induction ts as [|t r IH]; [reflexivity|]. rewrite cflatten_cons, app_empty_s. cbn [all_empty forallb].
  unfold all_empty in IH. rewrite IH. reflexivity.
Qed.

Definition Ft (t : term) := forall c, rmap cflatten (toks c t) = render c t.
Definition Fl (l : tlist) := forall c, rmap (map cflatten) (toks_list c l) = render_list c l.
Definition Fw (l : wlist) := forall c, rmap (map cflatten) (toks_whens c l) = render_whens c l.
Definition Fo (o : oterm) := match o with ONone => True | OSome t => Ft t end.

Ltac fl1 := rewrite ?cflatten_alias, ?cflatten_app, ?cflatten_cons, ?cflatten_tparen, ?cflatten_topnd, ?cflatten_tjoin,
              ?cflatten_one, ?cflatten_nil; cbn [ctok_text].
Ltac fl := unfold tstarts_minus; fl1; fl1; fl1; rewrite ?app_assoc_s, ?app_nil_r_s.

Lemma toks_flatten_all : (forall t, Ft t) /\ (forall l, Fl l) /\ (forall l, Fw l) /\ (forall o, Fo o).
Proof.
  apply term_all_ind3; unfold Ft, Fl, Fw, Fo.
  - (* TField *) intros name tbl alias c. cbn [toks]. destruct (render c (TField name tbl alias)); cbn; [rewrite app_nil_r_s|]; reflexivity.
  - (* TStar *) intros tbl c. cbn [toks]. destruct (render c (TStar tbl)); cbn; [rewrite app_nil_r_s|]; reflexivity.
  - (* TValS *) intros s alias c. cbn [toks render rmap]. rewrite cflatten_alias, cflatten_lit. reflexivity.
  - (* TValI *) intros z alias c. cbn [toks render rmap]. rewrite cflatten_alias, cflatten_one. reflexivity.
  - (* TValB *) intros b sl alias c. cbn [toks render rmap]. rewrite cflatten_alias, cflatten_one. reflexivity.
  - (* TValNone *) intros alias c. cbn [toks render rmap]. rewrite cflatten_alias, cflatten_one. reflexivity.
  - (* TValRaw *) intros txt alias c. cbn [toks render rmap]. rewrite cflatten_alias, cflatten_one. reflexivity.
  - (* TLit *) intros raw alias c. cbn [toks]. destruct (render c (TLit raw alias)); cbn; [rewrite app_nil_r_s|]; reflexivity.
  - (* TParam *) intros txt c. cbn [toks]. destruct (render c (TParam txt)); cbn; [rewrite app_nil_r_s|]; reflexivity.
  - (* TNeg *) intros t IH c. cbn [toks render]. rewrite <- IH. destruct (toks _ t); cbn [bind rmap]; [|reflexivity].
    f_equal. fl. reflexivity.
  - (* TArith *) intros op l IHl r IHr alias c. cbn [toks render]. rewrite <- IHl, <- IHr.
    destruct (toks _ l); cbn [bind rmap]; [|reflexivity].
    destruct (toks _ r); cbn [bind rmap]; [|reflexivity].
    f_equal. destruct (wa c); fl; reflexivity.
  - (* TBasic *) intros cm l IHl r IHr alias c. cbn [toks render]. rewrite <- IHl, <- IHr.
    destruct (toks _ l); cbn [bind rmap]; [|reflexivity].
    destruct (toks _ r); cbn [bind rmap]; [|reflexivity].
    f_equal. destruct (wa c); fl; reflexivity.
  - (* TCplx *) intros bo l IHl r IHr alias c. cbn [toks render]. rewrite <- IHl, <- IHr.
    destruct (toks _ l); cbn [bind rmap]; [|reflexivity].
    destruct (toks _ r); cbn [bind rmap]; [|reflexivity].
    f_equal. destruct (wa c); fl; reflexivity.
  - (* TIn *) intros t IHt cont IHc negated alias c. cbn [toks render]. rewrite <- IHt, <- IHc.
    destruct (toks _ t); cbn [bind rmap]; [|reflexivity].
    destruct (toks _ cont); cbn [bind rmap]; [|reflexivity].
    f_equal. fl. reflexivity.
  - (* TBetween *) intros t IHt lo IHlo hi IHhi alias c. cbn [toks render]. rewrite <- IHt, <- IHlo, <- IHhi.
    destruct (toks _ t); cbn [bind rmap]; [|reflexivity].
    destruct (toks _ lo); cbn [bind rmap]; [|reflexivity].
    destruct (toks _ hi); cbn [bind rmap]; [|reflexivity].
    f_equal. fl. reflexivity.
  - (* TBitAnd *) intros t IHt v alias c. cbn [toks render]. rewrite <- IHt.
    destruct (toks _ t); cbn [bind rmap]; [|reflexivity]. f_equal. fl. reflexivity.
  - (* TIsNull *) intros t IHt alias c. cbn [toks render]. rewrite <- IHt.
    destruct (toks _ t); cbn [bind rmap]; [|reflexivity]. f_equal. fl. reflexivity.
  - (* TNotNull *) intros t IHt alias c. cbn [toks render]. rewrite <- IHt.
    destruct (toks _ t); cbn [bind rmap]; [|reflexivity]. f_equal. fl. reflexivity.
  - (* TNot *) intros t IHt alias c. cbn [toks render]. rewrite <- IHt.
    destruct (toks _ t); cbn [bind rmap]; [|reflexivity]. f_equal. fl. reflexivity.
  - (* TAll *) intros t IHt alias c. cbn [toks render]. rewrite <- IHt.
    destruct (toks _ t); cbn [bind rmap]; [|reflexivity]. f_equal. fl. reflexivity.
  - (* TEmpty *) intros c. reflexivity.
  - (* TCase *) intros ws IHw els IHe alias c. cbn [toks render]. destruct ws as [|cr v r]; [reflexivity|].
    rewrite <- IHw. destruct (toks_whens _ (WCons cr v r)) as [cs|e]; cbn [bind rmap]; [|reflexivity].
    destruct els as [|t'].
    + cbn [bind rmap]. f_equal. destruct (wa c); fl; reflexivity.
    + cbn in IHe. rewrite <- IHe. destruct (toks _ t'); cbn [bind rmap]; [|reflexivity].
      f_equal. destruct (wa c); fl; reflexivity.
  - (* TFunc *) intros name args IHa special alias c. cbn [toks render]. rewrite <- IHa.
    destruct (toks_list _ args); cbn [bind rmap]; [|reflexivity].
    f_equal. destruct (wa c); fl; reflexivity.
  - (* TTuple *) intros vs IHv alias c. cbn [toks render]. rewrite <- IHv.
    destruct (toks_list _ vs); cbn [bind rmap]; [|reflexivity]. f_equal. fl. reflexivity.
  - (* TArray *) intros vs IHv alias c. cbn [toks render]. rewrite <- IHv.
    destruct (toks_list _ vs) as [ss|e]; cbn [bind rmap]; [|reflexivity]. f_equal.
    rewrite cflatten_alias. f_equal. destruct (is_pg (dia c)).
    + rewrite cflatten_empty, cflatten_tjoin. destruct (join "," (map cflatten ss)) eqn:E.
      * reflexivity.
      * fl. rewrite E. reflexivity.
    + fl. reflexivity.
  - (* TSub *) intros col tbl alias c. cbn [toks]. destruct (render c (TSub col tbl alias)); cbn; [rewrite app_nil_r_s|]; reflexivity.
  - (* TNil *) intros c. reflexivity.
  - (* TCons *) intros t IHt r IHr c. cbn [toks_list render_list]. rewrite <- IHt, <- IHr.
    destruct (toks c t); cbn [bind rmap]; [|reflexivity].
    destruct (toks_list c r); cbn [bind rmap]; reflexivity.
  - (* WNil *) intros c. reflexivity.
  - (* WCons *) intros cr IHc v IHv r IHr c. cbn [toks_whens render_whens]. rewrite <- IHc, <- IHv, <- IHr.
    destruct (toks c cr); cbn [bind rmap]; [|reflexivity].
    destruct (toks c v); cbn [bind rmap]; [|reflexivity].
    destruct (toks_whens c r); cbn [bind rmap]; [|reflexivity].
    cbn [map]. f_equal. f_equal. fl. reflexivity.
  - (* ONone *) exact I.
  - (* OSome *) intros t IHt. exact IHt.
Qed.

Theorem toks_flatten : forall c t, rmap cflatten (toks c t) = render c t.
Proof. intros c t. apply (proj1 toks_flatten_all t c). Qed.

Corollary toks_total : forall c t s, render c t = Ok s -> exists ts, toks c t = Ok ts /\ cflatten ts = s.
Proof.
  intros c t s H. rewrite <- toks_flatten in H. destruct (toks c t) as [ts|e]; cbn in H; [|discriminate].
  exists ts. split; [reflexivity|congruence].
Qed.
