(* C02Lemmas.v — pypika instance of the print/parse theorem. *)
From PV Require Import Base Crit gen.TermsTable Terms Parse lemmas.ParseMono lemmas.ParsePrint C02Model.
From Coq Require Import Lia Arith.
Local Open Scope list_scope.

(* ------------------------------------------------------------------------------------------- *)
(* 1. the three engine tables satisfy the sanity conditions of the generic theorem              *)
(* ------------------------------------------------------------------------------------------- *)
Definition table_sane (T : ptable) : Prop :=
  (forall o, prec T o <= maxl T) /\ lvl_not T <= maxl T /\ lvl_is T <= maxl T /\ lvl_in T <= maxl T
  /\ lvl_between T <= maxl T
  /\ (forall t m, tok_level T t = Some m -> m <> lvl_not T)
  /\ prec T (BB BAnd) <= lvl_between T.

Ltac sane_prec := intros o; destruct o as [a|c|b]; [destruct a | destruct c | destruct b]; cbn; lia.
Ltac sane_free :=
  intros t m H; destruct t; cbn in H; try discriminate; inversion H; subst; cbn; try lia;
  match goal with o : binop |- _ => destruct o as [a|c|b]; [destruct a | destruct c | destruct b]; cbn; lia end.

Lemma pg_sane : table_sane pg.
Proof. unfold table_sane. repeat split; try (cbn; lia); [sane_prec | sane_free]. Qed.
Lemma mysql_sane : table_sane mysql.
Proof. unfold table_sane. repeat split; try (cbn; lia); [sane_prec | sane_free]. Qed.
Lemma sqlite_sane : table_sane sqlite.
Proof. unfold table_sane. repeat split; try (cbn; lia); [sane_prec | sane_free]. Qed.

Lemma engines_sane T : In T engines -> table_sane T.
Proof. cbn. intros [<-|[<-|[<-|[]]]]; [apply pg_sane | apply mysql_sane | apply sqlite_sane]. Qed.

Lemma parse_print_engine T e : In T engines -> dom T impl_pol e = true ->
  exists fuel, parse T fuel 0 (pr impl_pol e) = Some (e, []).
Proof.
  intros HT D. destruct (engines_sane T HT) as [H1 [H2 [H3 [H4 [H5 [H6 H7]]]]]].
  apply parse_print; auto.
Qed.

(* ------------------------------------------------------------------------------------------- *)
(* 3. from pairs to domination                                                                   *)
(* ------------------------------------------------------------------------------------------- *)
Lemma aop_eqb_eq a b : aop_eqb a b = true -> a = b.
Proof. destruct a, b; cbn; congruence. Qed.
Lemma cmp_eqb_eq a b : cmp_eqb a b = true -> a = b.
Proof. destruct a, b; cbn; congruence. Qed.
Lemma bop_eqb_eq a b : bop_eqb a b = true -> a = b.
Proof. destruct a, b; cbn; congruence. Qed.
Lemma binop_eqb_eq a b : binop_eqb a b = true -> a = b.
Proof.
  destruct a, b; cbn; try discriminate; intros H; f_equal;
  auto using aop_eqb_eq, cmp_eqb_eq, bop_eqb_eq.
Qed.
Lemma head_eqb_eq a b : head_eqb a b = true -> a = b.
Proof. destruct a, b; cbn; try discriminate; auto; try (intros H; f_equal; apply binop_eqb_eq, H). Qed.
Lemma pos_eqb_eq a b : pos_eqb a b = true -> a = b.
Proof. destruct a, b; cbn; try discriminate; auto; try (intros H; f_equal; apply binop_eqb_eq, H). Qed.
Lemma ph_eqb_eq a b : ph_eqb a b = true -> a = b.
Proof.
  destruct a as [p h], b as [p' h']. unfold ph_eqb. cbn. intros H. apply andb_prop in H as [H1 H2].
  f_equal; auto using pos_eqb_eq, head_eqb_eq.
Qed.

Lemma level_hd T c : level T c = head_level T (hd c).
Proof. destruct c; reflexivity. Qed.

Lemma top_aop_head c : match hd c with HNot => True | _ => top_aop c = head_aop (hd c) end.
Proof. destruct c; cbn; auto; try (destruct o; reflexivity). Qed.

Lemma top_bop_head c : top_bop_e c = head_bop (hd c).
Proof. destruct c; cbn; auto. Qed.

Lemma opnd_h_lower sl c : opnd_h sl (hd c) = true -> operand_parens sl (okind_e c) = true.
Proof.
  unfold opnd_h. destruct c as [a|c|c|o l r|p c|neg c items|c lo hi|g args|ws els]; cbn [hd okind_h okind_e]; auto.
  - destruct o as [a|cm|b]; cbn [okind_h]; auto.
  - intros H. apply andb_prop in H as [H1 H2]. destruct p; assumption.
Qed.

Lemma pol_b_lower p c : pol_h p (hd c) = true -> pol_b p c = true.
Proof.
  pose proof (top_aop_head c) as HA. pose proof (top_bop_head c) as HB.
  destruct p as [| |o|o| | | | |]; cbn [pol_h pol_b]; auto using opnd_h_lower.
  - intros H. apply orb_true_iff in H as [H|H]; apply orb_true_iff; [left; apply opnd_h_lower, H|right].
    destruct c as [a|c|c|o l r|p c|neg c items|c lo hi|g args|ws els]; cbn [hd] in H; try discriminate; auto;
    try (destruct o; try discriminate; auto).
  - destruct c; cbn; auto.
  - destruct o as [a|cm|b]; auto using opnd_h_lower.
    + intros H. apply orb_true_iff in H as [H|H]; apply orb_true_iff; [left|right; apply opnd_h_lower, H].
      destruct (hd c) eqn:E; try discriminate; rewrite HA; auto.
    + rewrite HB; auto.
  - destruct o as [a|cm|b]; auto using opnd_h_lower.
    + intros H. apply orb_true_iff in H as [H|H]; apply orb_true_iff; [left|right; apply opnd_h_lower, H].
      destruct (hd c) eqn:E; try discriminate; rewrite HA; auto.
    + rewrite HB; auto.
Qed.

Lemma pol_h_lower p c : pol_h p (hd c) = true -> impl_pol p c = true.
Proof. intros H. unfold impl_pol. rewrite (pol_b_lower p c H). reflexivity. Qed.

Lemma okp_of_h T p c : okp_h T p (hd c) = true -> okp T impl_pol p c = true.
Proof.
  unfold okp_h, okp, needs_h, spec_needs. rewrite <- level_hd.
  destruct (Nat.ltb (level T c) (ctxmin T p)); cbn; auto. apply pol_h_lower.
Qed.

Definition okp_pair (T : ptable) (ph : pos * head) : bool := okp_h T (fst ph) (snd ph).

Lemma okp_of_pair T p c : okp_pair T (p, hd c) = true -> okp T impl_pol p c = true.
Proof. unfold okp_pair. cbn [fst snd]. apply okp_of_h. Qed.

Lemma forallb_app' {A} (f : A -> bool) l1 l2 : forallb f (l1 ++ l2) = true -> forallb f l1 = true /\ forallb f l2 = true.
Proof. rewrite forallb_app. apply andb_prop. Qed.

Lemma pairs_dom_all T :
  (forall e, forallb (okp_pair T) (pairs_of e) = true -> dom T impl_pol e = true)
  /\ (forall l, forallb (okp_pair T) (pairs_items l) = true -> dom_items T impl_pol l = true)
  /\ (forall l, forallb (okp_pair T) (pairs_whens l) = true -> dom_whens T impl_pol l = true)
  /\ (forall o, forallb (okp_pair T) (pairs_else o) = true -> dom_else T impl_pol o = true).
Proof.
  apply expr_all_ind; cbn [pairs_of pairs_items pairs_whens pairs_else dom dom_items dom_whens dom_else forallb]; auto;
  intros;
  repeat match goal with
  | H : (_ && _) = true |- _ => apply andb_prop in H as [? ?]
  | H : forallb _ (_ ++ _) = true |- _ => apply forallb_app' in H as [? ?]
  end;
  repeat (apply andb_true_intro; split); auto using okp_of_pair.
Qed.

(* ------------------------------------------------------------------------------------------- *)
(* 4. re-association keeps the token list (finite facts about the EXTRACTED predicates)           *)
(* ------------------------------------------------------------------------------------------- *)
Definition all_oaop : list (option aop) := None :: map Some all_aops.

(* F3: where rotation applies, the right position of the outer operator and the left position of the inner one
   parenthesise the same children *)
Lemma F3_arith : forall a a2 x, reassoc (BA a) (BA a2) = true -> right_needs_parens a x = left_needs_parens a2 x.
Proof. intros a a2 x. destruct a, a2; try discriminate; destruct x as [[]|]; vm_compute; intros; congruence. Qed.
(* F4: members of one re-association family are indistinguishable as children *)
Lemma F4_arith : forall a a2 b, reassoc (BA a) (BA a2) = true ->
  left_needs_parens b (Some a) = left_needs_parens b (Some a2) /\ right_needs_parens b (Some a) = right_needs_parens b (Some a2).
Proof. intros a a2 b. destruct a, a2; try discriminate; destruct b; vm_compute; intros; split; congruence. Qed.
(* F2: a left child from the outer operator's family is never parenthesised under the inner operator *)
Lemma F2_arith : forall a a2 a3, reassoc (BA a) (BA a2) = true -> (a3 = a \/ reassoc (BA a) (BA a3) = true) ->
  left_needs_parens a2 (Some a3) = false.
Proof.
  intros a a2 a3 H [->|H3]; revert H; try revert H3; destruct a, a2; try discriminate; try destruct a3; try discriminate;
  vm_compute; intros; congruence.
Qed.
Lemma F2_bool : forall b, needs_brackets_x b (Some b) = false.
Proof. destruct b; vm_compute; reflexivity. Qed.

Lemma reassoc_shape o o2 : reassoc o o2 = true ->
  (exists a a2, o = BA a /\ o2 = BA a2) \/ (exists b, o = BB b /\ o2 = BB b).
Proof.
  unfold reassoc. intros H. apply andb_prop in H as [H _].
  destruct o as [a|c|b], o2 as [a2|c2|b2]; cbn in H; try discriminate.
  - left. eauto.
  - destruct a; discriminate.
  - destruct a; discriminate.
  - right. apply bop_eqb_eq in H. subst. eauto.
Qed.

(* the head of a rotated tree stays in the outer operator's family *)
Lemma rot_head : forall r o l, exists o3 l' r', rot o l r = EBin o3 l' r' /\ (o3 = o \/ reassoc o o3 = true).
Proof.
  induction r as [a|c IHc|c IHc|o2 rl IHl rr IHr|p c IHc|neg c IHc items|c IHc lo IHlo hi IHhi|g args|ws els];
    intros o l; cbn [rot]; try (eexists; eexists; eexists; split; [reflexivity | left; reflexivity]).
  destruct (reassoc o o2) eqn:E.
  - eexists; eexists; eexists; split; [reflexivity | right; exact E].
  - eexists; eexists; eexists; split; [reflexivity | left; reflexivity].
Qed.

(* policy-equivalence of children: everything the policy looks at in a child *)
Definition negk (c : expr) : nat := match c with EBin (BA _) _ _ => 1 | ENeg _ => 2 | _ => 0 end.
Definition peqb (c1 c2 : expr) : Prop :=
  okind_e c1 = okind_e c2 /\ top_bop_e c1 = top_bop_e c2 /\ negk c1 = negk c2
  /\ (forall x, left_needs_parens x (top_aop c1) = left_needs_parens x (top_aop c2)
             /\ right_needs_parens x (top_aop c1) = right_needs_parens x (top_aop c2)).

Lemma pol_b_peqb c1 c2 : peqb c1 c2 -> forall p, pol_b p c1 = pol_b p c2.
Proof.
  intros [K [B [N A]]] p. destruct p as [| |q|q| | | | |]; cbn [pol_b]; rewrite ?K; try reflexivity.
  - f_equal. destruct c1 as [| | |[]| | | | |], c2 as [| | |[]| | | | |]; cbn in N; try discriminate; reflexivity.
  - destruct c1 as [| | |[]| | | | |], c2 as [| | |[]| | | | |]; cbn in B; try discriminate; reflexivity.
  - destruct q as [x|x|x]; rewrite ?K, ?B; try reflexivity. rewrite (proj1 (A x)). reflexivity.
  - destruct q as [x|x|x]; rewrite ?K, ?B; try reflexivity. rewrite (proj2 (A x)). reflexivity.
Qed.

Lemma peqb_family o o3 l r l' r' : (o3 = o \/ reassoc o o3 = true) -> peqb (EBin o3 l' r') (EBin o l r).
Proof.
  intros [->|H]; [repeat split|].
  destruct (reassoc_shape _ _ H) as [[a [a2 [-> ->]]]|[b [-> ->]]]; repeat split; cbn [top_aop];
  destruct (F4_arith a a2 x H) as [E1 E2]; congruence.
Qed.

Lemma peqb_rot o l r : peqb (rot o l r) (EBin o l r).
Proof.
  destruct (rot_head r o l) as [o3 [l' [r' [E H]]]]. rewrite E. apply peqb_family. exact H.
Qed.

Lemma peqb_not c1 c2 : peqb c1 c2 -> peqb (ENot c1) (ENot c2).
Proof. intros [K [B [N A]]]. repeat split; cbn [top_aop]; apply A. Qed.

Lemma peqb_same_head c1 c2 : hd c1 = hd c2 -> hd c1 <> HNot -> hd c1 <> HPost -> peqb c1 c2.
Proof.
  intros H N P. destruct c1, c2; try discriminate; cbn in N, P; try congruence; inversion H; subst; repeat split.
Qed.

Lemma peqb_post p c1 c2 : peqb (EPost p c1) (EPost p c2).
Proof. repeat split. Qed.

Lemma peqb_trans c1 c2 c3 : peqb c1 c2 -> peqb c2 c3 -> peqb c1 c3.
Proof.
  intros [K1 [B1 [N1 A1]]] [K2 [B2 [N2 A2]]]. repeat split; try congruence;
  [rewrite (proj1 (A1 x)); apply A2 | rewrite (proj2 (A1 x)); apply A2].
Qed.

Lemma peqb_norm : forall c, peqb (norm c) c.
Proof.
  induction c as [a|c IHc|c IHc|o l IHl r IHr|p c IHc|neg c IHc items|c IHc lo IHlo hi IHhi|g args|ws els];
    cbn [norm]; try (apply peqb_same_head; [reflexivity | discriminate | discriminate]).
  - apply peqb_not, IHc.
  - eapply peqb_trans; [apply peqb_rot|]. apply peqb_same_head; [reflexivity | discriminate | discriminate].
  - apply peqb_post.
Qed.

(* facts about the probed operand table that the re-association argument needs *)
Lemma opnd_arith_sides : forall k, operand_parens SArithR k = operand_parens SArithL k.
Proof. destruct k; vm_compute; reflexivity. Qed.
Lemma opnd_arith_other : operand_parens SArithL OKOther = false /\ operand_parens SArithR OKOther = false.
Proof. vm_compute. split; reflexivity. Qed.
Lemma reassoc_not_sub o2 : reassoc (BA OSub) o2 = false.
Proof. destruct o2 as [[]|c|b]; vm_compute; reflexivity. Qed.

Lemma impl_pol_left o c : impl_pol (PBinL o) c = pol_b (PBinL o) c.
Proof. unfold impl_pol. apply orb_false_r. Qed.

Lemma reassoc_F1 o o2 rl rr : reassoc o o2 = true -> impl_pol (PBinR o) (EBin o2 rl rr) = false.
Proof.
  intros H. destruct (reassoc_shape _ _ H) as [[a [a2 [-> ->]]]|[b [-> ->]]].
  - assert (Hs : a <> OSub) by (intros ->; rewrite reassoc_not_sub in H; discriminate).
    unfold reassoc in H; apply andb_prop in H as [_ H]; apply negb_true_iff in H.
    unfold impl_pol. cbn [pol_b top_aop okind_e]. rewrite H, (proj2 opnd_arith_other). destruct a; try reflexivity. congruence.
  - unfold reassoc in H; apply andb_prop in H as [_ H]; apply negb_true_iff in H.
    unfold impl_pol. cbn [pol_b top_bop_e]. rewrite H. reflexivity.
Qed.

Lemma reassoc_F2 o o2 l rl : reassoc o o2 = true -> pol_b (PBinL o2) (EBin o l rl) = false.
Proof.
  intros H. destruct (reassoc_shape _ _ H) as [[a [a2 [-> ->]]]|[b [-> ->]]]; cbn [pol_b top_aop top_bop_e okind_e].
  - rewrite (F2_arith a a2 a H) by (left; reflexivity). apply (proj1 opnd_arith_other).
  - apply F2_bool.
Qed.

Lemma reassoc_F3 o o2 c : reassoc o o2 = true -> impl_pol (PBinR o) c = impl_pol (PBinL o2) c.
Proof.
  intros H. rewrite impl_pol_left. destruct (reassoc_shape _ _ H) as [[a [a2 [-> ->]]]|[b [-> ->]]].
  - assert (Hs : a <> OSub) by (intros ->; rewrite reassoc_not_sub in H; discriminate).
    unfold impl_pol. cbn [pol_b]. rewrite (F3_arith a a2 _ H), opnd_arith_sides.
    destruct a; try congruence; apply orb_false_r.
  - unfold impl_pol. cbn [pol_b]. apply orb_false_r.
Qed.

(* the minus rules look at the left spine only, which re-association keeps *)
Lemma lead_minus_rot : forall r o l, lead_minus (rot o l r) = lead_minus (EBin o l r).
Proof.
  induction r as [a|c IHc|c IHc|o2 rl IHl rr IHr|p c IHc|neg c IHc items|c IHc lo IHlo hi IHhi|g args|ws els];
    intros o l; cbn [rot]; try reflexivity.
  destruct (reassoc o o2) eqn:E; [|reflexivity].
  cbn [lead_minus]. rewrite (pol_b_peqb _ _ (peqb_rot o l rl)), (reassoc_F2 o o2 l rl E), IHl. reflexivity.
Qed.

Lemma lead_minus_norm : forall c, lead_minus (norm c) = lead_minus c.
Proof.
  induction c as [a|c IHc|c IHc|o l IHl r IHr|p c IHc|neg c IHc items|c IHc lo IHlo hi IHhi|g args|ws els];
    cbn [norm]; try reflexivity.
  - rewrite lead_minus_rot. cbn [lead_minus]. rewrite (pol_b_peqb _ _ (peqb_norm l)), IHl. reflexivity.
  - cbn [lead_minus]. rewrite (pol_b_peqb _ _ (peqb_norm c)), IHc. reflexivity.
  - cbn [lead_minus]. rewrite (pol_b_peqb _ _ (peqb_norm c)), IHc. reflexivity.
  - cbn [lead_minus]. rewrite (pol_b_peqb _ _ (peqb_norm c)), IHc. reflexivity.
Qed.

Definition peq (c1 c2 : expr) : Prop := forall p, impl_pol p c1 = impl_pol p c2.
Lemma peq_of c1 c2 : peqb c1 c2 -> lead_minus c1 = lead_minus c2 -> peq c1 c2.
Proof. intros B L p. unfold impl_pol. rewrite (pol_b_peqb _ _ B p), L. reflexivity. Qed.
Lemma peq_norm c : peq (norm c) c.
Proof. apply peq_of; [apply peqb_norm | apply lead_minus_norm]. Qed.
Lemma peq_rot o l r : peq (rot o l r) (EBin o l r).
Proof. apply peq_of; [apply peqb_rot | apply lead_minus_rot]. Qed.

(* unfolding equations of the printer *)
Section PrEq.
Variable pol : pos -> expr -> bool.
Lemma pr_ENeg c : pr pol (ENeg c) = KNeg :: par (pol PNeg c) (pr pol c). Proof. reflexivity. Qed.
Lemma pr_ENot c : pr pol (ENot c) = KNot :: par (pol PNot c) (pr pol c). Proof. reflexivity. Qed.
Lemma pr_EBin o l r : pr pol (EBin o l r) = par (pol (PBinL o) l) (pr pol l) ++ KOp o :: par (pol (PBinR o) r) (pr pol r).
Proof. reflexivity. Qed.
Lemma pr_EPost p c : pr pol (EPost p c) = par (pol PPost c) (pr pol c) ++ [KPost p]. Proof. reflexivity. Qed.
Lemma pr_EIn neg c items : pr pol (EIn neg c items) = par (pol PInL c) (pr pol c) ++ KIn neg :: KLP :: pr_items pol items ++ [KRP].
Proof. reflexivity. Qed.
Lemma pr_EBetween c lo hi : pr pol (EBetween c lo hi) =
  par (pol PBetE c) (pr pol c) ++ KBetween :: par (pol PBetLo lo) (pr pol lo) ++ KOp (BB BAnd) :: par (pol PBetHi hi) (pr pol hi).
Proof. reflexivity. Qed.
Lemma pr_ECall f args : pr pol (ECall f args) = KName f :: KLP :: pr_items pol args ++ [KRP]. Proof. reflexivity. Qed.
Lemma pr_ECase ws els : pr pol (ECase ws els) = KCase :: pr_whens pol ws ++ pr_else pol els ++ [KEnd]. Proof. reflexivity. Qed.
Lemma pr_items_cons e r : pr_items pol (ECons e r) = match r with ENil => pr pol e | _ => pr pol e ++ KComma :: pr_items pol r end.
Proof. destruct r; reflexivity. Qed.
Lemma pr_whens_cons c v r : pr_whens pol (EWCons c v r) = KWhen :: pr pol c ++ KThen :: pr pol v ++ pr_whens pol r.
Proof. reflexivity. Qed.
Lemma pr_else_some e : pr_else pol (EOSome e) = KElse :: pr pol e. Proof. reflexivity. Qed.
End PrEq.

Lemma pr_rot : forall r o l, pr impl_pol (rot o l r) = pr impl_pol (EBin o l r).
Proof.
  induction r as [a|c IHc|c IHc|o2 rl IHl rr IHr|p c IHc|neg c IHc items|c IHc lo IHlo hi IHhi|g args|ws els];
    intros o l; cbn [rot]; try reflexivity.
  destruct (reassoc o o2) eqn:E; [|reflexivity].
  rewrite (pr_EBin impl_pol o2 (rot o l rl) rr), IHl.
  rewrite (peq_rot o l rl (PBinL o2)), impl_pol_left, (reassoc_F2 o o2 l rl E).
  rewrite (pr_EBin impl_pol o l (EBin o2 rl rr)), (reassoc_F1 o o2 rl rr E).
  rewrite (pr_EBin impl_pol o l rl), (pr_EBin impl_pol o2 rl rr).
  cbn [par]. rewrite (reassoc_F3 o o2 rl E). rewrite <- app_assoc. reflexivity.
Qed.

Lemma pr_norm_all :
  (forall e, pr impl_pol (norm e) = pr impl_pol e)
  /\ (forall l, pr_items impl_pol (norm_items l) = pr_items impl_pol l)
  /\ (forall l, pr_whens impl_pol (norm_whens l) = pr_whens impl_pol l)
  /\ (forall o, pr_else impl_pol (norm_else o) = pr_else impl_pol o).
Proof.
  apply expr_all_ind; cbn [norm norm_items norm_whens norm_else]; try reflexivity.
  - intros c IHc. rewrite !pr_ENeg, (peq_norm c PNeg), IHc. reflexivity.
  - intros c IHc. rewrite !pr_ENot, (peq_norm c PNot), IHc. reflexivity.
  - intros o l IHl r IHr. rewrite pr_rot, !pr_EBin.
    rewrite (peq_norm l (PBinL o)), (peq_norm r (PBinR o)), IHl, IHr. reflexivity.
  - intros p c IHc. rewrite !pr_EPost, (peq_norm c PPost), IHc. reflexivity.
  - intros neg c IHc items IHi. rewrite !pr_EIn, (peq_norm c PInL), IHc, IHi. reflexivity.
  - intros c IHc lo IHlo hi IHhi. rewrite !pr_EBetween.
    rewrite (peq_norm c PBetE), (peq_norm lo PBetLo), (peq_norm hi PBetHi), IHc, IHlo, IHhi. reflexivity.
  - intros g args IHa. rewrite !pr_ECall, IHa. reflexivity.
  - intros ws IHw els IHe. rewrite !pr_ECase, IHw, IHe. reflexivity.
  - intros e IHe r IHr. rewrite !pr_items_cons, IHe. destruct r as [|e2 r2]; [reflexivity|].
    cbn [norm_items] in *. rewrite IHr. reflexivity.
  - intros c IHc v IHv r IHr. rewrite !pr_whens_cons, IHc, IHv, IHr. reflexivity.
  - intros e IHe. rewrite !pr_else_some, IHe. reflexivity.
Qed.
Definition pr_norm := proj1 pr_norm_all.

(* ------------------------------------------------------------------------------------------- *)
(* 5. re-association preserves the denotation under any interpretation obeying the identities     *)
(* ------------------------------------------------------------------------------------------- *)
Section SemLemmas.
Variable V : Type.
Variable s_atom : string -> V.
Variable s_neg s_not : V -> V.
Variable s_bin : binop -> V -> V -> V.
Variable s_post : postfix -> V -> V.
Variable s_in : bool -> V -> list V -> V.
Variable s_between : V -> V -> V -> V.
Variable s_call : string -> list V -> V.
Variable s_case : list (V * V) -> option V -> V.
(* the real-number / boolean identities pypika relies on *)
Hypothesis laws : forall o o2, reassoc_valid o o2 = true ->
  forall a b c, s_bin o a (s_bin o2 b c) = s_bin o2 (s_bin o a b) c.

Notation ev := (eval V s_atom s_neg s_not s_bin s_post s_in s_between s_call s_case).
Notation ev_items := (eval_items V s_atom s_neg s_not s_bin s_post s_in s_between s_call s_case).
Notation ev_whens := (eval_whens V s_atom s_neg s_not s_bin s_post s_in s_between s_call s_case).
Notation ev_else := (eval_else V s_atom s_neg s_not s_bin s_post s_in s_between s_call s_case).

Lemma eval_rot : forall r o l, ev (rot o l r) = s_bin o (ev l) (ev r).
Proof.
  induction r as [a|c IHc|c IHc|o2 rl IHl rr IHr|p c IHc|neg c IHc items|c IHc lo IHlo hi IHhi|g args|ws els];
    intros o l; cbn [rot]; try reflexivity.
  destruct (reassoc o o2) eqn:E; [|reflexivity].
  cbn [eval]. rewrite IHl. symmetry. apply laws.
  unfold reassoc in E. apply andb_prop in E as [E _]. exact E.
Qed.

Lemma ev_EIn neg c items : ev (EIn neg c items) = s_in neg (ev c) (ev_items items). Proof. reflexivity. Qed.
Lemma ev_ECall g args : ev (ECall g args) = s_call g (ev_items args). Proof. reflexivity. Qed.
Lemma ev_ECase ws els : ev (ECase ws els) = s_case (ev_whens ws) (ev_else els). Proof. reflexivity. Qed.
Lemma ev_items_cons e r : ev_items (ECons e r) = ev e :: ev_items r. Proof. reflexivity. Qed.
Lemma ev_whens_cons c v r : ev_whens (EWCons c v r) = (ev c, ev v) :: ev_whens r. Proof. reflexivity. Qed.
Lemma ev_else_some e : ev_else (EOSome e) = Some (ev e). Proof. reflexivity. Qed.

Lemma eval_norm_all :
  (forall e, ev (norm e) = ev e) /\ (forall l, ev_items (norm_items l) = ev_items l)
  /\ (forall l, ev_whens (norm_whens l) = ev_whens l) /\ (forall o, ev_else (norm_else o) = ev_else o).
Proof.
  apply expr_all_ind; cbn [norm norm_items norm_whens norm_else]; try reflexivity.
  - intros c IHc. cbn [eval]. rewrite IHc. reflexivity.
  - intros c IHc. cbn [eval]. rewrite IHc. reflexivity.
  - intros o l IHl r IHr. rewrite eval_rot. cbn [eval]. rewrite IHl, IHr. reflexivity.
  - intros p c IHc. cbn [eval]. rewrite IHc. reflexivity.
  - intros neg c IHc items IHi. rewrite !ev_EIn, IHc, IHi. reflexivity.
  - intros c IHc lo IHlo hi IHhi. cbn [eval]. rewrite IHc, IHlo, IHhi. reflexivity.
  - intros g args IHa. rewrite !ev_ECall, IHa. reflexivity.
  - intros ws IHw els IHe. rewrite !ev_ECase, IHw, IHe. reflexivity.
  - intros e IHe r IHr. rewrite !ev_items_cons, IHe, IHr. reflexivity.
  - intros c IHc v IHv r IHr. rewrite !ev_whens_cons, IHc, IHv, IHr. reflexivity.
  - intros e IHe. rewrite !ev_else_some, IHe. reflexivity.
Qed.
Definition eval_norm := proj1 eval_norm_all.
End SemLemmas.

(* ------------------------------------------------------------------------------------------- *)
(* 6. the token-level renderer produces exactly the text of the faithful renderer (Terms.render)  *)
(* ------------------------------------------------------------------------------------------- *)
Local Open Scope string_scope.
Lemma sapp_assoc (a b c : string) : ((a ++ b) ++ c = a ++ (b ++ c))%string.
Proof. induction a; cbn; congruence. Qed.
Lemma sapp_nil_r (a : string) : (a ++ "" = a)%string.
Proof. induction a; cbn; congruence. Qed.

Lemma flatten_app (a b : list tok) : flatten (a ++ b)%list = (flatten a ++ flatten b)%string.
Proof. unfold flatten. induction a as [|t a IH]; cbn; [reflexivity|]. rewrite IH, sapp_assoc. reflexivity. Qed.
Lemma flatten_cons t (r : list tok) : flatten (t :: r) = (tok_text t ++ flatten r)%string.
Proof. reflexivity. Qed.
Lemma flatten_nil : flatten [] = "".
Proof. reflexivity. Qed.
Lemma flatten_parl b l : flatten (parl b l) = paren b (flatten l).
Proof.
  destruct b; cbn [parl paren]; [|reflexivity].
  rewrite flatten_cons, flatten_app, flatten_cons, flatten_nil. cbn [tok_text]. rewrite sapp_nil_r. reflexivity.
Qed.

Scheme term_mind := Induction for term Sort Prop
  with tlist_mind := Induction for tlist Sort Prop
  with wlist_mind := Induction for wlist Sort Prop
  with oterm_mind := Induction for oterm Sort Prop.
Combined Scheme term_all_ind from term_mind, tlist_mind, wlist_mind, oterm_mind.

Definition Pt (t : term) := forall c ts, rtoks c t = Some ts -> render c t = Ok (flatten ts).
Definition Pl (l : tlist) := forall c ts, rtoks_items c l = Some ts ->
  exists ss, render_list c l = Ok ss /\ flatten ts = join "," ss /\ (l <> TNil -> ss <> []).
Definition Pw (l : wlist) := forall c ts, rtoks_whens c l = Some ts ->
  exists ss, render_whens c l = Ok ss /\ flatten ts = sconcat (map (fun s => " " ++ s) ss) /\ (l <> WNil -> ss <> []).
Definition Po (o : oterm) := match o with ONone => True | OSome t => Pt t end.

Lemma leaf_render c t s : leaf_text c t = Some s -> render c t = Ok s.
Proof. unfold leaf_text. destruct (render c t); congruence. Qed.

Lemma alias_none c qc s : alias_sql c qc s None = s.
Proof. reflexivity. Qed.

Lemma join_space_pref (ss : list string) : ss <> [] -> (" " ++ join " " ss)%string = sconcat (map (fun s => " " ++ s) ss).
Proof.
  induction ss as [|s r IH]; [congruence|]. intros _. destruct r as [|s2 r2].
  - cbn. rewrite sapp_nil_r. reflexivity.
  - set (f := fun s : string => " " ++ s) in *.
    change (join " " (s :: s2 :: r2)) with (s ++ " " ++ join " " (s2 :: r2)).
    change (sconcat (map f (s :: s2 :: r2))) with (f s ++ sconcat (map f (s2 :: r2))).
    rewrite <- IH by discriminate. unfold f. rewrite !sapp_assoc. reflexivity.
Qed.

Ltac inv_some H :=
  repeat match type of H with
  | obind ?x _ = Some _ => let E := fresh "E" in destruct x eqn:E; cbn [obind] in H; [|discriminate H]
  end.

Lemma leaf_case c t ts : (forall c', render (set_wa c' false) t = render c' t) ->
  (s <~ leaf_text (set_wa c false) t ;; match s with EmptyString => None | _ => Some [KAtom s] end) = Some ts ->
  render c t = Ok (flatten ts).
Proof.
  intros Hwa H. inv_some H. destruct s as [|ch s']; [discriminate|]. inversion H; subst. apply leaf_render in E.
  rewrite Hwa in E. rewrite E. cbn [flatten map tok_text sconcat]. rewrite sapp_nil_r. reflexivity.
Qed.

Lemma paren_parl b l : paren b (flatten l) = flatten (parl b l).
Proof. symmetry. apply flatten_parl. Qed.

Lemma render_list_cons c t r : render_list c (TCons t r) = bind (render c t) (fun a => bind (render_list c r) (fun rest => Ok (a :: rest))).
Proof. reflexivity. Qed.
Lemma render_whens_cons c cr v r : render_whens c (WCons cr v r) =
  bind (render c cr) (fun a => bind (render c v) (fun b => bind (render_whens c r) (fun rest => Ok (("WHEN " ++ a ++ " THEN " ++ b) :: rest)))).
Proof. reflexivity. Qed.

Definition Pt' (t : term) := Pt t /\ match t with TTuple vs _ => Pl vs | _ => True end.

Lemma rtoks_render_all : (forall t, Pt' t) /\ (forall l, Pl l) /\ (forall l, Pw l) /\ (forall o, Po o).
Proof.
  apply term_all_ind; unfold Pt', Pt, Pl, Pw, Po.
  - (* TField *) intros name tbl alias. split; [|exact I]. intros c ts H. cbn [rtoks] in H. destruct alias; [discriminate|].
    apply leaf_case in H; auto. intros c'. cbn. destruct tbl; destruct (wa c'); reflexivity.
  - (* TStar *) intros tbl. split; [|exact I]. intros c ts H. cbn [rtoks] in H. apply leaf_case in H; auto.
  - (* TValS *) intros s alias. split; [|exact I]. intros c ts H. cbn [rtoks] in H. destruct alias; [discriminate|]. apply leaf_case in H; auto.
  - (* TValI *) intros z alias. split; [|exact I]. intros c ts H. cbn [rtoks] in H. destruct alias; [discriminate|]. apply leaf_case in H; auto.
  - (* TValB *) intros b sl alias. split; [|exact I]. intros c ts H. cbn [rtoks] in H. destruct alias; [discriminate|]. apply leaf_case in H; auto.
  - (* TValNone *) intros alias. split; [|exact I]. intros c ts H. cbn [rtoks] in H. destruct alias; [discriminate|]. apply leaf_case in H; auto.
  - (* TValRaw *) intros txt alias. split; [|exact I]. intros c ts H. cbn [rtoks] in H. destruct alias; [discriminate|]. apply leaf_case in H; auto.
  - (* TLit *) intros raw alias. split; [|exact I]. intros c ts H. cbn [rtoks] in H. destruct alias; [discriminate|]. apply leaf_case in H; auto.
  - (* TParam *) intros txt. split; [|exact I]. intros c ts H. cbn [rtoks] in H. apply leaf_case in H; auto.
  - (* TNeg *) intros t [IH _]. split; [|exact I]. intros c ts H. cbn [rtoks] in H. inv_some H. inversion H; subst.
    cbn [render]. rewrite (IH _ _ E). cbn [bind]. unfold opnd. rewrite flatten_cons, !flatten_parl. reflexivity.
  - (* TArith *) intros op l [IHl _] r [IHr _] alias. split; [|exact I]. intros c ts H. cbn [rtoks] in H. destruct alias; [discriminate|].
    inv_some H. inversion H; subst. cbn [render]. rewrite (IHl _ _ E), (IHr _ _ E0). cbn [bind]. unfold opnd.
    rewrite flatten_app, flatten_cons, !flatten_parl. cbn [tok_text binop_text].
    destruct (wa c); reflexivity.
  - (* TBasic *) intros cm l [IHl _] r [IHr _] alias. split; [|exact I]. intros c ts H. cbn [rtoks] in H. destruct alias; [discriminate|].
    inv_some H. inversion H; subst. cbn [render]. rewrite (IHl _ _ E), (IHr _ _ E0). cbn [bind]. unfold opnd.
    rewrite flatten_app, flatten_cons, !flatten_parl. cbn [tok_text binop_text]. destruct (wa c); reflexivity.
  - (* TCplx *) intros bo l [IHl _] r [IHr _] alias. split; [|exact I]. intros c ts H. cbn [rtoks] in H. destruct alias; [discriminate|].
    inv_some H. inversion H; subst. cbn [render]. rewrite (IHl _ _ E), (IHr _ _ E0). cbn [bind].
    rewrite flatten_parl, flatten_app, flatten_cons. cbn [tok_text binop_text].
    rewrite !sapp_assoc. destruct (wa c); reflexivity.
  - (* TIn *) intros t [IHt _] cont [_ IHc] negated alias. split; [|exact I]. intros c ts H. cbn [rtoks] in H.
    destruct cont; try discriminate. destruct alias0; [discriminate|]. destruct alias; [discriminate|].
    inv_some H. inversion H; subst. cbn [render]. rewrite (IHt _ _ E). cbn [bind].
    destruct (IHc _ _ E0) as [ss [R [F _]]]. rewrite R. cbn [bind]. rewrite !alias_none. cbn [bind]. unfold opnd.
    rewrite flatten_app, !flatten_cons, flatten_app, flatten_cons, flatten_nil, F, flatten_parl. cbn [tok_text].
    rewrite sapp_nil_r. destruct negated; cbn; rewrite ?sapp_assoc; reflexivity.
  - (* TBetween *) intros t [IHt _] lo [IHlo _] hi [IHhi _] alias. split; [|exact I]. intros c ts H. cbn [rtoks] in H.
    destruct alias; [discriminate|]. inv_some H. inversion H; subst. cbn [render].
    rewrite (IHt _ _ E), (IHlo _ _ E0), (IHhi _ _ E1). cbn [bind]. rewrite alias_none. unfold opnd.
    rewrite flatten_app, flatten_cons, flatten_app, flatten_cons, !flatten_parl. cbn [tok_text binop_text]. vm_compute (bop_text_x BAnd).
    rewrite !sapp_assoc. reflexivity.
  - (* TBitAnd *) intros t _ v alias. split; [|exact I]. intros c ts H. discriminate H.
  - (* TIsNull *) intros t [IHt _] alias. split; [|exact I]. intros c ts H. cbn [rtoks] in H. destruct alias; [discriminate|].
    inv_some H. inversion H; subst. cbn [render]. rewrite (IHt _ _ E). cbn [bind]. rewrite alias_none. unfold opnd.
    rewrite flatten_app, flatten_cons, flatten_nil, flatten_parl. cbn [tok_text]. rewrite sapp_nil_r. reflexivity.
  - (* TNotNull *) intros t [IHt _] alias. split; [|exact I]. intros c ts H. cbn [rtoks] in H. destruct alias; [discriminate|].
    inv_some H. inversion H; subst. cbn [render]. rewrite (IHt _ _ E). cbn [bind]. rewrite alias_none. unfold opnd.
    rewrite flatten_app, flatten_cons, flatten_nil, flatten_parl. cbn [tok_text]. rewrite sapp_nil_r. reflexivity.
  - (* TNot *) intros t [IHt _] alias. split; [|exact I]. intros c ts H. cbn [rtoks] in H. destruct alias; [discriminate|].
    inv_some H. inversion H; subst. cbn [render]. rewrite (IHt _ _ E). cbn [bind]. rewrite alias_none.
    rewrite flatten_cons. reflexivity.
  - (* TAll *) intros t _ alias. split; [|exact I]. intros c ts H. discriminate H.
  - (* TEmpty *) split; [|exact I]. intros c ts H. discriminate H.
  - (* TCase *) intros ws IHw els IHe alias. split; [|exact I]. intros c ts H. cbn [rtoks] in H. destruct alias; [discriminate|].
    destruct ws as [|cr v r]; [discriminate|].
    inv_some H. inversion H; subst. clear H.
    destruct (IHw _ _ E) as [cs [R [F N]]].
    cbn [render]. rewrite R. cbn [bind].
    assert (Hcs : cs <> []) by (apply N; discriminate).
    destruct els as [|t'].
    + inversion E0; subst. cbn [bind].
      rewrite flatten_cons, flatten_app. cbn [app]. rewrite flatten_cons, flatten_nil, F. cbn [tok_text].
      rewrite <- (join_space_pref cs Hcs). destruct (wa c); cbn; rewrite ?sapp_assoc, ?sapp_nil_r; reflexivity.
    + cbn in IHe. inv_some E0. inversion E0; subst. rewrite (IHe _ _ E1). cbn [bind].
      rewrite flatten_cons, flatten_app, flatten_app, !flatten_cons, flatten_nil, F. cbn [tok_text].
      rewrite <- (join_space_pref cs Hcs). destruct (wa c); cbn; rewrite ?sapp_assoc, ?sapp_nil_r; reflexivity.
  - (* TFunc *) intros name args IHa special alias. split; [|exact I]. intros c ts H. cbn [rtoks] in H.
    destruct special; [discriminate|]. destruct alias; [discriminate|].
    inv_some H. inversion H; subst. destruct (IHa _ _ E) as [ss [R [F _]]].
    cbn [render]. rewrite R. cbn [bind].
    rewrite !flatten_cons, flatten_app, flatten_cons, flatten_nil, F. cbn [tok_text].
    destruct (wa c); cbn; rewrite ?sapp_assoc, ?sapp_nil_r; reflexivity.
  - (* TTuple *) intros vs IHv alias. split; [|exact IHv]. intros c ts H. discriminate H.
  - (* TArray *) intros vs _ alias. split; [|exact I]. intros c ts H. discriminate H.
  - (* TSub *) intros col tbl alias. split; [|exact I]. intros c ts H. discriminate H.
  - (* TNil *) intros c ts H. cbn in H. inversion H; subst. exists []. repeat split; auto; try congruence.
  - (* TCons *) intros t [IHt _] r IHr c ts H. cbn [rtoks_items] in H. destruct r as [|t2 r2].
    + exists [flatten ts]. rewrite render_list_cons, (IHt _ _ H). cbn. repeat split; auto; try discriminate.
    + inv_some H. inversion H; subst. destruct (IHr _ _ E0) as [ss [R [F N]]].
      exists (flatten l :: ss). rewrite render_list_cons, (IHt _ _ E).
      cbn [bind]. rewrite R. cbn [bind].
      repeat split; [|discriminate].
      rewrite flatten_app, flatten_cons, F. cbn [tok_text].
      assert (Hs : ss <> []) by (apply N; discriminate). destruct ss as [|s1 sr]; [congruence|]. reflexivity.
  - (* WNil *) intros c ts H. cbn in H. inversion H; subst. exists []. repeat split; auto; try congruence.
  - (* WCons *) intros cr [IHc _] v [IHv _] r IHr c ts H. cbn [rtoks_whens] in H. inv_some H. inversion H; subst.
    destruct (IHr _ _ E1) as [ss [R [F _]]].
    exists (("WHEN " ++ flatten l ++ " THEN " ++ flatten l0) :: ss). rewrite render_whens_cons.
    rewrite (IHc _ _ E), (IHv _ _ E0), R. cbn [bind]. repeat split; [|discriminate].
    rewrite flatten_cons, flatten_app, flatten_cons, flatten_app, F. cbn [tok_text map sconcat].
    cbn. rewrite !sapp_assoc. reflexivity.
  - (* ONone *) exact I.
  - (* OSome *) intros t [IHt _]. exact IHt.
Qed.

Theorem rtoks_render c t ts : rtoks c t = Some ts -> render c t = Ok (flatten ts).
Proof. apply (proj1 (proj1 rtoks_render_all t)). Qed.
