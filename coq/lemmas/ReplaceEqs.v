(* ReplaceEqs.v — one-step unfolding equations of the mutual fixpoints of Replace.v at the constructors whose
   children live in another member of the mutual block (cbn does not refold those cross calls). All by reflexivity. *)
From PV Require Import Base Crit gen.TermsTable Terms gen.C15Table Replace.

Lemma subst_TCase A B ws e al : subst A B (TCase ws e al) = TCase (subst_w A B ws) (subst_o A B e) al.
Proof. reflexivity. Qed.
Lemma subst_TFunc A B n vs sp al : subst A B (TFunc n vs sp al) = TFunc n (subst_l A B vs) sp al.
Proof. reflexivity. Qed.
Lemma subst_TTuple A B vs al : subst A B (TTuple vs al) = TTuple (subst_l A B vs) al.
Proof. reflexivity. Qed.
Lemma subst_TArray A B vs al : subst A B (TArray vs al) = TArray (subst_l A B vs) al.
Proof. reflexivity. Qed.
Lemma subst_TCons A B x r : subst_l A B (TCons x r) = TCons (subst A B x) (subst_l A B r).
Proof. reflexivity. Qed.
Lemma subst_WCons A B c v r : subst_w A B (WCons c v r) = WCons (subst A B c) (subst A B v) (subst_w A B r).
Proof. reflexivity. Qed.
Lemma subst_OSome A B x : subst_o A B (OSome x) = OSome (subst A B x).
Proof. reflexivity. Qed.
Lemma rep_TCase cf A B ws e al : rep cf A B (TCase ws e al) = TCase (rep_w cf A B ws) (if cvis cf KCase S__else then rep_o cf A B e else e) al.
Proof. reflexivity. Qed.
Lemma rep_TFunc cf A B n vs sp al : rep cf A B (TFunc n vs sp al) = TFunc n (if cvis cf KFunc S_args then rep_l cf A B vs else vs) sp al.
Proof. reflexivity. Qed.
Lemma rep_TTuple cf A B vs al : rep cf A B (TTuple vs al) = TTuple (if cvis cf KTuple S_values then rep_l cf A B vs else vs) al.
Proof. reflexivity. Qed.
Lemma rep_TArray cf A B vs al : rep cf A B (TArray vs al) = TArray (if cvis cf KArray S_values then rep_l cf A B vs else vs) al.
Proof. reflexivity. Qed.
Lemma rep_TCons cf A B x r : rep_l cf A B (TCons x r) = TCons (rep cf A B x) (rep_l cf A B r).
Proof. reflexivity. Qed.
Lemma rep_WCons cf A B c v r : rep_w cf A B (WCons c v r) = WCons (if cvis cf KCase S__cases_crit then rep cf A B c else c) (if cvis cf KCase S__cases_term then rep cf A B v else v) (rep_w cf A B r).
Proof. reflexivity. Qed.
Lemma rep_OSome cf A B x : rep_o cf A B (OSome x) = OSome (rep cf A B x).
Proof. reflexivity. Qed.
Lemma occ_TCase A ws e al : occ A (TCase ws e al) = occ_w A ws || occ_o A e.
Proof. reflexivity. Qed.
Lemma occ_TFunc A n vs sp al : occ A (TFunc n vs sp al) = occ_l A vs.
Proof. reflexivity. Qed.
Lemma occ_TTuple A vs al : occ A (TTuple vs al) = occ_l A vs.
Proof. reflexivity. Qed.
Lemma occ_TArray A vs al : occ A (TArray vs al) = occ_l A vs.
Proof. reflexivity. Qed.
Lemma occ_TCons A x r : occ_l A (TCons x r) = occ A x || occ_l A r.
Proof. reflexivity. Qed.
Lemma occ_WCons A c v r : occ_w A (WCons c v r) = occ A c || occ A v || occ_w A r.
Proof. reflexivity. Qed.
Lemma occ_OSome A x : occ_o A (OSome x) = occ A x.
Proof. reflexivity. Qed.
Lemma sf_TCase A ws e al : sub_foreign A (TCase ws e al) = sub_foreign_w A ws && sub_foreign_o A e.
Proof. reflexivity. Qed.
Lemma sf_TFunc A n vs sp al : sub_foreign A (TFunc n vs sp al) = sub_foreign_l A vs.
Proof. reflexivity. Qed.
Lemma sf_TTuple A vs al : sub_foreign A (TTuple vs al) = sub_foreign_l A vs.
Proof. reflexivity. Qed.
Lemma sf_TArray A vs al : sub_foreign A (TArray vs al) = sub_foreign_l A vs.
Proof. reflexivity. Qed.
Lemma sf_TCons A x r : sub_foreign_l A (TCons x r) = sub_foreign A x && sub_foreign_l A r.
Proof. reflexivity. Qed.
Lemma sf_WCons A c v r : sub_foreign_w A (WCons c v r) = sub_foreign A c && sub_foreign A v && sub_foreign_w A r.
Proof. reflexivity. Qed.
Lemma sf_OSome A x : sub_foreign_o A (OSome x) = sub_foreign A x.
Proof. reflexivity. Qed.
Lemma cov_TCase cf A ws e al : covered cf A (TCase ws e al) = covered_w cf A ws && cov1 (cvis cf KCase S__else) (covered_o cf A e) (occ_o A e).
Proof. reflexivity. Qed.
Lemma cov_TFunc cf A n vs sp al : covered cf A (TFunc n vs sp al) = cov1 (cvis cf KFunc S_args) (covered_l cf A vs) (occ_l A vs).
Proof. reflexivity. Qed.
Lemma cov_TTuple cf A vs al : covered cf A (TTuple vs al) = cov1 (cvis cf KTuple S_values) (covered_l cf A vs) (occ_l A vs).
Proof. reflexivity. Qed.
Lemma cov_TArray cf A vs al : covered cf A (TArray vs al) = cov1 (cvis cf KArray S_values) (covered_l cf A vs) (occ_l A vs).
Proof. reflexivity. Qed.
Lemma cov_TCons cf A x r : covered_l cf A (TCons x r) = covered cf A x && covered_l cf A r.
Proof. reflexivity. Qed.
Lemma cov_WCons cf A c v r : covered_w cf A (WCons c v r) = cov1 (cvis cf KCase S__cases_crit) (covered cf A c) (occ A c) && cov1 (cvis cf KCase S__cases_term) (covered cf A v) (occ A v) && covered_w cf A r.
Proof. reflexivity. Qed.
Lemma cov_OSome cf A x : covered_o cf A (OSome x) = covered cf A x.
Proof. reflexivity. Qed.
Lemma cnt_TCase C ws e al : count C (TCase ws e al) = count_w C ws + count_o C e.
Proof. reflexivity. Qed.
Lemma cnt_TFunc C n vs sp al : count C (TFunc n vs sp al) = count_l C vs.
Proof. reflexivity. Qed.
Lemma cnt_TTuple C vs al : count C (TTuple vs al) = count_l C vs.
Proof. reflexivity. Qed.
Lemma cnt_TArray C vs al : count C (TArray vs al) = count_l C vs.
Proof. reflexivity. Qed.
Lemma cnt_TCons C x r : count_l C (TCons x r) = count C x + count_l C r.
Proof. reflexivity. Qed.
Lemma cnt_WCons C c v r : count_w C (WCons c v r) = count C c + count C v + count_w C r.
Proof. reflexivity. Qed.
Lemma cnt_OSome C x : count_o C (OSome x) = count C x.
Proof. reflexivity. Qed.
Ltac rw15 := rewrite ?subst_TCase, ?subst_TFunc, ?subst_TTuple, ?subst_TArray, ?subst_TCons, ?subst_WCons, ?subst_OSome, ?rep_TCase, ?rep_TFunc, ?rep_TTuple, ?rep_TArray, ?rep_TCons, ?rep_WCons, ?rep_OSome, ?occ_TCase, ?occ_TFunc, ?occ_TTuple, ?occ_TArray, ?occ_TCons, ?occ_WCons, ?occ_OSome, ?sf_TCase, ?sf_TFunc, ?sf_TTuple, ?sf_TArray, ?sf_TCons, ?sf_WCons, ?sf_OSome, ?cov_TCase, ?cov_TFunc, ?cov_TTuple, ?cov_TArray, ?cov_TCons, ?cov_WCons, ?cov_OSome, ?cnt_TCase, ?cnt_TFunc, ?cnt_TTuple, ?cnt_TArray, ?cnt_TCons, ?cnt_WCons, ?cnt_OSome in *.
