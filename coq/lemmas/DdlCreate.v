(* DdlCreate.v - CREATE TABLE: the statement a program prints is read back as the description
   of the program (every column and constraint once, in order, with its attributes) *)
From Coq Require Import Lia.
From PV Require Import Base gen.C17Table Ddl lemmas.DdlStrings lemmas.DdlItems lemmas.DdlBuild.

(* ---------- header ---------- *)
Definition kind_text (k : tkind) : string :=
  match k with TPlain => "" | TTemporary => "TEMPORARY " | TUnlogged => "UNLOGGED " end.

Lemma parse_header_ok : forall (lo : bool) (k : tkind) (ine : bool) (r : string),
  (ine = false -> strip_prefix "IF NOT EXISTS " r = None) ->
  parse_header ("CREATE " ++ (if lo then "LOCAL " else "") ++ kind_text k ++ "TABLE "
                ++ (if ine then "IF NOT EXISTS " else "") ++ r) = Some (lo, k, ine, r).
Proof.
  intros lo k ine r H. unfold parse_header. rewrite strip_prefix_app.
  destruct lo, k, ine; cbn [kind_text]; rewrite ?sapp_nil_l;
    repeat first [ rewrite opt_prefix_app | rewrite strip_prefix_app
                 | rewrite (opt_prefix_none "IF NOT EXISTS " r (H eq_refl))
                 | match goal with
                   | |- context [opt_prefix ?p (?a ++ ?b)] =>
                       rewrite (opt_prefix_none p (a ++ b) eq_refl)
                   | |- context [strip_prefix ?p (?a ++ ?b)] =>
                       replace (strip_prefix p (a ++ b)) with (@None string) by reflexivity
                   end ];
    try reflexivity.
Qed.

(* the table name is not mistaken for IF NOT EXISTS *)
Lemma table_not_ine : forall q t rest, table_ok q t = true ->
  kw_free q (match tschema t with s :: _ => s | [] => tname t end) = true -> sp_or_end rest = true ->
  strip_prefix "IF NOT EXISTS " (render_table q t ++ rest) = None.
Proof.
  intros q t rest H Hk Hr. change "IF NOT EXISTS " with ("IF" ++ String " " "NOT EXISTS ").
  apply table_not_kw; try reflexivity; auto. intros ->. now destruct (kw_free_neq _ Hk).
Qed.

(* ---------- the hypotheses, taken apart ---------- *)
Lemma spec_ok_parts : forall q t calls, spec_ok q t calls = true ->
  table_ok q t = true
  /\ kw_free q (match tschema t with s :: _ => s | [] => tname t end) = true
  /\ (existsb is_call_temporary calls && existsb is_call_unlogged calls)%bool = false
  /\ (match last_sel calls with Some _ => negb (existsb is_body_call calls) | None => nonempty (calls_columns calls) end) = true
  /\ forallb (column_ok q) (calls_columns calls) = true
  /\ forallb (period_ok q) (calls_periods calls) = true
  /\ forallb (names_ok q) (calls_uniques calls) = true
  /\ (match last_pk calls with Some ns => forallb (name_ok q) ns | None => true end) = true
  /\ (match last_fk calls with Some f => fkey_ok q f | None => true end) = true.
Proof.
  intros q t calls H. unfold spec_ok in H. remember (table_ok q t) as tok eqn:Etok.
  repeat (apply Bool.andb_true_iff in H as [H ?H]).
  apply Bool.negb_true_iff in H6. subst tok. repeat split; assumption.
Qed.

(* ---------- the body ---------- *)
Lemma body_items_ok : forall q t calls, spec_ok q t calls = true -> last_sel calls = None ->
  omap (parse_item q) (body_clauses q (state_of t calls)) = Some (spec_items calls)
  /\ forallb item_scan_ok (body_clauses q (state_of t calls)) = true
  /\ exists x xs, body_clauses q (state_of t calls) = x :: xs.
Proof.
  intros q t calls H Hsel.
  destruct (spec_ok_parts _ _ _ H) as (_ & _ & _ & Hb & Hc & Hp & Hu & Hpk & Hfk).
  rewrite Hsel in Hb. unfold body_clauses, spec_items. cbn [state_of s_columns s_periods s_uniques s_pk s_fk].
  (* the optional primary key / foreign key clauses *)
  assert (Ppk : exists lp ip, (match last_pk calls with Some (n :: r) => [render_pk q (n :: r)] | _ => [] end) = lp
                 /\ (match last_pk calls with Some (n :: r) => [IPrimary (n :: r)] | _ => [] end) = ip
                 /\ omap (parse_item q) lp = Some ip /\ forallb item_scan_ok lp = true).
  { destruct (last_pk calls) as [[|n r]|]; try (exists [], []; repeat split; reflexivity).
    exists [render_pk q (n :: r)], [IPrimary (n :: r)]. repeat split.
    - simpl. rewrite parse_item_pk; [reflexivity|]. unfold names_ok. now rewrite Hpk.
    - simpl. now rewrite pk_scan_ok. }
  assert (Pfk : exists lf jf, (match last_fk calls with Some f => if nonempty (fk_cols f) then [render_fk q f] else [] | None => [] end) = lf
                 /\ (match last_fk calls with Some f => if nonempty (fk_cols f) then [IForeign f] else [] | None => [] end) = jf
                 /\ omap (parse_item q) lf = Some jf /\ forallb item_scan_ok lf = true).
  { destruct (last_fk calls) as [f|]; [|exists [], []; repeat split; reflexivity].
    destruct (nonempty (fk_cols f)) eqn:E; [|exists [], []; repeat split; reflexivity].
    exists [render_fk q f], [IForeign f]. repeat split.
    - simpl. now rewrite parse_item_fk.
    - simpl. now rewrite fk_scan_ok. }
  destruct Ppk as (lp & ip & -> & -> & Ppk1 & Ppk2). destruct Pfk as (lf & jf & -> & -> & Pfk1 & Pfk2).
  repeat split.
  - repeat apply omap_app; auto.
    + apply omap_map. intros c Hc'. apply parse_item_column. eapply forallb_In; eauto.
    + apply omap_map. intros p Hp'. apply parse_item_period. eapply forallb_In; eauto.
    + apply omap_map. intros u Hu'. apply parse_item_unique. eapply forallb_In; eauto.
  - rewrite !forallb_app, !forallb_map, Ppk2, Pfk2.
    rewrite (forallb_impl _ _ _ (column_scan_ok q) Hc), (forallb_impl _ _ _ (period_scan_ok q) Hp).
    rewrite (forallb_impl (names_ok q) (fun a => item_scan_ok (render_unique q a)) _); auto.
    intros a Ha. apply unique_scan_ok. now apply names_ok_all.
  - destruct (calls_columns calls) as [|c cs]; [discriminate|]. simpl. eauto.
Qed.

(* ---------- options after the body / AS SELECT tail ---------- *)
Lemma parse_options_ok : forall sv pr : bool,
  parse_options ((if sv then " WITH SYSTEM VERSIONING" else "") ++ (if pr then " ON COMMIT PRESERVE ROWS" else ""))
  = Some (sv, pr).
Proof. intros [] []; reflexivity. Qed.

(* classes without local()/preserve_rows(): an accepted program does not contain those calls *)
Lemma no_vertica_calls : forall cls calls st st', has_vertica_flags cls = false -> run cls st calls = Ok st' ->
  existsb is_call_local calls = false /\ existsb is_call_preserve calls = false.
Proof.
  induction calls as [|c r IH]; intros st st' Hv H; [split; reflexivity|].
  simpl in H. destruct (step cls st c) as [s1|] eqn:E; [|discriminate].
  destruct (IH _ _ Hv H) as [I1 I2].
  destruct c; simpl; auto; destruct st; simpl in E; rewrite Hv in E; discriminate.
Qed.

(* the text in the form the header reader expects *)
Lemma create_table_sql_shape : forall cls t calls, create_frag cls calls = true ->
  (has_vertica_flags cls = false -> existsb is_call_local calls = false) ->
  (existsb is_call_temporary calls && existsb is_call_unlogged calls)%bool = false ->
  forall rest,
  create_table_sql cls (state_of t calls) t ++ rest =
  "CREATE " ++ (if existsb is_call_local calls then "LOCAL " else "") ++ kind_text (spec_kind calls) ++ "TABLE "
  ++ (if existsb is_call_ine calls then "IF NOT EXISTS " else "") ++ render_table (create_quote cls) t ++ rest.
Proof.
  intros cls t calls Hf Hl Hx rest. unfold create_table_sql, spec_kind. cbn [state_of s_local s_temporary s_unlogged s_ine].
  destruct cls; unfold create_frag in Hf; simpl in Hf;
    try (rewrite (Hl eq_refl);
         destruct (existsb is_call_temporary calls), (existsb is_call_unlogged calls), (existsb is_call_ine calls);
         try discriminate; cbn [kind_text]; now rewrite !sapp_assoc).
  apply Bool.negb_true_iff in Hf. rewrite Hf.
  destruct (existsb is_call_local calls), (existsb is_call_temporary calls), (existsb is_call_ine calls);
    cbn [kind_text]; now rewrite !sapp_assoc.
Qed.

Lemma preserve_rows_shape : forall cls t calls,
  (has_vertica_flags cls = false -> existsb is_call_preserve calls = false) ->
  preserve_rows_sql cls (state_of t calls) = if existsb is_call_preserve calls then " ON COMMIT PRESERVE ROWS" else "".
Proof.
  intros cls t calls H. unfold preserve_rows_sql. cbn [state_of s_preserve].
  destruct cls; try reflexivity; now rewrite (H eq_refl).
Qed.

Theorem create_roundtrip : forall cls t calls st,
  build cls t calls = Ok st ->
  spec_ok (create_quote cls) t calls = true ->
  create_frag cls calls = true ->
  parse_create (create_quote cls) (render_create cls st) = Some (ast_of t calls).
Proof.
  intros cls t calls st Hb Hs Hf.
  assert (Hv : has_vertica_flags cls = false -> existsb is_call_local calls = false /\ existsb is_call_preserve calls = false).
  { intros Hv. unfold build in Hb. simpl in Hb. eapply no_vertica_calls; eauto. }
  apply build_state in Hb. subst st.
  destruct (spec_ok_parts _ _ _ Hs) as (Ht & Hk & Hx & Hbody & _).
  set (q := create_quote cls) in *.
  unfold render_create, ast_of. cbn [state_of s_table s_as_select s_columns]. fold (state_of t calls). fold q.
  destruct (last_sel calls) as [sel|] eqn:Hsel.
  - (* AS SELECT *)
    unfold as_select_sql. rewrite preserve_rows_shape by (intros E; apply (Hv E)).
    rewrite create_table_sql_shape by (auto; intros E; apply (Hv E)). fold q.
    unfold parse_create.
    rewrite parse_header_ok.
    2:{ intros _. apply table_not_ine; auto. destruct (existsb is_call_preserve calls); reflexivity. }
    rewrite read_table_ok by (auto; destruct (existsb is_call_preserve calls); reflexivity).
    destruct (existsb is_call_preserve calls).
    + replace (strip_prefix " (" (" ON COMMIT PRESERVE ROWS" ++ " AS (" ++ sel ++ ")")) with (@None string) by reflexivity.
      rewrite opt_prefix_app, strip_prefix_app.
      change (sel ++ ")") with (sel ++ String ")" ""). now rewrite strip_last_app.
    + rewrite sapp_nil_l.
      replace (strip_prefix " (" (" AS (" ++ sel ++ ")")) with (@None string) by reflexivity.
      rewrite (opt_prefix_none " ON COMMIT PRESERVE ROWS" (" AS (" ++ sel ++ ")") eq_refl).
      rewrite strip_prefix_app.
      change (sel ++ ")") with (sel ++ String ")" ""). now rewrite strip_last_app.
  - (* column body *)
    destruct (body_items_ok q t calls Hs Hsel) as (Hitems & Hscan & x & xs & Hcl).
    destruct (calls_columns calls) as [|c0 cs0] eqn:Hcols; [discriminate|].
    unfold table_options_sql. rewrite preserve_rows_shape by (intros E; apply (Hv E)).
    cbn [state_of s_sysver]. fold (state_of t calls).
    rewrite create_table_sql_shape by (auto; intros E; apply (Hv E)). fold q.
    unfold parse_create.
    rewrite parse_header_ok by (intros _; apply table_not_ine; auto).
    rewrite read_table_ok by (auto; reflexivity).
    rewrite strip_prefix_app.
    rewrite Hcl in *.
    change (")" ++ ?y) with (String ")" y).
    rewrite split_body_items by assumption.
    change ("" ++ x) with x. rewrite Hitems, parse_options_ok. reflexivity.
Qed.

(* since 1e06637 the class that does not print UNLOGGED rejects unlogged(): no fragment is left *)
Lemma accepted_create_frag : forall cls t calls st, build cls t calls = Ok st -> create_frag cls calls = true.
Proof.
  intros cls t calls st H. unfold create_frag. destruct (rejects_unlogged cls) eqn:E; [|reflexivity].
  unfold build in H. simpl in H. simpl. now rewrite (accepted_no_unlogged _ _ _ _ E H).
Qed.

Theorem create_roundtrip_all : forall cls t calls st,
  build cls t calls = Ok st ->
  spec_ok (create_quote cls) t calls = true ->
  parse_create (create_quote cls) (render_create cls st) = Some (ast_of t calls).
Proof. intros. eapply create_roundtrip; eauto. eapply accepted_create_frag; eauto. Qed.

(* ---------- programs the builder accepts: a sufficient, order-insensitive description ---------- *)
(* no second create_table; at most one primary_key / foreign_key / as_select; no Vertica flag calls
   (those depend on the position of temporary()); AS SELECT only without columns() calls *)
Definition count_calls (p : ccall -> bool) (calls : list ccall) : nat := List.length (filter p calls).
Definition is_call_pk (c : ccall) := match c with KPrimaryKey _ => true | _ => false end.
Definition is_call_fk (c : ccall) := match c with KForeignKey _ _ _ _ _ => true | _ => false end.
Definition is_call_sel (c : ccall) := match c with KAsSelect _ => true | _ => false end.
Definition is_call_cols (c : ccall) := match c with KColumns _ => true | _ => false end.
Definition is_call_create (c : ccall) := match c with KCreateTable _ => true | _ => false end.

Definition simple_program (calls : list ccall) : bool :=
  (negb (existsb is_call_create calls) && negb (existsb is_call_local calls) && negb (existsb is_call_preserve calls)
   && Nat.leb (count_calls is_call_pk calls) 1 && Nat.leb (count_calls is_call_fk calls) 1
   && negb (existsb is_call_sel calls && existsb is_call_cols calls))%bool.

Lemma simple_run : forall cls calls st, is_some (s_table st) = true ->
  existsb is_call_create calls = false -> existsb is_call_local calls = false -> existsb is_call_preserve calls = false ->
  (count_calls is_call_pk calls + (if pk_set st then 1 else 0) <= 1)%nat ->
  (count_calls is_call_fk calls + (if fk_set st then 1 else 0) <= 1)%nat ->
  (existsb is_call_sel calls = true -> existsb is_call_cols calls = false /\ nonempty (s_columns st) = false) ->
  (existsb is_call_cols calls = true -> is_some (s_as_select st) = false) ->
  (rejects_unlogged cls && existsb is_call_unlogged calls)%bool = false ->
  exists st', run cls st calls = Ok st'.
Proof.
  induction calls as [|c r IH]; intros st Ht Hc Hl Hp Hpk Hfk Hsel Hcols Hu; [simpl; eauto|].
  destruct st as [tb tmp unl sel cols pers sv pk uqs ine fk loc prs].
  unfold count_calls in *.
  destruct c; simpl in Hc, Hl, Hp, Hpk, Hfk, Hsel, Hcols, Hu; try discriminate;
    try (simpl; apply IH; simpl; auto; fail).
  - (* unlogged *)
    rewrite Bool.andb_true_r in Hu. simpl. rewrite Hu. apply IH; simpl; auto. now rewrite Hu.
  - (* columns *)
    simpl. rewrite (Hcols eq_refl). apply IH; simpl; auto.
    intros E. destruct (Hsel E). discriminate.
  - (* primary_key *)
    unfold pk_set in Hpk. cbn [s_pk] in Hpk. destruct pk as [l|]; [simpl in Hpk; exfalso; lia|].
    simpl. apply IH; simpl; auto. unfold pk_set. simpl. simpl in Hpk. lia.
  - (* foreign_key *)
    unfold fk_set in Hfk. cbn [s_fk] in Hfk. destruct fk as [f|]; [simpl in Hfk; exfalso; lia|].
    simpl. apply IH; simpl; auto. unfold fk_set. simpl. simpl in Hfk. lia.
  - (* as_select *)
    simpl. destruct (Hsel eq_refl) as [E1 E2]. simpl in E2. rewrite E2. apply IH; simpl; auto.
    intros E. congruence.
Qed.

Theorem simple_program_accepted : forall cls t calls, simple_program calls = true -> create_frag cls calls = true ->
  exists st, build cls t calls = Ok st.
Proof.
  intros cls t calls H Hu. unfold create_frag in Hu. apply Bool.negb_true_iff in Hu. unfold simple_program in H.
  apply Bool.andb_true_iff in H as [H H6]. apply Bool.andb_true_iff in H as [H H5].
  apply Bool.andb_true_iff in H as [H H4]. apply Bool.andb_true_iff in H as [H H3].
  apply Bool.andb_true_iff in H as [H1 H2].
  apply Bool.negb_true_iff in H1, H2, H3, H6. apply Nat.leb_le in H4, H5.
  unfold build. simpl. apply simple_run; simpl; auto; try lia.
  - intros E. rewrite E in H6. simpl in H6. auto.
Qed.
