(* LexBack.v — the flattened text of a token list reads back token by token with the ANSI reader. *)
From PV Require Import Base Crit gen.TermsTable Terms gen.C03Table Lex lemmas.LexLemmas lemmas.LexTokLemmas.
Local Open Scope string_scope.

Lemma strip_prefix_app p rest : strip_prefix p (p ++ rest) = Some rest.
Proof. induction p as [|a p IH]; cbn; [reflexivity|]. rewrite Ascii.eqb_refl. exact IH. Qed.

Theorem lex_along_flatten : forall ts, follow_ok ts = true -> lex_along ts (cflatten ts) = true.
Proof.
  induction ts as [|t r IH]; [reflexivity|]. intros H.
  rewrite cflatten_cons. destruct t as [s|qc s|s|s|]; cbn [follow_ok] in H;
    try (cbn [lex_along]; rewrite strip_prefix_app; apply IH; exact H).
  apply andb_prop in H. destruct H as [H1 H2]. apply negb_true_iff in H1.
  cbn [lex_along ctok_text]. rewrite (std_roundtrip qc s (cflatten r) H1), String.eqb_refl. cbn. apply IH. exact H2.
Qed.
