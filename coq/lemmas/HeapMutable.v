(* The immutable=False sentence of C01 on the heap model: a chain of self-only builder calls executed in place
   (no copy) ends in an object holding exactly what the same chain executed through copies ends in. *)
From PV Require Import Base Heap lemmas.HeapLemmas.
From Coq Require Import Lia.
Close Scope string_scope. Close Scope list_scope. Open Scope list_scope.

(* ---------- views as association lists ---------- *)
Definition vlist := list (attr * option cell).

Fixpoint vset (a : attr) (v : option cell) (l : vlist) : vlist :=
  match l with
  | [] => [(a, v)]
  | (b, x) :: r => if String.eqb a b then (b, v) :: r else (b, x) :: vset a v r
  end.

Definition vmap (cs : list cell) (l : list (attr * nat)) : vlist :=
  map (fun ac : attr * nat => (fst ac, nth_error cs (snd ac))) l.

Lemma vmap_set_assoc cs a k l : vmap cs (set_assoc a k l) = vset a (nth_error cs k) (vmap cs l).
Proof.
  unfold vmap. induction l as [|[b d] l IH]; cbn; auto.
  destruct (String.eqb a b); cbn; [reflexivity | now rewrite IH].
Qed.

Lemma vmap_app_old cs extra l : Forall (fun ac : attr * nat => snd ac < length cs) l -> vmap (cs ++ extra) l = vmap cs l.
Proof.
  intros H. unfold vmap. apply map_ext_in. intros [b c] Hin. cbn. f_equal.
  rewrite Forall_forall in H. specialize (H _ Hin). cbn in H. now rewrite nth_error_app1.
Qed.

(* writing cell c changes exactly the first attribute named a when that is the only attribute held in c *)
Lemma vmap_upd cs c p a : forall l, c < length cs -> NoDup (map snd l) -> lookup_attr a l = Some c ->
  vmap (upd cs c p) l = vset a (Some p) (vmap cs l).
Proof.
  induction l as [|[b d] l IH]; intros Hc ND L; cbn in *; [discriminate|].
  inversion ND as [|? ? Hnotin ND']; subst.
  destruct (String.eqb a b) eqn:E.
  - inversion L; subst d. rewrite nth_error_upd_same by auto. f_equal.
    unfold vmap. apply map_ext_in. intros [x y] Hin. cbn. f_equal.
    apply nth_error_upd_other. intros ->. apply Hnotin. now apply (in_map snd) in Hin.
  - f_equal.
    + f_equal. apply nth_error_upd_other. intros ->. clear IH.
      (* d = c would put c twice in the list *)
      apply Hnotin. clear -L. induction l as [|[x y] l IH]; cbn in *; [discriminate|].
      destruct (String.eqb a x); [inversion L; auto | auto].
    + apply IH; auto.
Qed.

(* re-assigning the value already held by the first occurrence is a no-op *)
Lemma vset_noop cs a c : forall l k, lookup_attr a l = Some k -> nth_error cs k = Some c ->
  vset a (Some c) (vmap cs l) = vmap cs l.
Proof.
  induction l as [|[b d] l IH]; intros k L N; cbn in *; [discriminate|].
  destruct (String.eqb a b) eqn:E.
  - inversion L; subst. now rewrite N.
  - f_equal. eapply IH; eauto.
Qed.

(* ---------- injectivity of the attribute map ---------- *)
Lemma nodup_nat_NoDup l : nodup_nat l = true <-> NoDup l.
Proof.
  induction l as [|x l IH]; cbn; [split; [constructor|auto]|].
  rewrite andb_true_iff, negb_true_iff, IH. split.
  - intros [H1 H2]. constructor; auto. intros Hin.
    assert (existsb (Nat.eqb x) l = true) by (apply existsb_exists; exists x; split; auto; apply Nat.eqb_refl). congruence.
  - intros H. inversion H; subst. split; auto. destruct (existsb (Nat.eqb x) l) eqn:E; auto.
    apply existsb_exists in E as (y & Hy & Exy). apply Nat.eqb_eq in Exy. subst. contradiction.
Qed.

Lemma set_assoc_snd a k l : forall x, In x (map snd (set_assoc a k l)) -> x = k \/ In x (map snd l).
Proof.
  induction l as [|[b d] l IH]; cbn; intros x H.
  - destruct H as [H|[]]; auto.
  - destruct (String.eqb a b); cbn in H.
    + destruct H as [H|H]; auto.
    + destruct H as [H|H]; auto. destruct (IH _ H); auto.
Qed.

Lemma set_assoc_NoDup a k l : NoDup (map snd l) -> ~ In k (map snd l) -> NoDup (map snd (set_assoc a k l)).
Proof.
  induction l as [|[b d] l IH]; cbn; intros ND NI.
  - constructor; [intros []|constructor].
  - inversion ND; subst. destruct (String.eqb a b); cbn.
    + constructor; auto.
    + constructor; [|apply IH; auto]. intros Hin. destruct (set_assoc_snd _ _ _ _ Hin) as [->|H]; auto.
Qed.

(* ---------- the per-object state the simulation tracks ---------- *)
Definition good (w : world) (o : nat) : Prop :=
  wf w /\ exists ob, nth_error (objs w) o = Some ob /\ NoDup (map snd (oattrs ob)).

Lemma good_view w o : good w o -> exists ob, nth_error (objs w) o = Some ob /\ view w o = Some (ocls ob, vmap (cells w) (oattrs ob)).
Proof. intros (_ & ob & E & _). exists ob. split; auto. unfold view. now rewrite E. Qed.

Lemma obj_cells_lt w o ob : wf w -> nth_error (objs w) o = Some ob ->
  Forall (fun ac : attr * nat => snd ac < length (cells w)) (oattrs ob).
Proof.
  intros [WO _] E. pose proof (nth_error_Forall _ _ _ _ WO E) as H. unfold obj_ok in H.
  rewrite forallb_forall in H. apply Forall_forall. intros x Hx. specialize (H x Hx). now apply Nat.ltb_lt in H.
Qed.

(* self.a = payload : allocate a cell, point a to it *)
Lemma rebind_view w o a p w' :
  good w o -> cell_ok (length (objs w)) p = true ->
  set_attr (fst (alloc_cell w p)) o a (length (cells w)) = Some w' ->
  good w' o /\ forall cls v, view w o = Some (cls, v) -> view w' o = Some (cls, vset a (Some p) v).
Proof.
  intros (W & ob & E & ND) OK S.
  pose proof (alloc_cell_wf w p W OK) as W1.
  assert (W2 : wf w'). { eapply set_attr_wf; [exact W1| |exact S]. cbn. rewrite app_length. cbn. lia. }
  pose proof (obj_cells_lt _ _ _ W E) as LT.
  unfold set_attr in S. cbn in S. rewrite E in S. inversion S; subst w'; clear S.
  assert (Ho : o < length (objs w)) by (apply nth_error_Some; congruence).
  split.
  - split; auto. eexists. split; [cbn; apply nth_error_upd_same; auto|]. cbn.
    apply set_assoc_NoDup; auto. intros Hin. apply in_map_iff in Hin as (x & Hx & Hin).
    rewrite Forall_forall in LT. specialize (LT _ Hin). lia.
  - intros cls v V. unfold view in *. rewrite E in V. inversion V; subst. cbn.
    rewrite nth_error_upd_same by auto. cbn. f_equal. f_equal.
    fold (vmap (cells w ++ [p]) (set_assoc a (length (cells w)) (oattrs ob))).
    rewrite vmap_set_assoc, nth_error_app2, Nat.sub_diag by lia. cbn. f_equal.
    apply vmap_app_old; auto.
Qed.

(* self.a.append(...) : write the cell a points to *)
Lemma inplace_view w o a c p w' :
  good w o -> cell_ok (length (objs w)) p = true -> get_attr_cell w o a = Some c -> write_cell w c p = Some w' ->
  good w' o /\ forall cls v, view w o = Some (cls, v) -> view w' o = Some (cls, vset a (Some p) v).
Proof.
  intros (W & ob & E & ND) OK G Wc.
  pose proof (write_cell_wf _ _ _ _ W OK Wc) as W2.
  pose proof (get_attr_cell_lt _ _ _ _ W G) as Hc.
  unfold write_cell in Wc. destruct (Nat.ltb c (length (cells w))); [|discriminate]. inversion Wc; subst w'; clear Wc.
  unfold get_attr_cell in G. rewrite E in G.
  split.
  - split; auto. exists ob. auto.
  - intros cls v V. unfold view in *. cbn. rewrite E in *. inversion V; subst. f_equal. f_equal.
    apply vmap_upd; auto.
Qed.

(* ---------- copy.copy + __copy__ keep the view ---------- *)
Lemma recopy_view n : forall l w w', good w n -> recopy_attrs w n l = Some w' ->
  good w' n /\ view w' n = view w n.
Proof.
  induction l as [|a l IH]; intros w w' G H; [cbn in H; inversion H; subst; auto | rewrite recopy_attrs_cons in H].
  destruct (read_attr w n a) as [c|] eqn:R; [|apply IH; auto].
  destruct (set_attr (fst (alloc_cell w c)) n a (length (cells w))) as [w2|] eqn:S2; [|discriminate].
  destruct (read_attr_some _ _ _ _ R) as (k & Hk & Hc).
  assert (OK : cell_ok (length (objs w)) c = true).
  { destruct G as ([_ WC] & _). apply (nth_error_Forall _ _ _ _ WC Hc). }
  destruct (rebind_view _ _ _ _ _ G OK S2) as [G2 V2].
  destruct (IH _ _ G2 H) as [G3 V3]. split; auto. rewrite V3.
  destruct (good_view _ _ G) as (ob & E & V). rewrite V. rewrite (V2 _ _ V). f_equal. f_equal.
  unfold get_attr_cell in Hk. rewrite E in Hk. eapply vset_noop; eauto.
Qed.

Lemma copy_view w o R w1 n : good w o -> copy_obj w o R = Some (w1, n) -> good w1 n /\ view w1 n = view w o.
Proof.
  intros G. destruct G as (W & ob & E & ND). unfold copy_obj. rewrite E. cbn.
  destruct (recopy_attrs _ _ R) as [w2|] eqn:RC; [|discriminate]. intros [= <- <-].
  assert (Wob : obj_ok (length (cells w)) ob = true) by (destruct W as [WO _]; apply (nth_error_Forall _ _ _ _ WO E)).
  pose proof (alloc_obj_wf w ob W Wob) as W1.
  assert (G1 : good (fst (alloc_obj w ob)) (length (objs w))).
  { split; auto. exists ob. split; auto. cbn. now rewrite nth_error_app2, Nat.sub_diag by lia. }
  destruct (recopy_view _ R _ _ G1 RC) as [G2 V2]. split; auto. rewrite V2.
  unfold view. cbn. rewrite nth_error_app2, Nat.sub_diag, E by lia. reflexivity.
Qed.

(* ---------- one effect, two worlds ---------- *)
Lemma run_eff_view w self args e ch w' :
  good w self -> (negb (fst ch) || tgt_is_self (etgt e)) = true -> run_eff w self args e ch = Some w' ->
  good w' self /\ forall cls v, view w self = Some (cls, v) ->
     view w' self = Some (cls, if fst ch then vset (eattr e) (Some (snd ch)) v else v).
Proof.
  intros G Q. unfold run_eff. destruct (fst ch) eqn:F; cbn [negb].
  2:{ intros [= <-]. split; auto. }
  cbn in Q. destruct (items_ok (length (objs w)) (items (snd ch))) eqn:OK; cbn [negb]; [|discriminate].
  destruct (etgt e); try discriminate. cbn [target].
  destruct (ekd e).
  - cbn. intros S. eapply rebind_view; eauto.
  - destruct (attr_unset w self (eattr e)); [|discriminate]. cbn. intros S. eapply rebind_view; eauto.
  - destruct (get_attr_cell w self (eattr e)) as [c|] eqn:Gc; [|discriminate]. intros Wc. eapply inplace_view; eauto.
  - destruct (get_attr_cell w self (eattr e)) as [c|] eqn:Gc; [|discriminate]. intros Wc. eapply inplace_view; eauto.
Qed.

Lemma run_effs_sim args : forall es chs wa sa wa' wb sb wb',
  good wa sa -> good wb sb -> view wa sa = view wb sb -> fired_self es chs = true ->
  run_effs wa sa args es chs = Some wa' -> run_effs wb sb args es chs = Some wb' ->
  good wa' sa /\ good wb' sb /\ view wa' sa = view wb' sb.
Proof.
  induction es as [|e es IH]; intros [|ch chs] wa sa wa' wb sb wb' Ga Gb V Q Ha Hb; cbn in Ha, Hb; try discriminate.
  - inversion Ha; inversion Hb; subst; auto.
  - cbn in Q. apply andb_prop in Q as [Q1 Q2].
    destruct (run_eff wa sa args e ch) as [wa1|] eqn:Ra; [|discriminate].
    destruct (run_eff wb sb args e ch) as [wb1|] eqn:Rb; [|discriminate].
    destruct (run_eff_view _ _ _ _ _ _ Ga Q1 Ra) as [Ga1 Va1].
    destruct (run_eff_view _ _ _ _ _ _ Gb Q1 Rb) as [Gb1 Vb1].
    eapply (IH chs wa1 sa wa' wb1 sb wb'); eauto.
    destruct (good_view _ _ Ga) as (oa & _ & Va). destruct (good_view _ _ Gb) as (ob & _ & Vb).
    rewrite (Va1 _ _ Va), (Vb1 _ _ Vb). rewrite Va, Vb in V. inversion V; subst. reflexivity.
Qed.

(* effects on self keep the class *)
Lemma run_effs_cls args : forall es chs w s w', good w s -> fired_self es chs = true -> run_effs w s args es chs = Some w' ->
  forall cls v, view w s = Some (cls, v) -> exists v', view w' s = Some (cls, v').
Proof.
  induction es as [|e es IH]; intros [|ch chs] w s w' G Q H cls0 v0 V0; cbn in H; try discriminate.
  - inversion H; subst; eauto.
  - cbn in Q. apply andb_prop in Q as [Q1 Q2]. destruct (run_eff w s args e ch) as [w1|] eqn:R1; [|discriminate].
    destruct (run_eff_view _ _ _ _ _ _ G Q1 R1) as [G1 V1]. eapply IH; eauto.
Qed.

(* ---------- one call, any two copy policies ---------- *)
Lemma view_cls w o cls v : view w o = Some (cls, v) -> exists ob, nth_error (objs w) o = Some ob /\ ocls ob = cls.
Proof. unfold view. destruct (nth_error (objs w) o) as [ob|]; [|discriminate]. intros [= <- _]. eauto. Qed.

Lemma exec_call_sim T (cpa cpb : world -> nat -> meth -> bool) c mn args chs wa oa wa' ra wb ob wb' rb cls v :
  good wa oa -> good wb ob -> view wa oa = Some (cls, v) -> view wb ob = Some (cls, v) ->
  find_class T cls = Some c -> call_self_only c (mn, args, chs) = true ->
  exec_call T cpa wa oa mn args chs [] = Some (wa', ra) -> exec_call T cpb wb ob mn args chs [] = Some (wb', rb) ->
  good wa' ra /\ good wb' rb /\ view wa' ra = view wb' rb /\ (exists v', view wa' ra = Some (cls, v'))
  /\ (forall m, find_meth (cmeths c) mn = Some m -> cpa wa oa m = false -> ra = oa).
Proof.
  intros Ga Gb Va Vb FC CS Ha Hb. unfold exec_call, lookup_call in Ha, Hb.
  destruct (view_cls _ _ _ _ Va) as (xa & Ea & Ca). destruct (view_cls _ _ _ _ Vb) as (xb & Eb & Cb).
  rewrite Ea in Ha. rewrite Eb in Hb. rewrite Ca, FC in Ha. rewrite Cb, FC in Hb.
  unfold call_self_only in CS. cbn [fst snd] in CS.
  destruct (find_meth (cmeths c) mn) as [m|] eqn:FM; [|discriminate].
  apply andb_prop in CS as [CR CF]. destruct (mret m) eqn:MR; try discriminate.
  destruct (forallb _ args) in Ha; cbn [negb] in Ha; [|discriminate].
  destruct (forallb _ args) in Hb; cbn [negb] in Hb; [|discriminate].
  unfold exec_body in Ha, Hb. cbn [finish] in Ha, Hb.
  (* bodies *)
  destruct (if cpa wa oa m then copy_obj wa oa (crecopy c) else Some (wa, oa)) as [[wa1 sa]|] eqn:Ka; [|discriminate].
  destruct (if cpb wb ob m then copy_obj wb ob (crecopy c) else Some (wb, ob)) as [[wb1 sb]|] eqn:Kb; [|discriminate].
  assert (good wa1 sa /\ view wa1 sa = view wa oa /\ (cpa wa oa m = false -> sa = oa)) as (Ga1 & Va1 & Sa).
  { destruct (cpa wa oa m).
    - destruct (copy_view _ _ _ _ _ Ga Ka) as [G1 V1]. split; [auto|split; [auto|discriminate]].
    - inversion Ka; subst. split; [auto|split; auto]. }
  assert (good wb1 sb /\ view wb1 sb = view wb ob) as (Gb1 & Vb1).
  { destruct (cpb wb ob m).
    - destruct (copy_view _ _ _ _ _ Gb Kb) as [G1 V1]. split; auto.
    - inversion Kb; subst. split; auto. }
  destruct (run_effs wa1 sa args (meffs m) chs) as [wa2|] eqn:Ra; [|discriminate].
  destruct (run_effs wb1 sb args (meffs m) chs) as [wb2|] eqn:Rb; [|discriminate].
  inversion Ha; inversion Hb; subst.
  assert (V1 : view wa1 ra = view wb1 rb) by (rewrite Va1, Vb1, Va, Vb; reflexivity).
  destruct (run_effs_sim _ _ _ _ _ _ _ _ _ Ga1 Gb1 V1 CF Ra Rb) as (Ga2 & Gb2 & V2).
  split; [exact Ga2|]. split; [exact Gb2|]. split; [exact V2|]. split.
  - rewrite Va in Va1. exact (run_effs_cls _ _ _ _ _ _ Ga1 CF Ra _ _ Va1).
  - intros m' Fm' Hcp. inversion Fm'; subst m'. auto.
Qed.

(* ---------- the chain ---------- *)
Theorem chain_sim T c cls : find_class T cls = Some c ->
  forall chain wa oa wb ob v wa' ra wb' rb,
  good wa oa -> good wb ob -> view wa oa = Some (cls, v) -> view wb ob = Some (cls, v) ->
  forallb (call_self_only c) chain = true ->
  run_chain T false wa oa chain = Some (wa', ra) -> run_chain T true wb ob chain = Some (wb', rb) ->
  ra = oa /\ view wa' ra = view wb' rb.
Proof.
  intros FC. induction chain as [|[[mn args] chs] chain IH]; intros wa oa wb ob v wa' ra wb' rb Ga Gb Va Vb CS Ha Hb; cbn in Ha, Hb.
  - inversion Ha; inversion Hb; subst. split; auto. now rewrite Va, Vb.
  - cbn in CS. apply andb_prop in CS as [C1 C2].
    destruct (exec_call T _ wa oa mn args chs []) as [[wa1 oa1]|] eqn:Ea; [|discriminate].
    destruct (exec_call T _ wb ob mn args chs []) as [[wb1 ob1]|] eqn:Eb; [|discriminate].
    destruct (exec_call_sim _ _ _ _ _ _ _ _ _ _ _ _ _ _ _ _ _ Ga Gb Va Vb FC C1 Ea Eb) as (Ga1 & Gb1 & V1 & (v' & V1a) & Same).
    assert (oa1 = oa).
    { unfold call_self_only in C1. cbn [fst snd] in C1. destruct (find_meth (cmeths c) mn) as [m|] eqn:FM.
      - apply (Same m eq_refl). reflexivity.
      - (* no such method: exec_call is stuck *) unfold exec_call, lookup_call in Ea.
        destruct (view_cls _ _ _ _ Va) as (xa & Exa & Ca). rewrite Exa, Ca, FC, FM in Ea. discriminate. }
    subst oa1. assert (V1b : view wb1 ob1 = Some (cls, v')) by (rewrite <- V1; auto).
    destruct (IH _ _ _ _ _ _ _ _ _ Ga1 Gb1 V1a V1b C2 Ha Hb) as [-> V2]. split; auto.
Qed.

(* from one start: the same object, run in place and run through copies *)
Theorem mutable_same_statement T c w o ob chain wm om wi oi :
  wf w -> nth_error (objs w) o = Some ob -> find_class T (ocls ob) = Some c -> unaliased w o = true ->
  forallb (call_self_only c) chain = true ->
  run_chain T false w o chain = Some (wm, om) -> run_chain T true w o chain = Some (wi, oi) ->
  om = o /\ view wm om = view wi oi.
Proof.
  intros W E FC U CS Hm Hi.
  assert (G : good w o).
  { split; auto. exists ob. split; auto. unfold unaliased in U. rewrite E in U. now apply nodup_nat_NoDup. }
  destruct (good_view _ _ G) as (ob' & E' & V). rewrite E in E'. inversion E'; subst ob'.
  eapply (chain_sim T c (ocls ob) FC chain w o w o); eauto.
Qed.

(* ---------- how run_chain relates to the history semantics ---------- *)
(* for a row that does not delegate (everything but RCall) only the copy decision at the receiver matters *)
Lemma exec_call_ext T (cp cp' : world -> nat -> meth -> bool) w o mn args chs wrap :
  (forall m, cp w o m = cp' w o m) ->
  (forall c m, lookup_call T w o mn = Some (c, m) -> is_rcall (mret m) = false) ->
  exec_call T cp w o mn args chs wrap = exec_call T cp' w o mn args chs wrap.
Proof.
  intros H NR. unfold exec_call. destruct (lookup_call T w o mn) as [[c m]|] eqn:LC; auto.
  specialize (NR c m eq_refl). rewrite H. destruct (mret m); try discriminate; reflexivity.
Qed.

(* on an object created with immutable=False a history step is the in-place call; otherwise it is the copying call *)
Lemma exec_step_mutable T w o mn args chs wrap : immutable_false w o = true ->
  (forall c m, lookup_call T w o mn = Some (c, m) -> is_rcall (mret m) = false) ->
  exec_step T w (SCall o mn args chs wrap) = exec_call T (fun _ _ m => false && mcopies m) w o mn args chs wrap.
Proof. intros H NR. cbn. apply exec_call_ext; auto. intros m. unfold copies_now. rewrite H. cbn. apply andb_false_r. Qed.
Lemma exec_step_immutable T w o mn args chs wrap : immutable_false w o = false ->
  (forall c m, lookup_call T w o mn = Some (c, m) -> is_rcall (mret m) = false) ->
  exec_step T w (SCall o mn args chs wrap) = exec_call T (fun _ _ m => true && mcopies m) w o mn args chs wrap.
Proof. intros H NR. cbn. apply exec_call_ext; auto. intros m. unfold copies_now. rewrite H. cbn. apply andb_true_r. Qed.

(* ---------- a rejected call inside an in-place chain ---------- *)
(* When the decorator does not copy and no effect of the row fires (the call was rejected before it wrote anything), the
   step leaves the whole heap - hence the one object - exactly as it was and hands the receiver back. *)
Lemma unfired_in_place_noop T (cp : world -> nat -> meth -> bool) w o mn args chs w' r c m :
  lookup_call T w o mn = Some (c, m) -> cp w o m = false -> mret m = RSelf ->
  fired_ok false (crecopy c) (meffs m) chs = true ->
  exec_call T cp w o mn args chs [] = Some (w', r) -> w' = w /\ r = o.
Proof.
  intros LC CP MR Q H. unfold exec_call in H. rewrite LC in H.
  destruct (forallb _ args); cbn [negb] in H; [|discriminate].
  rewrite MR in H. unfold exec_body in H. rewrite CP in H.
  destruct (run_effs w o args (meffs m) chs) as [w2|] eqn:RE; [|discriminate].
  cbn in H. inversion H; subst. split; auto. symmetry.
  symmetry. eapply run_effs_unfired; eauto.
Qed.
