(* DmlRead.v — C05: the positional reader inverts the separators of _values_sql / _columns_sql / _set_sql.
   Quote-aware literal round trip, item lists, row lists, SET pairs, statement heads. *)
From Coq Require Import Lia.
From PV Require Import Base Crit gen.TermsTable Terms Page gen.QueryTable Query Dml.

(* ---- strings ---- *)
Lemma sapp_assoc (a b c : string) : (a ++ b) ++ c = a ++ (b ++ c).
Proof. induction a; simpl; congruence. Qed.
Lemma sapp_nil_r (a : string) : a ++ "" = a.
Proof. induction a; simpl; congruence. Qed.
Lemma slen_app (a b : string) : String.length (a ++ b) = String.length a + String.length b.
Proof. induction a; simpl; auto. Qed.
Lemma strip_prefix_app p r : strip_prefix p (p ++ r) = Some r.
Proof. induction p; simpl; [reflexivity|]. rewrite Ascii.eqb_refl. assumption. Qed.
Lemma join_cons2 sep (x y : string) r : join sep (x :: y :: r) = x ++ sep ++ join sep (y :: r).
Proof. reflexivity. Qed.
Lemma join_one sep (x : string) : join sep [x] = x.
Proof. reflexivity. Qed.

Lemma join_len_ge {A} (f : A -> string) sep : forall xs, (forall x, In x xs -> 1 <= String.length (f x)) ->
  List.length xs <= String.length (join sep (map f xs)).
Proof.
  induction xs as [|x r IH]; intros H; [simpl; lia|].
  destruct r as [|y r'].
  - simpl. specialize (H x (or_introl eq_refl)). lia.
  - change (map f (x :: y :: r')) with (f x :: f y :: map f r'). rewrite join_cons2, !slen_app.
    assert (H1 := H x (or_introl eq_refl)).
    assert (H2 : List.length (y :: r') <= String.length (join sep (map f (y :: r')))) by (apply IH; intros; apply H; right; assumption).
    change (map f (y :: r')) with (f y :: map f r') in H2. simpl List.length in *. lia.
Qed.
Lemma in_join_len sep : forall (xs : list string) x, In x xs -> String.length x <= String.length (join sep xs).
Proof.
  induction xs as [|y r IH]; intros x H; [contradiction|].
  destruct r as [|z r'].
  - destruct H as [->|[]]. simpl. lia.
  - rewrite join_cons2, !slen_app. destruct H as [->|H]; [lia|]. specialize (IH x H). lia.
Qed.

(* ---- quoted texts ---- *)
Definition not_head (qc : ascii) (s : string) : bool :=
  match s with String b _ => negb (Ascii.eqb b qc) | EmptyString => true end.
Definition delim_head (s : string) : bool := match s with String a _ => is_delim a | EmptyString => true end.

(* THE literal round trip: whatever bytes the string holds — quotes, separators, parentheses — the reader
   returns exactly the string and exactly the rest, provided the rest does not begin with the quote *)
Lemma read_quoted_fmt qc s : forall rest, not_head qc rest = true ->
  read_quoted qc (double_char qc s ++ String qc rest) = Some (s, rest).
Proof.
  induction s as [|a s IH]; intros rest H.
  - cbn [double_char append read_quoted]. rewrite Ascii.eqb_refl.
    destruct rest as [|b r]; [reflexivity|]. cbn [not_head] in H. destruct (Ascii.eqb b qc); [discriminate|reflexivity].
  - cbn [double_char]. destruct (Ascii.eqb a qc) eqn:E.
    + apply Ascii.eqb_eq in E. subst a. cbn [append read_quoted]. rewrite !Ascii.eqb_refl. rewrite (IH rest H). reflexivity.
    + cbn [append read_quoted]. rewrite E. rewrite (IH rest H). reflexivity.
Qed.
Lemma double_char_id c s : no_char c s = true -> double_char c s = s.
Proof.
  induction s as [|a s IH]; intros H; [reflexivity|]. cbn [no_char] in H. apply andb_prop in H as [H1 H2].
  cbn [double_char]. destruct (Ascii.eqb a c); [discriminate|]. rewrite IH; auto.
Qed.
Lemma delim_not_quote a : is_delim a = true -> Ascii.eqb a sqc = false /\ Ascii.eqb a dqc = false.
Proof.
  unfold is_delim. intros H.
  destruct (Ascii.eqb a ",") eqn:E1; [apply Ascii.eqb_eq in E1; subst; split; reflexivity|].
  destruct (Ascii.eqb a ")") eqn:E2; [apply Ascii.eqb_eq in E2; subst; split; reflexivity|].
  destruct (Ascii.eqb a " ") eqn:E3; [apply Ascii.eqb_eq in E3; subst; split; reflexivity|]. discriminate.
Qed.
Lemma delim_head_not_sq rest : delim_head rest = true -> not_head sqc rest = true.
Proof. destruct rest as [|a r]; [reflexivity|]. cbn. intros H. destruct (delim_not_quote a H) as [-> _]. reflexivity. Qed.
Lemma delim_head_not_dq rest : delim_head rest = true -> not_head dqc rest = true.
Proof. destruct rest as [|a r]; [reflexivity|]. cbn. intros H. destruct (delim_not_quote a H) as [_ ->]. reflexivity. Qed.

(* ---- bare tokens ---- *)
Lemma read_bare_app t : forall rest, no_delim t = true -> delim_head rest = true -> read_bare (t ++ rest) = (t, rest).
Proof.
  induction t as [|a t IH]; intros rest Ht Hr.
  - cbn [append]. destruct rest as [|b r]; [reflexivity|]. cbn [delim_head] in Hr. cbn [read_bare]. rewrite Hr. reflexivity.
  - cbn [no_delim] in Ht. apply andb_prop in Ht as [H1 H2]. cbn [append read_bare].
    destruct (is_delim a); [discriminate|]. rewrite (IH rest H2 Hr). reflexivity.
Qed.

Definition lit_ok (l : lit) : bool :=
  match l with LStr _ => true | LBare t => nonempty_str t && no_delim t && not_head sqc t end.

Lemma read_lit_fmt l rest : lit_ok l = true -> delim_head rest = true -> read_lit (fmt_lit l ++ rest) = Some (l, rest).
Proof.
  intros Hl Hr. destruct l as [s|t].
  - cbn [fmt_lit append read_lit]. rewrite Ascii.eqb_refl, sapp_assoc. cbn [append].
    rewrite (read_quoted_fmt sqc s rest (delim_head_not_sq _ Hr)). reflexivity.
  - cbn [lit_ok] in Hl. apply andb_prop in Hl as [Hl H3]. apply andb_prop in Hl as [H1 H2].
    cbn [fmt_lit]. destruct t as [|a t]; [discriminate|].
    cbn [not_head] in H3. cbn [append read_lit]. destruct (Ascii.eqb a sqc); [discriminate|].
    change (String a (t ++ rest)) with (String a t ++ rest). rewrite (read_bare_app (String a t) rest H2 Hr). reflexivity.
Qed.
Lemma fmt_lit_nonempty l : lit_ok l = true -> 1 <= String.length (fmt_lit l).
Proof. destruct l as [s|t]; cbn; [lia|]. destruct t; cbn; [discriminate|lia]. Qed.

(* ---- identifiers ---- *)
Definition fmt_ident (s : string) : string := fq (Some """") s.
Lemma read_ident_fmt s rest : name_ok s = true -> not_head dqc rest = true -> read_ident (fmt_ident s ++ rest) = Some (s, rest).
Proof.
  intros Hs Hr. unfold fmt_ident, fq. cbn [ostr odefault]. cbn [append read_ident]. change (Ascii.eqb """" dqc) with true. cbn iota.
  rewrite sapp_assoc. cbn [append]. rewrite <- (double_char_id dqc s Hs) at 1. apply read_quoted_fmt. assumption.
Qed.
Lemma fmt_ident_nonempty s : 1 <= String.length (fmt_ident s).
Proof. unfold fmt_ident, fq. cbn. lia. Qed.

(* ---- comma-separated items up to the closing parenthesis ---- *)
Section ItemsLemma.
Context {A : Type} (rd : string -> option (A * string)) (fmt : A -> string) (ok : A -> bool).
Hypothesis rd_fmt : forall x rest, ok x = true -> delim_head rest = true -> rd (fmt x ++ rest) = Some (x, rest).

Lemma read_items_app : forall xs, xs <> [] -> forallb ok xs = true -> forall fuel, List.length xs <= fuel -> forall rest,
  read_items rd fuel (join "," (map fmt xs) ++ String ")" rest) = Some (xs, rest).
Proof.
  induction xs as [|x r IH]; intros Hne Hok fuel Hf rest; [congruence|].
  cbn [forallb] in Hok. apply andb_prop in Hok as [Hx Hr].
  destruct fuel as [|f]; [simpl in Hf; lia|].
  destruct r as [|y r'].
  - cbn [map]. rewrite join_one. cbn [read_items]. rewrite (rd_fmt x (String ")" rest) Hx eq_refl).
    change (Ascii.eqb ")" ",") with false. change (Ascii.eqb ")" ")") with true. reflexivity.
  - change (map fmt (x :: y :: r')) with (fmt x :: fmt y :: map fmt r'). rewrite join_cons2, !sapp_assoc.
    change ("," ++ join "," (fmt y :: map fmt r') ++ String ")" rest) with (String "," (join "," (map fmt (y :: r')) ++ String ")" rest)).
    cbn [read_items]. rewrite (rd_fmt x (String "," _) Hx eq_refl). change (Ascii.eqb "," ",") with true. cbn iota.
    rewrite (IH ltac:(discriminate) Hr f ltac:(simpl in Hf |- *; lia) rest). reflexivity.
Qed.
End ItemsLemma.

Definition row_text (r : list lit) : string := join "," (map fmt_lit r).
Definition row_ok (r : list lit) : bool := match r with [] => false | _ => forallb lit_ok r end.
Lemma row_ok_spec r : row_ok r = true -> r <> [] /\ forallb lit_ok r = true.
Proof. destruct r; [discriminate|]. intros H. split; [discriminate|exact H]. Qed.
Lemma row_text_len r : row_ok r = true -> List.length r <= String.length (row_text r) /\ 1 <= String.length (row_text r).
Proof.
  intros H. apply row_ok_spec in H as [Hne Hok].
  assert (L : List.length r <= String.length (row_text r)).
  { unfold row_text. apply join_len_ge. intros x Hx. apply fmt_lit_nonempty. rewrite forallb_forall in Hok. auto. }
  split; [exact L|]. destruct r; [congruence|]. simpl List.length in L. lia.
Qed.

(* _values_sql is   "(" ++ intercalate "),(" (map (intercalate ",") rows) ++ ")"   and read_rows is its inverse *)
Lemma read_rows_app : forall rows, rows <> [] -> forallb row_ok rows = true -> forall fi fuel,
  (forall r, In r rows -> List.length r <= fi) -> List.length rows <= fuel ->
  read_rows fi fuel (String "(" (join "),(" (map row_text rows) ++ ")")) = Some rows.
Proof.
  induction rows as [|r rs IH]; intros Hne Hok fi fuel Hfi Hf; [congruence|].
  cbn [forallb] in Hok. apply andb_prop in Hok as [Hr Hrs].
  destruct fuel as [|f]; [simpl in Hf; lia|].
  destruct (row_ok_spec _ Hr) as [Hrne Hrok].
  assert (Hlen : List.length r <= fi) by (apply Hfi; left; reflexivity).
  destruct rs as [|r2 rs'].
  - cbn [map]. rewrite join_one. cbn [read_rows]. change (Ascii.eqb "(" "(") with true. cbn iota.
    unfold row_text at 1.
    rewrite (read_items_app read_lit fmt_lit lit_ok read_lit_fmt r Hrne Hrok fi Hlen ""). reflexivity.
  - change (map row_text (r :: r2 :: rs')) with (row_text r :: row_text r2 :: map row_text rs'). rewrite join_cons2, !sapp_assoc.
    change ("),(" ++ join "),(" (row_text r2 :: map row_text rs') ++ ")")
      with (String ")" (String "," (String "(" (join "),(" (map row_text (r2 :: rs')) ++ ")")))).
    cbn [read_rows]. change (Ascii.eqb "(" "(") with true. cbn iota. unfold row_text at 1.
    rewrite (read_items_app read_lit fmt_lit lit_ok read_lit_fmt r Hrne Hrok fi Hlen _).
    change (Ascii.eqb "," ",") with true. cbn iota.
    rewrite (IH ltac:(discriminate) Hrs fi f); [reflexivity| |simpl in Hf |- *; lia].
    intros x Hx. apply Hfi. right. exact Hx.
Qed.

(* ---- SET pairs ---- *)
Definition set_text (p : string * lit) : string := fmt_ident (fst p) ++ "=" ++ fmt_lit (snd p).
Definition pair_ok (p : string * lit) : bool := name_ok (fst p) && lit_ok (snd p).
Definition sets_tail_ok (rest : string) : bool :=
  match rest with String a _ => Ascii.eqb a " " || Ascii.eqb a ")" | EmptyString => true end.
Lemma sets_tail_delim rest : sets_tail_ok rest = true -> delim_head rest = true.
Proof.
  destruct rest as [|a r]; [reflexivity|]. cbn. unfold is_delim. intros H.
  destruct (Ascii.eqb a " "); destruct (Ascii.eqb a ")"); destruct (Ascii.eqb a ","); try reflexivity; discriminate.
Qed.
Lemma set_text_len p : 1 <= String.length (set_text p).
Proof. unfold set_text. rewrite slen_app. pose proof (fmt_ident_nonempty (fst p)). lia. Qed.

Lemma read_sets_app : forall ps, ps <> [] -> forallb pair_ok ps = true -> forall fuel, List.length ps <= fuel ->
  forall rest, sets_tail_ok rest = true ->
  read_sets fuel (join "," (map set_text ps) ++ rest) = Some (ps, rest).
Proof.
  induction ps as [|[c l] r IH]; intros Hne Hok fuel Hf rest Hrest; [congruence|].
  cbn [forallb] in Hok. apply andb_prop in Hok as [Hp Hr]. unfold pair_ok in Hp. cbn [fst snd] in Hp.
  apply andb_prop in Hp as [Hc Hl].
  destruct fuel as [|f]; [simpl in Hf; lia|].
  destruct r as [|p2 r'].
  - cbn [map]. rewrite join_one. unfold set_text. cbn [fst snd]. rewrite !sapp_assoc. cbn [read_sets append].
    rewrite (read_ident_fmt c (String "=" _) Hc eq_refl). change (Ascii.eqb "=" "=") with true. cbn iota.
    rewrite (read_lit_fmt l rest Hl (sets_tail_delim _ Hrest)).
    destruct rest as [|b r2]; [reflexivity|]. cbn [sets_tail_ok] in Hrest.
    destruct (Ascii.eqb b ",") eqn:E; [|reflexivity].
    apply Ascii.eqb_eq in E. subst b. discriminate.
  - change (map set_text ((c, l) :: p2 :: r')) with (set_text (c, l) :: set_text p2 :: map set_text r').
    rewrite join_cons2. unfold set_text at 1. cbn [fst snd]. rewrite !sapp_assoc. cbn [read_sets append].
    rewrite (read_ident_fmt c (String "=" _) Hc eq_refl). change (Ascii.eqb "=" "=") with true. cbn iota.
    change (String "," (join "," (set_text p2 :: map set_text r') ++ rest))
      with (String "," (join "," (map set_text (p2 :: r')) ++ rest)).
    rewrite (read_lit_fmt l (String "," _) Hl eq_refl). change (Ascii.eqb "," ",") with true. cbn iota.
    rewrite (IH ltac:(discriminate) Hr f ltac:(simpl in Hf |- *; lia) rest Hrest). reflexivity.
Qed.

(* ---- statement heads ---- *)
Definition head_text (m : imode) : string :=
  match m with MInsert => "INSERT INTO " | MReplace => "REPLACE INTO " | MInsertOrReplace => "INSERT OR REPLACE INTO " end.
Lemma read_head_app m r : read_head (head_text m ++ r) = Some (m, r).
Proof. destruct m; reflexivity. Qed.
Lemma read_head_update r : read_head ("UPDATE " ++ r) = None.
Proof. reflexivity. Qed.
Lemma read_head_delete r : read_head ("DELETE FROM " ++ r) = None.
Proof. reflexivity. Qed.

Definition cols_text (cols : list string) : string :=
  match cols with [] => "" | _ => " (" ++ join "," (map fmt_ident cols) ++ ")" end.
Definition values_text (rows : list (list lit)) : string := " VALUES (" ++ join "),(" (map row_text rows) ++ ")".
Definition insert_text (m : imode) (tbl : string) (cols : list string) (rows : list (list lit)) : string :=
  head_text m ++ fmt_ident tbl ++ cols_text cols ++ values_text rows.
Definition insert_select_text (m : imode) (tbl : string) (cols : list string) (sel : string) : string :=
  head_text m ++ fmt_ident tbl ++ cols_text cols ++ " " ++ sel.
Definition where_text (w : option string) : string := match w with Some x => " WHERE " ++ x | None => "" end.
Definition update_text (tbl : string) (sets : list (string * lit)) (w : option string) : string :=
  "UPDATE " ++ fmt_ident tbl ++ " SET " ++ join "," (map set_text sets) ++ where_text w.
Definition delete_text (tbl : string) (w : option string) : string := "DELETE FROM " ++ fmt_ident tbl ++ where_text w.

Lemma read_where_text w : read_where (where_text w) = Some w.
Proof. destruct w as [x|]; [|reflexivity]. unfold where_text.
  change (read_where (" WHERE " ++ x)) with (match strip_prefix " WHERE " (" WHERE " ++ x) with Some w => Some (Some w) | None => None end).
  rewrite (strip_prefix_app " WHERE " x). reflexivity. Qed.

Lemma after_cols_values fuel m tbl cols rows :
  rows <> [] -> forallb row_ok rows = true -> (forall r, In r rows -> List.length r <= fuel) -> List.length rows <= fuel ->
  after_cols fuel m tbl cols (values_text rows) = Some (AInsert m tbl cols rows).
Proof.
  intros Hne Hok Hw Hn. unfold after_cols, values_text.
  change (" VALUES (" ++ join "),(" (map row_text rows) ++ ")") with (" VALUES " ++ String "(" (join "),(" (map row_text rows) ++ ")")).
  rewrite strip_prefix_app. rewrite (read_rows_app rows Hne Hok fuel fuel Hw Hn). reflexivity.
Qed.

Definition starts_select (s : string) : bool := match strip_prefix "SELECT " s with Some _ => true | None => false end.
Lemma after_cols_select fuel m tbl cols sel : starts_select sel = true ->
  after_cols fuel m tbl cols (" " ++ sel) = Some (AInsertSelect m tbl cols sel).
Proof.
  intros H. unfold after_cols. unfold starts_select in H.
  destruct (strip_prefix "SELECT " sel) as [x|] eqn:E; [|discriminate].
  assert (N : strip_prefix " VALUES " (" " ++ sel) = None).
  { cbn [append strip_prefix]. change (Ascii.eqb " " " ") with true. cbn iota.
    destruct sel as [|a s]; [discriminate|]. cbn [strip_prefix] in E |- *.
    destruct (Ascii.eqb "S" a) eqn:Ea; [|discriminate]. apply Ascii.eqb_eq in Ea. subst a. reflexivity. }
  rewrite N. rewrite (strip_prefix_app " " sel). rewrite E. reflexivity.
Qed.

Lemma cols_then fuel m tbl cols rest (K : nat -> imode -> string -> list string -> string -> option dml_ast) :
  forallb name_ok cols = true -> List.length cols <= fuel ->
  (match rest with String a _ => Ascii.eqb a " " | EmptyString => false end) = true ->
  (match strip_prefix " (" rest with Some _ => false | None => true end) = true ->
  match strip_prefix " (" (cols_text cols ++ rest) with
  | Some r2 => match read_items read_ident fuel r2 with Some (cs, r3) => K fuel m tbl cs r3 | None => None end
  | None => K fuel m tbl [] (cols_text cols ++ rest)
  end = K fuel m tbl cols rest.
Proof.
  intros Hok Hf Hsp Hnp. destruct cols as [|c cs].
  - cbn [cols_text append]. destruct (strip_prefix " (" rest); [discriminate|reflexivity].
  - unfold cols_text. rewrite !sapp_assoc. rewrite strip_prefix_app. cbn [append].
    rewrite (read_items_app read_ident fmt_ident name_ok
               (fun x r Hx Hr => read_ident_fmt x r Hx (delim_head_not_dq _ Hr)) (c :: cs) ltac:(discriminate) Hok fuel Hf rest).
    reflexivity.
Qed.

(* ---- whole statements ---- *)
Theorem parse_insert_text m tbl cols rows :
  name_ok tbl = true -> forallb name_ok cols = true -> rows <> [] -> forallb row_ok rows = true ->
  parse_dml (insert_text m tbl cols rows) = Some (AInsert m tbl cols rows).
Proof.
  intros Ht Hc Hne Hok. unfold parse_dml. set (fuel := S (String.length (insert_text m tbl cols rows))).
  assert (Lc : List.length cols <= fuel /\ List.length rows <= fuel /\ (forall r, In r rows -> List.length r <= fuel)).
  { subst fuel. unfold insert_text, values_text. rewrite !slen_app.
    assert (A1 : List.length cols <= String.length (cols_text cols)).
    { destruct cols as [|c cs]; [simpl; lia|]. unfold cols_text. rewrite !slen_app.
      pose proof (join_len_ge fmt_ident "," (c :: cs) (fun x _ => fmt_ident_nonempty x)). lia. }
    assert (A2 : List.length rows <= String.length (join "),(" (map row_text rows))).
    { apply join_len_ge. intros r Hr. rewrite forallb_forall in Hok. apply (row_text_len r (Hok r Hr)). }
    split; [lia|]. split; [lia|].
    intros r Hr. rewrite forallb_forall in Hok. pose proof (proj1 (row_text_len r (Hok r Hr))).
    pose proof (in_join_len "),(" (map row_text rows) (row_text r) (in_map row_text rows r Hr)). lia. }
  destruct Lc as (L1 & L2 & L3).
  unfold parse_dml_fuel, insert_text. rewrite read_head_app. rewrite (read_ident_fmt tbl _ Ht).
  2:{ destruct cols; reflexivity. }
  rewrite (cols_then fuel m tbl cols (values_text rows) after_cols Hc L1 eq_refl eq_refl).
  apply after_cols_values; assumption.
Qed.

Theorem parse_insert_select_text m tbl cols sel :
  name_ok tbl = true -> forallb name_ok cols = true -> starts_select sel = true ->
  parse_dml (insert_select_text m tbl cols sel) = Some (AInsertSelect m tbl cols sel).
Proof.
  intros Ht Hc Hs. unfold parse_dml. set (fuel := S (String.length (insert_select_text m tbl cols sel))).
  assert (L1 : List.length cols <= fuel).
  { subst fuel. unfold insert_select_text. rewrite !slen_app.
    assert (A1 : List.length cols <= String.length (cols_text cols)).
    { destruct cols as [|c cs]; [simpl; lia|]. unfold cols_text. rewrite !slen_app.
      pose proof (join_len_ge fmt_ident "," (c :: cs) (fun x _ => fmt_ident_nonempty x)). lia. }
    lia. }
  unfold parse_dml_fuel, insert_select_text. rewrite read_head_app. rewrite (read_ident_fmt tbl _ Ht).
  2:{ destruct cols; reflexivity. }
  assert (Hnp : match strip_prefix " (" (" " ++ sel) with Some _ => false | None => true end = true).
  { unfold starts_select in Hs. destruct sel as [|a s]; [discriminate|]. cbn [strip_prefix] in Hs.
    destruct (Ascii.eqb "S" a) eqn:Ea; [|discriminate]. apply Ascii.eqb_eq in Ea. subst a. reflexivity. }
  rewrite (cols_then fuel m tbl cols (" " ++ sel) after_cols Hc L1 eq_refl Hnp).
  apply after_cols_select. assumption.
Qed.

Theorem parse_update_text tbl sets w :
  name_ok tbl = true -> sets <> [] -> forallb pair_ok sets = true ->
  parse_dml (update_text tbl sets w) = Some (AUpdate tbl sets w).
Proof.
  intros Ht Hne Hok. unfold parse_dml. set (fuel := S (String.length (update_text tbl sets w))).
  assert (L : List.length sets <= fuel).
  { subst fuel. unfold update_text. rewrite !slen_app.
    pose proof (join_len_ge set_text "," sets (fun x _ => set_text_len x)). lia. }
  unfold parse_dml_fuel, update_text. rewrite read_head_update. rewrite strip_prefix_app.
  rewrite (read_ident_fmt tbl (" SET " ++ _) Ht eq_refl). rewrite strip_prefix_app.
  rewrite (read_sets_app sets Hne Hok fuel L (where_text w)); [|destruct w; reflexivity].
  rewrite read_where_text. reflexivity.
Qed.

Theorem parse_delete_text tbl w : name_ok tbl = true -> parse_dml (delete_text tbl w) = Some (ADelete tbl w).
Proof.
  intros Ht. unfold parse_dml, parse_dml_fuel, delete_text. rewrite read_head_delete.
  change (strip_prefix "UPDATE " ("DELETE FROM " ++ fmt_ident tbl ++ where_text w)) with (@None string). cbn iota.
  rewrite strip_prefix_app. rewrite (read_ident_fmt tbl _ Ht); [|destruct w; reflexivity].
  rewrite read_where_text. reflexivity.
Qed.
