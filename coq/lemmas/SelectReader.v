(* SelectReader.v — C04: the statement-level print/parse theorem.
   [ast_toks] prints an abstract SELECT statement (every expression with pypika's parenthesisation policy, through
   Parse.pr); [read_select] reads the token view back, using Parse.parse with the sqlite table for every expression.
   For every abstract statement whose expressions are dominated (C02's condition) reading the printed tokens gives back
   exactly the statement -- unbounded number of items, joins, nesting depth of expressions. *)
From PV Require Import Base Crit gen.TermsTable Terms Page gen.QueryTable Query Parse lemmas.ParseMono lemmas.ParsePrint.
From PV Require Import C02Model C02Frag lemmas.C02Lemmas lemmas.C02Final gen.C04Table Select.
From Coq Require Import Lia Arith.
Local Open Scope list_scope.

Notation domq e := (dom sqlite impl_pol e).

(* ------------------------------------------------------------------------------------------- *)
(* printer of abstract statements                                                                *)
(* ------------------------------------------------------------------------------------------- *)
Definition e_stoks (e : expr) : list stok := map SE (pr impl_pol e).
Definition item_stoks (it : expr * option string) : list stok :=
  match snd it with Some a => e_stoks (fst it) ++ [SAlias a] | None => e_stoks (fst it) end.
Definition order_stoks (od : expr * option order) : list stok :=
  match snd od with Some Asc => e_stoks (fst od) ++ [SK KAsc] | Some Desc => e_stoks (fst od) ++ [SK KDesc] | None => e_stoks (fst od) end.
Definition join_stoks (j : string * string * jc_ast) : list stok :=
  let '(p, t, c) := j in
  match c with
  | JcOn e => SK (KJoin p) :: SSrc t :: SK KOn :: e_stoks e
  | JcUsing cs => SK (KJoin p) :: SSrc t :: SK KUsing :: SE KLP :: commas (map (fun n => [SCol n]) cs) ++ [SE KRP]
  | JcNone => [SK (KJoin p); SSrc t]
  end.
Definition opt_stoks (k : skw) (o : option expr) : list stok := match o with None => [] | Some e => SK k :: e_stoks e end.

Definition group_stoks (gs : list expr) : list stok :=
  match gs with [] => [] | _ => SK KGroupBy :: commas (map e_stoks gs) end.
Definition orders_stoks (os : list (expr * option order)) : list stok :=
  match os with [] => [] | _ => SK KOrderBy :: commas (map order_stoks os) end.

Definition ast_toks (a : sel_ast) : list stok :=
  SK KSel :: (if a_distinct a then [SK KDistinct] else []) ++ commas (map item_stoks (a_items a))
  ++ from_stoks (a_from a) ++ List.concat (map join_stoks (a_joins a)) ++ opt_stoks KWhere (a_where a)
  ++ group_stoks (a_group a) ++ opt_stoks KHaving (a_having a) ++ orders_stoks (a_order a)
  ++ page_stoks (a_limit a) (a_offset a).

(* well-formed abstract statements: at least one item, dominated expressions, USING lists non-empty, OFFSET only after LIMIT *)
Definition jc_ok (c : jc_ast) : Prop :=
  match c with JcOn e => domq e = true | JcUsing cs => cs <> [] | JcNone => True end.
Definition oe_ok (o : option expr) : Prop := match o with Some e => domq e = true | None => True end.
Definition ast_ok (a : sel_ast) : Prop :=
  a_items a <> []
  /\ Forall (fun it => domq (fst it) = true) (a_items a)
  /\ Forall (fun j => jc_ok (snd j)) (a_joins a)
  /\ oe_ok (a_where a) /\ Forall (fun e => domq e = true) (a_group a) /\ oe_ok (a_having a)
  /\ Forall (fun od => domq (fst od) = true) (a_order a)
  /\ (a_limit a = None -> a_offset a = None).

(* ------------------------------------------------------------------------------------------- *)
(* one expression                                                                                *)
(* ------------------------------------------------------------------------------------------- *)
(* what may follow an expression: the end, a foreign token, or an expression token that ends every operator loop *)
Definition stop_e (rest : list stok) : Prop := match rest with SE t :: _ => tok_level sqlite t = None | _ => True end.
(* what follows a clause: the end or a clause keyword *)
Definition kw_rank (k : skw) : nat :=
  match k with KSel => 0 | KDistinct => 1 | KFrom => 2 | KJoin _ | KOn | KUsing => 3 | KWhere => 4 | KGroupBy => 5
  | KHaving => 6 | KOrderBy | KAsc | KDesc => 7 | KLimit => 8 | KOffset => 9 end.
Definition starts_after (n : nat) (l : list stok) : Prop :=
  match l with [] => True | SK k :: _ => n < kw_rank k | _ => False end.

Lemma starts_after_mono n m l : m <= n -> starts_after n l -> starts_after m l.
Proof. destruct l as [|[t|k|s|a|c|z] r]; cbn; auto. lia. Qed.
Lemma starts_after_stop n l : starts_after n l -> stop_e l.
Proof. destruct l as [|[t|k|s|a|c|z] r]; cbn; auto. intros []. Qed.

Lemma shadow_app a b : shadow (a ++ b) = shadow a ++ shadow b.
Proof. unfold shadow. apply map_app. Qed.
Lemma shadow_SE ts : shadow (map SE ts) = ts.
Proof. unfold shadow. rewrite map_map. cbn. apply map_id. Qed.
Lemma shadow_length s : List.length (shadow s) = List.length s.
Proof. unfold shadow. apply map_length. Qed.
Lemma lastn_app {A} (a b : list A) : lastn (List.length b) (a ++ b) = b.
Proof.
  unfold lastn. rewrite app_length. replace (List.length a + List.length b - List.length b) with (List.length a) by lia.
  rewrite skipn_app, skipn_all, Nat.sub_diag. reflexivity.
Qed.
Lemma stop_inert rest : stop_e rest -> inert sqlite (shadow rest).
Proof. destruct rest as [|[t|k|s|a|c|z] r]; cbn; auto. Qed.

Lemma parse_then e rest : domq e = true -> inert sqlite rest ->
  exists f0, parse sqlite f0 0 (pr impl_pol e ++ rest) = Some (e, rest).
Proof.
  intros D I. destruct sqlite_sane as [H1 [H2 [H3 [H4 [H5 [H6 H7]]]]]].
  destruct (main_all sqlite impl_pol H1 H2 H3 H4 H5 H6 H7) as [M _].
  exact (whole sqlite impl_pol H1 H2 H3 H4 H5 H7 e (M e) D rest I).
Qed.

Lemma read_expr_ok e rest : domq e = true -> stop_e rest ->
  exists F, forall f, F <= f -> read_expr f (e_stoks e ++ rest) = Some (e, rest).
Proof.
  intros D S. destruct (parse_then e (shadow rest) D (stop_inert _ S)) as [f0 Hf].
  exists f0. intros f Hle. unfold read_expr, e_stoks. rewrite shadow_app, shadow_SE.
  rewrite (mono_p sqlite f0 f 0 _ _ Hle Hf). rewrite shadow_length, lastn_app. reflexivity.
Qed.

Lemma e_stoks_first e : exists t r, e_stoks e = SE t :: r.
Proof.
  unfold e_stoks. destruct (pr impl_pol e) as [|t r] eqn:E; [exfalso; exact (pr_nonempty impl_pol e E)|].
  exists t, (map SE r). reflexivity.
Qed.

(* ------------------------------------------------------------------------------------------- *)
(* comma-separated lists                                                                         *)
(* ------------------------------------------------------------------------------------------- *)
Lemma commas_cons2 (x y : list stok) r : commas (x :: y :: r) = x ++ SE KComma :: commas (y :: r).
Proof. reflexivity. Qed.
Lemma commas_one (x : list stok) : commas [x] = x.
Proof. reflexivity. Qed.

Lemma not_comma_after n rest : starts_after n rest -> forall r, rest <> SE KComma :: r.
Proof. destruct rest as [|[t|k|s|a|c|z] r0]; cbn; intros H r E; try discriminate; contradiction. Qed.

Lemma read_sel_items_ok : forall its rest n, its <> [] -> Forall (fun it => domq (fst it) = true) its -> starts_after n rest ->
  exists F, forall g f, F <= g -> F <= f ->
    read_sel_items g f (commas (map item_stoks its) ++ rest) = Some (its, rest).
Proof.
  induction its as [|[e a] its IH]; intros rest n Hne Hd Hs; [congruence|].
  inversion Hd as [|x l De Dr]; subst. cbn [fst] in De.
  destruct its as [|it2 its'].
  - (* last item *)
    cbn [map commas]. unfold item_stoks. cbn [fst snd].
    destruct a as [al|].
    + destruct (read_expr_ok e (SAlias al :: rest) De I) as [F HF].
      exists (S F). intros g f Hg Hf. destruct g as [|g']; [lia|]. cbn [read_sel_items].
      rewrite <- app_assoc. cbn [app]. rewrite (HF f) by lia.
      destruct rest as [|[t|k|s|a'|c|z] r0]; cbn in Hs; try contradiction; reflexivity.
    + destruct (read_expr_ok e rest De (starts_after_stop _ _ Hs)) as [F HF].
      exists (S F). intros g f Hg Hf. destruct g as [|g']; [lia|]. cbn [read_sel_items].
      rewrite (HF f) by lia.
      destruct rest as [|[t|k|s|a'|c|z] r0]; cbn in Hs; try contradiction; reflexivity.
  - (* more items follow *)
    destruct (IH rest n ltac:(discriminate) Dr Hs) as [F1 H1].
    cbn [map] in H1 |- *. rewrite commas_cons2. unfold item_stoks at 1. cbn [fst snd].
    set (TL := commas (item_stoks it2 :: map item_stoks its')) in *.
    destruct a as [al|].
    + destruct (read_expr_ok e (SAlias al :: SE KComma :: TL ++ rest) De I) as [F HF].
      exists (S (max F F1)). intros g f Hg Hf. destruct g as [|g']; [lia|]. cbn [read_sel_items].
      rewrite <- !app_assoc. cbn [app]. rewrite (HF f) by lia.
      rewrite (H1 g' f) by lia. reflexivity.
    + destruct (read_expr_ok e (SE KComma :: TL ++ rest) De eq_refl) as [F HF].
      exists (S (max F F1)). intros g f Hg Hf. destruct g as [|g']; [lia|]. cbn [read_sel_items].
      rewrite <- !app_assoc. cbn [app]. rewrite (HF f) by lia.
      rewrite (H1 g' f) by lia. reflexivity.
Qed.

Lemma read_exprs_ok : forall es rest n, es <> [] -> Forall (fun e => domq e = true) es -> starts_after n rest ->
  exists F, forall g f, F <= g -> F <= f -> read_exprs g f (commas (map e_stoks es) ++ rest) = Some (es, rest).
Proof.
  induction es as [|e es IH]; intros rest n Hne Hd Hs; [congruence|].
  inversion Hd as [|x l De Dr]; subst.
  destruct es as [|e2 es'].
  - cbn [map commas].
    destruct (read_expr_ok e rest De (starts_after_stop _ _ Hs)) as [F HF].
    exists (S F). intros g f Hg Hf. destruct g as [|g']; [lia|]. cbn [read_exprs].
    rewrite (HF f) by lia.
    destruct rest as [|[t|k|s|a'|c|z] r0]; cbn in Hs; try contradiction; reflexivity.
  - destruct (IH rest n ltac:(discriminate) Dr Hs) as [F1 H1].
    cbn [map] in H1 |- *. rewrite commas_cons2.
    set (TL := commas (e_stoks e2 :: map e_stoks es')) in *.
    destruct (read_expr_ok e (SE KComma :: TL ++ rest) De eq_refl) as [F HF].
    exists (S (max F F1)). intros g f Hg Hf. destruct g as [|g']; [lia|]. cbn [read_exprs].
    rewrite <- !app_assoc. cbn [app]. rewrite (HF f) by lia.
    rewrite (H1 g' f) by lia. reflexivity.
Qed.

Lemma read_dir_ok d rest n : 7 <= n -> starts_after n rest \/ (exists r, rest = SE KComma :: r) ->
  read_dir ((match d with Some Asc => [SK KAsc] | Some Desc => [SK KDesc] | None => [] end) ++ rest) = (d, rest).
Proof.
  intros Hn Hr. destruct d as [[|]|]; cbn; try reflexivity.
  destruct Hr as [Hs|[r ->]]; [|reflexivity].
  destruct rest as [|[t|k|s|a'|c|z] r0]; cbn in Hs; try contradiction; try reflexivity.
  destruct k; cbn in Hs; try lia; reflexivity.
Qed.

Lemma order_stoks_split od : order_stoks od =
  e_stoks (fst od) ++ (match snd od with Some Asc => [SK KAsc] | Some Desc => [SK KDesc] | None => [] end).
Proof. unfold order_stoks. destruct (snd od) as [[|]|]; rewrite ?app_nil_r; reflexivity. Qed.

Lemma read_orders_ok : forall os rest n, 7 <= n -> os <> [] -> Forall (fun od => domq (fst od) = true) os -> starts_after n rest ->
  exists F, forall g f, F <= g -> F <= f -> read_orders g f (commas (map order_stoks os) ++ rest) = Some (os, rest).
Proof.
  induction os as [|[e d] os IH]; intros rest n Hn Hne Hd Hs; [congruence|].
  inversion Hd as [|x l De Dr]; subst. cbn [fst] in De.
  destruct os as [|o2 os'].
  - cbn [map commas]. rewrite order_stoks_split. cbn [fst snd].
    set (D := match d with Some Asc => [SK KAsc] | Some Desc => [SK KDesc] | None => [] end).
    assert (Sd : stop_e (D ++ rest)).
    { unfold D. destruct d as [[|]|]; cbn; auto. exact (starts_after_stop _ _ Hs). }
    destruct (read_expr_ok e (D ++ rest) De Sd) as [F HF].
    exists (S F). intros g f Hg Hf. destruct g as [|g']; [lia|]. cbn [read_orders].
    rewrite <- app_assoc. rewrite (HF f) by lia. unfold D. rewrite (read_dir_ok d rest n Hn (or_introl Hs)).
    destruct rest as [|[t|k|s|a'|c|z] r0]; cbn in Hs; try contradiction; reflexivity.
  - destruct (IH rest n Hn ltac:(discriminate) Dr Hs) as [F1 H1].
    cbn [map] in H1 |- *. rewrite commas_cons2. rewrite order_stoks_split. cbn [fst snd].
    set (TL := commas (order_stoks o2 :: map order_stoks os')) in *.
    set (D := match d with Some Asc => [SK KAsc] | Some Desc => [SK KDesc] | None => [] end).
    assert (Sd : stop_e (D ++ SE KComma :: TL ++ rest)).
    { unfold D. destruct d as [[|]|]; cbn; auto. }
    destruct (read_expr_ok e (D ++ SE KComma :: TL ++ rest) De Sd) as [F HF].
    exists (S (max F F1)). intros g f Hg Hf. destruct g as [|g']; [lia|]. cbn [read_orders].
    rewrite <- !app_assoc. cbn [app]. rewrite (HF f) by lia. unfold D.
    rewrite (read_dir_ok d (SE KComma :: TL ++ rest) n Hn (or_intror (ex_intro _ _ eq_refl))).
    rewrite (H1 g' f) by lia. reflexivity.
Qed.

Lemma read_srcs_ok : forall ts rest n, ts <> [] -> starts_after n rest ->
  read_srcs (commas (map (fun t => [SSrc t]) ts) ++ rest) = (ts, rest).
Proof.
  induction ts as [|t ts IH]; intros rest n Hne Hs; [congruence|].
  destruct ts as [|t2 ts'].
  - cbn. destruct rest as [|[x|k|s|a'|c|z] r0]; cbn in Hs; try contradiction; reflexivity.
  - specialize (IH rest n ltac:(discriminate) Hs). cbn [map] in IH |- *. rewrite commas_cons2.
    cbn [app]. cbn [read_srcs]. rewrite IH. reflexivity.
Qed.

Lemma read_cols_ok : forall cs rest, cs <> [] ->
  read_cols (commas (map (fun n => [SCol n]) cs) ++ SE KRP :: rest) = (cs, SE KRP :: rest).
Proof.
  induction cs as [|c cs IH]; intros rest Hne; [congruence|].
  destruct cs as [|c2 cs'].
  - reflexivity.
  - specialize (IH rest ltac:(discriminate)). cbn [map] in IH |- *. rewrite commas_cons2.
    cbn [app]. cbn [read_cols]. rewrite IH. reflexivity.
Qed.

(* ------------------------------------------------------------------------------------------- *)
(* joins                                                                                         *)
(* ------------------------------------------------------------------------------------------- *)
Definition joins_tail (rest : list stok) : Prop :=
  match rest with [] => True | SK k :: _ => 3 <= kw_rank k /\ k <> KOn /\ k <> KUsing | _ => False end.

Lemma joins_tail_stop rest : joins_tail rest -> stop_e rest.
Proof. destruct rest as [|[t|k|s|a|c|z] r]; cbn; auto. intros []. Qed.

Lemma join_stoks_head j : exists p t r, join_stoks j = SK (KJoin p) :: SSrc t :: r.
Proof. destruct j as [[p t] [e|cs|]]; cbn; eauto. Qed.

Lemma joins_tail_concat js rest : joins_tail rest -> joins_tail (List.concat (map join_stoks js) ++ rest).
Proof.
  destruct js as [|j js]; [auto|]. cbn [map List.concat].
  destruct (join_stoks_head j) as [p [t [r ->]]]. cbn. repeat split; try discriminate; lia.
Qed.

Lemma read_joins_none g f p t TL : joins_tail TL ->
  read_joins (S g) f (SK (KJoin p) :: SSrc t :: TL) =
  match read_joins g f TL with Some (l, r2) => Some ((p, t, JcNone) :: l, r2) | None => None end.
Proof.
  destruct TL as [|[x|k|s|a'|c'|z] r0]; cbn [joins_tail]; try contradiction; [reflexivity|].
  intros [_ [N1 N2]]. destruct k; try congruence; reflexivity.
Qed.

Lemma read_joins_ok : forall js rest, Forall (fun j => jc_ok (snd j)) js -> starts_after 3 rest ->
  exists F, forall g f, F <= g -> F <= f -> read_joins g f (List.concat (map join_stoks js) ++ rest) = Some (js, rest).
Proof.
  induction js as [|[[p t] c] js IH]; intros rest Hd Hs.
  - exists 1. intros g f Hg Hf. destruct g as [|g']; [lia|]. cbn [map List.concat app read_joins].
    destruct rest as [|[x|k|s|a'|c|z] r0]; cbn in Hs; try contradiction; try reflexivity.
    destruct k; cbn in Hs; try lia; reflexivity.
  - inversion Hd as [|x l Dc Dr]; subst. cbn [snd] in Dc.
    destruct (IH rest Dr Hs) as [F1 H1].
    assert (JT : joins_tail (List.concat (map join_stoks js) ++ rest)).
    { apply joins_tail_concat. destruct rest as [|[x|k|s|a'|c'|z] r0]; cbn in Hs |- *; try contradiction; auto.
      repeat split; try lia; destruct k; cbn in Hs; try lia; discriminate. }
    set (TL := List.concat (map join_stoks js) ++ rest) in *.
    cbn [map List.concat]. rewrite <- app_assoc. fold TL.
    destruct c as [e|cs|]; cbn [join_stoks jc_ok] in *.
    + destruct (read_expr_ok e TL Dc (joins_tail_stop _ JT)) as [F HF].
      exists (S (max F F1)). intros g f Hg Hf. destruct g as [|g']; [lia|].
      cbn [app read_joins]. rewrite (HF f) by lia. rewrite (H1 g' f) by lia. reflexivity.
    + exists (S F1). intros g f Hg Hf. destruct g as [|g']; [lia|].
      cbn [app read_joins]. rewrite <- app_assoc. cbn [app]. rewrite (read_cols_ok cs TL Dc).
      destruct cs as [|c0 cs']; [congruence|]. rewrite (H1 g' f) by lia. reflexivity.
    + exists (S F1). intros g f Hg Hf. destruct g as [|g']; [lia|].
      cbn [app]. rewrite (read_joins_none g' f p t TL JT). rewrite (H1 g' f) by lia. reflexivity.
Qed.

(* ------------------------------------------------------------------------------------------- *)
(* optional clauses                                                                              *)
(* ------------------------------------------------------------------------------------------- *)
Lemma opt_kw_miss {A} k (rd : list stok -> option (A * list stok)) dflt s :
  starts_after (kw_rank k) s -> opt_kw k rd dflt s = Some (dflt, s).
Proof.
  destruct s as [|[x|k'|s'|a'|c'|z] r0]; cbn; try contradiction; auto.
  intros H. destruct (skw_eqb k' k) eqn:E; [|reflexivity].
  exfalso. destruct k', k; cbn in E, H; try discriminate; lia.
Qed.
Lemma skw_eqb_refl k : skw_eqb k k = true.
Proof. destruct k; cbn; auto. apply String.eqb_refl. Qed.
Lemma opt_kw_hit {A} k (rd : list stok -> option (A * list stok)) dflt r : opt_kw k rd dflt (SK k :: r) = rd r.
Proof. cbn. rewrite skw_eqb_refl. reflexivity. Qed.

(* tails of the statement start with a later clause keyword (or end) *)
Lemma page_starts l o n : n < 8 -> starts_after n (page_stoks l o).
Proof. destruct l, o; cbn; auto. Qed.
Lemma orders_starts os rest n : n < 7 -> starts_after n rest -> starts_after n (orders_stoks os ++ rest).
Proof. destruct os; cbn; auto. Qed.
Lemma opt_starts k o rest n : n < kw_rank k -> starts_after n rest -> starts_after n (opt_stoks k o ++ rest).
Proof. destruct o; cbn; auto. Qed.
Lemma group_starts gs rest n : n < 5 -> starts_after n rest -> starts_after n (group_stoks gs ++ rest).
Proof. destruct gs; cbn; auto. Qed.
Lemma joins_starts js rest n : n < 3 -> starts_after n rest -> starts_after n (List.concat (map join_stoks js) ++ rest).
Proof.
  destruct js as [|j js]; [auto|]. intros Hn _. cbn [map List.concat].
  destruct (join_stoks_head j) as [p [t [r ->]]]. cbn. lia.
Qed.
Lemma from_starts fr rest n : n < 2 -> starts_after n rest -> starts_after n (from_stoks fr ++ rest).
Proof. destruct fr; cbn; auto. Qed.

(* ------------------------------------------------------------------------------------------- *)
(* THE THEOREM: reading the printed statement gives back the statement                           *)
(* ------------------------------------------------------------------------------------------- *)
Theorem read_print_select a : ast_ok a ->
  exists F, forall f, F <= f -> read_select f (ast_toks a) = Some a.
Proof.
  intros [Hne [Hit [Hj [Hw [Hg [Hh [Ho Hp]]]]]]].
  destruct a as [d its fr js wh gs hv os l o]. cbn [a_distinct a_items a_from a_joins a_where a_group a_having a_order a_limit a_offset] in *.
  unfold ast_toks. cbn [a_distinct a_items a_from a_joins a_where a_group a_having a_order a_limit a_offset].
  (* the tails *)
  set (T8 := page_stoks l o).
  set (T7 := orders_stoks os ++ T8).
  set (T6 := opt_stoks KHaving hv ++ T7).
  set (T5 := group_stoks gs ++ T6).
  set (T4 := opt_stoks KWhere wh ++ T5).
  set (T3 := List.concat (map join_stoks js) ++ T4).
  set (T2 := from_stoks fr ++ T3).
  assert (S8 : forall n, n < 8 -> starts_after n T8) by (intros; apply page_starts; auto).
  assert (S7 : forall n, n < 7 -> starts_after n T7) by (intros; apply orders_starts; auto; apply S8; lia).
  assert (S6 : forall n, n < 6 -> starts_after n T6) by (intros; apply opt_starts; cbn; auto; apply S7; lia).
  assert (S5 : forall n, n < 5 -> starts_after n T5) by (intros; apply group_starts; auto; apply S6; lia).
  assert (S4 : forall n, n < 4 -> starts_after n T4) by (intros; apply opt_starts; cbn; auto; apply S5; lia).
  assert (S3 : forall n, n < 3 -> starts_after n T3) by (intros; apply joins_starts; auto; apply S4; lia).
  assert (S2 : forall n, n < 2 -> starts_after n T2) by (intros; apply from_starts; auto; apply S3; lia).
  (* the fuel of every list / expression *)
  destruct (read_sel_items_ok its T2 1 Hne Hit (S2 1 ltac:(lia))) as [F1 R1].
  destruct (read_joins_ok js T4 Hj (S4 3 ltac:(lia))) as [F3 R3].
  assert (R4 : exists F4, forall f, F4 <= f -> opt_kw KWhere (read_one f) None T4 = Some (wh, T5)).
  { unfold T4. destruct wh as [e|]; cbn [opt_stoks app].
    - destruct (read_expr_ok e T5 Hw (starts_after_stop _ _ (S5 4 ltac:(lia)))) as [F HF].
      exists F. intros f Hf. rewrite opt_kw_hit. unfold read_one. rewrite (HF f Hf). reflexivity.
    - exists 0. intros f _. apply opt_kw_miss. apply S5. cbn. lia. }
  destruct R4 as [F4 R4].
  assert (R5 : exists F5, forall f, F5 <= f -> opt_kw KGroupBy (read_exprs f f) [] T5 = Some (gs, T6)).
  { unfold T5. destruct gs as [|g0 gs'].
    - exists 0. intros f _. cbn [group_stoks app]. apply opt_kw_miss. apply S6. cbn. lia.
    - destruct (read_exprs_ok (g0 :: gs') T6 5 ltac:(discriminate) Hg (S6 5 ltac:(lia))) as [F HF].
      exists F. intros f Hf. unfold group_stoks. cbn [app]. rewrite opt_kw_hit. apply HF; auto. }
  destruct R5 as [F5 R5].
  assert (R6 : exists F6, forall f, F6 <= f -> opt_kw KHaving (read_one f) None T6 = Some (hv, T7)).
  { unfold T6. destruct hv as [e|]; cbn [opt_stoks app].
    - destruct (read_expr_ok e T7 Hh (starts_after_stop _ _ (S7 6 ltac:(lia)))) as [F HF].
      exists F. intros f Hf. rewrite opt_kw_hit. unfold read_one. rewrite (HF f Hf). reflexivity.
    - exists 0. intros f _. apply opt_kw_miss. apply S7. cbn. lia. }
  destruct R6 as [F6 R6].
  assert (R7 : exists F7, forall f, F7 <= f -> opt_kw KOrderBy (read_orders f f) [] T7 = Some (os, T8)).
  { unfold T7. destruct os as [|o0 os'].
    - exists 0. intros f _. cbn [orders_stoks app]. apply opt_kw_miss. apply S8. cbn. lia.
    - destruct (read_orders_ok (o0 :: os') T8 7 ltac:(lia) ltac:(discriminate) Ho (S8 7 ltac:(lia))) as [F HF].
      exists F. intros f Hf. unfold orders_stoks. cbn [app]. rewrite opt_kw_hit. apply HF; auto. }
  destruct R7 as [F7 R7].
  exists (F1 + F3 + F4 + F5 + F6 + F7). intros f Hf.
  unfold read_select.
  (* DISTINCT *)
  assert (RD : opt_kw KDistinct (fun r => Some (true, r)) false
                 ((if d then [SK KDistinct] else []) ++ commas (map item_stoks its) ++ T2)
               = Some (d, commas (map item_stoks its) ++ T2)).
  { destruct d; cbn [app]; [rewrite opt_kw_hit; reflexivity|].
    destruct its as [|[e0 a0] its']; [congruence|].
    destruct (e_stoks_first e0) as [t0 [r0 E0]].
    assert (Hhead : exists r, commas (map item_stoks ((e0, a0) :: its')) ++ T2 = SE t0 :: r).
    { destruct its' as [|i2 its2]; cbn [map]; [rewrite commas_one | rewrite commas_cons2];
        unfold item_stoks at 1; cbn [fst snd]; destruct a0; rewrite E0; cbn; eauto. }
    destruct Hhead as [r ->]. reflexivity. }
  rewrite RD. cbn [obind snd fst].
  rewrite (R1 f f) by lia. cbn [obind snd fst].
  (* FROM *)
  assert (RF : opt_kw KFrom read_from [] T2 = Some (fr, T3)).
  { unfold T2. destruct fr as [|t0 fr'].
    - cbn [from_stoks app]. apply opt_kw_miss. apply S3. cbn. lia.
    - unfold from_stoks. cbn [app]. rewrite opt_kw_hit. unfold read_from.
      rewrite (read_srcs_ok (t0 :: fr') T3 2 ltac:(discriminate) (S3 2 ltac:(lia))). reflexivity. }
  rewrite RF. cbn [obind snd fst].
  unfold T3. rewrite (R3 f f) by lia. cbn [obind snd fst].
  rewrite (R4 f) by lia. cbn [obind snd fst].
  rewrite (R5 f) by lia. cbn [obind snd fst].
  rewrite (R6 f) by lia. cbn [obind snd fst].
  rewrite (R7 f) by lia. cbn [obind snd fst].
  unfold T8. destruct l as [n|]; [destruct o as [m|]|]; cbn; try reflexivity.
  rewrite (Hp eq_refl). reflexivity.
Qed.
