(* ParamSim.v — the simulation between rendering with a collector and rendering inline.

   [sim st st' tp ti]: the parameterised tokens [tp] and the inline tokens [ti] agree token for token, except that
   where [ti] has a value literal, [tp] may have the collector's placeholder; in that case the collector, being in
   state [st], wrote the placeholder for index [length st] and stored what it stores for that literal.  [st'] is
   the collector state after the whole segment.  The main lemma (by mutual induction over terms) says that
   [render_t (Some sty)] and [render_t None] are related in this way, and raise the same exceptions. *)
From Coq Require Import Lia.
From PV Require Import Base Crit gen.TermsTable Terms gen.C06Table Param lemmas.ParamInline.
Local Open Scope list_scope.

Section Sim.
Variable isf : string -> bool.
Variable sty : style.
Variable chk : lit -> bool.

Definition put (st : pstate) (l : lit) : pstate :=
  collect sty st (param_key sty (ph_text sty (List.length st))) (coll isf l).

Inductive sim : pstate -> pstate -> list tok -> list tok -> Prop :=
| sim_nil st : sim st st [] []
| sim_same x st st' tp ti : is_auto x = false -> sim st st' tp ti -> sim st st' (x :: tp) (x :: ti)
| sim_auto l txt st st' tp ti :
    txt <> "" -> chk l = true -> sim (put st l) st' tp ti ->
    sim st st' (KAuto (List.length st) (ph_text sty (List.length st)) :: tp) (KLit l txt :: ti).

Inductive siml : pstate -> pstate -> list (list tok) -> list (list tok) -> Prop :=
| siml_nil st : siml st st [] []
| siml_cons st st1 st2 a a' r r' : sim st st1 a a' -> siml st1 st2 r r' -> siml st st2 (a :: r) (a' :: r').

Lemma sim_app a b c x x' y y' : sim a b x x' -> sim b c y y' -> sim a c (x ++ y) (x' ++ y').
Proof. induction 1; intros; cbn [app]; [assumption|apply sim_same; auto|apply sim_auto; auto]. Qed.
Lemma sim_refl st ts : no_auto ts = true -> sim st st ts ts.
Proof.
  induction ts as [|t r IH]; [constructor|]. rewrite no_auto_cons. intros H. apply andb_prop in H. destruct H as [Ht Hr].
  apply sim_same; [destruct (is_auto t); [discriminate|reflexivity]|auto].
Qed.
Lemma sim_ktxt s st st' tp ti : sim st st' tp ti -> sim st st' (KTxt s :: tp) (KTxt s :: ti).
Proof. apply sim_same. reflexivity. Qed.
Lemma sim_parl b st st' tp ti : sim st st' tp ti -> sim st st' (parl b tp) (parl b ti).
Proof.
  intros H. destruct b; cbn [parl]; [|assumption]. apply sim_ktxt. eapply sim_app; [eassumption|]. apply sim_ktxt, sim_nil.
Qed.
Lemma sim_aliased b c qc alias st st' tp ti : sim st st' tp ti -> sim st st' (aliased b c qc tp alias) (aliased b c qc ti alias).
Proof.
  intros H. destruct b; cbn [aliased]; [|assumption]. eapply sim_app; [eassumption|]. apply sim_refl, no_auto_alias_toks.
Qed.
Lemma sim_jointoks sep st st' tps tis : siml st st' tps tis -> sim st st' (jointoks sep tps) (jointoks sep tis).
Proof.
  induction 1 as [|st st1 st2 a a' r r' Ha Hr IH]; [constructor|].
  destruct Hr as [|? ? ? b b' r2 r2' Hb Hr2].
  - exact Ha.
  - change (jointoks sep (a :: b :: r2)) with (a ++ KTxt sep :: jointoks sep (b :: r2)).
    change (jointoks sep (a' :: b' :: r2')) with (a' ++ KTxt sep :: jointoks sep (b' :: r2')).
    eapply sim_app; [eassumption|]. apply sim_ktxt, IH.
Qed.

(* texts *)
Lemma sapp_empty (a b : string) : (a ++ b)%string = "" <-> a = "" /\ b = "".
Proof. destruct a; cbn; split; [auto|intros [_ H]; exact H|discriminate|intros [H _]; discriminate]. Qed.
Lemma ph_text_nonempty n : ph_text sty n <> "".
Proof. destruct sty; cbn; discriminate. Qed.
Lemma sim_empty_iff st st' tp ti : sim st st' tp ti -> (flatten tp = "" <-> flatten ti = "").
Proof.
  induction 1 as [|x st st' tp ti Hx H IH|l txt st st' tp ti Ht Hc H IH]; [tauto| |].
  - rewrite !flatten_cons, !sapp_empty. tauto.
  - rewrite !flatten_cons, !sapp_empty. cbn [tok_text]. pose proof (ph_text_nonempty (List.length st)). tauto.
Qed.

(* ---- modulo the sign-protecting parentheses ---- *)
(* [simE]: the simulation holds between the two token sequences with the KGuard tokens erased, and the two texts are
   empty together (the PostgreSQL Array renderer looks at that) *)
Definition simE (st st' : pstate) (tp ti : list tok) : Prop :=
  sim st st' (unguard tp) (unguard ti) /\ (flatten tp = "" <-> flatten ti = "").

Inductive simlE : pstate -> pstate -> list (list tok) -> list (list tok) -> Prop :=
| simlE_nil st : simlE st st [] []
| simlE_cons st st1 st2 a a' r r' : simE st st1 a a' -> simlE st1 st2 r r' -> simlE st st2 (a :: r) (a' :: r').

Lemma unguard_app a b : unguard (a ++ b) = unguard a ++ unguard b.
Proof. apply filter_app. Qed.
Lemma no_auto_unguard l : no_auto l = true -> no_auto (unguard l) = true.
Proof.
  induction l as [|t r IH]; [reflexivity|]. rewrite no_auto_cons. intros H. apply andb_prop in H. destruct H as [Ht Hr].
  cbn [unguard filter]. destruct (negb (is_guard t)); [|apply IH, Hr]. fold (unguard r). rewrite no_auto_cons, Ht, (IH Hr). reflexivity.
Qed.
Lemma flatten_app_empty a b : flatten (a ++ b) = "" <-> flatten a = "" /\ flatten b = "".
Proof. rewrite flatten_app. apply sapp_empty. Qed.

Lemma simE_nil st : simE st st [] [].
Proof. split; [constructor|tauto]. Qed.
Lemma simE_app a b c x x' y y' : simE a b x x' -> simE b c y y' -> simE a c (x ++ y) (x' ++ y').
Proof.
  intros [S1 E1] [S2 E2]. split; [rewrite !unguard_app; eapply sim_app; eassumption|].
  rewrite !flatten_app_empty. tauto.
Qed.
Lemma simE_ktxt s st st' tp ti : simE st st' tp ti -> simE st st' (KTxt s :: tp) (KTxt s :: ti).
Proof.
  intros [S E]. split; [cbn [unguard filter is_guard negb]; apply sim_ktxt, S|].
  rewrite !flatten_cons, !sapp_empty. tauto.
Qed.
Lemma simE_refl st ts : no_auto ts = true -> simE st st ts ts.
Proof. intros H. split; [apply sim_refl, no_auto_unguard, H|tauto]. Qed.
Lemma simE_parl b st st' tp ti : simE st st' tp ti -> simE st st' (parl b tp) (parl b ti).
Proof.
  intros H. destruct b; cbn [parl]; [|assumption]. apply simE_ktxt. eapply simE_app; [eassumption|]. apply simE_ktxt, simE_nil.
Qed.
Lemma simE_opndl sl t st st' tp ti : simE st st' tp ti -> simE st st' (opndl sl t tp) (opndl sl t ti).
Proof. apply simE_parl. Qed.
Lemma simE_aliased b c qc alias st st' tp ti : simE st st' tp ti -> simE st st' (aliased b c qc tp alias) (aliased b c qc ti alias).
Proof.
  intros H. destruct b; cbn [aliased]; [|assumption]. eapply simE_app; [eassumption|]. apply simE_refl, no_auto_alias_toks.
Qed.
Lemma starts_minus_nonempty s : starts_minus s = true -> s <> "".
Proof. destruct s; [discriminate|]. intros _. discriminate. Qed.
Lemma unguard_gparl b l : unguard (gparl b l) = unguard l.
Proof.
  destruct b; cbn [gparl]; [|reflexivity]. cbn [unguard filter is_guard negb]. fold (unguard (l ++ [KGuard ")"])).
  rewrite unguard_app. cbn. apply app_nil_r.
Qed.
(* the text-dependent parentheses may be present on one side only *)
Lemma simE_gparl k st st' tp ti : simE st st' tp ti ->
  simE st st' (gparl (k && starts_minus (flatten tp)) tp) (gparl (k && starts_minus (flatten ti)) ti).
Proof.
  intros [S E]. split; [rewrite !unguard_gparl; exact S|].
  destruct k; cbn [andb]; [|exact E].
  destruct (starts_minus (flatten tp)) eqn:Mp, (starts_minus (flatten ti)) eqn:Mi; cbn [gparl]; try exact E.
  - rewrite !flatten_cons. cbn [tok_text]. split; discriminate.
  - apply starts_minus_nonempty in Mp. rewrite flatten_cons. cbn [tok_text]. split; [discriminate|]. intros H. exfalso. tauto.
  - apply starts_minus_nonempty in Mi. rewrite flatten_cons. cbn [tok_text]. split; [|discriminate]. intros H. exfalso. tauto.
Qed.
Lemma simE_wrap2 a k st st' tp ti : simE st st' tp ti ->
  simE st st' (wrap2 a (k && starts_minus (flatten tp)) tp) (wrap2 a (k && starts_minus (flatten ti)) ti).
Proof. intros H. destruct a; cbn [wrap2]; [apply (simE_parl true), H|apply simE_gparl, H]. Qed.
Lemma simE_jointoks sep st st' tps tis : simlE st st' tps tis -> simE st st' (jointoks sep tps) (jointoks sep tis).
Proof.
  induction 1 as [|st st1 st2 a a' r r' Ha Hr IH]; [apply simE_nil|].
  destruct Hr as [|? ? ? b b' r2 r2' Hb Hr2].
  - exact Ha.
  - change (jointoks sep (a :: b :: r2)) with (a ++ KTxt sep :: jointoks sep (b :: r2)).
    change (jointoks sep (a' :: b' :: r2')) with (a' ++ KTxt sep :: jointoks sep (b' :: r2')).
    eapply simE_app; [eassumption|]. apply simE_ktxt, IH.
Qed.
Lemma flatten_unguard_empty l : flatten l = "" -> flatten (unguard l) = "".
Proof.
  induction l as [|t r IH]; [reflexivity|]. rewrite flatten_cons, sapp_empty. intros [Ht Hr].
  cbn [unguard filter]. destruct (negb (is_guard t)); [|apply IH, Hr]. fold (unguard r). rewrite flatten_cons, Ht, (IH Hr). reflexivity.
Qed.
(* a segment with empty text leaves the collector alone *)
Lemma sim_empty_state st st' tp ti : sim st st' tp ti -> flatten tp = "" -> st' = st.
Proof.
  induction 1 as [|x st st' tp ti Hx H IH|l txt st st' tp ti Ht Hc H IH]; intros E; [reflexivity| |].
  - rewrite flatten_cons in E. apply sapp_empty in E. apply IH. tauto.
  - rewrite flatten_cons in E. apply sapp_empty in E. cbn [tok_text] in E. destruct E as [E _].
    exfalso. exact (ph_text_nonempty _ E).
Qed.

(* ---- relation between the two runs ---- *)
Definition relS {A} (S : pstate -> pstate -> A -> A -> Prop) (st0 st : pstate) (ri rp : res (A * pstate)) : Prop :=
  match ri, rp with
  | Ok (ai, s0), Ok (ap, st') => s0 = st0 /\ S st st' ap ai
  | Err e, Err e' => e = e'
  | _, _ => False
  end.

Lemma relS_bind {A A2} (S : pstate -> pstate -> A -> A -> Prop) (S2 : pstate -> pstate -> A2 -> A2 -> Prop)
      st0 st sta ri rp Ki Kp :
  relS S st0 sta ri rp ->
  (forall ai ap stb, S sta stb ap ai -> relS S2 st0 st (Ki ai st0) (Kp ap stb)) ->
  relS S2 st0 st (tbind ri Ki) (tbind rp Kp).
Proof.
  unfold relS at 1. destruct ri as [[ai s0]|e], rp as [[ap st']|e']; try contradiction.
  - intros [-> HS] HK. cbn [tbind]. apply HK, HS.
  - intros -> _. reflexivity.
Qed.
Lemma relS_ret {A} (S : pstate -> pstate -> A -> A -> Prop) st0 st st' ai ap :
  S st st' ap ai -> relS S st0 st (ret ai st0) (ret ap st').
Proof. intros. cbn. auto. Qed.

Definition PtB (t : term) := forall c st0 st, vals_ok chk (truthy_ostr (sq c)) t = true ->
  relS simE st0 st (render_t isf None c t st0) (render_t isf (Some sty) c t st).
Definition PlB (l : tlist) := forall c st0 st, vals_ok_l chk (truthy_ostr (sq c)) l = true ->
  relS simlE st0 st (render_tl isf None c l st0) (render_tl isf (Some sty) c l st).
Definition PwB (l : wlist) := forall c st0 st, vals_ok_w chk (truthy_ostr (sq c)) l = true ->
  relS simlE st0 st (render_tw isf None c l st0) (render_tw isf (Some sty) c l st).
Definition PoB (o : oterm) := match o with ONone => True | OSome t => PtB t end.

Lemma opaque_relS c t st0 st : relS simE st0 st (opaque c t st0) (opaque c t st).
Proof. unfold opaque. destruct (render c t); cbn; auto. split; [reflexivity|]. apply simE_ktxt, simE_nil. Qed.

Lemma val_leaf_relS c l txt alias st0 st : txt <> "" -> chk l = true ->
  relS simE st0 st (val_leaf isf None c l txt alias st0) (val_leaf isf (Some sty) c l txt alias st).
Proof.
  intros Ht Hc. cbn [val_leaf]. apply relS_ret.
  change (KAuto (List.length st) (ph_text sty (List.length st)) :: alias_toks c (q c) alias)
    with ([KAuto (List.length st) (ph_text sty (List.length st))] ++ alias_toks c (q c) alias).
  change (KLit l txt :: alias_toks c (q c) alias) with ([KLit l txt] ++ alias_toks c (q c) alias).
  eapply simE_app; [|apply simE_refl, no_auto_alias_toks].
  split; [cbn; apply sim_auto; [exact Ht|exact Hc|constructor]|].
  rewrite !flatten_cons, !sapp_empty. cbn [tok_text]. pose proof (ph_text_nonempty (List.length st)). tauto.
Qed.

Lemma sq_opc sl t c : sq (opc sl t c) = sq c.
Proof. unfold opc. destruct (operand_parens sl (okind_of t) && negb operand_keeps_subc); reflexivity. Qed.

Lemma Z_to_string_nonempty z : Z_to_string z <> "".
Proof.
  unfold Z_to_string. destruct (Z.to_int z) as [d|d]; cbn; [|discriminate].
  destruct d; cbn; discriminate.
Qed.
Lemma fq_nonempty (qo : option string) s : truthy_ostr qo || negb (String.eqb s "") = true -> fq qo (double_quote qo s) <> "".
Proof.
  unfold fq. destruct qo as [[|a r]|]; cbn [truthy_ostr ostr orb double_quote].
  - cbn. destruct s; cbn; [discriminate|]. intros _. discriminate.
  - intros _. cbn. discriminate.
  - cbn. destruct s; cbn; [discriminate|]. intros _. discriminate.
Qed.

Ltac hyps := repeat match goal with H : _ && _ = true |- _ => apply andb_prop in H; destruct H end.
Ltac stepB IH := eapply relS_bind; [apply IH; rewrite ?sq_opc; assumption | intros ? ? ? ?].
Ltac simsolve :=
  repeat first [ eassumption
               | apply simE_nil
               | apply simE_aliased
               | apply simE_opndl
               | apply simE_wrap2
               | apply simE_parl
               | apply simE_ktxt
               | apply simE_jointoks
               | eapply simE_app ].
Ltac finB := apply relS_ret; simsolve.

Lemma sim_all : (forall t, PtB t) /\ (forall l, PlB l) /\ (forall l, PwB l) /\ (forall o, PoB o).
Proof.
  apply term_all_ind6; unfold PtB, PlB, PwB, PoB.
  - (* TField *) intros. apply opaque_relS.
  - (* TStar *) intros. apply opaque_relS.
  - (* TValS *) intros s alias c st0 st H. cbn [vals_ok] in H. hyps. apply val_leaf_relS; [apply fq_nonempty|]; assumption.
  - (* TValI *) intros z alias c st0 st H. cbn [vals_ok] in H. apply val_leaf_relS; [apply Z_to_string_nonempty|exact H].
  - (* TValB *) intros b sl alias c st0 st H. cbn [vals_ok] in H. apply val_leaf_relS; [destruct sl, b; discriminate|exact H].
  - (* TValNone *) intros alias c st0 st H. cbn [vals_ok] in H. apply val_leaf_relS; [discriminate|exact H].
  - (* TValRaw *) intros txt alias c st0 st H. cbn [vals_ok] in H. hyps. apply val_leaf_relS; [|assumption].
    intros ->. discriminate.
  - (* TLit *) intros. apply opaque_relS.
  - (* TParam *) intros. cbn [render_t]. apply relS_ret. apply simE_refl. reflexivity.
  - (* TNeg *) intros t IH c st0 st H. cbn [vals_ok] in H. cbn [render_t]. stepB IH. finB.
  - (* TArith *) intros op l IHl r IHr alias c st0 st H. cbn [vals_ok] in H. hyps. cbn [render_t]. unfold arith_left_first.
    stepB IHl. stepB IHr. apply relS_ret. apply simE_aliased. eapply simE_app; [apply simE_parl, simE_opndl; eassumption|].
    apply simE_ktxt. rewrite <- !andb_assoc.
    apply (simE_wrap2 (right_needs_parens op (top_op r)) (sub_parens_minus && match op with OSub => true | _ => false end)).
    apply simE_opndl. eassumption.
  - (* TBasic *) intros cm l IHl r IHr alias c st0 st H. cbn [vals_ok] in H. hyps. cbn [render_t]. stepB IHl. stepB IHr. finB.
  - (* TCplx *) intros bo l IHl r IHr alias c st0 st H. cbn [vals_ok] in H. hyps. cbn [render_t]. stepB IHl. stepB IHr. finB.
  - (* TIn *) intros t IHt cont IHc negated alias c st0 st H. cbn [vals_ok] in H. hyps. cbn [render_t]. stepB IHt. stepB IHc. finB.
  - (* TBetween *) intros t IHt lo IHlo hi IHhi alias c st0 st H. cbn [vals_ok] in H. hyps. cbn [render_t].
    stepB IHt. stepB IHlo. stepB IHhi. finB.
  - (* TBitAnd *) intros t IHt v alias c st0 st H. cbn [vals_ok] in H. cbn [render_t]. stepB IHt. finB.
  - (* TIsNull *) intros t IHt alias c st0 st H. cbn [vals_ok] in H. cbn [render_t]. stepB IHt. finB.
  - (* TNotNull *) intros t IHt alias c st0 st H. cbn [vals_ok] in H. cbn [render_t]. stepB IHt. finB.
  - (* TNot *) intros t IHt alias c st0 st H. cbn [vals_ok] in H. cbn [render_t]. stepB IHt. finB.
  - (* TAll *) intros t IHt alias c st0 st H. cbn [vals_ok] in H. cbn [render_t]. stepB IHt. finB.
  - (* TEmpty *) intros. apply opaque_relS.
  - (* TCase *) intros ws IHw els IHe alias c st0 st H. cbn [vals_ok] in H. hyps. cbn [render_t].
    destruct ws as [|cr v r]; [reflexivity|]. stepB IHw. destruct els as [|t'].
    + cbn [tbind ret]. finB.
    + cbn in IHe. eapply (relS_bind simE simE).
      * eapply relS_bind; [apply IHe; assumption|intros ? ? ? ?]. apply relS_ret. apply simE_ktxt. eassumption.
      * intros ei ep stc Hs. finB.
  - (* TFunc *) intros name args _ special alias c st0 st _. cbn [render_t].
    destruct (render_tl isf None (fctx c) args []) as [[tss s']|e] eqn:E; [|reflexivity].
    apply inline_list_ok in E. destruct E as [_ Hn].
    apply relS_ret. apply simE_aliased. apply simE_refl.
    rewrite no_auto_cons, no_auto_app, (no_auto_jointoks _ _ Hn). reflexivity.
  - (* TTuple *) intros vs IHv alias c st0 st H. cbn [vals_ok] in H. cbn [render_t]. stepB IHv. finB.
  - (* TArray *) intros vs IHv alias c st0 st H. cbn [vals_ok] in H. cbn [render_t]. stepB IHv.
    apply relS_ret. apply simE_aliased.
    assert (Hj : simE st stb (jointoks "," ap) (jointoks "," ai)) by (apply simE_jointoks; assumption).
    destruct (is_pg (dia c)).
    + destruct Hj as [Hs Hiff].
      destruct (flatten (jointoks "," ap)) eqn:Ep, (flatten (jointoks "," ai)) eqn:Ei.
      * (* both empty: nothing was collected *)
        rewrite (sim_empty_state _ _ _ _ Hs (flatten_unguard_empty _ Ep)). apply simE_refl. reflexivity.
      * exfalso. destruct Hiff as [Hf _]. specialize (Hf eq_refl). discriminate.
      * exfalso. destruct Hiff as [_ Hf]. specialize (Hf eq_refl). discriminate.
      * assert (Hj : simE st stb (jointoks "," ap) (jointoks "," ai)) by (split; [exact Hs|rewrite Ep, Ei; exact Hiff]).
        simsolve.
    + simsolve.
  - (* TSub *) intros. apply opaque_relS.
  - (* TNil *) intros. cbn [render_tl]. apply relS_ret. constructor.
  - (* TCons *) intros t IHt r IHr c st0 st H. cbn [vals_ok_l] in H. hyps. cbn [render_tl]. stepB IHt. stepB IHr.
    apply relS_ret. econstructor; eassumption.
  - (* WNil *) intros. cbn [render_tw]. apply relS_ret. constructor.
  - (* WCons *) intros cr IHc v IHv r IHr c st0 st H. cbn [vals_ok_w] in H. hyps. cbn [render_tw].
    stepB IHc. stepB IHv. stepB IHr. apply relS_ret. econstructor; [|eassumption]. simsolve.
  - (* ONone *) exact I.
  - (* OSome *) intros t IH. exact IH.
Qed.

Theorem sim_term c t st0 st : vals_ok chk (truthy_ostr (sq c)) t = true ->
  relS simE st0 st (render_t isf None c t st0) (render_t isf (Some sty) c t st).
Proof. apply (proj1 sim_all). Qed.

End Sim.
