(* SelectFrag.v — C04: on the fragment, the token view of a flat statement is the print of the abstract statement it
   denotes, whose expressions are the (normalised) trees of the specified terms and are dominated; with
   SelectReader.read_print_select this gives the reader theorem for specifications. *)
From PV Require Import Base Crit gen.TermsTable Terms Page gen.QueryTable Query Parse lemmas.ParseMono lemmas.ParsePrint.
From PV Require Import C02Model C02Frag lemmas.C02Lemmas lemmas.C02Univ lemmas.C02Final gen.C04Table Select lemmas.SelectReader.
From Coq Require Import Lia Arith.
Local Open Scope list_scope.

Lemma sqlite_engine : In sqlite engines.
Proof. cbn. auto. Qed.

(* one expression of the fragment *)
Lemma frag_expr c t : frag02 c t = true ->
  exists e, rtoks c t = Some (pr impl_pol (norm e)) /\ to_expr c t = Some e /\ domq (norm e) = true.
Proof.
  unfold frag02. destruct (rtoks c t) as [ts|] eqn:R; [|discriminate]. destruct (to_expr c t) as [e|] eqn:X; [|discriminate].
  intros H. apply andb_prop in H as [H _]. apply andb_prop in H as [H Hclean]. apply andb_prop in H as [Hsubc Hnl].
  apply negb_true_iff in Hsubc.
  destruct (tokens_are_printed c t ts e R X Hsubc Hnl) as [-> _].
  exists e. repeat split.
  - rewrite pr_norm. reflexivity.
  - apply clean_dominated; [exact sqlite_engine | exact Hclean].
Qed.

Lemma frag_etoks c t : frag02 c t = true ->
  exists e, etoks c t = Some (e_stoks e) /\ eexpr c t = Some e /\ domq e = true.
Proof.
  intros H. destruct (frag_expr c t H) as [e [R [X D]]]. exists (norm e).
  unfold etoks, eexpr, e_stoks. rewrite R, X. auto.
Qed.

Lemma frag_gitem c g : gitem_frag c g = true ->
  exists e, gitem_toks c g = Some (e_stoks e) /\ gitem_expr c g = Some e /\ domq e = true.
Proof.
  destruct g as [a|t]; cbn [gitem_frag gitem_toks gitem_expr].
  - intros _. exists (EAtom (fq dq a)). repeat split.
  - apply frag_etoks.
Qed.

(* lists *)
Lemma all_some_cons {A} (x : option A) l a r : x = Some a -> all_some l = Some r -> all_some (x :: l) = Some (a :: r).
Proof. intros -> H. cbn. rewrite H. reflexivity. Qed.

Lemma frag_items c its : forallb (fun it => frag02 c (fst it)) its = true ->
  exists l, all_some (map (item_toks c) its) = Some (map item_stoks l)
    /\ all_some (map (fun it => option_map (fun e => (e, snd it)) (eexpr c (fst it))) its) = Some l
    /\ Forall (fun it => domq (fst it) = true) l /\ List.length l = List.length its.
Proof.
  induction its as [|[t a] its IH]; cbn [forallb map].
  - intros _. exists []. repeat split; constructor.
  - intros H. apply andb_prop in H as [Ht Hr]. destruct (IH Hr) as [l [L1 [L2 [L3 L4]]]].
    destruct (frag_etoks c t Ht) as [e [E1 [E2 E3]]]. cbn [fst] in *.
    exists ((e, a) :: l). repeat split.
    + apply all_some_cons; [|exact L1]. unfold item_toks, item_stoks. cbn [fst snd]. rewrite E1. destruct a; reflexivity.
    + apply all_some_cons; [|exact L2]. cbn [fst snd]. rewrite E2. reflexivity.
    + constructor; auto.
    + cbn. congruence.
Qed.

Lemma frag_gitems c gs : forallb (gitem_frag c) gs = true ->
  exists l, all_some (map (gitem_toks c) gs) = Some (map e_stoks l)
    /\ all_some (map (gitem_expr c) gs) = Some l /\ Forall (fun e => domq e = true) l /\ List.length l = List.length gs.
Proof.
  induction gs as [|g gs IH]; cbn [forallb map].
  - intros _. exists []. repeat split; constructor.
  - intros H. apply andb_prop in H as [Ht Hr]. destruct (IH Hr) as [l [L1 [L2 [L3 L4]]]].
    destruct (frag_gitem c g Ht) as [e [E1 [E2 E3]]].
    exists (e :: l). repeat split.
    + apply all_some_cons; auto.
    + apply all_some_cons; auto.
    + constructor; auto.
    + cbn. congruence.
Qed.

Lemma frag_orders c os : forallb (fun od => gitem_frag c (fst od)) os = true ->
  exists l, all_some (map (order_toks c) os) = Some (map order_stoks l)
    /\ all_some (map (fun od => option_map (fun e => (e, snd od)) (gitem_expr c (fst od))) os) = Some l
    /\ Forall (fun od => domq (fst od) = true) l /\ List.length l = List.length os.
Proof.
  induction os as [|[g d] os IH]; cbn [forallb map].
  - intros _. exists []. repeat split; constructor.
  - intros H. apply andb_prop in H as [Ht Hr]. destruct (IH Hr) as [l [L1 [L2 [L3 L4]]]]. cbn [fst] in Ht.
    destruct (frag_gitem c g Ht) as [e [E1 [E2 E3]]].
    exists ((e, d) :: l). repeat split.
    + apply all_some_cons; [|exact L1]. unfold order_toks, order_stoks. cbn [fst snd]. rewrite E1. destruct d as [[|]|]; reflexivity.
    + apply all_some_cons; [|exact L2]. cbn [fst snd]. rewrite E2. reflexivity.
    + constructor; auto.
    + cbn. congruence.
Qed.

Lemma frag_joins w js :
  forallb (fun j => match snd j with FOn e => frag02 (sq_ci w false true) e | FUsing (_ :: _) => true | FUsing [] => false | FNone => true end) js = true ->
  exists l, all_some (map (join_toks w) js) = Some (map join_stoks l)
    /\ all_some (map (fun j => let '(p, t, fc) := j in
                               match fc with
                               | FOn e => option_map (fun x => (p, t, JcOn x)) (eexpr (sq_ci w false true) e)
                               | FUsing cs => Some (p, t, JcUsing cs)
                               | FNone => Some (p, t, JcNone) end) js) = Some l
    /\ Forall (fun j => jc_ok (snd j)) l.
Proof.
  induction js as [|[[p t] fc] js IH]; cbn [forallb map].
  - intros _. exists []. repeat split; constructor.
  - intros H. apply andb_prop in H as [Ht Hr]. destruct (IH Hr) as [l [L1 [L2 L3]]]. cbn [snd] in Ht.
    destruct fc as [e|cs|].
    + destruct (frag_etoks _ e Ht) as [x [E1 [E2 E3]]].
      exists ((p, t, JcOn x) :: l). repeat split.
      * apply all_some_cons; [|exact L1]. cbn [join_toks join_stoks]. rewrite E1. reflexivity.
      * apply all_some_cons; [|exact L2]. rewrite E2. reflexivity.
      * constructor; auto.
    + destruct cs as [|c0 cs']; [discriminate|].
      exists ((p, t, JcUsing (c0 :: cs')) :: l). repeat split.
      * apply all_some_cons; [|exact L1]. reflexivity.
      * apply all_some_cons; [|exact L2]. reflexivity.
      * constructor; [cbn; discriminate | auto].
    + exists ((p, t, JcNone) :: l). repeat split.
      * apply all_some_cons; [|exact L1]. reflexivity.
      * apply all_some_cons; [|exact L2]. reflexivity.
      * constructor; [exact I | auto].
Qed.

Lemma frag_opt kw c o : match o with None => true | Some t => frag02 c t end = true ->
  exists oe, opt_clause kw c o = Some (opt_stoks kw oe)
    /\ match o with None => Some None | Some t => option_map Some (eexpr c t) end = Some oe /\ oe_ok oe.
Proof.
  destruct o as [t|].
  - intros H. destruct (frag_etoks c t H) as [e [E1 [E2 E3]]]. exists (Some e). cbn [opt_clause opt_stoks]. rewrite E1, E2. auto.
  - intros _. exists None. repeat split.
Qed.

(* the fragment: tokens = print of the denoted abstract statement, which is well formed *)
Theorem flat_frag_print fl : flat_frag fl = true ->
  exists a, flat_ast fl = Some a /\ flat_toks fl = Some (ast_toks a) /\ ast_ok a.
Proof.
  unfold flat_frag. intros H.
  apply andb_prop in H as [H Hpage]. apply andb_prop in H as [H Hne]. apply andb_prop in H as [H Ho].
  apply andb_prop in H as [H Hh]. apply andb_prop in H as [H Hg]. apply andb_prop in H as [H Hw].
  apply andb_prop in H as [Hi Hj].
  destruct fl as [d its fr js wh gs hv os l o w]. cbn [f_distinct f_items f_from f_joins f_where f_group f_having f_order f_lim f_off f_wns] in *.
  destruct (frag_items _ its Hi) as [li [I1 [I2 [I3 I4]]]].
  destruct (frag_joins w js Hj) as [lj [J1 [J2 J3]]].
  destruct (frag_opt KWhere _ wh Hw) as [ow [W1 [W2 W3]]].
  destruct (frag_gitems _ gs Hg) as [lg [G1 [G2 [G3 G4]]]].
  destruct (frag_opt KHaving _ hv Hh) as [oh [V1 [V2 V3]]].
  destruct (frag_orders _ os Ho) as [lo [O1 [O2 [O3 O4]]]].
  exists (mkAst d li fr lj ow lg oh lo l o). repeat split.
  - unfold flat_ast. cbn [f_distinct f_items f_from f_joins f_where f_group f_having f_order f_lim f_off f_wns].
    rewrite I2, J2, W2, G2, V2, O2. reflexivity.
  - unfold flat_toks, ast_toks. cbn [f_distinct f_items f_from f_joins f_where f_group f_having f_order f_lim f_off f_wns
                                      a_distinct a_items a_from a_joins a_where a_group a_having a_order a_limit a_offset].
    rewrite I1, J1, W1, G1, V1, O1.
    destruct fr; destruct lg; destruct lo; reflexivity.
  - cbn. destruct its; [discriminate|]. destruct li; [discriminate|]. discriminate.
  - exact I3.
  - exact J3.
  - exact W3.
  - exact G3.
  - exact V3.
  - exact O3.
  - cbn. intros ->. destruct o; [discriminate|reflexivity].
Qed.

(* the reader theorem for flat specifications of the fragment *)
Theorem flat_reader fl : flat_frag fl = true ->
  exists ts a, flat_toks fl = Some ts /\ flat_ast fl = Some a
    /\ exists F, forall f, F <= f -> read_select f ts = Some a.
Proof.
  intros H. destruct (flat_frag_print fl H) as [a [A1 [A2 A3]]].
  exists (ast_toks a), a. repeat split; auto. apply read_print_select. exact A3.
Qed.
