(* DdlItems.v - every body item (column definition, PERIOD FOR, UNIQUE, PRIMARY KEY, FOREIGN KEY)
   is read back as what was rendered, and is one item for the body splitter *)
From Coq Require Import Lia.
From PV Require Import Base gen.C17Table Ddl lemmas.DdlStrings.

(* ---------- words of the attribute part of a column definition ---------- *)
Definition wordsp (s : string) : list string :=
  match s with EmptyString => [] | String _ r => split_on " " r end.

Lemma wordsp_app : forall a b, sp_or_end a = true -> sp_or_end b = true ->
  wordsp (a ++ b) = (wordsp a ++ wordsp b)%list.
Proof.
  intros [|x a] b Ha Hb; [reflexivity|]. simpl in Ha. apply Ascii.eqb_eq in Ha. subst x.
  destruct b as [|y b].
  - rewrite sapp_nil_r. simpl. now rewrite app_nil_r.
  - simpl in Hb. apply Ascii.eqb_eq in Hb. subst y. simpl. apply split_on_app.
Qed.

Lemma parse_attrs_words : forall rem, sp_or_end rem = true -> parse_attrs rem = Some (analyse_attrs (wordsp rem)).
Proof.
  intros [|x r] H; [reflexivity|]. simpl in H. apply Ascii.eqb_eq in H. subst x. reflexivity.
Qed.

Definition uwords (u : option bool) : list string :=
  match u with None => [] | Some true => ["NULL"] | Some false => ["NOT"; "NULL"] end.
Definition dwords (d : option string) : list string :=
  match d with None => [] | Some d => "DEFAULT" :: split_on " " d end.
Definition kwfree (ws : list string) : bool := forallb (fun w => negb (is_attr_kw w)) ws.

Lemma kwfree_In : forall ws w, kwfree ws = true -> In w ws -> is_attr_kw w = false.
Proof.
  intros ws w H Hi. unfold kwfree in H. rewrite forallb_forall in H. specialize (H w Hi).
  now destruct (is_attr_kw w).
Qed.

Lemma not_kw : forall w, is_attr_kw w = false ->
  String.eqb w "DEFAULT" = false /\ String.eqb w "NULL" = false /\ String.eqb w "NOT" = false.
Proof.
  intros w H. unfold is_attr_kw in H.
  destruct (String.eqb w "DEFAULT"), (String.eqb w "NULL"), (String.eqb w "NOT"); simpl in H; try discriminate; auto.
Qed.

Lemma cut_default_free : forall a, forallb (fun w => negb (String.eqb w "DEFAULT")) a = true ->
  cut_default a = (a, None).
Proof.
  induction a as [|w a IH]; intros H; simpl in *; [reflexivity|].
  apply Bool.andb_true_iff in H as [H1 H2]. destruct (String.eqb w "DEFAULT"); [discriminate|].
  now rewrite IH.
Qed.

Lemma cut_default_at : forall a r, forallb (fun w => negb (String.eqb w "DEFAULT")) a = true ->
  cut_default (a ++ "DEFAULT" :: r)%list = (a, Some r).
Proof.
  induction a as [|w a IH]; intros r H; simpl in *; [reflexivity|].
  apply Bool.andb_true_iff in H as [H1 H2]. destruct (String.eqb w "DEFAULT"); [discriminate|].
  now rewrite IH.
Qed.

Lemma nodefault_words : forall tw u, kwfree tw = true ->
  forallb (fun w => negb (String.eqb w "DEFAULT")) (tw ++ uwords u)%list = true.
Proof.
  intros tw u H. rewrite forallb_app. apply Bool.andb_true_iff. split.
  - rewrite forallb_forall. intros w Hw. destruct (not_kw w (kwfree_In _ _ H Hw)) as (-> & _). reflexivity.
  - destruct u as [[|]|]; reflexivity.
Qed.

Lemma strip_null_words : forall tw u, kwfree tw = true -> strip_null (tw ++ uwords u)%list = (tw, u).
Proof.
  intros tw u H. unfold strip_null. destruct u as [[|]|]; simpl uwords.
  - rewrite rev_app_distr. simpl. destruct (rev tw) as [|w2 r2] eqn:E.
    + assert (tw = []) by (rewrite <- (rev_involutive tw), E; reflexivity). now subst.
    + assert (Hin : In w2 tw) by (apply in_rev; rewrite E; now left).
      destruct (not_kw w2 (kwfree_In _ _ H Hin)) as (_ & _ & ->).
      rewrite <- E, rev_involutive. reflexivity.
  - rewrite rev_app_distr. simpl. now rewrite rev_involutive.
  - rewrite app_nil_r. destruct (rev tw) as [|w1 r1] eqn:E; [reflexivity|].
    assert (Hin : In w1 tw) by (apply in_rev; rewrite E; now left).
    destruct (not_kw w1 (kwfree_In _ _ H Hin)) as (_ & -> & _). reflexivity.
Qed.

Lemma analyse_ok : forall tw u d, kwfree tw = true ->
  analyse_attrs (tw ++ uwords u ++ dwords d)%list =
  (match tw with [] => None | _ => Some (join " " tw) end, u, d).
Proof.
  intros tw u d H. unfold analyse_attrs. rewrite app_assoc. destruct d as [d|]; simpl dwords.
  - rewrite cut_default_at by (now apply nodefault_words). rewrite strip_null_words by assumption.
    simpl. now rewrite (join_split " " d).
  - rewrite app_nil_r. rewrite cut_default_free by (now apply nodefault_words).
    rewrite strip_null_words by assumption. reflexivity.
Qed.

(* ---------- the three attribute pieces of Column.get_sql ---------- *)
Definition tpiece (c : column) : string := if truthy_ostr (ctype c) then " " ++ ostr (ctype c) else "".
Definition upiece (c : column) : string :=
  match cnull c with Some b => " " ++ (if b then "NULL" else "NOT NULL") | None => "" end.
Definition dpiece (c : column) : string :=
  match cdefault c with Some d => " " ++ ("DEFAULT " ++ d) | None => "" end.

Lemma render_column_pieces : forall q c, render_column q c = fqq q (cname c) ++ tpiece c ++ upiece c ++ dpiece c.
Proof. reflexivity. Qed.

Lemma truthy_nonempty : forall ty, snonempty ty = true -> truthy_ostr (Some ty) = true.
Proof. intros [|a r] H; [discriminate | reflexivity]. Qed.

Definition ctype_ok (c : column) : bool := match ctype c with Some ty => type_ok ty | None => true end.
Definition twords (c : column) : list string := match ctype c with Some ty => split_on " " ty | None => [] end.

Lemma tpiece_facts : forall c, ctype_ok c = true ->
  sp_or_end (tpiece c) = true /\ wordsp (tpiece c) = twords c /\ kwfree (twords c) = true
  /\ (match twords c with [] => None | _ => Some (join " " (twords c)) end) = ctype c
  /\ scan 0 (tpiece c) = Some 0.
Proof.
  intros [n [ty|] u d] H; unfold ctype_ok, tpiece, twords in *; cbn [ctype] in *.
  - unfold type_ok in H. apply Bool.andb_true_iff in H as [H H3]. apply Bool.andb_true_iff in H as [H1 H2].
    rewrite (truthy_nonempty _ H1). repeat split; auto.
    + destruct (split_on_nonempty " " ty) as (h & t & E). rewrite E. rewrite <- E. now rewrite (join_split " " ty).
    + simpl. unfold opaque_ok in H2. destruct (scan 0 ty) as [[|]|]; congruence.
  - repeat split; reflexivity.
Qed.

Lemma upiece_facts : forall c,
  sp_or_end (upiece c) = true /\ wordsp (upiece c) = uwords (cnull c) /\ scan 0 (upiece c) = Some 0.
Proof. intros [n ty [[|]|] d]; repeat split; reflexivity. Qed.

Lemma dpiece_facts : forall c, (match cdefault c with Some d => opaque_ok d | None => true end) = true ->
  sp_or_end (dpiece c) = true /\ wordsp (dpiece c) = dwords (cdefault c) /\ scan 0 (dpiece c) = Some 0.
Proof.
  intros [n ty u [d|]] H; unfold dpiece; cbn [cdefault] in *; [|repeat split; reflexivity].
  repeat split.
  change (scan 0 (" " ++ "DEFAULT " ++ d)) with (scan 0 d). unfold opaque_ok in H. destruct (scan 0 d) as [[|]|]; congruence.
Qed.

Lemma sp_or_end_app : forall a b, sp_or_end a = true -> sp_or_end b = true -> sp_or_end (a ++ b) = true.
Proof. intros [|x a] b Ha Hb; [exact Hb | exact Ha]. Qed.

Lemma column_ok_parts : forall q c, column_ok q c = true ->
  name_ok q (cname c) = true /\ kw_free q (cname c) = true /\ ctype_ok c = true
  /\ (match cdefault c with Some d => opaque_ok d | None => true end) = true.
Proof.
  intros q c H. unfold column_ok in H.
  apply Bool.andb_true_iff in H as [H H4]. apply Bool.andb_true_iff in H as [H H3].
  apply Bool.andb_true_iff in H as [H1 H2]. auto.
Qed.

Lemma parse_column_ok : forall q c, column_ok q c = true -> parse_column q (render_column q c) = Some c.
Proof.
  intros q c H. destruct (column_ok_parts _ _ H) as (Hn & _ & Ht & Hd).
  destruct (tpiece_facts c Ht) as (T1 & T2 & T3 & T4 & _).
  destruct (upiece_facts c) as (U1 & U2 & _).
  destruct (dpiece_facts c Hd) as (D1 & D2 & _).
  assert (Hsp : sp_or_end (tpiece c ++ upiece c ++ dpiece c) = true) by (repeat apply sp_or_end_app; assumption).
  rewrite render_column_pieces. unfold parse_column.
  rewrite read_name_fq by (auto using sp_or_end_stops).
  rewrite parse_attrs_words by assumption.
  rewrite !wordsp_app by (repeat apply sp_or_end_app; assumption).
  rewrite T2, U2, D2, analyse_ok by assumption. rewrite T4. now destruct c.
Qed.

Lemma column_scan_ok : forall q c, column_ok q c = true -> item_scan_ok (render_column q c) = true.
Proof.
  intros q c H. destruct (column_ok_parts _ _ H) as (Hn & _ & Ht & Hd).
  destruct (tpiece_facts c Ht) as (_ & _ & _ & _ & T5).
  destruct (upiece_facts c) as (_ & _ & U3).
  destruct (dpiece_facts c Hd) as (_ & _ & D3).
  unfold item_scan_ok. rewrite render_column_pieces.
  rewrite scan_app, (scan_fqq q _ 0 Hn), scan_app, T5, scan_app, U3, D3. reflexivity.
Qed.

(* ---------- classification by leading keyword ---------- *)
(* a rendered name never starts like "KW ..." : quoted names start with the quote, bare ones are not KW *)
Lemma name_not_kw : forall q kw p n rest, sforall idchar kw = true -> snonempty kw = true ->
  name_ok q n = true -> (q = QNone -> n <> kw) -> stops rest = true ->
  strip_prefix (kw ++ String " " p) (fqq q n ++ rest) = None.
Proof.
  intros q kw p n rest Hk Hne Hn Hq Hr. destruct kw as [|k kw]; [discriminate|].
  simpl in Hk. apply Bool.andb_true_iff in Hk as [Hk1 Hk2].
  destruct q.
  - rewrite fqq_double. apply strip_prefix_head.
    apply idchar_namechar in Hk1. apply (namechar_not _ """"%char) in Hk1; [|tauto]. unfold notc in Hk1.
    destruct (Ascii.eqb k """"); [discriminate | reflexivity].
  - rewrite fqq_backtick. apply strip_prefix_head.
    apply idchar_namechar in Hk1. apply (namechar_not _ "`"%char) in Hk1; [|tauto]. unfold notc in Hk1.
    destruct (Ascii.eqb k "`"); [discriminate | reflexivity].
  - rewrite fqq_none. simpl in Hn. apply Bool.andb_true_iff in Hn as [_ Hn].
    apply (kw_no_clash (String k kw)); auto.
    simpl. now rewrite Hk1, Hk2.
Qed.

(* the same for a (possibly schema-qualified) table name: its first component decides *)
Lemma table_not_kw : forall q kw p t rest, sforall idchar kw = true -> snonempty kw = true ->
  table_ok q t = true ->
  (q = QNone -> (match tschema t with s :: _ => s | [] => tname t end) <> kw) -> sp_or_end rest = true ->
  strip_prefix (kw ++ String " " p) (render_table q t ++ rest) = None.
Proof.
  intros q kw p t rest Hk Hne Ht Hq Hr. destruct (table_ok_parts _ _ Ht) as [Hp Ha].
  rewrite render_table_path by assumption. destruct t as [n [|s sc] al]; unfold tpath, render_path in *; cbn [tschema tname] in *.
  - simpl in Hp. apply Bool.andb_true_iff in Hp as [Hn _]. simpl app. simpl map. simpl join.
    apply name_not_kw; auto using sp_or_end_stops.
  - simpl app in *. cbn [forallb] in Hp. apply Bool.andb_true_iff in Hp as [Hs _].
    destruct (sc ++ [n])%list as [|y ys] eqn:E; [destruct sc; discriminate|].
    change (join "." (map (fqq q) (s :: y :: ys))) with (fqq q s ++ String "." (join "." (map (fqq q) (y :: ys)))).
    rewrite sapp_assoc. apply name_not_kw; auto.
Qed.

Lemma kw_free_neq : forall n, kw_free QNone n = true ->
  n <> "IF" /\ n <> "PERIOD" /\ n <> "UNIQUE" /\ n <> "PRIMARY" /\ n <> "FOREIGN".
Proof.
  intros n H. unfold kw_free in H. apply Bool.negb_true_iff in H.
  repeat (apply Bool.orb_false_iff in H as [H ?H]).
  repeat split; apply String.eqb_neq; assumption.
Qed.

Lemma parse_item_column : forall q c, column_ok q c = true -> parse_item q (render_column q c) = Some (IColumn c).
Proof.
  intros q c H. destruct (column_ok_parts _ _ H) as (Hn & Hk & Ht & Hd).
  destruct (tpiece_facts c Ht) as (T1 & _). destruct (upiece_facts c) as (U1 & _).
  destruct (dpiece_facts c Hd) as (D1 & _).
  assert (Hsp : sp_or_end (tpiece c ++ upiece c ++ dpiece c) = true) by (repeat apply sp_or_end_app; assumption).
  assert (Hq : q = QNone -> cname c <> "PERIOD" /\ cname c <> "UNIQUE" /\ cname c <> "PRIMARY" /\ cname c <> "FOREIGN").
  { intros ->. destruct (kw_free_neq _ Hk) as (_ & ? & ? & ? & ?). auto. }
  rewrite render_column_pieces. unfold parse_item.
  change "PERIOD FOR " with ("PERIOD" ++ String " " "FOR ").
  rewrite name_not_kw by (try reflexivity; auto using sp_or_end_stops; intros E; apply (Hq E)).
  change "UNIQUE (" with ("UNIQUE" ++ String " " "(").
  rewrite name_not_kw by (try reflexivity; auto using sp_or_end_stops; intros E; apply (Hq E)).
  change "PRIMARY KEY (" with ("PRIMARY" ++ String " " "KEY (").
  rewrite name_not_kw by (try reflexivity; auto using sp_or_end_stops; intros E; apply (Hq E)).
  change "FOREIGN KEY (" with ("FOREIGN" ++ String " " "KEY (").
  rewrite name_not_kw by (try reflexivity; auto using sp_or_end_stops; intros E; apply (Hq E)).
  rewrite <- render_column_pieces. now rewrite parse_column_ok.
Qed.

(* ---------- constraints ---------- *)
Ltac scan_lit :=
  match goal with
  | |- context [scan ?d ?l] =>
      let v := eval vm_compute in (scan d l) in
      match v with Some _ => change (scan d l) with v end
  end.
Ltac sc :=
  rewrite scan_app;
  first [ rewrite scan_fqq by assumption | rewrite scan_names by assumption
        | rewrite scan_table by assumption | scan_lit ];
  cbv beta iota.

Definition period_ok (q : quote) (p : period) : bool :=
  (name_ok q (pname p) && name_ok q (pstart p) && name_ok q (pend p))%bool.

Lemma parse_item_period : forall q p, period_ok q p = true -> parse_item q (render_period q p) = Some (IPeriod p).
Proof.
  intros q [n s e] H. unfold period_ok in H. simpl in H.
  apply Bool.andb_true_iff in H as [H H3]. apply Bool.andb_true_iff in H as [H1 H2].
  unfold parse_item, render_period. cbn [pname pstart pend]. rewrite strip_prefix_app.
  unfold parse_period. rewrite read_name_fq by (auto; reflexivity).
  rewrite strip_prefix_app.
  replace (fqq q s ++ "," ++ fqq q e ++ ")") with (render_names q [s; e] ++ String ")" "").
  - rewrite names_block_ok; [reflexivity|]. unfold names_ok. simpl. now rewrite H2, H3.
  - unfold render_names. simpl. now rewrite !sapp_assoc.
Qed.

Lemma period_scan_ok : forall q p, period_ok q p = true -> item_scan_ok (render_period q p) = true.
Proof.
  intros q [n s e] H. unfold period_ok in H. simpl in H.
  apply Bool.andb_true_iff in H as [H H3]. apply Bool.andb_true_iff in H as [H1 H2].
  unfold item_scan_ok, render_period. cbn [pname pstart pend].
  sc. sc. sc. sc. sc. sc. scan_lit. reflexivity.
Qed.

Lemma parse_item_unique : forall q ns, names_ok q ns = true -> parse_item q (render_unique q ns) = Some (IUnique ns).
Proof.
  intros q ns H. unfold parse_item, render_unique.
  replace (strip_prefix "PERIOD FOR " ("UNIQUE (" ++ render_names q ns ++ ")")) with (@None string) by reflexivity.
  rewrite strip_prefix_app. change (render_names q ns ++ ")") with (render_names q ns ++ String ")" "").
  now rewrite names_block_ok.
Qed.

Lemma names_ok_all : forall q ns, names_ok q ns = true -> forallb (name_ok q) ns = true.
Proof. intros q ns H. unfold names_ok in H. now apply Bool.andb_true_iff in H as [_ H]. Qed.

Lemma unique_scan_ok : forall q ns, forallb (name_ok q) ns = true -> item_scan_ok (render_unique q ns) = true.
Proof.
  intros q ns H. unfold item_scan_ok, render_unique. sc. sc. scan_lit. reflexivity.
Qed.

Lemma parse_item_pk : forall q ns, names_ok q ns = true -> parse_item q (render_pk q ns) = Some (IPrimary ns).
Proof.
  intros q ns H. unfold parse_item, render_pk.
  replace (strip_prefix "PERIOD FOR " ("PRIMARY KEY (" ++ render_names q ns ++ ")")) with (@None string) by reflexivity.
  replace (strip_prefix "UNIQUE (" ("PRIMARY KEY (" ++ render_names q ns ++ ")")) with (@None string) by reflexivity.
  rewrite strip_prefix_app. change (render_names q ns ++ ")") with (render_names q ns ++ String ")" "").
  now rewrite names_block_ok.
Qed.

Lemma pk_scan_ok : forall q ns, forallb (name_ok q) ns = true -> item_scan_ok (render_pk q ns) = true.
Proof.
  intros q ns H. unfold item_scan_ok, render_pk. sc. sc. scan_lit. reflexivity.
Qed.

Definition actions_text (od ou : option refopt) : string :=
  (match od with Some o => " ON DELETE " ++ refopt_text o | None => "" end)
  ++ (match ou with Some o => " ON UPDATE " ++ refopt_text o | None => "" end).

(* finite: 6 x 6 combinations, by computation *)
Lemma parse_actions_ok : forall od ou, parse_actions (actions_text od ou) = Some (od, ou).
Proof. intros [[]|] [[]|]; vm_compute; reflexivity. Qed.

Lemma actions_scan : forall od ou, scan 0 (actions_text od ou) = Some 0.
Proof. intros [[]|] [[]|]; vm_compute; reflexivity. Qed.

Lemma actions_sp : forall od ou, sp_or_end (actions_text od ou) = true.
Proof. intros [[]|] [[]|]; reflexivity. Qed.

Lemma render_fk_shape : forall q f,
  render_fk q f = "FOREIGN KEY (" ++ render_names q (fk_cols f) ++ String ")" (" REFERENCES " ++ render_table q (fk_table f)
     ++ " (" ++ render_names q (fk_refs f) ++ String ")" (actions_text (fk_on_delete f) (fk_on_update f))).
Proof. reflexivity. Qed.

Lemma parse_item_fk : forall q f, fkey_ok q f = true -> nonempty (fk_cols f) = true ->
  parse_item q (render_fk q f) = Some (IForeign f).
Proof.
  intros q f H Hne. unfold fkey_ok in H. apply Bool.andb_true_iff in H as [H H3]. apply Bool.andb_true_iff in H as [H1 H2].
  rewrite render_fk_shape. unfold parse_item.
  replace (strip_prefix "PERIOD FOR " ("FOREIGN KEY (" ++ _)) with (@None string) by reflexivity.
  replace (strip_prefix "UNIQUE (" ("FOREIGN KEY (" ++ _)) with (@None string) by reflexivity.
  replace (strip_prefix "PRIMARY KEY (" ("FOREIGN KEY (" ++ _)) with (@None string) by reflexivity.
  rewrite strip_prefix_app. unfold parse_foreign.
  rewrite names_block_ok by (unfold names_ok; now rewrite Hne, H1).
  rewrite strip_prefix_app. rewrite read_table_ok by (auto; reflexivity).
  rewrite strip_prefix_app. rewrite names_block_ok by assumption.
  rewrite parse_actions_ok. now destruct f.
Qed.

Lemma fk_scan_ok : forall q f, fkey_ok q f = true -> item_scan_ok (render_fk q f) = true.
Proof.
  intros q f H. unfold fkey_ok in H. apply Bool.andb_true_iff in H as [H H3]. apply Bool.andb_true_iff in H as [H1 H2].
  apply names_ok_all in H3.
  unfold item_scan_ok, render_fk.
  sc. sc. sc. sc. sc. sc. sc.
  change (scan 0 (actions_text (fk_on_delete f) (fk_on_update f)) = Some 0) || idtac.
  fold (actions_text (fk_on_delete f) (fk_on_update f)). rewrite actions_scan. reflexivity.
Qed.
