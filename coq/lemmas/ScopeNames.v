(* ScopeNames.v — C10: (3) when the statement's with_namespace flag is set, (4) schema chains, (5) invented names. *)
From Coq Require Import Lia DecimalString DecimalNat DecimalFacts.
From PV Require Import Base Crit gen.TermsTable Terms Page gen.QueryTable Query Scope lemmas.ScopeLemmas.
Local Open Scope list_scope.

(* ------------------------------------------------------------------------------------------- *)
(* (3) more than one row source  =>  with_namespace                                              *)
(* ------------------------------------------------------------------------------------------- *)
Theorem scope_gt1_wns : forall x, 1 < scope_size x -> q_wns x = true.
Proof.
  intros x H. destruct x; cbn [scope_size] in H; try lia; cbn [q_wns]; unfold sel_wns, upd_wns, del_wns.
  - (* SELECT *) destruct joins as [|j jr].
    + cbn [List.length] in H. rewrite Nat.add_0_r in H. apply Nat.ltb_lt in H. rewrite H.
      cbn [List.length Nat.eqb negb orb]. reflexivity.
    + reflexivity.
  - (* UPDATE *) destruct from as [|f fr].
    + destruct joins as [|j jr]; [cbn in H; lia|]. reflexivity.
    + cbn [List.length Nat.eqb negb]. rewrite !orb_true_r. reflexivity.
  - (* DELETE *) apply Nat.ltb_lt in H. rewrite H. reflexivity.
Qed.

(* a sub-query as first FROM item, and a foreign reference in WHERE, also set the flag *)
Theorem subquery_first_wns : forall x, is_sud x = true ->
  (match x with
   | QSel _ _ _ _ from _ _ _ _ _ _ _ _ _ | QUpd _ _ _ from _ _ _ | QDel _ from _ => first_is_builder from
   | _ => false end) = true -> q_wns x = true.
Proof.
  intros x _ H. destruct x; try discriminate H; cbn [q_wns]; unfold sel_wns, upd_wns, del_wns; rewrite H, ?orb_true_r; reflexivity.
Qed.
Theorem foreign_where_wns : forall x w, is_sud x = true ->
  (match x with
   | QSel _ _ _ _ _ _ wh _ _ _ _ _ _ _ | QUpd _ _ _ _ _ wh _ | QDel _ _ wh => wh
   | _ => None end) = Some w ->
  existsb (out_of_scope (q_scope x) (q_srcs x)) (item_tables w) = true -> q_wns x = true.
Proof.
  intros x w _ Hw He. destruct x; try discriminate Hw; cbn [q_wns q_scope q_srcs] in *; subst;
    unfold sel_wns, upd_wns, del_wns, foreign_in; rewrite He, ?orb_true_r; reflexivity.
Qed.

(* ------------------------------------------------------------------------------------------- *)
(* (4) schema chain: outermost first on the table itself                                        *)
(* ------------------------------------------------------------------------------------------- *)
Lemma join_snoc sep (l : list string) x : l <> [] -> join sep (l ++ [x]) = (join sep l ++ sep ++ x)%string.
Proof.
  induction l as [|a r IH]; [congruence|]. intros _. destruct r as [|b r'].
  - reflexivity.
  - change (join sep ((a :: b :: r') ++ [x])) with (a ++ sep ++ join sep ((b :: r') ++ [x]))%string.
    rewrite IH by discriminate.
    change (join sep (a :: b :: r')) with (a ++ sep ++ join sep (b :: r'))%string.
    rewrite !sapp_assoc. reflexivity.
Qed.
(* Schema.get_sql on the object built by Table._init_schema from a list = the chain, first element outermost *)
Theorem schema_chain_outermost_first : forall qc first rest,
  sch_sql qc (init_schema first rest) = schema_sql qc (first :: rest).
Proof.
  intros qc first rest. unfold init_schema, schema_sql.
  enough (G : forall rest obj pre, pre <> [] -> sch_sql qc obj = join "." (map (fq qc) pre) ->
              sch_sql qc (fold_left (fun o s => SchChild o s) rest obj) = join "." (map (fq qc) (pre ++ rest))).
  { apply (G rest (SchRoot first) [first]); [discriminate | reflexivity]. }
  clear. induction rest as [|s r IH]; intros obj pre Hne Hobj.
  - rewrite app_nil_r. exact Hobj.
  - cbn [fold_left]. replace (pre ++ s :: r) with ((pre ++ [s]) ++ r) by (rewrite <- app_assoc; reflexivity).
    apply IH; [destruct pre; discriminate|].
    cbn [sch_sql]. rewrite Hobj, map_app. cbn [map]. rewrite join_snoc; [reflexivity|].
    destruct pre; [congruence | discriminate].
Qed.
(* Table.get_sql: schema chain, then the table's own name, then (always) the alias *)
Theorem table_sql_chain : forall c t,
  table_sql c t = fmt_alias (join "." (map (fq (q c)) (tschema t ++ [tname t]))) (talias t) (q c) (aq c) (askw c).
Proof.
  intros c t. unfold table_sql. f_equal. destruct (tschema t) as [|s r] eqn:E; [reflexivity|].
  unfold schema_sql. rewrite map_app. cbn [map]. rewrite join_snoc by discriminate. reflexivity.
Qed.
(* a field is qualified by the bare in-statement name: the schema chain is printed on the table only *)
Theorem qualifier_ignores_schema : forall w n ch a,
  qualifier w (Some {| tname := n; tschema := ch; talias := a |}) = qualifier w (Some {| tname := n; tschema := []; talias := a |}).
Proof. reflexivity. Qed.

(* ------------------------------------------------------------------------------------------- *)
(* (5) invented names                                                                           *)
(* ------------------------------------------------------------------------------------------- *)
Lemma to_uint_nonnil n : Nat.to_uint n <> Decimal.Nil.
Proof.
  rewrite <- (Unsigned.of_to n) at 1. rewrite Unsigned.to_of. apply unorm_nonnil.
Qed.
Lemma nat_to_string_inj a b : nat_to_string a = nat_to_string b -> a = b.
Proof.
  unfold nat_to_string. intros H. apply Unsigned.to_uint_inj.
  assert (E : NilZero.uint_of_string (NilZero.string_of_uint (Nat.to_uint a))
              = NilZero.uint_of_string (NilZero.string_of_uint (Nat.to_uint b))) by (rewrite H; reflexivity).
  rewrite !NilZero.usu in E by apply to_uint_nonnil. congruence.
Qed.
Lemma sq_name_inj a b : ("sq" ++ nat_to_string a)%string = ("sq" ++ nat_to_string b)%string -> a = b.
Proof. intros H. cbn in H. inversion H. apply nat_to_string_inj. assumption. Qed.
Lemma sq_name_prefixed d : sq_prefixed ("sq" ++ nat_to_string d)%string = true.
Proof. reflexivity. Qed.

Lemma names_of_cons keep p l : names_of keep (p :: l) = names_of keep [p] ++ names_of keep l.
Proof. unfold names_of. cbn [flat_map]. rewrite app_nil_r. reflexivity. Qed.

(* every invented name of a history run from counter [own] is sq<d> with own <= d < final counter *)
Lemma run_hist_bounds : forall h own,
  own <= snd (run_hist own h) /\
  forall s, In s (invented_of (fst (run_hist own h))) -> exists d, s = ("sq" ++ nat_to_string d)%string /\ own <= d < snd (run_hist own h).
Proof.
  induction h as [|e r IH]; intros own.
  - cbn. split; [lia | intros s []].
  - destruct e as [[a|] inner | [a|] | o]; cbn [run_hist].
    + specialize (IH own). destruct (run_hist own r) as [l n]. cbn [fst snd] in *. exact IH.
    + specialize (IH (S (Nat.max own inner))). destruct (run_hist (S (Nat.max own inner)) r) as [l n]. cbn [fst snd] in *.
      destruct IH as [L I]. split; [lia|]. intros s Hs. unfold invented_of in Hs. rewrite names_of_cons in Hs.
      cbn in Hs. destruct Hs as [<-|Hs].
      * exists (Nat.max own inner). split; [reflexivity | lia].
      * destruct (I s Hs) as [d [E B]]. exists d. split; [exact E | lia].
    + specialize (IH own). destruct (run_hist own r) as [l n]. cbn [fst snd] in *. exact IH.
    + specialize (IH (S own)). destruct (run_hist (S own) r) as [l n]. cbn [fst snd] in *.
      destruct IH as [L I]. split; [lia|]. intros s Hs. unfold invented_of in Hs. rewrite names_of_cons in Hs.
      cbn in Hs. destruct Hs as [<-|Hs].
      * exists own. split; [reflexivity | lia].
      * destruct (I s Hs) as [d [E B]]. exists d. split; [exact E | lia].
    + specialize (IH own). destruct (run_hist own r) as [l n]. cbn [fst snd] in *.
      destruct IH as [L I]. split; [exact L|]. intros s Hs. unfold invented_of in Hs. rewrite names_of_cons in Hs.
      destruct o; cbn in Hs; apply I; exact Hs.
Qed.
Lemma invented_prefixed h own s : In s (invented_of (fst (run_hist own h))) -> sq_prefixed s = true.
Proof. intros H. destruct (proj2 (run_hist_bounds h own) s H) as [d [-> _]]. reflexivity. Qed.

(* names invented in one statement are pairwise distinct, for ANY order of from_() / join() calls and
   whatever aliases the other sources carry *)
Theorem invented_NoDup_hist : forall h own, NoDup (invented_of (fst (run_hist own h))).
Proof.
  induction h as [|e r IH]; intros own; [constructor|].
  destruct e as [[a|] inner | [a|] | o]; cbn [run_hist].
  - specialize (IH own). destruct (run_hist own r) as [l n]. exact IH.
  - pose proof (run_hist_bounds r (S (Nat.max own inner))) as [_ I]. specialize (IH (S (Nat.max own inner))).
    destruct (run_hist (S (Nat.max own inner)) r) as [l n]. cbn [fst snd] in *.
    unfold invented_of. rewrite names_of_cons. cbn. constructor; [|exact IH].
    intros Hin. destruct (I _ Hin) as [d [E B]]. apply sq_name_inj in E. lia.
  - specialize (IH own). destruct (run_hist own r) as [l n]. exact IH.
  - pose proof (run_hist_bounds r (S own)) as [_ I]. specialize (IH (S own)).
    destruct (run_hist (S own) r) as [l n]. cbn [fst snd] in *.
    unfold invented_of. rewrite names_of_cons. cbn. constructor; [|exact IH].
    intros Hin. destruct (I _ Hin) as [d [E B]]. apply sq_name_inj in E. lia.
  - specialize (IH own). destruct (run_hist own r) as [l n]. cbn [fst].
    unfold invented_of. rewrite names_of_cons. destruct o; exact IH.
Qed.

(* all sub-query names of a statement are distinct when the aliases the sub-queries ARRIVED with are distinct
   and none of them looks like an invented name ("sq...") *)
Lemma sub_in_split l s : In s (sub_of l) -> In s (given_sub_of l) \/ In s (invented_of l).
Proof.
  unfold sub_of, given_sub_of, invented_of, names_of. rewrite !in_flat_map.
  intros [[o kd] [Hp Hs]]. destruct o as [a|]; [|destruct Hs]. destruct kd; cbn in Hs.
  - destruct Hs as [->|[]]. right. exists (Some s, NInvented). split; [exact Hp | left; reflexivity].
  - destruct Hs as [->|[]]. left. exists (Some s, NGivenSub). split; [exact Hp | left; reflexivity].
  - destruct Hs.
Qed.
Theorem sub_NoDup_hist : forall h own,
  NoDup (given_sub_of (fst (run_hist own h))) ->
  forallb (fun s => negb (sq_prefixed s)) (given_sub_of (fst (run_hist own h))) = true ->
  NoDup (sub_of (fst (run_hist own h))).
Proof.
  induction h as [|e r IH]; intros own HN HP; [constructor|].
  assert (GIV : forall a own', NoDup (given_sub_of ((Some a, NGivenSub) :: fst (run_hist own' r))) ->
                forallb (fun s => negb (sq_prefixed s)) (given_sub_of ((Some a, NGivenSub) :: fst (run_hist own' r))) = true ->
                NoDup (sub_of ((Some a, NGivenSub) :: fst (run_hist own' r)))).
  { intros a own' HN' HP'. unfold given_sub_of in HN', HP'. rewrite names_of_cons in HN', HP'. cbn in HN', HP'.
    apply andb_true_iff in HP' as [Pa Pr]. inversion HN' as [|? ? Na Nr]; subst.
    unfold sub_of. rewrite names_of_cons. cbn. constructor; [|apply IH; assumption].
    intros Hin. apply sub_in_split in Hin as [Hg|Hi]; [exact (Na Hg)|].
    apply invented_prefixed in Hi. rewrite Hi in Pa. discriminate Pa. }
  assert (INV : forall d own', (forall s, In s (invented_of (fst (run_hist own' r))) -> exists d', s = ("sq" ++ nat_to_string d')%string /\ d < d') ->
                NoDup (given_sub_of ((Some ("sq" ++ nat_to_string d)%string, NInvented) :: fst (run_hist own' r))) ->
                forallb (fun s => negb (sq_prefixed s)) (given_sub_of ((Some ("sq" ++ nat_to_string d)%string, NInvented) :: fst (run_hist own' r))) = true ->
                NoDup (sub_of ((Some ("sq" ++ nat_to_string d)%string, NInvented) :: fst (run_hist own' r)))).
  { intros d own' I HN' HP'. unfold given_sub_of in HN', HP'. rewrite names_of_cons in HN', HP'. cbn in HN', HP'.
    unfold sub_of. rewrite names_of_cons. cbn. constructor; [|apply IH; assumption].
    intros Hin. apply sub_in_split in Hin as [Hg|Hi].
    - rewrite forallb_forall in HP'. specialize (HP' _ Hg). cbn in HP'. discriminate HP'.
    - destruct (I _ Hi) as [d' [E L]]. apply sq_name_inj in E. lia. }
  destruct e as [[a|] inner | [a|] | o]; cbn [run_hist] in *.
  - destruct (run_hist own r) as [l n] eqn:E. cbn [fst] in *.
    replace l with (fst (run_hist own r)) in * by (rewrite E; reflexivity). apply GIV; assumption.
  - destruct (run_hist (S (Nat.max own inner)) r) as [l n] eqn:E. cbn [fst] in *.
    replace l with (fst (run_hist (S (Nat.max own inner)) r)) in * by (rewrite E; reflexivity).
    apply INV; try assumption. intros s Hs.
    destruct (proj2 (run_hist_bounds r (S (Nat.max own inner))) s Hs) as [d' [Es B]]. exists d'. split; [exact Es | lia].
  - destruct (run_hist own r) as [l n] eqn:E. cbn [fst] in *.
    replace l with (fst (run_hist own r)) in * by (rewrite E; reflexivity). apply GIV; assumption.
  - destruct (run_hist (S own) r) as [l n] eqn:E. cbn [fst] in *.
    replace l with (fst (run_hist (S own) r)) in * by (rewrite E; reflexivity).
    apply INV; try assumption. intros s Hs.
    destruct (proj2 (run_hist_bounds r (S own)) s Hs) as [d' [Es B]]. exists d'. split; [exact Es | lia].
  - destruct (run_hist own r) as [l n] eqn:E. cbn [fst] in *.
    replace l with (fst (run_hist own r)) in * by (rewrite E; reflexivity).
    unfold sub_of, given_sub_of in *. rewrite names_of_cons in *.
    destruct o; cbn in *; apply IH; assumption.
Qed.

(* ---- Query.v's name_from / name_joins are the history run "every from_() first, then the joins" ---- *)
Lemma name_from_hist : forall l own,
  name_from sub_count own l = (map fst (fst (run_hist own (map from_ev l))), snd (run_hist own (map from_ev l))).
Proof.
  induction l as [|s r IH]; intros own; [reflexivity|].
  destruct s as [t|x|n]; cbn [map from_ev name_from run_hist].
  - rewrite IH. destruct (run_hist own (map from_ev r)). reflexivity.
  - destruct (qalias x) as [a|].
    + rewrite IH. destruct (run_hist own (map from_ev r)). reflexivity.
    + unfold inner_count. rewrite IH.
      destruct (run_hist (S (Nat.max own match x with QSet _ _ _ _ _ _ => 0 | _ => sub_count x end)) (map from_ev r)).
      reflexivity.
  - rewrite IH. destruct (run_hist own (map from_ev r)). reflexivity.
Qed.
Lemma name_from_sub : forall l own,
  sub_only l (fst (name_from sub_count own l)) = sub_names_hist (fst (run_hist own (map from_ev l))).
Proof.
  induction l as [|s r IH]; intros own; [reflexivity|].
  destruct s as [t|x|n]; cbn [map from_ev name_from run_hist sub_only].
  - specialize (IH own). destruct (name_from sub_count own r) as [a b], (run_hist own (map from_ev r)) as [c d].
    cbn [fst hd tl app] in *. exact IH.
  - destruct (qalias x) as [a|].
    + specialize (IH own). destruct (name_from sub_count own r) as [p b], (run_hist own (map from_ev r)) as [c d].
      cbn [fst hd tl app] in *. unfold sub_names_hist in *. cbn. rewrite IH. reflexivity.
    + unfold inner_count.
      specialize (IH (S (Nat.max own match x with QSet _ _ _ _ _ _ => 0 | _ => sub_count x end))).
      destruct (name_from sub_count (S (Nat.max own match x with QSet _ _ _ _ _ _ => 0 | _ => sub_count x end)) r) as [p b],
               (run_hist (S (Nat.max own match x with QSet _ _ _ _ _ _ => 0 | _ => sub_count x end)) (map from_ev r)) as [c d].
      cbn [fst hd tl app] in *. unfold sub_names_hist in *. cbn. rewrite IH. reflexivity.
  - specialize (IH own). destruct (name_from sub_count own r) as [a b], (run_hist own (map from_ev r)) as [c d].
    cbn [fst hd tl app] in *. exact IH.
Qed.
(* join(): the tags of the sub-query / set-operation sources and the counter are those of the history run, whatever
   the tables among the joins are called *)
Lemma name_joins_hist : forall base l taken own,
  sub_only (jsources l) (fst (name_joins base taken own l)) = sub_names_hist (fst (run_hist own (map join_ev l)))
  /\ snd (name_joins base taken own l) = snd (run_hist own (map join_ev l)).
Proof.
  intros base. induction l as [|[[h s] cnd] r IH]; intros taken own; [split; reflexivity|].
  unfold jsources in *. destruct s as [t|x|n]; cbn [map name_joins sub_only fst snd]; unfold join_ev at 1 3; cbn [fst snd].
  - cbn [run_hist].
    match goal with |- context [name_joins base ?T own r] => specialize (IH T own); destruct (name_joins base T own r) as [a b] end.
    destruct (run_hist own (map join_ev r)) as [c d]. cbn [fst snd hd tl app] in *. exact IH.
  - destruct (qalias x) as [a|]; cbn [run_hist].
    + match goal with |- context [name_joins base ?T own r] => specialize (IH T own); destruct (name_joins base T own r) as [p b] end.
      destruct (run_hist own (map join_ev r)) as [c d]. cbn [fst snd hd tl app] in *. destruct IH as [I1 I2].
      unfold sub_names_hist in *. cbn. rewrite I1. split; [reflexivity | exact I2].
    + match goal with |- context [name_joins base ?T (S own) r] => specialize (IH T (S own)); destruct (name_joins base T (S own) r) as [p b] end.
      destruct (run_hist (S own) (map join_ev r)) as [c d]. cbn [fst snd hd tl app] in *. destruct IH as [I1 I2].
      unfold sub_names_hist in *. cbn. rewrite I1. split; [reflexivity | exact I2].
  - cbn [run_hist].
    match goal with |- context [name_joins base ?T own r] => specialize (IH T own); destruct (name_joins base T own r) as [a b] end.
    destruct (run_hist own (map join_ev r)) as [c d]. cbn [fst snd hd tl app] in *. exact IH.
Qed.
Lemma run_hist_app : forall a b own,
  run_hist own (a ++ b) = (fst (run_hist own a) ++ fst (run_hist (snd (run_hist own a)) b), snd (run_hist (snd (run_hist own a)) b)).
Proof.
  induction a as [|e r IH]; intros b own.
  - cbn. destruct (run_hist own b). reflexivity.
  - destruct e as [[x|] inner | [x|] | o]; cbn [app run_hist]; rewrite IH;
      match goal with |- context [run_hist ?o r] => destruct (run_hist o r) as [l n] end; reflexivity.
Qed.
Lemma sub_names_hist_app a b : sub_names_hist (a ++ b) = sub_names_hist a ++ sub_names_hist b.
Proof. unfold sub_names_hist. rewrite filter_app, map_app. reflexivity. Qed.
(* the names Query.rquery gives the sub-query / set-operation sources are those of the history run
   "every from_() first, then the joins" *)
Theorem stmt_names_hist : forall base tk from joins,
  sub_only from (fst (stmt_names base tk from joins)) ++ sub_only (jsources joins) (snd (stmt_names base tk from joins))
  = sub_names_hist (fst (run_hist 0 (stmt_hist from joins))).
Proof.
  intros base tk from joins. unfold stmt_names, stmt_hist. rewrite run_hist_app. cbn [fst]. rewrite sub_names_hist_app.
  rewrite <- name_from_sub. rewrite (name_from_hist from 0) at 2. cbn [snd].
  pose proof (name_from_hist from 0) as F. destruct (name_from sub_count 0 from) as [fn n1]. inversion F; subst; clear F.
  match goal with |- context [name_joins base ?T ?n joins] =>
    destruct (name_joins_hist base joins T n) as [J _]; destruct (name_joins base T n joins) as [jn n2] end.
  cbn [fst snd] in *. rewrite J. reflexivity.
Qed.

(* ---- do_join's numbered aliases: first_free gives a name that is not in use ---- *)
Lemma sapp_cancel_l (p a b : string) : (p ++ a)%string = (p ++ b)%string -> a = b.
Proof. induction p as [|c p IH]; cbn; intros H; [exact H|]. inversion H. auto. Qed.
Lemma first_free_aux_fresh nm taken : forall fuel n R,
  (forall k, n <= k -> In (nm ++ nat_to_string k)%string taken -> In (nm ++ nat_to_string k)%string R) ->
  List.length R <= fuel -> ~ In (first_free_aux nm taken fuel n) taken.
Proof.
  induction fuel as [|f IH]; intros n R HR HL.
  - cbn. intros Hin. apply (HR n (le_n n)) in Hin. destruct R; [destruct Hin | cbn in HL; lia].
  - cbn [first_free_aux]. destruct (existsb (String.eqb (nm ++ nat_to_string n)) taken) eqn:E.
    + apply existsb_exists in E as [y [Hy Ey]]. apply String.eqb_eq in Ey. subst y.
      apply (IH (S n) (remove string_dec (nm ++ nat_to_string n)%string R)).
      * intros k Hk Hin. apply in_in_remove.
        -- intros Heq. apply sapp_cancel_l in Heq. apply nat_to_string_inj in Heq. lia.
        -- apply HR; [lia | exact Hin].
      * pose proof (remove_length_lt string_dec R (nm ++ nat_to_string n)%string (HR n (le_n n) Hy)). lia.
    + intros Hin. assert (X : existsb (String.eqb (nm ++ nat_to_string n)) taken = true).
      { apply existsb_exists. exists (nm ++ nat_to_string n)%string. split; [exact Hin | apply String.eqb_refl]. }
      congruence.
Qed.
Theorem first_free_fresh : forall nm taken, ~ In (first_free nm taken) taken.
Proof. intros nm taken. unfold first_free. apply (first_free_aux_fresh nm taken _ 2 taken); auto. Qed.

(* every numbered alias do_join invents is a name no earlier source of the statement carries (FROM items, UPDATE target,
   earlier joins: whatever [taken] holds, and Query.rquery starts it with exactly these -- WITH names that are only defined
   are not sources, pypika 2def80d), and the numbered aliases of one statement are pairwise distinct *)
Theorem numbered_fresh : forall base l taken own,
  (forall s, In s (numbered_of (jsources l) (fst (name_joins base taken own l))) -> ~ In s taken)
  /\ NoDup (numbered_of (jsources l) (fst (name_joins base taken own l))).
Proof.
  intros base. unfold jsources. induction l as [|[[h s] cnd] r IH]; intros taken own; [split; [intros s [] | constructor]|].
  destruct s as [t|x|n]; cbn [map name_joins numbered_of fst snd].
  - match goal with |- context [name_joins base ?T own r] => specialize (IH T own); destruct (name_joins base T own r) as [a b] end.
    cbn [fst hd tl] in *. destruct IH as [I1 I2]. destruct (talias t) as [al|] eqn:Ea.
    + cbn [app]. split; [|exact I2]. intros s Hs Hin. apply (I1 s Hs). right. exact Hin.
    + destruct (existsb (tref_eqb t) base).
      * cbn [app]. split.
        -- intros s [<-|Hs]; [apply first_free_fresh|]. intros Hin. apply (I1 s Hs). right. exact Hin.
        -- constructor; [|exact I2]. intros Hin. apply (I1 _ Hin). left. reflexivity.
      * cbn [app]. split; [|exact I2]. intros s Hs Hin. apply (I1 s Hs). right. exact Hin.
  - destruct (qalias x) as [al|].
    + match goal with |- context [name_joins base ?T own r] => specialize (IH T own); destruct (name_joins base T own r) as [a b] end.
      cbn [fst hd tl app] in *. destruct IH as [I1 I2]. split; [|exact I2]. intros s Hs Hin. apply (I1 s Hs). right. exact Hin.
    + match goal with |- context [name_joins base ?T (S own) r] => specialize (IH T (S own)); destruct (name_joins base T (S own) r) as [a b] end.
      cbn [fst hd tl app] in *. destruct IH as [I1 I2]. split; [|exact I2]. intros s Hs Hin. apply (I1 s Hs). right. exact Hin.
  - match goal with |- context [name_joins base ?T own r] => specialize (IH T own); destruct (name_joins base T own r) as [a b] end.
    cbn [fst hd tl app] in *. destruct IH as [I1 I2]. split; [|exact I2]. intros s Hs Hin. apply (I1 s Hs). right. exact Hin.
Qed.
Theorem name2_fresh : forall x s, In s (name2_names x) -> ~ In s (base_names x).
Proof.
  intros x s. destruct x; cbn [name2_names base_names]; try (intros []); unfold stmt_names, sel_tk, upd_tk.
  - destruct (name_from sub_count 0 from) as [fn n1]. cbn [fst].
    pose proof (numbered_fresh (base_tables from) joins (src_names from fn) n1) as [F _].
    destruct (name_joins (base_tables from) (src_names from fn) n1 joins). exact (F s).
  - destruct (name_from sub_count 0 from) as [fn n1]. cbn [fst].
    pose proof (numbered_fresh (tbl :: base_tables from) joins (tref_name tbl :: src_names from fn) n1) as [F _].
    destruct (name_joins (tbl :: base_tables from) (tref_name tbl :: src_names from fn) n1 joins). exact (F s).
Qed.
Theorem name2_NoDup : forall x, NoDup (name2_names x).
Proof.
  intros x. destruct x; cbn [name2_names]; try constructor; unfold stmt_names.
  - destruct (name_from sub_count 0 from) as [fn n1].
    pose proof (numbered_fresh (base_tables from) joins (sel_tk withs (src_names from fn)) n1) as [_ N].
    destruct (name_joins (base_tables from) (sel_tk withs (src_names from fn)) n1 joins). exact N.
  - destruct (name_from sub_count 0 from) as [fn n1].
    pose proof (numbered_fresh (tbl :: base_tables from) joins (upd_tk tbl (src_names from fn)) n1) as [_ N].
    destruct (name_joins (tbl :: base_tables from) (upd_tk tbl (src_names from fn)) n1 joins). exact N.
Qed.

(* statement level *)
Theorem invented_NoDup : forall x, NoDup (invented_names x).
Proof. intros x. apply invented_NoDup_hist. Qed.
Theorem subquery_names_NoDup : forall x,
  NoDup (given_sub_names x) -> forallb (fun s => negb (sq_prefixed s)) (given_sub_names x) = true ->
  NoDup (subquery_names x).
Proof. intros x. apply sub_NoDup_hist. Qed.
(* in particular when every sub-query passed to the statement is fresh (carries no alias yet) *)
Corollary fresh_subqueries_NoDup : forall x, given_sub_names x = [] -> NoDup (subquery_names x).
Proof. intros x H. apply subquery_names_NoDup; rewrite H; [constructor | reflexivity]. Qed.

(* all names the builder makes up (sq<d> and name2) are distinct when no table is re-joined twice and no table is
   called "sq..." *)
Lemma NoDup_app_disjoint {A} (a b : list A) : NoDup a -> NoDup b -> (forall x, In x a -> In x b -> False) -> NoDup (a ++ b).
Proof.
  induction a as [|x r IH]; intros Ha Hb D; [exact Hb|]. inversion Ha; subst. cbn. constructor.
  - intros Hin. apply in_app_or in Hin as [H|H]; [contradiction|]. apply (D x); [left; reflexivity | exact H].
  - apply IH; auto. intros y Hy. apply D. right. exact Hy.
Qed.
Theorem builder_names_NoDup : forall x,
  forallb (fun s => negb (sq_prefixed s)) (name2_names x) = true -> NoDup (builder_names x).
Proof.
  intros x HP. unfold builder_names. apply NoDup_app_disjoint; [apply invented_NoDup | apply name2_NoDup |].
  intros s Hi Hn. apply invented_prefixed in Hi. rewrite forallb_forall in HP. specialize (HP _ Hn).
  rewrite Hi in HP. discriminate HP.
Qed.
