(* ScopeStmt.v — C10, statement level: Query.rquery for one statement IS the flattening of the tagged tokens of
   Scope.v, and every reference token of the statement's own clauses obeys the rule under the statement's own
   with_namespace flag (False for SET targets / INSERT columns).  Holds for every incoming keyword context, hence
   for a statement at any nesting depth. *)
From PV Require Import Base Crit gen.TermsTable Terms Page gen.QueryTable Query Scope lemmas.ScopeLemmas.
Local Open Scope list_scope.

(* ---------------- Query.rquery, one statement = the clause-wise form (by unfolding) ---------------- *)
Lemma rquery_sel kin walias subquery ali c withs distinct selects from joins wheres havings groupbys orderbys l o fu a :
  rquery kin walias subquery ali (QSel c withs distinct selects from joins wheres havings groupbys orderbys l o fu a)
  = sel_render kin walias subquery ali c withs distinct selects from joins wheres havings groupbys orderbys l o fu.
Proof.
  unfold sel_render, sel_wns, stmt_srcs, stmt_names. cbn [rquery].
  destruct (name_from sub_count 0 from) as [fnames n1].
  unfold sel_tk. destruct (name_joins (base_tables from) (src_names from fnames) n1 joins) as [jnames n2].
  reflexivity.
Qed.
Lemma rquery_upd kin walias subquery ali c tbl sets from joins wheres l :
  rquery kin walias subquery ali (QUpd c tbl sets from joins wheres l) = upd_render kin c tbl sets from joins wheres l.
Proof.
  unfold upd_render, upd_wns, stmt_srcs, stmt_names. cbn [rquery].
  destruct (name_from sub_count 0 from) as [fnames n1].
  unfold upd_tk. destruct (name_joins (tbl :: base_tables from) (tref_name tbl :: src_names from fnames) n1 joins) as [jnames n2].
  reflexivity.
Qed.
Lemma rquery_del kin walias subquery ali c from wheres :
  rquery kin walias subquery ali (QDel c from wheres) = del_render kin subquery c from wheres.
Proof.
  unfold del_render, del_wns. cbn [rquery].
  destruct (name_from sub_count 0 from) as [fnames n1]. reflexivity.
Qed.
Lemma rquery_ins kin walias subquery ali c into columns rows sel replace a :
  rquery kin walias subquery ali (QIns c into columns rows sel replace a)
  = ins_render kin walias subquery ali c into columns rows sel replace.
Proof. reflexivity. Qed.

(* ---------------- induction on items (nested lists in IFunc) ---------------- *)
Section ItemInd.
  Variable P : item -> Prop.
  Hypothesis HT : forall t, P (IT t).
  Hypothesis HSub : forall x, P (ISub x).
  Hypothesis HIn : forall t x n, P (IIn t x n).
  Hypothesis HEx : forall x n, P (IExists x n).
  Hypothesis HCmp : forall c t x, P (ICmp c t x).
  Hypothesis HFunc : forall n args a, Forall P args -> P (IFunc n args a).
  Hypothesis HCplx : forall b l r, P l -> P r -> P (ICplx b l r).
  Hypothesis HNot : forall i, P i -> P (INot i).
  Fixpoint item_ind' (i : item) : P i :=
    match i with
    | IT t => HT t | ISub x => HSub x | IIn t x n => HIn t x n | IExists x n => HEx x n | ICmp c t x => HCmp c t x
    | IFunc n args a =>
        HFunc n args a ((fix go (l : list item) : Forall P l :=
                           match l with [] => Forall_nil P | x :: r => Forall_cons x (item_ind' x) (go r) end) args)
    | ICplx b l r => HCplx b l r (item_ind' l) (item_ind' r)
    | INot x => HNot x (item_ind' x)
    end.
End ItemInd.

Lemma mapM_mapT {A} (f : A -> res string) (h : A -> res (list tok)) (g : list tok -> string) l :
  Forall (fun x => f x = rmap g (h x)) l -> mapM f l = rmap (map g) (mapT h l).
Proof.
  induction 1 as [|x r Hx Hr IH]; [reflexivity|]. cbn [mapM mapT]. fold (mapM f r). fold (mapT h r).
  rewrite Hx, IH. destruct (h x); cbn [bind rmap]; [|reflexivity]. destruct (mapT h r); reflexivity.
Qed.
Lemma mapM_mapT_all {A} (f : A -> res string) (h : A -> res (list tok)) (g : list tok -> string) l :
  (forall x, f x = rmap g (h x)) -> mapM f l = rmap (map g) (mapT h l).
Proof. intros H. apply mapM_mapT. apply Forall_forall. intros x _. apply H. Qed.

Lemma ritem_func k srcs c name args alias :
  ritem k srcs c (IFunc name args alias) =
  (ss <- mapM (ritem (fk (with_c k c)) srcs (fctx c)) args ;;
   let s := (name ++ "(" ++ join "," ss ++ ")")%string in Ok (if wa c then alias_sql c (q c) s alias else s)).
Proof. reflexivity. Qed.
Lemma itoks_func k srcs c name args alias :
  itoks k srcs c (IFunc name args alias) =
  (ss <- mapT (itoks (fk (with_c k c)) srcs (fctx c)) args ;;
   let s := KText (name ++ "(") :: jtoks "," ss ++ [KText ")"] in Ok (if wa c then alias_toks c (q c) s alias else s)).
Proof. reflexivity. Qed.

(* ---------------- (A) items: flattening the tokens gives Query.ritem ---------------- *)
Theorem ritem_toks : forall srcs i k c, ritem k srcs c i = rmap (flat (q c)) (itoks k srcs c i).
Proof.
  intros srcs i. induction i as [t|x|t x n|x n|cm t x|n args a H|b l r IHl IHr|i IHi] using item_ind'; intros k c.
  - cbn [ritem itoks]. apply rtoks_render.
  - cbn [ritem itoks]. destruct (rquery _ _ _ _ x); cbn [bind rmap]; [|reflexivity]. rewrite flat_one. reflexivity.
  - cbn [ritem itoks]. rewrite rtoks_render. qs.
    destruct (rtoks (set_subq c false) _); cbn [bind rmap]; [|reflexivity].
    destruct (rquery _ _ _ _ x); cbn [bind rmap]; [|reflexivity]. f_equal; norm; reflexivity.
  - cbn [ritem itoks]. destruct (rquery _ _ _ _ x); cbn [bind rmap]; [|reflexivity]. rewrite flat_one. reflexivity.
  - cbn [ritem itoks]. rewrite rtoks_render. qs.
    destruct (rtoks (set_wa c false) _); cbn [bind rmap]; [|reflexivity].
    destruct (rquery _ _ _ _ x); cbn [bind rmap]; [|reflexivity]. f_equal; norm; reflexivity.
  - rewrite ritem_func, itoks_func.
    rewrite (mapM_mapT _ (itoks (fk (with_c k c)) srcs (fctx c)) (flat (q c))).
    + destruct (mapT _ args) as [ss|]; cbn [bind rmap]; [|reflexivity]. f_equal. destruct (wa c); norm; reflexivity.
    + eapply Forall_impl; [|exact H]. intros x Hx. cbn beta in Hx. rewrite Hx. reflexivity.
  - cbn [ritem itoks]. rewrite IHl, IHr. qs.
    destruct (itoks k srcs (set_subc c _) l); cbn [bind rmap]; [|reflexivity].
    destruct (itoks k srcs (set_subc c _) r); cbn [bind rmap]; [|reflexivity]. f_equal; norm; reflexivity.
  - cbn [ritem itoks]. rewrite IHi. qs.
    destruct (itoks k srcs (set_subc c true) i); cbn [bind rmap]; reflexivity.
Qed.

(* ---------------- (B) items: rule and completeness ---------------- *)
Definition Ft (f : tref -> tref) (t : term) := field_tables (map_tref f t) = map (option_map f) (field_tables t).
Definition Fl (f : tref -> tref) (l : tlist) := field_tables_l (map_tref_l f l) = map (option_map f) (field_tables_l l).
Definition Fw (f : tref -> tref) (l : wlist) := field_tables_w (map_tref_w f l) = map (option_map f) (field_tables_w l).
Definition Fo (f : tref -> tref) (o : oterm) := match o with ONone => True | OSome t => Ft f t end.
Lemma field_tables_map_all f : (forall t, Ft f t) /\ (forall l, Fl f l) /\ (forall l, Fw f l) /\ (forall o, Fo f o).
Proof.
  apply sc_term_all_ind; unfold Ft, Fl, Fw, Fo; intros;
    cbn [map_tref map_tref_l map_tref_w field_tables field_tables_l field_tables_w map];
    rewrite ?map_app; try congruence; try reflexivity.
  - (* TCase *) rewrite H. destruct els; [reflexivity|]. cbn in H0. rewrite H0. reflexivity.
Qed.
Lemma field_tables_map f t : field_tables (map_tref f t) = map (option_map f) (field_tables t).
Proof. apply (proj1 (field_tables_map_all f)). Qed.

Lemma mapT_props {A} (h : A -> res (list tok)) (T : A -> list (option tref)) w l :
  Forall (fun x => forall ts, h x = Ok ts -> okl w ts = true /\ tok_tables ts = T x) l ->
  forall tss, mapT h l = Ok tss -> forallb (okl w) tss = true /\ List.concat (map tok_tables tss) = flat_map T l.
Proof.
  induction 1 as [|x r Hx Hr IH]; intros tss H.
  - inversion H; subst. split; reflexivity.
  - cbn [mapT] in H. fold (mapT h r) in H. inv_bind H. inversion H; subst; clear H.
    destruct (Hx _ eq_refl) as [A1 B1]. destruct (IH _ eq_refl) as [A2 B2].
    cbn [forallb map List.concat flat_map]. rewrite A1, A2, B1, B2. split; reflexivity.
Qed.

Lemma item_tables_func n args a : item_tables (IFunc n args a) = flat_map item_tables args.
Proof. reflexivity. Qed.

Theorem itoks_props : forall srcs i k c ts, itoks k srcs c i = Ok ts ->
  okl (wn c) ts = true /\ tok_tables ts = map (resolve_otref srcs) (item_tables i).
Proof.
  intros srcs i. induction i as [t|x|t x n|x n|cm t x|n args a H|b l r IHl IHr|i IHi] using item_ind'; intros k c ts Hts.
  - cbn [itoks] in Hts. destruct (proj1 rtoks_refs_all _ _ _ Hts) as [A B]. split; [exact A|].
    rewrite B. cbn [item_tables]. apply field_tables_map.
  - cbn [itoks] in Hts. inv_bind Hts. inversion Hts; subst. split; reflexivity.
  - cbn [itoks] in Hts. inv_bind Hts. inversion Hts; subst; clear Hts.
    destruct (proj1 rtoks_refs_all _ _ _ E) as [A B]. wns. simp_ok. simp_tt.
    rewrite A, B, app_nil_r. cbn [item_tables]. split; [reflexivity | apply field_tables_map].
  - cbn [itoks] in Hts. inv_bind Hts. inversion Hts; subst. split; reflexivity.
  - cbn [itoks] in Hts. inv_bind Hts. inversion Hts; subst; clear Hts.
    destruct (proj1 rtoks_refs_all _ _ _ E) as [A B]. wns. simp_ok. simp_tt.
    rewrite A, B, app_nil_r. cbn [item_tables]. split; [reflexivity | apply field_tables_map].
  - rewrite itoks_func in Hts. inv_bind Hts.
    match type of E with mapT _ _ = Ok ?L => rename L into tss end.
    assert (P : forallb (okl (wn c)) tss = true /\ List.concat (map tok_tables tss) = flat_map (fun x => map (resolve_otref srcs) (item_tables x)) args).
    { eapply (mapT_props _ _ (wn c)); [|exact E]. eapply Forall_impl; [|exact H].
      intros x Hx ts0 H0. cbn beta in Hx. apply (Hx _ _ _ H0). }
    destruct P as [A B]. rewrite item_tables_func.
    assert (M : forall l0, flat_map (fun x => map (resolve_otref srcs) (item_tables x)) l0 = map (resolve_otref srcs) (flat_map item_tables l0)).
    { induction l0 as [|x0 r0 IH0]; [reflexivity|]. cbn [flat_map]. rewrite map_app, IH0. reflexivity. }
    rewrite <- M, <- B.
    destruct (wa c); inversion Hts; subst; clear Hts; simp_ok; simp_tt; rewrite A, ?app_nil_r; split; reflexivity.
  - cbn [itoks] in Hts. inv_bind Hts. inversion Hts; subst; clear Hts.
    destruct (IHl _ _ _ E) as [A1 B1]. destruct (IHr _ _ _ E0) as [A2 B2]. wns. simp_ok. simp_tt.
    rewrite A1, A2, B1, B2. cbn [item_tables]. rewrite map_app. split; reflexivity.
  - cbn [itoks] in Hts. inv_bind Hts. inversion Hts; subst; clear Hts.
    destruct (IHi _ _ _ E) as [A1 B1]. wns. simp_ok. simp_tt. rewrite A1, B1. split; reflexivity.
Qed.

Theorem itoks_rule : forall srcs i k c ts, itoks k srcs c i = Ok ts -> Forall (ref_ok (wn c)) ts.
Proof. intros. apply okl_Forall. eapply itoks_props; eauto. Qed.

(* ---------------- tagged tokens: flattening and the rule ---------------- *)
Lemma sflat_app qc a b : sflat qc (a ++ b) = (sflat qc a ++ sflat qc b)%string.
Proof. unfold sflat. rewrite map_app. apply flat_app. Qed.
Lemma sflat_tg qc cl ts : sflat qc (tg cl ts) = flat qc ts.
Proof. unfold sflat, tg. rewrite map_map. cbn [snd]. rewrite map_id. reflexivity. Qed.
Lemma sflat_tx qc s : sflat qc (tx s) = s.
Proof. unfold sflat, tx. cbn [map snd]. apply flat_one. Qed.
Lemma sflat_nil qc : sflat qc [] = ""%string.
Proof. reflexivity. Qed.
Lemma sflat_sparen qc b l : sflat qc (sparen b l) = paren b (sflat qc l).
Proof. destruct b; [|reflexivity]. unfold sparen, paren. rewrite !sflat_app, !sflat_tx. reflexivity. Qed.
Lemma sflat_salias qc walias l ali askw_ aqc qc' :
  sflat qc (salias walias l ali askw_ aqc qc') = (if walias then fmt_alias (sflat qc l) ali qc' aqc askw_ else sflat qc l).
Proof.
  unfold salias. destruct walias; [|reflexivity]. destruct ali; [|reflexivity].
  rewrite sflat_app, sflat_tx. reflexivity.
Qed.
Lemma sflat_sjoin qc sep l : sflat qc (sjoin sep l) = join sep (map (sflat qc) l).
Proof.
  induction l as [|x r IH]; [reflexivity|]. destruct r as [|y r']; [reflexivity|].
  change (sjoin sep (x :: y :: r')) with (x ++ tx sep ++ sjoin sep (y :: r')).
  change (join sep (map (sflat qc) (x :: y :: r'))) with (sflat qc x ++ sep ++ join sep (map (sflat qc) (y :: r')))%string.
  rewrite !sflat_app, sflat_tx, IH. reflexivity.
Qed.

Definition sokl (w : bool) (l : list stok) : bool := forallb (sref_okb w) l.
Lemma sokl_app w a b : sokl w (a ++ b) = sokl w a && sokl w b.
Proof. apply forallb_app. Qed.
Lemma sokl_tx w s : sokl w (tx s) = true.
Proof. reflexivity. Qed.
Lemma sokl_ctext w s r : sokl w ((ClText, KText s) :: r) = sokl w r.
Proof. reflexivity. Qed.
Lemma sokl_tg w cl ts : sokl w (tg cl ts) = okl (if is_target cl then false else w) ts.
Proof. unfold sokl, tg, okl. induction ts as [|t r IH]; [reflexivity|]. cbn [map forallb]. rewrite IH. reflexivity. Qed.
Lemma sokl_sparen w b l : sokl w (sparen b l) = sokl w l.
Proof. destruct b; [|reflexivity]. unfold sparen. rewrite !sokl_app, !sokl_tx. cbn. apply andb_true_r. Qed.
Lemma sokl_salias w walias l ali askw_ aqc qc' : sokl w (salias walias l ali askw_ aqc qc') = sokl w l.
Proof.
  unfold salias. destruct walias; [|reflexivity]. destruct ali; [|reflexivity].
  rewrite sokl_app, sokl_tx. apply andb_true_r.
Qed.
Lemma sokl_sjoin w sep l : sokl w (sjoin sep l) = forallb (sokl w) l.
Proof.
  induction l as [|x r IH]; [reflexivity|]. destruct r as [|y r'].
  - cbn. rewrite andb_true_r. reflexivity.
  - change (sjoin sep (x :: y :: r')) with (x ++ tx sep ++ sjoin sep (y :: r')).
    rewrite !sokl_app, sokl_tx, IH. reflexivity.
Qed.
Lemma sokl_Forall w l : sokl w l = true <-> Forall (sref_ok w) l.
Proof.
  unfold sokl. rewrite forallb_forall, Forall_forall. split; intros H x Hx; apply ref_okb_ok; apply H; exact Hx.
Qed.

Ltac snorm := repeat (rewrite ?sflat_app, ?sflat_tg, ?sflat_tx, ?sflat_nil, ?sflat_sparen, ?sflat_salias, ?sflat_sjoin,
                              ?flat_app, ?flat_cons, ?flat_nil, ?flat_ptoks, ?flat_alias, ?flat_jtoks, ?flat_one);
              cbn [tok_text]; rewrite ?sapp_assoc, ?sapp_nil_r.
Ltac cxs := cbn [q wn sel_cx upd_cx ctx_item set_wn set_subq set_wa set_subc kc with_c mk_k] in *.
Ltac dres := match goal with
  | |- bind ?X _ = rmap _ (bind ?X _) => destruct X; cbn [bind rmap]; [|reflexivity]
  | |- bind (rmap _ ?X) _ = rmap _ (bind ?X _) => destruct X; cbn [bind rmap]; [|reflexivity]
  end.

(* ---- loops ---- *)
Lemma join_loop_toks k kk srcs ct cq con qc : q con = qc -> forall joins ns,
  join_loop k kk srcs ct cq con qc joins ns = rmap (map (flat qc)) (join_toks k kk srcs ct cq con qc joins ns).
Proof.
  intros Hq. induction joins as [|[[h s] cnd] r IH]; intros ns; [reflexivity|].
  cbn [join_loop join_toks]. fold (join_loop k kk srcs ct cq con qc). fold (join_toks k kk srcs ct cq con qc).
  match goal with |- bind ?X _ = rmap _ (bind ?X _) => destruct X as [a|]; cbn [bind rmap]; [|reflexivity] end.
  rewrite IH.
  destruct cnd as [i|fs|].
  - rewrite ritem_toks, Hq. destruct (itoks kk srcs con i); cbn [bind rmap]; [|reflexivity].
    destruct (join_toks _ _ _ _ _ _ _ r (tl ns)); cbn [bind rmap map]; [|reflexivity].
    do 2 f_equal; norm; reflexivity.
  - cbn [bind rmap]. destruct (join_toks _ _ _ _ _ _ _ r (tl ns)); cbn [bind rmap map]; [|reflexivity].
    do 2 f_equal; norm; reflexivity.
  - cbn [bind rmap]. destruct (join_toks _ _ _ _ _ _ _ r (tl ns)); cbn [bind rmap map]; [|reflexivity].
    do 2 f_equal; norm; reflexivity.
Qed.
Lemma order_loop_toks kk srcs c base selects : forall l,
  order_loop kk srcs c base selects l = rmap (map (flat (q c))) (order_toks kk srcs c base selects l).
Proof.
  induction l as [|[y d] r IH]; [reflexivity|].
  cbn [order_loop order_toks]. fold (order_loop kk srcs c base selects). fold (order_toks kk srcs c base selects).
  rewrite IH. destruct (alias_ref selects y) as [a|].
  - cbn [bind rmap]. destruct (order_toks _ _ _ _ _ r); cbn [bind rmap map]; [|reflexivity].
    do 2 f_equal; destruct d; norm; reflexivity.
  - rewrite ritem_toks. destruct (itoks kk srcs c y); cbn [bind rmap]; [|reflexivity].
    destruct (order_toks _ _ _ _ _ r); cbn [bind rmap map]; [|reflexivity].
    do 2 f_equal; destruct d; norm; reflexivity.
Qed.
Lemma sets_loop_toks kk srcs ctgt cval : q ctgt = q cval -> forall l,
  sets_loop kk srcs ctgt cval l = rmap (map (sflat (q cval))) (sets_toks kk srcs ctgt cval l).
Proof.
  intros Hq. induction l as [|[f v] r IH]; [reflexivity|].
  cbn [sets_loop sets_toks]. fold (sets_loop kk srcs ctgt cval). fold (sets_toks kk srcs ctgt cval).
  rewrite IH, rtoks_render, ritem_toks, Hq.
  destruct (rtoks ctgt f); cbn [bind rmap]; [|reflexivity].
  destruct (itoks kk srcs cval v); cbn [bind rmap]; [|reflexivity].
  destruct (sets_toks _ _ _ _ r); cbn [bind rmap map]; [|reflexivity].
  do 2 f_equal; snorm; reflexivity.
Qed.
Lemma rows_loop_toks kk c : forall l,
  rows_loop kk c l = rmap (map (flat (q c))) (rows_toks kk c l).
Proof.
  induction l as [|row r IH]; [reflexivity|].
  cbn [rows_loop rows_toks]. fold (rows_loop kk c). fold (rows_toks kk c).
  change ((fix gov (l2 : list item) : res (list string) :=
             match l2 with [] => Ok [] | y :: r2 => a <- ritem kk [] c y ;; rest <- gov r2 ;; Ok (a :: rest) end) row)
    with (mapM (ritem kk [] c) row).
  rewrite (mapM_mapT_all _ (itoks kk [] c) (flat (q c))) by (intros; apply ritem_toks).
  rewrite IH. destruct (mapT _ row); cbn [bind rmap]; [|reflexivity].
  destruct (rows_toks kk c r); cbn [bind rmap map]; [|reflexivity]. do 2 f_equal; norm; reflexivity.
Qed.

Lemma where_toks kk srcs c kw wheres :
  opt_bind wheres (fun i => a <- ritem kk srcs c i ;; Ok (kw ++ a)%string)
  = rmap (flat (q c)) (opt_bindT wheres (fun i => a <- itoks kk srcs c i ;; Ok (KText kw :: a))).
Proof.
  destruct wheres as [i|]; [|reflexivity]. cbn [opt_bind opt_bindT]. rewrite ritem_toks.
  destruct (itoks kk srcs c i); reflexivity.
Qed.

Lemma js_text qc (js : list (list tok)) :
  (match map (flat qc) js with [] => "" | _ => " " ++ join " " (map (flat qc) js) end)%string
  = flat qc (match js with [] => [] | _ => KText " " :: jtoks " " js end).
Proof. destruct js; [reflexivity|]. rewrite flat_cons, flat_jtoks. reflexivity. Qed.

(* ---------------- (C) statements: the text is the flattening of the tagged tokens ---------------- *)
Theorem sel_render_toks kin walias subquery ali c withs distinct selects from joins wheres havings groupbys orderbys l o fu :
  sel_render kin walias subquery ali c withs distinct selects from joins wheres havings groupbys orderbys l o fu
  = rmap (sflat (q (kc (defaults c kin))))
         (sel_toks kin walias subquery ali c withs distinct selects from joins wheres havings groupbys orderbys l o fu).
Proof.
  unfold sel_render, sel_toks. lazy zeta.
  set (k := defaults c kin). set (nm := stmt_names (base_tables from) (sel_tk withs) from joins).
  set (srcs := stmt_srcs (base_tables from) (sel_tk withs) from joins). set (wns := sel_wns withs from joins wheres).
  set (kk := with_c k (set_wn (kc k) wns)).
  destruct selects as [|s0 sels]; [reflexivity|]. set (selects := s0 :: sels).
  dres.
  rewrite (mapM_mapT_all _ (itoks kk srcs (sel_cx k wns ClSelect)) (flat (q (kc k)))) by (intros; rewrite ritem_toks; reflexivity).
  dres. dres.
  rewrite (join_loop_toks k kk srcs _ _ (sel_cx k wns ClOn) (q (kc k)) eq_refl). dres.
  rewrite (where_toks kk srcs (sel_cx k wns ClWhere) " WHERE "). cxs. dres.
  assert (G : (match groupbys with
               | [] => Ok ""%string
               | _ :: _ => gs <- mapM (fun y => match (if k_gba k then alias_ref selects y else None) with
                                                | Some a => Ok (fq (or_ostr (aq (kc k)) (q (kc k))) a)
                                                | None => ritem kk srcs (sel_cx k wns ClGroupBy) y end) groupbys ;;
                           Ok (" GROUP BY " ++ join "," gs)%string end)
              = rmap (flat (q (kc k)))
                  (match groupbys with
                   | [] => Ok []
                   | _ :: _ => gs <- mapT (fun y => match (if k_gba k then alias_ref selects y else None) with
                                                    | Some a => Ok [KText (fq (or_ostr (aq (kc k)) (q (kc k))) a)]
                                                    | None => itoks kk srcs (sel_cx k wns ClGroupBy) y end) groupbys ;;
                               Ok (KText " GROUP BY " :: jtoks "," gs) end)).
  { destruct groupbys as [|g0 gr]; [reflexivity|].
    rewrite (mapM_mapT_all _ (fun y => match (if k_gba k then alias_ref selects y else None) with
                                       | Some a => Ok [KText (fq (or_ostr (aq (kc k)) (q (kc k))) a)]
                                       | None => itoks kk srcs (sel_cx k wns ClGroupBy) y end) (flat (q (kc k)))).
    - destruct (mapT _ (g0 :: gr)); cbn [bind rmap]; [|reflexivity]. f_equal; norm; reflexivity.
    - intros y. destruct (if k_gba k then alias_ref selects y else None).
      + cbn [rmap]. rewrite flat_one. reflexivity.
      + rewrite ritem_toks. reflexivity. }
  cxs. rewrite G. clear G. dres.
  rewrite (where_toks kk srcs (sel_cx k wns ClHaving) " HAVING "). cxs. dres.
  assert (O : (match orderbys with
               | [] => Ok ""%string
               | _ :: _ => os <- order_loop kk srcs (sel_cx k wns ClOrderBy) (kc k) selects orderbys ;;
                           Ok (" ORDER BY " ++ join "," os)%string end)
              = rmap (flat (q (kc k)))
                  (match orderbys with
                   | [] => Ok []
                   | _ :: _ => os <- order_toks kk srcs (sel_cx k wns ClOrderBy) (kc k) selects orderbys ;;
                               Ok (KText " ORDER BY " :: jtoks "," os) end)).
  { destruct orderbys as [|o0 orr]; [reflexivity|]. rewrite order_loop_toks. cxs.
    destruct (order_toks _ _ _ _ _ (o0 :: orr)); cbn [bind rmap]; [|reflexivity]. f_equal; norm; reflexivity. }
  cxs. rewrite O. clear O. dres.
  f_equal. rewrite sflat_salias, sflat_sparen. rewrite js_text.
  destruct walias; snorm; reflexivity.
Qed.

Theorem upd_render_toks kin c tbl sets from joins wheres l :
  upd_render kin c tbl sets from joins wheres l
  = rmap (sflat (q (kc (defaults c kin)))) (upd_toks kin c tbl sets from joins wheres l).
Proof.
  unfold upd_render, upd_toks. lazy zeta.
  set (k := defaults c kin). set (nm := stmt_names (tbl :: base_tables from) (upd_tk tbl) from joins).
  set (srcs := stmt_srcs (tbl :: base_tables from) (upd_tk tbl) from joins). set (wns := upd_wns tbl from joins wheres).
  set (base := set_wn (kc k) wns). set (kk := with_c k base).
  destruct sets as [|s0 sr]; [reflexivity|]. set (sets := s0 :: sr).
  rewrite (join_loop_toks k kk srcs _ _ (upd_cx k wns ClOn) (q base) eq_refl). dres.
  rewrite (sets_loop_toks kk srcs (upd_cx k wns ClSetTarget) (upd_cx k wns ClSetValue) eq_refl). cxs. dres.
  dres.
  rewrite (where_toks kk srcs (upd_cx k wns ClWhere) " WHERE "). cxs. dres.
  f_equal. rewrite js_text. snorm. reflexivity.
Qed.

Theorem del_render_toks kin subquery c from wheres :
  del_render kin subquery c from wheres = rmap (sflat (q (kc (defaults c kin)))) (del_toks kin subquery c from wheres).
Proof.
  unfold del_render, del_toks. lazy zeta.
  set (k := defaults c kin). set (wns := del_wns from wheres).
  set (base := set_wn (kc k) wns). set (kk := with_c k base).
  dres.
  rewrite (where_toks kk _ (upd_cx k wns ClWhere) " WHERE "). cxs. dres.
  f_equal. snorm. destruct (cls_is_clickhouse c); snorm; reflexivity.
Qed.

Theorem ins_render_toks kin walias subquery ali c into columns rows sel replace :
  ins_render kin walias subquery ali c into columns rows sel replace
  = rmap (sflat (q (kc (defaults c kin)))) (ins_toks kin walias subquery ali c into columns rows sel replace).
Proof.
  unfold ins_render, ins_toks. lazy zeta.
  set (k := defaults c kin). set (base := set_wn (kc k) false). set (kk := with_c k base).
  assert (C : (match columns with
               | [] => Ok ""%string
               | _ :: _ => cs <- render_list (upd_cx k false ClInsColumn) (fold_right TCons TNil columns) ;;
                           Ok (" (" ++ join "," cs ++ ")")%string end)
              = rmap (flat (q (kc k)))
                  (match columns with
                   | [] => Ok []
                   | _ :: _ => cs <- rtoks_list (upd_cx k false ClInsColumn) (fold_right TCons TNil columns) ;;
                               Ok (KText " (" :: jtoks "," cs ++ [KText ")"]) end)).
  { destruct columns as [|c0 cr]; [reflexivity|].
    rewrite (proj1 (proj2 rtoks_render_all)). cxs.
    destruct (rtoks_list _ _); cbn [bind rmap]; [|reflexivity]. f_equal; norm; reflexivity. }
  rewrite C. clear C. dres.
  destruct rows as [|r0 rr].
  - destruct sel as [y|]; [|reflexivity].
    destruct (rquery kk false false (qalias y) y) as [s|]; cbn [bind rmap]; [|reflexivity].
    destruct s; [reflexivity|]. cbn [rmap]. f_equal. rewrite sflat_salias, sflat_sparen.
    destruct walias; snorm; reflexivity.
  - rewrite rows_loop_toks. cxs. destruct (rows_toks _ _ (r0 :: rr)); cbn [bind rmap]; [|reflexivity].
    f_equal; snorm; reflexivity.
Qed.

(* Query.rquery of ANY statement under ANY incoming keyword context is the flattening of its tagged tokens *)
Theorem rquery_stoks : forall kin walias subquery ali x,
  rquery kin walias subquery ali x = rmap (sflat (stmt_q kin x)) (stoks kin walias subquery ali x).
Proof.
  intros kin walias subquery ali x. destruct x.
  - rewrite rquery_sel. apply sel_render_toks.
  - rewrite rquery_ins. apply ins_render_toks.
  - rewrite rquery_upd. apply upd_render_toks.
  - rewrite rquery_del. apply del_render_toks.
  - cbn [stoks stmt_q]. destruct (rquery kin walias subquery ali (QSet x ops orderbys lim off alias)); cbn [bind rmap]; [|reflexivity].
    rewrite sflat_tx. reflexivity.
Qed.

(* ---------------- (D) statements: every reference token of the own clauses obeys the rule ---------------- *)
Lemma mapT_rule {A} (h : A -> res (list tok)) w l :
  (forall x ts, h x = Ok ts -> okl w ts = true) -> forall tss, mapT h l = Ok tss -> forallb (okl w) tss = true.
Proof.
  intros Hh. induction l as [|x r IH]; intros tss H.
  - inversion H; subst. reflexivity.
  - cbn [mapT] in H. fold (mapT h r) in H. inv_bind H. inversion H; subst; clear H.
    cbn [forallb]. rewrite (Hh _ _ E), (IH _ eq_refl). reflexivity.
Qed.
Lemma itoks_okl srcs i k c ts : itoks k srcs c i = Ok ts -> okl (wn c) ts = true.
Proof. intros H. exact (proj1 (itoks_props srcs i k c ts H)). Qed.
Lemma where_rule kk srcs c kw wheres ts :
  opt_bindT wheres (fun i => a <- itoks kk srcs c i ;; Ok (KText kw :: a)) = Ok ts -> okl (wn c) ts = true.
Proof.
  destruct wheres as [i|]; cbn [opt_bindT]; intros H.
  - inv_bind H. inversion H; subst. rewrite okl_text. eapply itoks_okl; eassumption.
  - inversion H; subst. reflexivity.
Qed.
Lemma join_toks_rule k kk srcs ct cq con qc : forall joins ns tss,
  join_toks k kk srcs ct cq con qc joins ns = Ok tss -> forallb (okl (wn con)) tss = true.
Proof.
  induction joins as [|[[h s] cnd] r IH]; intros ns tss H.
  - inversion H; subst. reflexivity.
  - cbn [join_toks] in H. fold (join_toks k kk srcs ct cq con qc) in H. inv_bind H. inversion H; subst; clear H.
    cbn [forallb]. rewrite (IH _ _ E1), okl_text, andb_true_r.
    destruct cnd as [i|fs|].
    + inv_bind E0. inversion E0; subst. rewrite okl_text. eapply itoks_okl; eassumption.
    + inversion E0; subst. reflexivity.
    + inversion E0; subst. reflexivity.
Qed.
Lemma order_toks_rule kk srcs c base selects : forall l tss,
  order_toks kk srcs c base selects l = Ok tss -> forallb (okl (wn c)) tss = true.
Proof.
  induction l as [|[y d] r IH]; intros tss H.
  - inversion H; subst. reflexivity.
  - cbn [order_toks] in H. fold (order_toks kk srcs c base selects) in H. inv_bind H. inversion H; subst; clear H.
    cbn [forallb]. rewrite (IH _ eq_refl), andb_true_r.
    assert (A : okl (wn c) a = true).
    { destruct (alias_ref selects y); [inversion E; subst; reflexivity | eapply itoks_okl; eassumption]. }
    destruct d; [rewrite okl_app, A; reflexivity | exact A].
Qed.
Lemma sets_toks_rule kk srcs ctgt cval w : wn ctgt = false -> wn cval = w -> forall l tss,
  sets_toks kk srcs ctgt cval l = Ok tss -> forallb (sokl w) tss = true.
Proof.
  intros Ht Hv. induction l as [|[f v] r IH]; intros tss H.
  - inversion H; subst. reflexivity.
  - cbn [sets_toks] in H. fold (sets_toks kk srcs ctgt cval) in H. inv_bind H. inversion H; subst; clear H.
    cbn [forallb]. rewrite (IH _ eq_refl), andb_true_r, sokl_app, sokl_ctext, !sokl_tg. cbn [is_target].
    pose proof (proj1 (proj1 rtoks_refs_all _ _ _ E)) as A. rewrite Ht in A.
    pose proof (itoks_okl _ _ _ _ _ E0) as B. rewrite A, B. reflexivity.
Qed.
Lemma rows_toks_rule kk c : forall l tss, rows_toks kk c l = Ok tss -> forallb (okl (wn c)) tss = true.
Proof.
  induction l as [|row r IH]; intros tss H.
  - inversion H; subst. reflexivity.
  - cbn [rows_toks] in H. fold (rows_toks kk c) in H. inv_bind H. inversion H; subst; clear H.
    cbn [forallb]. rewrite (IH _ eq_refl), andb_true_r, okl_jtoks.
    eapply mapT_rule; [|exact E]. intros x ts Hx. eapply itoks_okl; eassumption.
Qed.
Lemma okl_js w (js : list (list tok)) :
  forallb (okl w) js = true -> okl w (match js with [] => [] | _ => KText " " :: jtoks " " js end) = true.
Proof. intros H. destruct js; [reflexivity|]. rewrite okl_text, okl_jtoks. exact H. Qed.

Ltac srule := rewrite ?sokl_salias, ?sokl_sparen, ?sokl_app, ?sokl_tx, ?sokl_ctext, ?sokl_tg; cbn [is_target andb].

Theorem sel_toks_rule kin walias subquery ali c withs distinct selects from joins wheres havings groupbys orderbys l o fu ts :
  sel_toks kin walias subquery ali c withs distinct selects from joins wheres havings groupbys orderbys l o fu = Ok ts ->
  sokl (sel_wns withs from joins wheres) ts = true.
Proof.
  unfold sel_toks. lazy zeta.
  set (k := defaults c kin). set (nm := stmt_names (base_tables from) (sel_tk withs) from joins).
  set (srcs := stmt_srcs (base_tables from) (sel_tk withs) from joins). set (wns := sel_wns withs from joins wheres).
  set (kk := with_c k (set_wn (kc k) wns)).
  destruct selects as [|s0 sels]; [intros H; inversion H; reflexivity|]. set (selects := s0 :: sels).
  intros H. inv_bind H. inversion H; subst; clear H. repeat srule.
  assert (S1 : okl wns (jtoks "," a0) = true).
  { rewrite okl_jtoks. eapply mapT_rule; [|exact E0]. intros x ts Hx.
    change (okl (wn (sel_cx k wns ClSelect)) ts = true). eapply itoks_okl; eassumption. }
  assert (S2 : okl wns (match a2 with [] => [] | _ => KText " " :: jtoks " " a2 end) = true).
  { apply okl_js. change (forallb (okl (wn (sel_cx k wns ClOn))) a2 = true). eapply join_toks_rule; eassumption. }
  assert (S3 : okl wns a3 = true).
  { change (okl (wn (sel_cx k wns ClWhere)) a3 = true). eapply where_rule; eassumption. }
  assert (S4 : okl wns a4 = true).
  { destruct groupbys as [|g0 gr]; [inversion E4; subst; reflexivity|]. inv_bind E4. inversion E4; subst.
    rewrite okl_text, okl_jtoks. eapply mapT_rule; [|eassumption]. intros y ts0 Hy. cbn beta in Hy.
    destruct (if k_gba k then alias_ref selects y else None); [inversion Hy; subst; reflexivity|].
    change (okl (wn (sel_cx k wns ClGroupBy)) ts0 = true). eapply itoks_okl; eassumption. }
  assert (S5 : okl wns a5 = true).
  { change (okl (wn (sel_cx k wns ClHaving)) a5 = true). eapply where_rule; eassumption. }
  assert (S6 : okl wns a6 = true).
  { destruct orderbys as [|o0 orr]; [inversion E6; subst; reflexivity|]. inv_bind E6. inversion E6; subst.
    rewrite okl_text, okl_jtoks. change (forallb (okl (wn (sel_cx k wns ClOrderBy))) a7 = true).
    eapply order_toks_rule; eassumption. }
  rewrite S1, S2, S3, S4, S5, S6. reflexivity.
Qed.

Theorem upd_toks_rule kin c tbl sets from joins wheres l ts :
  upd_toks kin c tbl sets from joins wheres l = Ok ts -> sokl (upd_wns tbl from joins wheres) ts = true.
Proof.
  unfold upd_toks. lazy zeta.
  set (k := defaults c kin). set (nm := stmt_names (tbl :: base_tables from) (upd_tk tbl) from joins).
  set (srcs := stmt_srcs (tbl :: base_tables from) (upd_tk tbl) from joins). set (wns := upd_wns tbl from joins wheres).
  set (base := set_wn (kc k) wns). set (kk := with_c k base).
  destruct sets as [|s0 sr]; [intros H; inversion H; reflexivity|]. set (sets := s0 :: sr).
  intros H. inv_bind H. inversion H; subst; clear H. repeat srule.
  rewrite okl_js by (change wns with (wn (upd_cx k wns ClOn)); eapply join_toks_rule; eassumption).
  rewrite sokl_sjoin, (sets_toks_rule kk srcs (upd_cx k wns ClSetTarget) (upd_cx k wns ClSetValue) wns eq_refl eq_refl _ _ E0).
  change wns with (wn (upd_cx k wns ClWhere)) at 1. rewrite (where_rule _ _ _ _ _ _ E2). reflexivity.
Qed.

Theorem del_toks_rule kin subquery c from wheres ts :
  del_toks kin subquery c from wheres = Ok ts -> sokl (del_wns from wheres) ts = true.
Proof.
  unfold del_toks. lazy zeta.
  set (k := defaults c kin). set (wns := del_wns from wheres).
  intros H. inv_bind H. inversion H; subst; clear H. repeat srule.
  change wns with (wn (upd_cx k wns ClWhere)). rewrite (where_rule _ _ _ _ _ _ E0). reflexivity.
Qed.

Theorem ins_toks_rule kin walias subquery ali c into columns rows sel replace ts :
  ins_toks kin walias subquery ali c into columns rows sel replace = Ok ts -> sokl false ts = true.
Proof.
  unfold ins_toks. lazy zeta. set (k := defaults c kin).
  intros H. inv_bind H. rename a into cols.
  assert (C : okl false cols = true).
  { destruct columns as [|c0 cr]; [inversion E; subst; reflexivity|]. inv_bind E. inversion E; subst.
    rewrite okl_text, okl_app, okl_jtoks. cbn [okl forallb ref_okb]. rewrite andb_true_r.
    exact (proj1 (proj1 (proj2 rtoks_refs_all) _ _ _ E0)). }
  destruct rows as [|r0 rr].
  - destruct sel as [y|]; [|inversion H; reflexivity]. inv_bind H. destruct a; inversion H; subst; [reflexivity|].
    repeat srule. rewrite C. reflexivity.
  - inv_bind H. inversion H; subst; clear H. repeat srule. rewrite C, okl_jtoks.
    pose proof (rows_toks_rule _ _ _ _ E0) as R. cbn [wn set_subq set_wa set_wn] in R. rewrite R. reflexivity.
Qed.

(* for ANY statement under ANY incoming keyword context: the reference tokens of its own clauses are printed by the
   rule under the statement's own with_namespace flag (False for SET targets and INSERT columns) *)
Theorem stoks_rule : forall kin walias subquery ali x ts,
  stoks kin walias subquery ali x = Ok ts -> Forall (sref_ok (q_wns x)) ts.
Proof.
  intros kin walias subquery ali x ts H. apply sokl_Forall. destruct x; cbn [stoks q_wns] in *.
  - eapply sel_toks_rule; eassumption.
  - eapply ins_toks_rule; eassumption.
  - eapply upd_toks_rule; eassumption.
  - eapply del_toks_rule; eassumption.
  - inv_bind H. inversion H; subst. reflexivity.
Qed.

(* ---------------- (E) statements: no reference is lost — the reference tokens are exactly the field leaves of the
   statement's own clause items (resolved), clause by clause, in order ---------------- *)
Lemma st_app a b : stok_tables (a ++ b) = stok_tables a ++ stok_tables b.
Proof. apply flat_map_app. Qed.
Lemma st_tx s : stok_tables (tx s) = [].
Proof. reflexivity. Qed.
Lemma st_ctext s r : stok_tables ((ClText, KText s) :: r) = stok_tables r.
Proof. reflexivity. Qed.
Lemma st_tg cl ts : stok_tables (tg cl ts) = tgt cl (tok_tables ts).
Proof.
  induction ts as [|t r IH]; [reflexivity|]. unfold tg in *. cbn [map]. destruct t as [s|tb qu n st].
  - exact IH.
  - change (stok_tables ((cl, KRef tb qu n st) :: map (pair cl) r)) with ((cl, tb) :: stok_tables (map (pair cl) r)).
    rewrite IH. reflexivity.
Qed.
Lemma st_sparen b l : stok_tables (sparen b l) = stok_tables l.
Proof. destruct b; [|reflexivity]. unfold sparen. rewrite !st_app, !st_tx. cbn. apply app_nil_r. Qed.
Lemma st_salias walias l ali askw_ aqc qc' : stok_tables (salias walias l ali askw_ aqc qc') = stok_tables l.
Proof.
  unfold salias. destruct walias; [|reflexivity]. destruct ali; [|reflexivity]. rewrite st_app, st_tx. apply app_nil_r.
Qed.
Lemma st_sjoin sep l : stok_tables (sjoin sep l) = List.concat (map stok_tables l).
Proof.
  induction l as [|x r IH]; [reflexivity|]. destruct r as [|y r'].
  - cbn. rewrite app_nil_r. reflexivity.
  - change (sjoin sep (x :: y :: r')) with (x ++ tx sep ++ sjoin sep (y :: r')).
    rewrite !st_app, st_tx, IH. reflexivity.
Qed.
Lemma tgt_app cl a b : tgt cl (a ++ b) = tgt cl a ++ tgt cl b.
Proof. apply map_app. Qed.
Lemma tt_js (js : list (list tok)) :
  tok_tables (match js with [] => [] | _ => KText " " :: jtoks " " js end) = List.concat (map tok_tables js).
Proof. destruct js; [reflexivity|]. rewrite tt_text, tt_jtoks. reflexivity. Qed.

Lemma itoks_tabs srcs i k c ts : itoks k srcs c i = Ok ts -> tok_tables ts = res_tabs srcs i.
Proof. intros H. exact (proj2 (itoks_props srcs i k c ts H)). Qed.
Lemma mapT_tabs {A} (h : A -> res (list tok)) (T : A -> list (option tref)) l :
  (forall x ts, h x = Ok ts -> tok_tables ts = T x) -> forall tss, mapT h l = Ok tss ->
  List.concat (map tok_tables tss) = flat_map T l.
Proof.
  intros Hh. induction l as [|x r IH]; intros tss H.
  - inversion H; subst. reflexivity.
  - cbn [mapT] in H. fold (mapT h r) in H. inv_bind H. inversion H; subst; clear H.
    cbn [map List.concat flat_map]. rewrite (Hh _ _ E), (IH _ eq_refl). reflexivity.
Qed.
Lemma where_tabs kk srcs c kw wheres ts :
  opt_bindT wheres (fun i => a <- itoks kk srcs c i ;; Ok (KText kw :: a)) = Ok ts ->
  tok_tables ts = flat_map (res_tabs srcs) (opt_list wheres).
Proof.
  destruct wheres as [i|]; cbn [opt_bindT opt_list flat_map]; intros H.
  - inv_bind H. inversion H; subst. rewrite tt_text, app_nil_r. eapply itoks_tabs; eassumption.
  - inversion H; subst. reflexivity.
Qed.
Lemma join_toks_tabs k kk srcs ct cq con qc : forall joins ns tss,
  join_toks k kk srcs ct cq con qc joins ns = Ok tss ->
  List.concat (map tok_tables tss) = flat_map (res_tabs srcs) (on_items joins).
Proof.
  induction joins as [|[[h s] cnd] r IH]; intros ns tss H.
  - inversion H; subst. reflexivity.
  - cbn [join_toks] in H. fold (join_toks k kk srcs ct cq con qc) in H. inv_bind H. inversion H; subst; clear H.
    cbn [map List.concat]. rewrite (IH _ _ E1), tt_text. unfold on_items at 2. cbn [flat_map snd]. fold (on_items r).
    destruct cnd as [i|fs|].
    + inv_bind E0. inversion E0; subst. rewrite tt_text, flat_map_app. cbn [flat_map]. rewrite app_nil_r.
      rewrite (itoks_tabs _ _ _ _ _ E2). reflexivity.
    + inversion E0; subst. reflexivity.
    + inversion E0; subst. reflexivity.
Qed.
Lemma order_toks_tabs kk srcs c base selects : forall l tss,
  order_toks kk srcs c base selects l = Ok tss ->
  List.concat (map tok_tables tss)
  = flat_map (fun yd => match alias_ref selects (fst yd) with Some _ => [] | None => res_tabs srcs (fst yd) end) l.
Proof.
  induction l as [|[y d] r IH]; intros tss H.
  - inversion H; subst. reflexivity.
  - cbn [order_toks] in H. fold (order_toks kk srcs c base selects) in H. inv_bind H. inversion H; subst; clear H.
    cbn [map List.concat flat_map fst]. rewrite (IH _ eq_refl).
    assert (A : tok_tables a = match alias_ref selects y with Some _ => [] | None => res_tabs srcs y end).
    { destruct (alias_ref selects y); [inversion E; subst; reflexivity | eapply itoks_tabs; eassumption]. }
    destruct d; [rewrite tt_app, A; cbn; rewrite app_nil_r; reflexivity | rewrite A; reflexivity].
Qed.
Lemma sets_toks_tabs kk srcs ctgt cval : forall l tss,
  sets_toks kk srcs ctgt cval l = Ok tss ->
  List.concat (map stok_tables tss)
  = flat_map (fun fv => tgt ClSetTarget (field_tables (fst fv)) ++ tgt ClSetValue (res_tabs srcs (snd fv))) l.
Proof.
  induction l as [|[f v] r IH]; intros tss H.
  - inversion H; subst. reflexivity.
  - cbn [sets_toks] in H. fold (sets_toks kk srcs ctgt cval) in H. inv_bind H. inversion H; subst; clear H.
    cbn [map List.concat flat_map fst snd]. rewrite (IH _ eq_refl), st_app, st_ctext, !st_tg.
    rewrite (rtoks_complete _ _ _ E), (itoks_tabs _ _ _ _ _ E0), <- app_assoc. reflexivity.
Qed.

Ltac stabs := rewrite ?st_salias, ?st_sparen, ?st_app, ?st_tx, ?st_ctext, ?st_tg; cbn [app].

Theorem sel_toks_complete kin walias subquery ali c withs distinct selects from joins wheres havings groupbys orderbys l o fu ts :
  sel_toks kin walias subquery ali c withs distinct selects from joins wheres havings groupbys orderbys l o fu = Ok ts ->
  stok_tables ts = match selects with
                   | [] => []
                   | _ => sel_expected (k_gba (defaults c kin)) (stmt_srcs (base_tables from) (sel_tk withs) from joins)
                                       selects joins wheres havings groupbys orderbys end.
Proof.
  unfold sel_toks. lazy zeta.
  set (k := defaults c kin). set (nm := stmt_names (base_tables from) (sel_tk withs) from joins).
  set (srcs := stmt_srcs (base_tables from) (sel_tk withs) from joins). set (wns := sel_wns withs from joins wheres).
  set (kk := with_c k (set_wn (kc k) wns)).
  destruct selects as [|s0 sels]; [intros H; inversion H; reflexivity|]. set (selects := s0 :: sels).
  intros H. inv_bind H. inversion H; subst; clear H. repeat stabs. unfold sel_expected.
  rewrite tt_jtoks, (mapT_tabs _ (res_tabs srcs) selects (fun x ts H => itoks_tabs _ _ _ _ _ H) _ E0).
  rewrite tt_js, (join_toks_tabs _ _ _ _ _ _ _ _ _ _ E2).
  rewrite (where_tabs _ _ _ _ _ _ E3), (where_tabs _ _ _ _ _ _ E5).
  assert (G : tok_tables a4 = flat_map (fun y => match (if k_gba k then alias_ref selects y else None) with
                                                  | Some _ => [] | None => res_tabs srcs y end) groupbys).
  { destruct groupbys as [|g0 gr]; [inversion E4; subst; reflexivity|]. inv_bind E4. inversion E4; subst.
    rewrite tt_text, tt_jtoks. eapply mapT_tabs; [|eassumption]. intros y ts0 Hy. cbn beta in Hy.
    destruct (if k_gba k then alias_ref selects y else None); [inversion Hy; subst; reflexivity|].
    eapply itoks_tabs; eassumption. }
  assert (O : tok_tables a6 = flat_map (fun yd => match alias_ref selects (fst yd) with
                                                   | Some _ => [] | None => res_tabs srcs (fst yd) end) orderbys).
  { destruct orderbys as [|o0 orr]; [inversion E6; subst; reflexivity|]. inv_bind E6. inversion E6; subst.
    rewrite tt_text, tt_jtoks. eapply order_toks_tabs; eassumption. }
  rewrite G, O, app_nil_r. reflexivity.
Qed.

Theorem upd_toks_complete kin c tbl sets from joins wheres l ts :
  upd_toks kin c tbl sets from joins wheres l = Ok ts ->
  stok_tables ts = match sets with
                   | [] => []
                   | _ => upd_expected (stmt_srcs (tbl :: base_tables from) (upd_tk tbl) from joins) sets joins wheres end.
Proof.
  unfold upd_toks. lazy zeta.
  set (k := defaults c kin). set (nm := stmt_names (tbl :: base_tables from) (upd_tk tbl) from joins).
  set (srcs := stmt_srcs (tbl :: base_tables from) (upd_tk tbl) from joins). set (wns := upd_wns tbl from joins wheres).
  set (base := set_wn (kc k) wns). set (kk := with_c k base).
  destruct sets as [|s0 sr]; [intros H; inversion H; reflexivity|]. set (sets := s0 :: sr).
  intros H. inv_bind H. inversion H; subst; clear H. repeat stabs. unfold upd_expected.
  rewrite tt_js, (join_toks_tabs _ _ _ _ _ _ _ _ _ _ E), st_sjoin, (sets_toks_tabs _ _ _ _ _ _ E0).
  rewrite (where_tabs _ _ _ _ _ _ E2), app_nil_r. reflexivity.
Qed.

Theorem del_toks_complete kin subquery c from wheres ts :
  del_toks kin subquery c from wheres = Ok ts ->
  stok_tables ts = tgt ClWhere (flat_map (res_tabs (src_refs from (fst (name_from sub_count 0 from)))) (opt_list wheres)).
Proof.
  unfold del_toks. lazy zeta. intros H. inv_bind H. inversion H; subst; clear H. repeat stabs.
  rewrite (where_tabs _ _ _ _ _ _ E0). reflexivity.
Qed.

(* SELECT / UPDATE / DELETE under any incoming keyword arguments: the reference tokens are exactly the expected ones *)
Theorem stoks_complete : forall kin walias subquery ali x ts,
  is_sud x = true -> stoks kin walias subquery ali x = Ok ts -> stok_tables ts = expected_refs kin x.
Proof.
  intros kin walias subquery ali x ts Hs H. destruct x; try discriminate Hs; cbn [stoks expected_refs q_srcs] in *.
  - eapply sel_toks_complete; eassumption.
  - eapply upd_toks_complete; eassumption.
  - eapply del_toks_complete; eassumption.
Qed.
