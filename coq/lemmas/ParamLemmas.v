(* ParamLemmas.v — what the simulation of ParamSim.v gives for a collector whose keys are the generated ones:
   counts, order, naming, distinctness (decimal printing is injective), substitution, no value both collected and
   inline; lifted to item sequences and statements. *)
From Coq Require Import Lia DecimalString Decimal DecimalNat DecimalFacts FinFun.
From PV Require Import Base Crit gen.TermsTable Terms gen.C06Table Param lemmas.ParamInline lemmas.ParamSim.
Local Open Scope list_scope.

(* ---- decimal printing of naturals is injective ---- *)
Lemma to_uint_nonnil n : Nat.to_uint n <> Nil.
Proof.
  intros H. pose proof (Unsigned.to_of (Nat.to_uint n)) as E. rewrite Unsigned.of_to in E.
  rewrite E in H. exact (unorm_nonnil _ H).
Qed.
Lemma nat_to_string_inj a b : nat_to_string a = nat_to_string b -> a = b.
Proof.
  unfold nat_to_string. intros H. apply (f_equal NilZero.uint_of_string) in H.
  rewrite !NilZero.usu in H by apply to_uint_nonnil. injection H. apply Unsigned.to_uint_inj.
Qed.

(* ---- strings ---- *)
Lemma sapp_inj_l (p a b : string) : (p ++ a = p ++ b)%string -> a = b.
Proof. induction p; cbn; intros H; [exact H|]. injection H. auto. Qed.
Lemma slength_app (a b : string) : String.length (a ++ b) = String.length a + String.length b.
Proof. induction a; cbn; congruence. Qed.
Lemma substring_prefix (a b : string) : substring 0 (String.length a) (a ++ b) = a.
Proof. induction a as [|c a IH]; cbn; [destruct b; reflexivity|]. rewrite IH. reflexivity. Qed.
Lemma slice_mid_22 body : slice_mid 2 2 ("%(" ++ body ++ ")s") = body.
Proof.
  unfold slice_mid. change ("%(" ++ body ++ ")s")%string with (String "%" (String "(" (body ++ ")s"))).
  cbn [String.length substring Nat.sub]. rewrite slength_app. cbn [String.length].
  match goal with |- substring 0 ?n _ = _ => replace n with (String.length body) by lia end. apply substring_prefix.
Qed.

Lemma key_named n : param_key Named (ph_text Named n) = ("param" ++ nat_to_string (S n))%string.
Proof. reflexivity. Qed.
Lemma key_pyformat n : param_key Pyformat (ph_text Pyformat n) = ("param" ++ nat_to_string (S n))%string.
Proof.
  unfold param_key, ph_text.
  replace ("%(" ++ "param" ++ nat_to_string (S n) ++ ")s")%string with ("%(" ++ ("param" ++ nat_to_string (S n)) ++ ")s")%string
    by (rewrite !sapp_assoc; reflexivity).
  apply slice_mid_22.
Qed.

Lemma key_at_inj sty a b : is_dict sty = true -> key_at sty a = key_at sty b -> a = b.
Proof.
  unfold key_at. intros D. rewrite D. destruct sty; try discriminate.
  - rewrite !key_named. intros H. apply sapp_inj_l, nat_to_string_inj in H. lia.
  - rewrite !key_pyformat. intros H. apply sapp_inj_l, nat_to_string_inj in H. lia.
Qed.
Lemma ph_text_inj sty a b : match sty with Qmark | Format => False | _ => True end -> ph_text sty a = ph_text sty b -> a = b.
Proof.
  destruct sty; intros H E; try contradiction.
  - cbn in E. apply (sapp_inj_l ":") in E. apply nat_to_string_inj in E. lia.
  - apply (key_at_inj Named); [reflexivity|]. unfold key_at. cbn [is_dict]. rewrite E. reflexivity.
  - apply (key_at_inj Pyformat); [reflexivity|]. unfold key_at. cbn [is_dict]. rewrite E. reflexivity.
Qed.

(* the placeholder samples obtained by running the real classes agree with the model's generators *)
Definition sample_ok (x : style * nat * string * string) : bool :=
  let '(sty, n, txt, key) := x in String.eqb (ph_text sty n) txt && String.eqb (param_key sty txt) key.
Lemma ph_samples_ok : forallb sample_ok ph_samples = true.
Proof. vm_compute. reflexivity. Qed.

(* explicitly named placeholders: the dict classes recover the name from the text, whatever the name is *)
Lemma key_of_explicit sty name : is_dict sty = true -> param_key sty (explicit_text sty name) = name.
Proof. destruct sty; try discriminate; intros _; [reflexivity|apply slice_mid_22]. Qed.
Definition named_sample_ok (x : style * string * string * string) : bool :=
  let '(sty, name, txt, key) := x in
  String.eqb (explicit_text sty name) txt && String.eqb (param_key sty txt) key.
Lemma ph_named_samples_ok : forallb named_sample_ok ph_named_samples = true.
Proof. vm_compute. reflexivity. Qed.

(* ---- dictionaries ---- *)
Lemma dict_set_fresh k v st : ~ In k (map fst st) -> dict_set k v st = st ++ [(k, v)].
Proof.
  induction st as [|[k' v'] r IH]; cbn; intros H; [reflexivity|].
  destruct (String.eqb k' k) eqn:E.
  - apply String.eqb_eq in E. subst. exfalso. apply H. left. reflexivity.
  - rewrite IH; [reflexivity|]. intros Hin. apply H. right. exact Hin.
Qed.
Lemma assoc_nth d : NoDup (map fst d) -> forall n k v, nth_error d n = Some (k, v) -> assoc k d = Some v.
Proof.
  induction d as [|[k' v'] r IH]; intros ND n k v H; [destruct n; discriminate|].
  cbn [map fst] in ND. inversion ND as [|? ? Hnin ND']; subst.
  destruct n as [|m]; cbn in H.
  - inversion H; subst. cbn. rewrite String.eqb_refl. reflexivity.
  - cbn. destruct (String.eqb k' k) eqn:E.
    + apply String.eqb_eq in E. subst. exfalso. apply Hnin. apply nth_error_In in H.
      change k with (fst (k, v)). apply in_map. exact H.
    + eapply IH; eassumption.
Qed.

Lemma nth_error_seq len : forall s n, n < len -> nth_error (seq s len) n = Some (s + n).
Proof.
  induction len; intros s n H; [lia|]. destruct n; cbn; [f_equal; lia|]. rewrite IHlen by lia. f_equal. lia.
Qed.

Section Facts.
Variable isf : string -> bool.
Variable sty : style.
Variable chk : lit -> bool.

Notation sim := (sim isf sty chk).
Notation put := (put isf sty).

Lemma key_at_not_in n : is_dict sty = true -> ~ In (key_at sty n) (map (key_at sty) (seq 0 n)).
Proof.
  intros D H. apply in_map_iff in H. destruct H as [i [E Hi]]. apply key_at_inj in E; [|exact D]. apply in_seq in Hi. lia.
Qed.
Lemma put_fresh st l : fresh_keys sty st -> put st l = st ++ [(key_at sty (List.length st), coll isf l)].
Proof.
  intros F. unfold ParamSim.put, collect. destruct (is_dict sty) eqn:D.
  - assert (K : param_key sty (ph_text sty (List.length st)) = key_at sty (List.length st))
      by (unfold key_at; rewrite D; reflexivity).
    rewrite K. apply dict_set_fresh. rewrite F. apply key_at_not_in, D.
  - unfold key_at. rewrite D. reflexivity.
Qed.
Lemma fresh_snoc st v : fresh_keys sty st -> fresh_keys sty (st ++ [(key_at sty (List.length st), v)]).
Proof.
  unfold fresh_keys. intros F. rewrite map_app, app_length. cbn [List.length map fst].
  rewrite Nat.add_1_r, seq_S, map_app. cbn [map]. rewrite F, Nat.add_0_l. reflexivity.
Qed.
Lemma fresh_nodup st : is_dict sty = true -> fresh_keys sty st -> NoDup (map fst st).
Proof.
  intros D F. rewrite F. apply Injective_map_NoDup; [|apply seq_NoDup]. intros a b. apply key_at_inj, D.
Qed.
Lemma fresh_nil : fresh_keys sty [].
Proof. reflexivity. Qed.

Lemma autos_same x r : is_auto x = false -> autos (x :: r) = autos r.
Proof. destruct x; cbn; intros; try reflexivity; discriminate. Qed.

(* shape of the collector after a simulated segment *)
Lemma sim_shape st st' tp ti : sim st st' tp ti -> fresh_keys sty st ->
  fresh_keys sty st' /\ exists r, st' = st ++ r /\ List.length r = count_auto tp /\
  autos tp = map (fun n => (n, ph_text sty n)) (seq (List.length st) (List.length r)).
Proof.
  induction 1 as [st|x st st' tp ti Hx H IH|l txt st st' tp ti Ht Hc H IH]; intros F.
  - split; [exact F|]. exists []. rewrite app_nil_r. repeat split.
  - destruct (IH F) as [F' [r [E [L A]]]]. split; [exact F'|]. exists r. unfold count_auto in *.
    rewrite (autos_same x tp Hx). auto.
  - rewrite (put_fresh st l F) in IH. destruct (IH (fresh_snoc st _ F)) as [F' [r [E [L A]]]].
    split; [exact F'|]. exists ((key_at sty (List.length st), coll isf l) :: r).
    rewrite <- app_assoc in E. cbn [app] in E. unfold count_auto in *. cbn [autos List.length]. repeat split; [exact E|lia|].
    rewrite app_length in A. cbn [List.length] in A. rewrite Nat.add_1_r in A. cbn [seq map]. rewrite A. reflexivity.
Qed.

Lemma resolve_fresh stF n kv : fresh_keys sty stF -> nth_error stF n = Some kv ->
  resolve sty stF n (ph_text sty n) = Some (snd kv).
Proof.
  intros F H. unfold resolve. destruct (is_dict sty) eqn:D; [|rewrite H; reflexivity].
  destruct kv as [k v]. cbn [snd].
  assert (K : k = key_at sty n).
  { assert (Hn : n < List.length stF) by (apply nth_error_Some; congruence).
    pose proof (map_nth_error fst n stF H) as M. rewrite F in M. cbn [fst] in M.
    rewrite (map_nth_error (key_at sty) n _ (nth_error_seq _ 0 n Hn)) in M. cbn in M. congruence. }
  subst k. unfold key_at in H. rewrite D in H.
  eapply assoc_nth; [apply fresh_nodup; assumption|exact H].
Qed.

(* token-for-token agreement against any later state of the collector *)
Lemma sim_aligned st st' tp ti : sim st st' tp ti -> fresh_keys sty st ->
  forall stF, fresh_keys sty stF -> (exists r, stF = st' ++ r) -> aligned isf chk sty stF tp ti.
Proof.
  induction 1 as [st|x st st' tp ti Hx H IH|l txt st st' tp ti Ht Hc H IH]; intros F stF FF [r E].
  - constructor.
  - constructor; [destruct x; try reflexivity; discriminate|]. apply IH; eauto.
  - pose proof H as H'. rewrite (put_fresh st l F) in H'.
    destruct (sim_shape _ _ _ _ H' (fresh_snoc st _ F)) as [_ [r' [E' _]]].
    constructor.
    + exists l, txt. repeat split; [exact Hc|].
      change (coll isf l) with (snd (key_at sty (List.length st), coll isf l)). apply resolve_fresh; [exact FF|].
      rewrite E, E', <- !app_assoc. rewrite nth_error_app2 by lia. rewrite Nat.sub_diag. reflexivity.
    + apply IH; [rewrite (put_fresh st l F); apply fresh_snoc, F|exact FF|eauto].
Qed.

Lemma sim_count_lit st st' tp ti : sim st st' tp ti -> count_lit ti = count_auto tp + count_lit tp.
Proof.
  unfold count_lit, count_auto. induction 1 as [st|x st st' tp ti Hx H IH|l txt st st' tp ti Ht Hc H IH].
  - reflexivity.
  - rewrite (autos_same x tp Hx). cbn [filter]. destruct (is_lit x); cbn [List.length]; lia.
  - cbn [filter is_lit autos List.length]. lia.
Qed.

Theorem sim_bookkeeping st st' tp ti : sim st st' tp ti -> fresh_keys sty st -> bookkeeping sty st tp st'.
Proof.
  intros H F. destruct (sim_shape _ _ _ _ H F) as [F' [r [E [L A]]]]. unfold bookkeeping.
  repeat split.
  - rewrite E, app_length. lia.
  - rewrite E, firstn_app, firstn_all, Nat.sub_diag. cbn. apply app_nil_r.
  - rewrite A, L. reflexivity.
  - intros n kv Hn. apply resolve_fresh; assumption.
  - intros D. apply fresh_nodup; assumption.
  - destruct sty eqn:Es; try exact I; rewrite A, map_map; cbn [snd];
      (apply Injective_map_NoDup; [|apply seq_NoDup]); intros a b; apply ph_text_inj; exact I.
Qed.

(* ---- item sequences ---- *)
Lemma items_sim items : forall st0 st, forallb (item_ok chk) items = true ->
  relS (simE isf sty chk) st0 st (render_items isf None items st0) (render_items isf (Some sty) items st).
Proof.
  induction items as [|i r IH]; intros st0 st H.
  - apply relS_ret. apply simE_nil.
  - cbn [forallb] in H. apply andb_prop in H. destruct H as [Hi Hr]. destruct i as [s|c t|c t]; cbn [render_items].
    + eapply relS_bind; [apply IH, Hr|]. intros ai ap stb Hs. apply relS_ret. apply simE_ktxt, Hs.
    + eapply relS_bind; [apply sim_term, Hi|]. intros ai ap stb Hs.
      eapply relS_bind; [apply IH, Hr|]. intros bi bp stc Hs2. apply relS_ret. eapply simE_app; eassumption.
    + eapply relS_bind; [apply sim_term, Hi|]. intros ai ap stb Hs.
      eapply relS_bind; [apply IH, Hr|]. intros bi bp stc Hs2. apply relS_ret. eapply simE_app; eassumption.
Qed.

End Facts.

(* ---- substitution on the fragment where stored value = denoted value ---- *)
Lemma lit_exact_value isf l : lit_exact isf l = true -> VV (coll isf l) = lit_value isf l.
Proof. destruct l; cbn; try reflexivity; try discriminate. intros ->. reflexivity. Qed.

Lemma aligned_subst isf sty st' tp ti : aligned isf (lit_exact isf) sty st' tp ti ->
  subst isf sty st' tp = Some (map (by_value isf) ti).
Proof.
  induction 1 as [|p i tp ti Hpi H IH]; [reflexivity|].
  destruct p; cbn [subst]; try (subst i; rewrite IH; reflexivity).
  destruct Hpi as [l [t [-> [Hc R]]]]. rewrite R, IH. cbn [map by_value]. rewrite (lit_exact_value _ _ Hc). reflexivity.
Qed.

(* ---- the sign-protecting parentheses are neither placeholders nor literals ---- *)
Lemma autos_unguard l : autos (unguard l) = autos l.
Proof. induction l as [|t r IH]; [reflexivity|]. destruct t; cbn; fold (unguard r); rewrite ?IH; reflexivity. Qed.
Lemma count_auto_unguard l : count_auto (unguard l) = count_auto l.
Proof. unfold count_auto. rewrite autos_unguard. reflexivity. Qed.
Lemma count_lit_unguard l : count_lit (unguard l) = count_lit l.
Proof. unfold count_lit. induction l as [|t r IH]; [reflexivity|]. destruct t; cbn; fold (unguard r); rewrite ?IH; reflexivity. Qed.
Lemma flatten_unguard_noguard l : forallb (fun t => negb (is_guard t)) l = true -> unguard l = l.
Proof.
  induction l as [|t r IH]; [reflexivity|]. cbn [forallb]. intros H. apply andb_prop in H. destruct H as [Ht Hr].
  cbn [unguard filter]. rewrite Ht. fold (unguard r). rewrite (IH Hr). reflexivity.
Qed.

(* ---- statements ---- *)
Definition outcome_rel (isf : string -> bool) (chk : lit -> bool) (sty : style) (ri rp : tres) : Prop :=
  match ri, rp with
  | Ok (ti, _), Ok (tp, st') =>
      bookkeeping sty [] tp st' /\ aligned isf chk sty st' (unguard tp) (unguard ti) /\ count_lit ti = count_auto tp + count_lit tp
  | Err e, Err e' => e = e'
  | _, _ => False
  end.

Theorem items_outcome isf chk sty items : forallb (item_ok chk) items = true ->
  outcome_rel isf chk sty (render_items isf None items []) (render_items isf (Some sty) items []).
Proof.
  intros H. pose proof (items_sim isf sty chk items [] [] H) as R. unfold relS in R. unfold outcome_rel.
  destruct (render_items isf None items []) as [[ti s0]|e], (render_items isf (Some sty) items []) as [[tp st']|e']; try contradiction; [|exact R].
  destruct R as [_ [S _]]. split; [|split].
  - pose proof (sim_bookkeeping isf sty chk [] st' _ _ S (fresh_nil sty)) as B. unfold bookkeeping in *.
    rewrite !autos_unguard, !count_auto_unguard in B. exact B.
  - apply (sim_aligned isf sty chk [] st' _ _ S (fresh_nil sty) st').
    + destruct (sim_shape isf sty chk _ _ _ _ S (fresh_nil sty)) as [F _]. exact F.
    + exists []. rewrite app_nil_r. reflexivity.
  - pose proof (sim_count_lit isf sty chk _ _ _ _ S) as C. rewrite !count_lit_unguard, count_auto_unguard in C. exact C.
Qed.

Theorem term_outcome isf chk sty c t : vals_ok chk (truthy_ostr (sq c)) t = true ->
  outcome_rel isf chk sty (render_t isf None c t []) (render_t isf (Some sty) c t []).
Proof.
  intros H. pose proof (items_outcome isf chk sty [ITerm c t]) as R. cbn [forallb item_ok] in R. rewrite H in R.
  specialize (R eq_refl). cbn [render_items] in R. unfold outcome_rel in *.
  destruct (render_t isf None c t []) as [[ti s0]|e], (render_t isf (Some sty) c t []) as [[tp st']|e']; cbn in R |- *; try contradiction; [|exact R].
  rewrite !app_nil_r in R. exact R.
Qed.

Theorem stmt_outcome isf chk sty sqlite s : stmt_ok chk sqlite s = true ->
  outcome_rel isf chk sty (render_stmt isf None sqlite s []) (render_stmt isf (Some sty) sqlite s []).
Proof. intros H. apply items_outcome, H. Qed.
