(* FuncCatalogue.v — the wrapper catalogue: every discovered wrapper class is an instance of the
   generic call shape (or the one listed exception), and the table extracted from the current
   sources has not drifted from the committed expectation. *)
From PV Require Import Base Func FuncCorr lemmas.FuncText lemmas.FuncLemmas gen.C18Table.
From Coq Require Import Lia.
Open Scope string_scope.

Definition entry_ok (w : wrapper) : bool := wrapper_ok w || bare_ok w.

(* per class present in both tables: identical entry; a class only in the extracted table (a new wrapper)
   must have the generic shape *)
Definition drift_free (cat expd : list wrapper) : bool :=
  forallb (fun w => match lookup_wrapper (w_module w) (w_class w) expd with
                    | Some w' => wrapper_eqb w w'
                    | None => wrapper_ok w
                    end) cat.

Lemma expected_sound : forallb entry_ok expected_catalogue = true.
Proof. vm_compute. reflexivity. Qed.

(* the table regenerated from the current source tree *)
Lemma catalogue_sound : forallb entry_ok catalogue = true.
Proof. vm_compute. reflexivity. Qed.

Lemma catalogue_no_drift : drift_free catalogue expected_catalogue = true.
Proof. vm_compute. reflexivity. Qed.

(* the only entry that is not of the generic shape is the documented bare CURRENT_TIMESTAMP *)
Lemma exceptions_listed :
  map w_class (filter (fun w => negb (wrapper_ok w)) catalogue) = ["CurTimestamp"].
Proof. vm_compute. reflexivity. Qed.

(* ---- what an entry of the generic shape means ---------------------------------------------- *)
Lemma list_eqb_nat_eq : forall l1 l2, list_eqb Nat.eqb l1 l2 = true -> l1 = l2.
Proof.
  induction l1 as [|a l1 IH]; destruct l2 as [|b l2]; cbn; intros H; try discriminate; [reflexivity|].
  apply andb_prop in H as [H1 H2]. apply Nat.eqb_eq in H1. subst. f_equal. auto.
Qed.

Lemma map_nth_seq (ts : list string) : forall (d : string), map (fun k => nth k ts d) (seq 0 (List.length ts)) = ts.
Proof.
  intros d. induction ts as [|t ts IH]; [reflexivity|].
  cbn [List.length seq map nth]. f_equal. rewrite <- seq_shift, map_map. exact IH.
Qed.

Lemma nth_arg_ok ts k : forallb arg_ok ts = true -> k < List.length ts -> arg_ok (nth k ts "") = true.
Proof.
  revert k. induction ts as [|t ts IH]; intros k H L; cbn in L; [lia|].
  cbn in H. apply andb_prop in H as [H1 H2]. destruct k; [exact H1|]. cbn. apply IH; [exact H2|lia].
Qed.

Lemma nth_top ts k : forallb arg_ok ts = true -> top 0 (nth k ts "") = true.
Proof.
  revert k. induction ts as [|t ts IH]; intros k H; [destruct k; reflexivity|].
  cbn in H. apply andb_prop in H as [H1 H2]. destruct k; [apply (arg_ok_parts t H1)|]. cbn. apply IH. exact H2.
Qed.

Lemma slot_in_seq slots (sp : list nat) n k :
  (flat_map slot_param slots ++ sp)%list = seq 0 n -> In (SParam k) slots -> k < n.
Proof.
  intros E Hin. assert (I : In k (flat_map slot_param slots ++ sp)%list).
  { apply in_or_app. left. apply in_flat_map. exists (SParam k). split; [exact Hin|]. cbn. auto. }
  rewrite E in I. apply in_seq in I. lia.
Qed.

Lemma special_ok_prefix pre t : nonempty pre = true -> top 0 pre = true -> kw_at KW_SPECIAL (" " ++ pre) = true ->
  top 0 t = true -> special_ok (Some (pre ++ t)) = true.
Proof.
  destruct pre as [|c pre]; [discriminate|]. intros _ Ht Hk Htt.
  change (String c pre ++ t) with (String c (pre ++ t)). cbn [special_ok].
  change (String c (pre ++ t)) with (String c pre ++ t).
  rewrite top_app by auto. cbn [andb]. rewrite <- (sapp_assoc " " (String c pre) t). apply kw_at_mono. exact Hk.
Qed.

Definition probe_desc (w : wrapper) (name : string) (p : probe) (ts : list string) : func_desc :=
  {| fd_name := if w_named w then name else w_sql w; fd_schema := None; fd_alias := None;
     fd_special := inst_special p ts; fd_distinct := false; fd_filters := []; fd_include_filter := false;
     fd_partition := []; fd_orderbys := []; fd_include_over := false; fd_frame := None; fd_bare := false |}.

(* An entry of the generic shape, called with any well-formed argument texts, yields a description to
   which the generic theorem applies, and the constructor arguments sit in the text in call order. *)
Theorem wrapper_instance w p ts name :
  wrapper_ok w = true -> In p (w_probes w) -> List.length ts = List.length (p_kinds p) ->
  forallb arg_ok ts = true -> (w_named w = true -> name_ok name = true) ->
  texts_ok (probe_desc w name p ts) = true
  /\ combo_ok (probe_desc w name p ts) = true
  /\ forallb arg_ok (inst_args p ts) = true
  /\ map (fun k => nth k ts "") (param_seq p) = ts.
Proof.
  intros Hw Hin Hlen Hts Hname.
  unfold wrapper_ok in Hw. apply andb_prop in Hw as [Hw _]. apply andb_prop in Hw as [Hw Hps].
  apply andb_prop in Hw as [_ Hnm].
  assert (Hp : probe_ok p = true) by (rewrite forallb_forall in Hps; auto).
  unfold probe_ok in Hp. apply andb_prop in Hp as [Hp Hsp]. apply andb_prop in Hp as [Hseq Hslots].
  apply list_eqb_nat_eq in Hseq. rewrite <- Hlen in Hseq.
  split; [|split; [reflexivity|split]].
  - (* texts *)
    unfold texts_ok, probe_desc. cbn [fd_name fd_schema fd_special fd_filters fd_partition fd_orderbys fd_bare forallb schema_ok negb].
    rewrite !andb_true_r. apply andb_true_intro; split.
    + destruct (w_named w); [auto|]. cbn in Hnm. exact Hnm.
    + unfold inst_special. destruct (p_special p) as [[pre [k|]]|]; [| |reflexivity].
      * apply andb_prop in Hsp as [Hsp Hkw]. apply andb_prop in Hsp as [Hne Htop].
        apply special_ok_prefix; auto using nth_top.
      * apply andb_prop in Hsp as [Hsp Hkw]. apply andb_prop in Hsp as [Hne Htop].
        rewrite <- (sapp_nil_r pre). apply special_ok_prefix; auto.
  - (* argument list *)
    unfold inst_args. apply forallb_forall. intros a Ha. apply in_map_iff in Ha as [s [<- Hs]].
    rewrite forallb_forall in Hslots. specialize (Hslots s Hs). destruct s as [k|t|t]; cbn [slot_text].
    + apply nth_arg_ok; [exact Hts|]. unfold param_seq in Hseq. eapply slot_in_seq; eauto.
    + exact Hslots.
    + discriminate.
  - (* call order *)
    rewrite Hseq. apply map_nth_seq.
Qed.

(* instantiation on the extracted table: every non-exceptional entry, every probed arity *)
Corollary catalogue_entries_generic w :
  In w catalogue -> w_bare w = false -> wrapper_ok w = true.
Proof.
  intros Hin Hb. pose proof catalogue_sound as H. rewrite forallb_forall in H. specialize (H w Hin).
  unfold entry_ok in H. apply orb_prop in H as [H|H]; [exact H|].
  unfold bare_ok in H. rewrite Hb in H. discriminate.
Qed.
