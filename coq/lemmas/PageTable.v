(* PageTable.v — the hand-written pagination model (coq/Page.v) reproduces every row of the tables that
   harness/props/C12.py:extract() regenerates from the pypika sources on each run (coq/gen/C12Table.v):
   the _limit_sql/_offset_sql templates, the piece structure of every class x statement kind on the
   complete None/0/positive grid, the raw tail texts of that grid, the setter effects, the clause order of
   the three get_sql tails, ClickHouse LIMIT BY and MSSQL TOP.  All domains are finite: vm_compute. *)
From PV Require Import Base Page lemmas.PageLemmas.
From PV Require Import gen.C12Table.

Definition strs_eqb := list_eqb String.eqb.
Definition fill (tpl : list string * list string) (num : string) : list string := (fst tpl ++ [num] ++ snd tpl)%list.

(* ---- templates ---- *)
Definition limit_tpl_ok (r : cls * (list string * list string)) : bool :=
  let '(c, tpl) := r in strs_eqb (limit_toks c (Some 7%Z)) (fill tpl "7").
Definition offset_tpl_ok (r : cls * (list string * list string) * string * string) : bool :=
  let '(c, tpl, none_txt, zero_txt) := r in
  strs_eqb (offset_toks c (Some 5%Z)) (fill tpl "5") && strs_eqb (offset_toks c None) (fill tpl none_txt)
  && strs_eqb (offset_toks c (Some 0%Z)) (fill tpl zero_txt).
Definition covers_cls {A} (f : A -> cls) (l : list A) : bool := list_eqb cls_eqb (map f l) all_cls.

Lemma templates_agree :
  forallb limit_tpl_ok x_limit_tpl = true /\ covers_cls fst x_limit_tpl = true
  /\ forallb offset_tpl_ok x_offset_tpl = true /\ covers_cls (fun r => fst (fst (fst r))) x_offset_tpl = true.
Proof. vm_compute. repeat split. Qed.

(* ---- structure on the complete grid ---- *)
Definition lookup_structure (c : cls) (k : kind) (a b : vcls) : option (list piece) :=
  match find (fun r => let '(c', k', a', b', _) := r in cls_eqb c c' && kind_eqb k k' && vcls_eqb a a' && vcls_eqb b b')
             x_structure with
  | Some (_, _, _, _, ps) => Some ps
  | None => None
  end.
Definition structure_point_ok (c : cls) (k : kind) (a b : vcls) : bool :=
  option_eqb (list_eqb piece_eqb) (lookup_structure c k a b)
             (Some (page_pieces c k (pg (sentinel 7 a) (sentinel 5 b)))).

Lemma structure_grid_agrees :
  forallb (fun c => forallb (fun k => forallb (fun a => forallb (fun b => structure_point_ok c k a b)
     all_vcls) all_vcls) all_kind) all_cls = true.
Proof. vm_compute. reflexivity. Qed.

Lemma piece_list_eqb_eq (x y : list piece) : list_eqb piece_eqb x y = true -> x = y.
Proof.
  revert y; induction x as [|a x IH]; destruct y as [|b y]; simpl; try discriminate; auto.
  intro H. apply andb_prop in H as [H1 H2]. f_equal; [destruct a, b; auto; discriminate | auto].
Qed.

(* for ALL slot values: the pieces the model emits are those tabulated from the code for the value classes *)
Theorem structure_agrees c k p :
  lookup_structure c k (classify (lim p)) (classify (off p)) = Some (page_pieces c k p).
Proof.
  rewrite (pieces_by_class c k p).
  assert (H : structure_point_ok c k (classify (lim p)) (classify (off p)) = true).
  { destruct c, k, (classify (lim p)), (classify (off p)); vm_compute; reflexivity. }
  unfold structure_point_ok in H.
  destruct (lookup_structure c k (classify (lim p)) (classify (off p))) as [ps|]; simpl in H; [|discriminate].
  f_equal. now apply piece_list_eqb_eq.
Qed.

(* ---- raw tail texts of the grid (calls made through the real builder methods, both call orders) ---- *)
Definition grid_row_ok (r : cls * kind * option Z * option Z * string) : bool :=
  let '(c, k, n, m, txt) := r in String.eqb (render_page c k (pg n m)) txt.
Lemma grid_agrees : forallb grid_row_ok x_grid = true /\ List.length x_grid = 270%nat.
Proof. vm_compute. split; reflexivity. Qed.

(* ---- setter effects ---- *)
Definition oeff_eqb := option_eqb eff_eqb.
Definition effect_row_ok (r : cls * kind * ckind * option Z * option Z * res (option eff * option eff)) : bool :=
  let '(c, k, q, a1, a2, e) := r in
  res_eqb (fun x y => oeff_eqb (fst x) (fst y) && oeff_eqb (snd x) (snd y)) (model_effect c k q a1 a2) e.
Lemma effects_agree : forallb effect_row_ok x_effects = true /\ List.length x_effects = 270%nat.
Proof. vm_compute. split; reflexivity. Qed.

(* ---- clause order of the statement tails (read off QueryBuilder.get_sql / _SetOperation.get_sql by ast) ---- *)
Lemma tail_orders_agree :
  x_select_tail_order = select_tail_order /\ x_setop_tail_order = setop_tail_order
  /\ x_update_tail_order = update_tail_order.
Proof. repeat split; reflexivity. Qed.

Definition position_row_ok (r : cls * string * string * string) : bool :=
  let '(c, ob, fu, tail) := r in
  String.eqb (ob ++ render_page c KSelect (pg (Some 7%Z) (Some 5%Z)) ++ fu) tail.
Lemma positions_agree : forallb position_row_ok x_position = true /\ covers_cls (fun r => fst (fst (fst r))) x_position = true.
Proof. vm_compute. split; reflexivity. Qed.

(* ---- ClickHouse LIMIT BY, MSSQL TOP ---- *)
Definition limit_by_row_ok (r : Z * Z * list string * option Z * option Z * string) : bool :=
  let '(n, m, b, l, o, txt) := r in
  String.eqb (render_page CClickHouse KSelect (mkPage l o (Some (n, m, b)) None)) txt.
Lemma limit_by_agrees : forallb limit_by_row_ok x_limit_by = true /\ (10 <=? List.length x_limit_by)%nat = true.
Proof. vm_compute. split; reflexivity. Qed.

Definition top_row_ok (r : bool * option (Z * bool * bool) * string * string) : bool :=
  let '(d, tp, rest, txt) := r in String.eqb (select_head CMSSQL d (mkPage None None None tp) rest) txt.
Lemma top_agrees : forallb top_row_ok x_top = true /\ (10 <=? List.length x_top)%nat = true.
Proof. vm_compute. split; reflexivity. Qed.

(* ---- every other @builder call (where, select, groupby, set, orderby, for_update, distinct, replace_table with an
        equal / another / an absent table) leaves _limit, _offset, ClickHouse _limit_by and MSSQL _top alone, on the
        receiver and on the copy: the model's COther ---- *)
Lemma other_calls_keep : forallb (fun r : cls * kind * string * bool => snd r) x_keep = true
  /\ (100 <=? List.length x_keep)%nat = true.
Proof. vm_compute. split; reflexivity. Qed.

(* ---- operands with their own limit/offset/limit_by/top: the set operation's tail is exactly its own window ---- *)
Definition setop_operand_row_ok (r : cls * string) : bool :=
  String.eqb (render_page (fst r) KSetOp (pg (Some 7%Z) (Some 5%Z))) (snd r).
Lemma setop_operands_agree : forallb setop_operand_row_ok x_setop_operands = true
  /\ (20 <=? List.length x_setop_operands)%nat = true.
Proof. vm_compute. split; reflexivity. Qed.

(* ---- Round 6: a statement started through ANY class-method factory of a query class (from_, select, with_, into,
        Table(..).select/update, Tables(..), update; enumerated from the source) is a builder of that class's dialect
        and paginates like it ---- *)
Definition route_row_ok (r : cls * kind * string * bool * string) : bool :=
  let '(c, k, _, same_builder, tail) := r in
  same_builder && String.eqb (render_page c k (pg (Some 7%Z) (Some 5%Z))) tail.
Lemma routes_agree : forallb route_row_ok x_routes = true /\ (150 <=? List.length x_routes)%nat = true.
Proof. vm_compute. split; reflexivity. Qed.
