(* AliasFinal.v — C13: the clauses on the fragment, and the machine-checked witnesses against the full statement. *)
From PV Require Import Base Crit gen.TermsTable Terms TermsCorr gen.C13Table Alias lemmas.AliasLemmas lemmas.AliasStmt.

(* ------------------------------------------------------------------------------------------------ *)
(* 1. the clauses under their fragment hypotheses                                                     *)
(* ------------------------------------------------------------------------------------------------ *)
Definition frag_select : Prop :=
  forall s t a, alias_of t = Some a -> a <> "" -> In t (s_sel s) -> sel_frag s t = true ->
    select_item s t = with_suffix (bare s PSelect t) (alias_suffix (s_cls s) a).
Definition frag_filters : Prop :=
  forall s t, quiet t = true ->
       (s_where s = Some t -> where_text s t = bare s PWhere t)
    /\ (s_having s = Some t -> having_text s t = bare s PHaving t)
    /\ (s_on s = Some t -> on_text s t = bare s POn t).
Definition frag_funcarg : Prop :=
  forall s p f args sp fal, quiet_list args = true ->
    render (ctx_at s p) (TFunc f args sp fal) = render (ctx_at s p) (TFunc f (strip_list args) sp fal).
(* since the wave-2 repairs: in EVERY position and under EVERY constructor (no "shielding" side condition any more) *)
Definition frag_larger : Prop :=
  forall s p e, quiet (set_alias e None) = true ->
    render (ctx_at s p) e = render (ctx_at s p) (strip_inner e).
(* ... and for every quiet value, aliased or not, VALUES renders no alias *)
Definition frag_values : Prop :=
  forall c t, quiet t = true ->
    values_item c t = render (x_ctx_at c PValues false) (strip_all t).
Definition frag_group : Prop :=
  forall s t a, alias_of t = Some a -> a <> "" -> In t (s_group s) -> quiet t = true ->
    group_item s t = if name_in (Some a) (selected_aliases s) && spec_group_alias_allowed (s_cls s)
                     then Ok (alias_ref (s_cls s) a) else bare s PGroup t.
Definition frag_order : Prop :=
  forall s t d a, alias_of t = Some a -> a <> "" -> In (t, d) (s_order s) -> quiet t = true ->
    order_item s (t, d) = with_dir d (if name_in (Some a) (selected_aliases s) && spec_order_alias_allowed (s_cls s)
                                     then Ok (alias_ref (s_cls s) a) else bare s POrder t).
Definition frag_defined : Prop :=
  forall s a, a <> "" -> name_in (Some a) (selected_aliases s) = true -> defs_ok s a = true ->
    exists t', In t' (s_sel s) /\ alias_of t' = Some a
               /\ select_item s t' = with_suffix (bare s PSelect t') (alias_suffix (s_cls s) a).

Lemma frag_select_holds : frag_select.
Proof. intros s t a Ha _ _ Hf. apply select_item_frag; auto. Qed.

Lemma frag_filters_holds : frag_filters.
Proof.
  intros s t Hq. unfold where_text, having_text, on_text.
  repeat split; intros _; rewrite bare_non_select by reflexivity; apply non_select_alias_free; auto.
Qed.

Lemma frag_funcarg_holds : frag_funcarg.
Proof. intros s p f args sp fal Hq. apply funcarg_alias_free, Hq. Qed.

Lemma frag_larger_holds : frag_larger.
Proof. intros s p e Hq. apply inner_alias_free, Hq. Qed.

Lemma strip_inner_unaliased t : alias_of t = None -> strip_inner t = strip_all t.
Proof. unfold strip_inner. intros ->. apply set_alias_none_strip. Qed.
Lemma set_alias_same t : set_alias t (alias_of t) = t.
Proof. destruct t; reflexivity. Qed.

Lemma values_wa c : wa (x_ctx_at c PValues false) = false.
Proof. destruct c; reflexivity. Qed.

Lemma frag_values_holds : frag_values.
Proof. intros c t Hq. unfold values_item. apply quiet_render; auto. apply values_wa. Qed.

Lemma frag_group_holds : frag_group.
Proof.
  intros s t a Ha Hne _ Hq. rewrite (group_item_law s t a Ha Hne).
  destruct (name_in (Some a) (selected_aliases s) && spec_group_alias_allowed (s_cls s)); [reflexivity|].
  rewrite bare_non_select by reflexivity. apply non_select_alias_free; auto.
Qed.

Lemma frag_order_holds : frag_order.
Proof.
  intros s t d a Ha Hne _ Hq. rewrite (order_item_law s t d a Ha Hne).
  destruct (name_in (Some a) (selected_aliases s) && spec_order_alias_allowed (s_cls s)); [reflexivity|].
  rewrite bare_non_select by reflexivity. rewrite (non_select_alias_free s POrder t eq_refl Hq). reflexivity.
Qed.

Lemma frag_defined_holds : frag_defined.
Proof. intros s a _ Hin Hd. apply reference_defined; auto. Qed.

(* what holds for EVERY term, class and statement (no fragment) *)
Definition unconditional : Prop :=
  (* render treats the alias of the top node as its constructor's behaviour says *)
  (forall c t, render c t = behaviour_spec c t)
  (* the substitution in GROUP BY / ORDER BY is by name, exactly when selected and allowed; otherwise the element is
     rendered by the term's own get_sql at a position without with_alias *)
  /\ (forall s t a, alias_of t = Some a -> a <> "" ->
        group_item s t = if name_in (Some a) (selected_aliases s) && spec_group_alias_allowed (s_cls s)
                         then Ok (alias_ref (s_cls s) a) else render (ctx_at s PGroup) t)
  /\ (forall s t d a, alias_of t = Some a -> a <> "" ->
        order_item s (t, d) = with_dir d (if name_in (Some a) (selected_aliases s) && spec_order_alias_allowed (s_cls s)
                                         then Ok (alias_ref (s_cls s) a) else render (ctx_at s POrder) t))
  (* a substituted reference names a select item of that name *)
  /\ (forall s a, name_in (Some a) (selected_aliases s) = true -> exists t', In t' (s_sel s) /\ alias_of t' = Some a)
  (* an aliased Always constructor renders "expression alias" in the select list too (there it is right) *)
  /\ (forall c t a, alias_behaviour t = Always -> alias_of t = Some a ->
        render c t = with_suffix (render c (set_alias t None))
                                 ((if askw c then " AS " else " ") ++ conv_quote c ++ a ++ conv_quote c))
  (* the extracted tables: every modelled class behaves as the model says; format_alias_sql = fmt_alias on the grid;
     the contexts the ten classes hand to the positions are the specified ones *)
  /\ forallb row_ok x_alias_rows = true /\ forallb row_class_ok x_alias_rows = true
  /\ forallb row_present modelled_classes = true /\ family_ok = true
  /\ forallb fmt_row_ok x_fmt_rows = true /\ (forall c, class_ctx_ok c = true).

Lemma always_suffix c t a : alias_behaviour t = Always -> alias_of t = Some a ->
  render c t = with_suffix (render c (set_alias t None))
                           ((if askw c then " AS " else " ") ++ conv_quote c ++ a ++ conv_quote c).
Proof.
  intros Hb Ha. rewrite render_alias_spec. unfold behaviour_spec, with_suffix, reach_q, reach_aq. rewrite Hb, Ha.
  destruct (render c (set_alias t None)); reflexivity.
Qed.

Lemma unconditional_holds : unconditional.
Proof.
  unfold unconditional. split; [exact render_alias_spec|]. split; [exact group_item_law|]. split; [exact order_item_law|].
  split; [intros s a H; apply name_in_witness, H|]. split; [exact always_suffix|].
  split; [exact extracted_rows_agree|]. split; [exact extracted_rows_classified|]. split; [exact modelled_rows_present|].
  split; [exact function_family_ok|]. split; [exact fmt_alias_table_ok|]. exact class_contexts_ok.
Qed.

(* ------------------------------------------------------------------------------------------------ *)
(* 2. witnesses against the full statement (each evaluated on the faithful model)                      *)
(* ------------------------------------------------------------------------------------------------ *)
Definition st0 (c : qclass) : stmt :=
  {| s_cls := c; s_sel := [fa]; s_on := None; s_where := None; s_group := []; s_having := None; s_order := [] |}.
Definition with_sel (s : stmt) (l : list term) : stmt :=
  {| s_cls := s_cls s; s_sel := l; s_on := s_on s; s_where := s_where s; s_group := s_group s; s_having := s_having s; s_order := s_order s |}.
Definition with_where (s : stmt) (t : term) : stmt :=
  {| s_cls := s_cls s; s_sel := s_sel s; s_on := s_on s; s_where := Some t; s_group := s_group s; s_having := s_having s; s_order := s_order s |}.
Definition with_group (s : stmt) (l : list term) : stmt :=
  {| s_cls := s_cls s; s_sel := s_sel s; s_on := s_on s; s_where := s_where s; s_group := l; s_having := s_having s; s_order := s_order s |}.
Definition with_order (s : stmt) (l : list (term * option dir)) : stmt :=
  {| s_cls := s_cls s; s_sel := s_sel s; s_on := s_on s; s_where := s_where s; s_group := s_group s; s_having := s_having s; s_order := l |}.

Definition w_gt : term := TBasic CGt fa one (Some "gt").
Definition w_null : term := TIsNull fa (Some "n").
Definition w_cplx : term := TCplx BAnd (TBasic CEq fa one None) (TBasic CEq fb two None) (Some "x").
Definition w_fwd : term := TCplx BAnd (TBasic CGt fa one (Some "x")) (TBasic CEq fb two None) None.
Definition w_val : term := TValI 1 (Some "n").                      (* an aliased ValueWrapper: ignores with_alias *)
Definition w_sum : term := TArith OAdd w_val fa (Some "m").         (* ... as an operand of an aliased expression *)
Definition w_now : term := TFunc "NOW" TNil None (Some "n").
Definition w_sub : term := TSub "x" "u" (Some "sq").

(* a sub-query selected under Snowflake: alias bare, the class's convention (and ORDER BY) quote it *)
Lemma not_clause_select : ~ clause_select.
Proof.
  intros H. specialize (H (with_sel (st0 QSnowflake) [w_sub]) w_sub "sq" eq_refl).
  assert (N : "sq" <> "") by discriminate. specialize (H N (or_introl eq_refl)). vm_compute in H. discriminate H.
Qed.
(* NullCriterion ignores with_alias: WHERE "a" IS NULL "n" *)
Lemma not_clause_filters : ~ clause_filters.
Proof.
  intros H. destruct (H (with_where (st0 QGeneric) w_null) w_null) as [Hw _]. specialize (Hw eq_refl).
  vm_compute in Hw. discriminate Hw.
Qed.
(* an aliased ValueWrapper as function argument: F(1 "n") *)
Lemma not_clause_funcarg : ~ clause_funcarg.
Proof.
  intros H. specialize (H (st0 QGeneric) PWhere "F" (TCons w_val TNil) None None).
  vm_compute in H. discriminate H.
Qed.
(* ... and as an operand of a selected expression: SELECT 1 "n"+"a" "m" (no constructor forwards with_alias any more; the
   operand itself ignores it) *)
Lemma not_clause_larger : ~ clause_larger.
Proof.
  intros H. specialize (H (st0 QGeneric) PSelect w_sum). vm_compute in H. discriminate H.
Qed.
(* VALUES (1 "n"): the flag is no longer handed to VALUES, the ValueWrapper ignores that *)
Lemma not_clause_values : ~ clause_values.
Proof. intros H. specialize (H QGeneric w_val). vm_compute in H. discriminate H. Qed.
(* an un-selected aliased NullCriterion in GROUP BY / ORDER BY keeps its alias: GROUP BY "a" IS NULL "n" *)
Lemma not_clause_group : ~ clause_group.
Proof.
  intros H. specialize (H (with_group (st0 QGeneric) [w_null]) w_null "n" eq_refl).
  assert (N : "n" <> "") by discriminate. specialize (H N (or_introl eq_refl)). vm_compute in H. discriminate H.
Qed.
Lemma not_clause_order : ~ clause_order.
Proof.
  intros H. specialize (H (with_order (st0 QGeneric) [(w_null, Some DDesc)]) w_null (Some DDesc) "n" eq_refl).
  assert (N : "n" <> "") by discriminate. specialize (H N (or_introl eq_refl)). vm_compute in H. discriminate H.
Qed.
(* the Snowflake sub-query again: ORDER BY "sq" references a name the select list defines as the bare sq *)
Lemma not_clause_defined : ~ clause_defined.
Proof.
  intros H. assert (N : "sq" <> "") by discriminate.
  destruct (H (with_sel (st0 QSnowflake) [w_sub]) "sq" N eq_refl) as [t' [Hin [_ Hs]]].
  destruct Hin as [<- | []]. vm_compute in Hs. discriminate Hs.
Qed.

(* the deviating behaviours as concrete texts of the model (the same texts the implementation produces: corpus) *)
Definition witness_texts : Prop :=
  render_stmt (with_where (st0 QGeneric) w_null) = Ok "SELECT ""a"" FROM ""t"" WHERE ""a"" IS NULL ""n"""
  /\ render_stmt (with_group (st0 QGeneric) [w_null]) = Ok "SELECT ""a"" FROM ""t"" GROUP BY ""a"" IS NULL ""n"""
  /\ render_stmt (with_sel (st0 QGeneric) [TFunc "F" (TCons w_val TNil) None None]) = Ok "SELECT F(1 ""n"") FROM ""t"""
  /\ render_stmt (with_sel (st0 QGeneric) [w_sum]) = Ok "SELECT 1 ""n""+""a"" ""m"" FROM ""t"""
  /\ render_insert QGeneric [w_val] = Ok "INSERT INTO ""t"" VALUES (1 ""n"")"
  /\ render_stmt (with_sel (st0 QSnowflake) [w_sub; TField "a" None (Some "m")]) = Ok "SELECT (SELECT x FROM u) sq,a ""m"" FROM t"
  /\ render_stmt (with_order (with_sel (st0 QSnowflake) [w_sub]) [(w_sub, None)]) = Ok "SELECT (SELECT x FROM u) sq FROM t ORDER BY ""sq""".
Lemma witness_texts_hold : witness_texts.
Proof. vm_compute. repeat split. Qed.

(* the former deviations repaired by f84cf61 / 39a4740 / 55bfddf / 97eddd6, as texts of the model (regression witnesses in
   the corpus): comparison alias quoted; AND/OR alias rendered (and so defined for ORDER BY); no alias inside operands of
   AND/OR, BETWEEN, unary minus; no alias inside VALUES *)
Definition repaired_texts : Prop :=
  render_stmt (with_sel (st0 QGeneric) [w_gt]) = Ok "SELECT ""a"">1 ""gt"" FROM ""t"""
  /\ render_stmt (with_sel (st0 QPostgres) [w_gt]) = Ok "SELECT ""a"">1 ""gt"" FROM ""t"""
  /\ render_stmt (with_sel (st0 QGeneric) [w_cplx]) = Ok "SELECT ""a""=1 AND ""b""=2 ""x"" FROM ""t"""
  /\ render_stmt (with_order (with_sel (st0 QGeneric) [w_cplx]) [(TField "z" None (Some "x"), None)])
     = Ok "SELECT ""a""=1 AND ""b""=2 ""x"" FROM ""t"" ORDER BY ""x"""
  /\ render_stmt (with_sel (st0 QGeneric) [w_fwd]) = Ok "SELECT ""a"">1 AND ""b""=2 FROM ""t"""
  /\ render_stmt (with_sel (st0 QGeneric) [TBetween (TField "a" None (Some "n")) one two None])
     = Ok "SELECT ""a"" BETWEEN 1 AND 2 FROM ""t"""
  /\ render_stmt (with_sel (st0 QGeneric) [TNeg (TField "a" None (Some "n"))]) = Ok "SELECT -""a"" FROM ""t"""
  /\ render_insert QGeneric [w_now] = Ok "INSERT INTO ""t"" VALUES (NOW())".
Lemma repaired_texts_hold : repaired_texts.
Proof. vm_compute. repeat split. Qed.

(* what became true for every term: a comparison and an AND/OR criterion are consuming constructors in the class's
   convention (select list: expression, alias once, quoted), for all ten classes *)
Lemma basic_cplx_in_fragment s t : (match t with TBasic _ _ _ _ | TCplx _ _ _ _ => true | _ => false end) = true ->
  quiet t = true -> sel_frag s t = true.
Proof.
  intros Hk Hq. unfold sel_frag. rewrite Hq. destruct t; try discriminate Hk; cbn [consumes alias_behaviour andb];
  unfold top_ok, reach_q, reach_aq; cbn [alias_behaviour]; rewrite String.eqb_refl; reflexivity.
Qed.

(* non-vacuity of the fragment: one aliased arithmetic object (with an aliased field inside) selected, filtered on,
   grouped and ordered by, in all ten classes *)
Definition ex_m : term := TArith OAdd (TField "a" None (Some "inner")) one (Some "m").
Definition ex_s : term := TFunc "SUM" (TCons (TField "b" None None) TNil) None (Some "s").
Definition ex_stmt (c : qclass) : stmt :=
  {| s_cls := c; s_sel := [ex_m; ex_s]; s_on := Some (TBasic CEq fa fb None);
     s_where := Some (TBasic CGt ex_m (TValI 0 None) None); s_group := [ex_m]; s_having := Some (TBasic CGt ex_s one None);
     s_order := [(ex_m, Some DDesc); (ex_s, None); (TField "z" None (Some "zz"), None)] |}.
Definition example_texts : Prop :=
  forallb (fun c => sel_frag (ex_stmt c) ex_m && sel_frag (ex_stmt c) ex_s && defs_ok (ex_stmt c) "m") all_qclasses = true
  /\ render_stmt (ex_stmt QGeneric)
     = Ok "SELECT ""a""+1 ""m"",SUM(""b"") ""s"" FROM ""t"" JOIN ""u"" ON ""a""=""b"" WHERE ""a""+1>0 GROUP BY ""m"" HAVING SUM(""b"")>1 ORDER BY ""m"" DESC,""s"",""z"""
  /\ render_stmt (ex_stmt QOracle)
     = Ok "SELECT a+1 m,SUM(b) s FROM t JOIN u ON a=b WHERE a+1>0 GROUP BY a+1 HAVING SUM(b)>1 ORDER BY m DESC,s,z"
  /\ render_stmt (ex_stmt QClickHouse)
     = Ok "SELECT ""a""+1 AS ""m"",SUM(""b"") AS ""s"" FROM ""t"" JOIN ""u"" ON ""a""=""b"" WHERE ""a""+1>0 GROUP BY ""m"" HAVING SUM(""b"")>1 ORDER BY ""m"" DESC,""s"",""z"""
  /\ render_stmt (ex_stmt QSnowflake)
     = Ok "SELECT a+1 ""m"",SUM(b) ""s"" FROM t JOIN u ON a=b WHERE a+1>0 GROUP BY ""m"" HAVING SUM(b)>1 ORDER BY ""m"" DESC,""s"",z"
  /\ render_stmt (ex_stmt QMySQL)
     = Ok "SELECT `a`+1 `m`,SUM(`b`) `s` FROM `t` JOIN `u` ON `a`=`b` WHERE `a`+1>0 GROUP BY `m` HAVING SUM(`b`)>1 ORDER BY `m` DESC,`s`,`z`".
Lemma example_texts_hold : example_texts.
Proof. vm_compute. repeat split. Qed.
