(* ScopeLemmas.v — C10, expression level: the token view IS the rendered text, every field leaf is one reference
   token, and every reference token obeys the qualification rule under the context's with_namespace flag. *)
From PV Require Import Base Crit gen.TermsTable Terms Page gen.QueryTable Query Scope.
Local Open Scope list_scope.

(* ---------------- strings ---------------- *)
Lemma sapp_assoc (a b c : string) : ((a ++ b) ++ c = a ++ (b ++ c))%string.
Proof. induction a as [|x a IH]; cbn; [reflexivity | rewrite IH; reflexivity]. Qed.
Lemma sapp_nil_r (a : string) : (a ++ "")%string = a.
Proof. induction a as [|x a IH]; cbn; [reflexivity | rewrite IH; reflexivity]. Qed.

(* ---------------- flattening ---------------- *)
Lemma flat_nil qc : flat qc [] = ""%string.
Proof. reflexivity. Qed.
Lemma flat_cons qc t r : flat qc (t :: r) = (tok_text qc t ++ flat qc r)%string.
Proof. reflexivity. Qed.
Lemma flat_app qc a b : flat qc (a ++ b) = (flat qc a ++ flat qc b)%string.
Proof. induction a as [|t a IH]; [reflexivity|]. cbn [app]. rewrite !flat_cons, IH, sapp_assoc. reflexivity. Qed.
Lemma flat_one qc s : flat qc [KText s] = s.
Proof. rewrite flat_cons, flat_nil. cbn [tok_text]. apply sapp_nil_r. Qed.
Lemma flat_ptoks qc b ts : flat qc (ptoks b ts) = paren b (flat qc ts).
Proof.
  destruct b; [|reflexivity]. unfold ptoks, paren. rewrite flat_cons, flat_app, flat_one. reflexivity.
Qed.
Lemma flat_alias qc0 c qc ts alias : flat qc0 (alias_toks c qc ts alias) = alias_sql c qc (flat qc0 ts) alias.
Proof.
  destruct alias as [a|]; [|reflexivity]. unfold alias_toks, alias_sql, fmt_alias, alias_suffix.
  rewrite flat_app, flat_one. reflexivity.
Qed.
Lemma flat_opndT qc sl t ts : flat qc (opndT sl t ts) = opnd sl t (flat qc ts).
Proof. apply flat_ptoks. Qed.
Lemma q_opc sl t c : q (opc sl t c) = q c.
Proof. unfold opc. destruct (operand_parens sl (okind_of t) && negb operand_keeps_subc); reflexivity. Qed.
Lemma wn_opc sl t c : wn (opc sl t c) = wn c.
Proof. unfold opc. destruct (operand_parens sl (okind_of t) && negb operand_keeps_subc); reflexivity. Qed.
Lemma flat_jtoks qc sep l : flat qc (jtoks sep l) = join sep (map (flat qc) l).
Proof.
  induction l as [|x r IH]; [reflexivity|]. destruct r as [|y r']; [reflexivity|].
  change (jtoks sep (x :: y :: r')) with (x ++ KText sep :: jtoks sep (y :: r')).
  change (join sep (map (flat qc) (x :: y :: r'))) with (flat qc x ++ sep ++ join sep (map (flat qc) (y :: r')))%string.
  rewrite flat_app, flat_cons, IH. reflexivity.
Qed.

(* ---------------- the mutual induction scheme on terms ---------------- *)
Scheme sc_term_mind := Induction for term Sort Prop
  with sc_tlist_mind := Induction for tlist Sort Prop
  with sc_wlist_mind := Induction for wlist Sort Prop
  with sc_oterm_mind := Induction for oterm Sort Prop.
Combined Scheme sc_term_all_ind from sc_term_mind, sc_tlist_mind, sc_wlist_mind, sc_oterm_mind.

(* ---------------- (A) flattening the tokens gives Terms.render ---------------- *)
Definition Rt (t : term) := forall c, render c t = rmap (flat (q c)) (rtoks c t).
Definition Rl (l : tlist) := forall c, render_list c l = rmap (map (flat (q c))) (rtoks_list c l).
Definition Rw (l : wlist) := forall c, render_whens c l = rmap (map (flat (q c))) (rtoks_whens c l).
Definition Ro (o : oterm) := match o with ONone => True | OSome t => Rt t end.

Ltac unf := cbn [render rtoks render_list rtoks_list render_whens rtoks_whens].
Ltac qs := rewrite ?q_opc; cbn [q set_wa set_subq set_subc fctx].
Ltac norm := repeat (rewrite ?flat_opndT, ?flat_app, ?flat_cons, ?flat_nil, ?flat_ptoks, ?flat_alias, ?flat_jtoks, ?flat_one);
             cbn [tok_text]; rewrite ?sapp_assoc, ?sapp_nil_r.
Ltac dbind := match goal with
  | |- bind (rmap _ ?X) _ = rmap _ (bind ?X _) => destruct X; cbn [bind rmap]; [|reflexivity] end.
Ltac leaf := intros; unf; cbn [bind rmap]; rewrite flat_one; reflexivity.

Lemma rtoks_render_all : (forall t, Rt t) /\ (forall l, Rl l) /\ (forall l, Rw l) /\ (forall o, Ro o).
Proof.
  apply sc_term_all_ind; unfold Rt, Rl, Rw, Ro.
  - (* TField *) intros name tbl alias c. unf. cbn [rmap]. f_equal.
    assert (E : flat (q c) [KRef tbl (qualifier (wn c) tbl) name false]
                = match tbl with
                  | Some tb => if wn c || truthy_ostr (talias tb) then (fq (q c) (table_name tb) ++ "." ++ fq (q c) name)%string else fq (q c) name
                  | None => fq (q c) name end).
    { rewrite flat_cons, flat_nil, sapp_nil_r. cbn [tok_text]. unfold ref_text, qualifier.
      destruct tbl as [tb|]; [|reflexivity]. destruct (wn c || truthy_ostr (talias tb)); reflexivity. }
    destruct (wa c); [rewrite flat_alias|]; rewrite E; reflexivity.
  - (* TStar *) intros tbl c. unf. cbn [rmap]. f_equal. rewrite flat_cons, flat_nil, sapp_nil_r. cbn [tok_text].
    unfold ref_text, qualifier. destruct tbl as [tb|]; [|reflexivity]. destruct (wn c || truthy_ostr (talias tb)); reflexivity.
  - leaf. - leaf. - leaf. - leaf. - leaf. - leaf. - leaf.
  - (* TNeg *) intros t IH c. unf. rewrite IH. qs. dbind. f_equal. norm. reflexivity.
  - (* TArith *) intros op l IHl r IHr alias c. unf. rewrite IHl, IHr. qs. dbind. dbind.
    f_equal. destruct (wa c); norm; reflexivity.
  - (* TBasic *) intros cm l IHl r IHr alias c. unf. rewrite IHl, IHr. qs. dbind. dbind.
    f_equal. destruct (wa c); norm; reflexivity.
  - (* TCplx *) intros bo l IHl r IHr alias c. unf. rewrite IHl, IHr. qs. dbind. dbind.
    f_equal. destruct (wa c); norm; reflexivity.
  - (* TIn *) intros t IHt cont IHc negated alias c. unf. rewrite IHt, IHc. qs. dbind. dbind. f_equal. norm. reflexivity.
  - (* TBetween *) intros t IHt lo IHlo hi IHhi alias c. unf. rewrite IHt, IHlo, IHhi. qs. dbind. dbind. dbind.
    f_equal. norm. reflexivity.
  - (* TBitAnd *) intros t IHt v alias c. unf. rewrite IHt. qs. dbind. f_equal. norm. reflexivity.
  - (* TIsNull *) intros t IHt alias c. unf. rewrite IHt. qs. dbind. f_equal. norm. reflexivity.
  - (* TNotNull *) intros t IHt alias c. unf. rewrite IHt. qs. dbind. f_equal. norm. reflexivity.
  - (* TNot *) intros t IHt alias c. unf. rewrite IHt. qs. dbind. f_equal. norm. reflexivity.
  - (* TAll *) intros t IHt alias c. unf. rewrite IHt. qs. dbind. f_equal. norm. reflexivity.
  - (* TEmpty *) intros c. reflexivity.
  - (* TCase *) intros ws IHw els IHe alias c. unf. destruct ws as [|cr v r]; [reflexivity|].
    rewrite IHw. qs. destruct (rtoks_whens (set_wa c false) (WCons cr v r)) as [cs|]; cbn [bind rmap]; [|reflexivity].
    destruct els as [|t'].
    + cbn [bind rmap]. f_equal. destruct (wa c); norm; reflexivity.
    + rewrite (IHe (set_wa c false)). qs. destruct (rtoks (set_wa c false) t'); cbn [bind rmap]; [|reflexivity].
      f_equal. destruct (wa c); norm; reflexivity.
  - (* TFunc *) intros name args IHa special alias c. unf. rewrite IHa. qs.
    destruct (rtoks_list (fctx c) args) as [ss|]; cbn [bind rmap]; [|reflexivity].
    f_equal. destruct (wa c); norm; reflexivity.
  - (* TTuple *) intros vs IHv alias c. unf. rewrite IHv. qs.
    destruct (rtoks_list (set_wa c false) vs) as [ss|]; cbn [bind rmap]; [|reflexivity]. f_equal. norm. reflexivity.
  - (* TArray *) intros vs IHv alias c. unf. rewrite IHv. qs.
    destruct (rtoks_list (set_wa c false) vs) as [ss|]; cbn [bind rmap]; [|reflexivity]. f_equal.
    rewrite flat_alias. f_equal. destruct (is_pg (dia c)).
    + rewrite flat_jtoks. destruct (join "," (map (flat (q c)) ss)) eqn:E.
      * rewrite flat_app, flat_one, flat_jtoks, E. reflexivity.
      * norm. rewrite E. reflexivity.
    + norm. reflexivity.
  - (* TSub *) leaf.
  - (* TNil *) intros c. reflexivity.
  - (* TCons *) intros t IHt r IHr c. unf. rewrite IHt, IHr.
    destruct (rtoks c t); cbn [bind rmap]; [|reflexivity].
    destruct (rtoks_list c r); cbn [bind rmap]; reflexivity.
  - (* WNil *) intros c. reflexivity.
  - (* WCons *) intros cr IHc v IHv r IHr c. unf. rewrite IHc, IHv, IHr.
    destruct (rtoks c cr); cbn [bind rmap]; [|reflexivity].
    destruct (rtoks c v); cbn [bind rmap]; [|reflexivity].
    destruct (rtoks_whens c r); cbn [bind rmap]; [|reflexivity].
    cbn [map]. do 2 f_equal. norm. reflexivity.
  - exact I.
  - intros t IH. exact IH.
Qed.

Theorem rtoks_render : forall c t, render c t = rmap (flat (q c)) (rtoks c t).
Proof. intros c t. apply (proj1 rtoks_render_all). Qed.

(* ---------------- (B) every leaf is one reference token obeying the rule ---------------- *)
Lemma ostr_eqb_refl (o : option string) : option_eqb String.eqb o o = true.
Proof. destruct o; cbn; [apply String.eqb_refl | reflexivity]. Qed.
Lemma ref_okb_ok wns tk : ref_okb wns tk = true <-> ref_ok wns tk.
Proof.
  destruct tk as [s|tb qual n st]; cbn; [tauto|].
  destruct qual as [a|], (qualifier wns tb) as [b|]; cbn; split; intro H; try congruence.
  - apply String.eqb_eq in H. congruence.
  - inversion H. apply String.eqb_refl.
Qed.

Definition okl (wns : bool) (ts : list tok) : bool := forallb (ref_okb wns) ts.
Lemma okl_app w a b : okl w (a ++ b) = okl w a && okl w b.
Proof. apply forallb_app. Qed.
Lemma okl_text w s r : okl w (KText s :: r) = okl w r.
Proof. reflexivity. Qed.
Lemma okl_ptoks w b ts : okl w (ptoks b ts) = okl w ts.
Proof. destruct b; [|reflexivity]. unfold ptoks. rewrite okl_text, okl_app. cbn. apply andb_true_r. Qed.
Lemma okl_opndT w sl t ts : okl w (opndT sl t ts) = okl w ts.
Proof. apply okl_ptoks. Qed.
Lemma okl_alias w c qc ts alias : okl w (alias_toks c qc ts alias) = okl w ts.
Proof. destruct alias; [|reflexivity]. unfold alias_toks. rewrite okl_app. cbn. apply andb_true_r. Qed.
Lemma okl_jtoks w sep l : okl w (jtoks sep l) = forallb (okl w) l.
Proof.
  induction l as [|x r IH]; [reflexivity|]. destruct r as [|y r'].
  - cbn. rewrite andb_true_r. reflexivity.
  - change (jtoks sep (x :: y :: r')) with (x ++ KText sep :: jtoks sep (y :: r')).
    rewrite okl_app, okl_text, IH. reflexivity.
Qed.

Lemma tt_app a b : tok_tables (a ++ b) = tok_tables a ++ tok_tables b.
Proof. apply flat_map_app. Qed.
Lemma tt_text s r : tok_tables (KText s :: r) = tok_tables r.
Proof. reflexivity. Qed.
Lemma tt_ptoks b ts : tok_tables (ptoks b ts) = tok_tables ts.
Proof. destruct b; [|reflexivity]. unfold ptoks. rewrite tt_text, tt_app. cbn. apply app_nil_r. Qed.
Lemma tt_opndT sl t ts : tok_tables (opndT sl t ts) = tok_tables ts.
Proof. apply tt_ptoks. Qed.
Lemma tt_alias c qc ts alias : tok_tables (alias_toks c qc ts alias) = tok_tables ts.
Proof. destruct alias; [|reflexivity]. unfold alias_toks. rewrite tt_app. cbn. apply app_nil_r. Qed.
Lemma tt_jtoks sep l : tok_tables (jtoks sep l) = List.concat (map tok_tables l).
Proof.
  induction l as [|x r IH]; [reflexivity|]. destruct r as [|y r'].
  - cbn. rewrite app_nil_r. reflexivity.
  - change (jtoks sep (x :: y :: r')) with (x ++ KText sep :: jtoks sep (y :: r')).
    rewrite tt_app, tt_text, IH. reflexivity.
Qed.

Definition Kt (t : term) := forall c ts, rtoks c t = Ok ts -> okl (wn c) ts = true /\ tok_tables ts = field_tables t.
Definition Kl (l : tlist) := forall c tss, rtoks_list c l = Ok tss ->
  forallb (okl (wn c)) tss = true /\ List.concat (map tok_tables tss) = field_tables_l l.
Definition Kw (l : wlist) := forall c tss, rtoks_whens c l = Ok tss ->
  forallb (okl (wn c)) tss = true /\ List.concat (map tok_tables tss) = field_tables_w l.
Definition Ko (o : oterm) := match o with ONone => True | OSome t => Kt t end.

Ltac inv_bind H :=
  repeat match type of H with
  | bind ?x _ = Ok _ => let E := fresh "E" in destruct x eqn:E; cbn [bind] in H; [|discriminate H]
  end.
Ltac wns := rewrite ?wn_opc in *; cbn [wn set_wa set_subq set_subc fctx] in *.
Ltac simp_ok := repeat (rewrite ?okl_opndT, ?okl_app, ?okl_text, ?okl_ptoks, ?okl_alias, ?okl_jtoks); cbn [okl forallb ref_okb andb].
Ltac simp_tt := repeat (rewrite ?tt_opndT, ?tt_app, ?tt_text, ?tt_ptoks, ?tt_alias, ?tt_jtoks); cbn [tok_tables flat_map app].
Ltac leafK := intros; match goal with H : rtoks _ _ = Ok _ |- _ => cbn [rtoks render bind] in H; inversion H; subst; split; reflexivity end.

Lemma rtoks_refs_all : (forall t, Kt t) /\ (forall l, Kl l) /\ (forall l, Kw l) /\ (forall o, Ko o).
Proof.
  apply sc_term_all_ind; unfold Kt, Kl, Kw, Ko.
  - (* TField *) intros name tbl alias c ts H. cbn [rtoks] in H. inversion H; subst; clear H.
    destruct (wa c); simp_ok; simp_tt; rewrite ?ostr_eqb_refl; split; reflexivity.
  - (* TStar *) intros tbl c ts H. cbn [rtoks] in H. inversion H; subst; clear H.
    simp_ok; simp_tt; rewrite ?ostr_eqb_refl; split; reflexivity.
  - leafK. - leafK. - leafK. - leafK. - leafK. - leafK. - leafK.
  - (* TNeg *) intros t IH c ts H. cbn [rtoks] in H. inv_bind H. inversion H; subst; clear H.
    destruct (IH _ _ E) as [A B]. wns. simp_ok. simp_tt. cbn [field_tables]. split; assumption.
  - (* TArith *) intros op l IHl r IHr alias c ts H. cbn [rtoks] in H. inv_bind H.
    destruct (IHl _ _ E) as [A1 B1]. destruct (IHr _ _ E0) as [A2 B2]. wns.
    destruct (wa c); inversion H; subst; clear H; simp_ok; simp_tt; rewrite A1, A2, B1, B2; split; reflexivity.
  - (* TBasic *) intros cm l IHl r IHr alias c ts H. cbn [rtoks] in H. inv_bind H.
    destruct (IHl _ _ E) as [A1 B1]. destruct (IHr _ _ E0) as [A2 B2]. wns.
    destruct (wa c); inversion H; subst; clear H; simp_ok; simp_tt; rewrite A1, A2, B1, B2; split; reflexivity.
  - (* TCplx *) intros bo l IHl r IHr alias c ts H. cbn [rtoks] in H. inv_bind H.
    destruct (IHl _ _ E) as [A1 B1]. destruct (IHr _ _ E0) as [A2 B2]. wns.
    destruct (wa c); inversion H; subst; clear H; simp_ok; simp_tt; rewrite A1, A2, B1, B2; split; reflexivity.
  - (* TIn *) intros t IHt cont IHc negated alias c ts H. cbn [rtoks] in H. inv_bind H.
    destruct (IHt _ _ E) as [A1 B1]. destruct (IHc _ _ E0) as [A2 B2]. wns.
    inversion H; subst; clear H; simp_ok; simp_tt; rewrite A1, A2, B1, B2; split; reflexivity.
  - (* TBetween *) intros t IHt lo IHlo hi IHhi alias c ts H. cbn [rtoks] in H. inv_bind H.
    destruct (IHt _ _ E) as [A1 B1]. destruct (IHlo _ _ E0) as [A2 B2]. destruct (IHhi _ _ E1) as [A3 B3]. wns.
    inversion H; subst; clear H; simp_ok; simp_tt; rewrite A1, A2, A3, B1, B2, B3; split; reflexivity.
  - (* TBitAnd *) intros t IHt v alias c ts H. cbn [rtoks] in H. inv_bind H. destruct (IHt _ _ E) as [A1 B1]. wns.
    inversion H; subst; clear H; simp_ok; simp_tt; rewrite A1, B1, ?app_nil_r; split; reflexivity.
  - (* TIsNull *) intros t IHt alias c ts H. cbn [rtoks] in H. inv_bind H. destruct (IHt _ _ E) as [A1 B1]. wns.
    inversion H; subst; clear H; simp_ok; simp_tt; rewrite A1, B1, ?app_nil_r; split; reflexivity.
  - (* TNotNull *) intros t IHt alias c ts H. cbn [rtoks] in H. inv_bind H. destruct (IHt _ _ E) as [A1 B1]. wns.
    inversion H; subst; clear H; simp_ok; simp_tt; rewrite A1, B1, ?app_nil_r; split; reflexivity.
  - (* TNot *) intros t IHt alias c ts H. cbn [rtoks] in H. inv_bind H. destruct (IHt _ _ E) as [A1 B1]. wns.
    inversion H; subst; clear H; simp_ok; simp_tt; rewrite A1, B1; split; reflexivity.
  - (* TAll *) intros t IHt alias c ts H. cbn [rtoks] in H. inv_bind H. destruct (IHt _ _ E) as [A1 B1]. wns.
    inversion H; subst; clear H; simp_ok; simp_tt; rewrite A1, B1, ?app_nil_r; split; reflexivity.
  - (* TEmpty *) intros c ts H. discriminate H.
  - (* TCase *) intros ws IHw els IHe alias c ts H. cbn [rtoks] in H. destruct ws as [|cr v r]; [discriminate H|].
    inv_bind H. destruct (IHw _ _ E) as [A1 B1]. wns. cbn [field_tables]. rewrite <- B1.
    destruct els as [|t'].
    + inversion E0; subst; clear E0.
      destruct (wa c); inversion H; subst; clear H; simp_ok; simp_tt; rewrite A1, ?app_nil_r; split; reflexivity.
    + inv_bind E0. inversion E0; subst; clear E0. destruct (IHe _ _ E1) as [A2 B2]. wns.
      destruct (wa c); inversion H; subst; clear H; simp_ok; simp_tt; rewrite A1, A2, B2, ?app_nil_r; split; reflexivity.
  - (* TFunc *) intros name args IHa special alias c ts H. cbn [rtoks] in H. inv_bind H. destruct (IHa _ _ E) as [A1 B1]. wns.
    cbn [field_tables]. rewrite <- B1.
    destruct (wa c); inversion H; subst; clear H; simp_ok; simp_tt; rewrite A1, ?app_nil_r; split; reflexivity.
  - (* TTuple *) intros vs IHv alias c ts H. cbn [rtoks] in H. inv_bind H. destruct (IHv _ _ E) as [A1 B1]. wns.
    cbn [field_tables]. rewrite <- B1.
    inversion H; subst; clear H; simp_ok; simp_tt; rewrite A1, ?app_nil_r; split; reflexivity.
  - (* TArray *) intros vs IHv alias c ts H. cbn [rtoks] in H. inv_bind H. destruct (IHv _ _ E) as [A1 B1]. wns.
    cbn [field_tables]. rewrite <- B1.
    inversion H; subst; clear H. rewrite okl_alias, tt_alias.
    destruct (is_pg (dia c)); [match goal with |- context [flat ?a ?b] => destruct (flat a b) end|];
      simp_ok; simp_tt; rewrite A1, ?app_nil_r; split; reflexivity.
  - (* TSub *) leafK.
  - (* TNil *) intros c tss H. inversion H; subst. split; reflexivity.
  - (* TCons *) intros t IHt r IHr c tss H. cbn [rtoks_list] in H. inv_bind H. inversion H; subst; clear H.
    destruct (IHt _ _ E) as [A1 B1]. destruct (IHr _ _ E0) as [A2 B2].
    cbn [forallb map List.concat field_tables_l]. rewrite A1, A2, B1, B2. split; reflexivity.
  - (* WNil *) intros c tss H. inversion H; subst. split; reflexivity.
  - (* WCons *) intros cr IHc v IHv r IHr c tss H. cbn [rtoks_whens] in H. inv_bind H. inversion H; subst; clear H.
    destruct (IHc _ _ E) as [A1 B1]. destruct (IHv _ _ E0) as [A2 B2]. destruct (IHr _ _ E1) as [A3 B3].
    cbn [forallb map List.concat field_tables_w]. simp_ok. simp_tt. rewrite A1, A2, A3, B1, B2, B3, <- app_assoc. split; reflexivity.
  - exact I.
  - intros t IH. exact IH.
Qed.

Lemma okl_Forall w ts : okl w ts = true <-> Forall (ref_ok w) ts.
Proof.
  unfold okl. rewrite forallb_forall, Forall_forall. split; intros H x Hx; apply ref_okb_ok; auto.
Qed.

(* every reference token is printed by the Field/Star rule under THE CONTEXT'S flag: no constructor changes
   with_namespace on the way down *)
Theorem rtoks_rule : forall c t ts, rtoks c t = Ok ts -> Forall (ref_ok (wn c)) ts.
Proof. intros c t ts H. apply okl_Forall. exact (proj1 (proj1 rtoks_refs_all t c ts H)). Qed.
(* and the reference tokens are exactly the field / star leaves of the term, in order: none is lost, none invented *)
Theorem rtoks_complete : forall c t ts, rtoks c t = Ok ts -> tok_tables ts = field_tables t.
Proof. intros c t ts H. exact (proj2 (proj1 rtoks_refs_all t c ts H)). Qed.

Lemma table_name_alias tb : truthy_ostr (talias tb) = true -> table_name tb = ostr (talias tb).
Proof. unfold table_name. intros ->. reflexivity. Qed.
Lemma table_name_plain tb : truthy_ostr (talias tb) = false -> table_name tb = tname tb.
Proof. unfold table_name. intros ->. reflexivity. Qed.

(* (1) with_namespace on: every field bound to a table is qualified by the table's in-statement name *)
Theorem qualified_when_namespace : forall c t ts tb qual n st,
  wn c = true -> rtoks c t = Ok ts -> In (KRef (Some tb) qual n st) ts -> qual = Some (table_name tb).
Proof.
  intros c t ts tb qual n st Hw H Hin. pose proof (rtoks_rule c t ts H) as F.
  rewrite Forall_forall in F. specialize (F _ Hin). cbn in F. rewrite Hw in F. exact F.
Qed.
(* (2) a field of an aliased table is qualified by the alias whatever the flag *)
Theorem aliased_always_qualified : forall c t ts tb qual n st,
  truthy_ostr (talias tb) = true -> rtoks c t = Ok ts -> In (KRef (Some tb) qual n st) ts -> qual = Some (ostr (talias tb)).
Proof.
  intros c t ts tb qual n st Ha H Hin. pose proof (rtoks_rule c t ts H) as F.
  rewrite Forall_forall in F. specialize (F _ Hin). cbn in F. rewrite Ha, orb_true_r in F.
  rewrite F, table_name_alias; auto.
Qed.
(* flag off and no alias: bare column (INSERT column list, SET target, single-table statements) *)
Theorem bare_otherwise : forall c t ts tb qual n st,
  wn c = false -> truthy_ostr (talias tb) = false -> rtoks c t = Ok ts -> In (KRef (Some tb) qual n st) ts -> qual = None.
Proof.
  intros c t ts tb qual n st Hw Ha H Hin. pose proof (rtoks_rule c t ts H) as F.
  rewrite Forall_forall in F. specialize (F _ Hin). cbn in F. rewrite Hw, Ha in F. exact F.
Qed.
(* table-less fields are never qualified *)
Theorem tableless_bare : forall c t ts qual n st, rtoks c t = Ok ts -> In (KRef None qual n st) ts -> qual = None.
Proof.
  intros c t ts qual n st H Hin. pose proof (rtoks_rule c t ts H) as F.
  rewrite Forall_forall in F. exact (F _ Hin).
Qed.
