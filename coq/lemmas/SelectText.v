(* SelectText.v — C04: the token view of a flat SQLite statement flattens to exactly the text of the statement model
   (Query.str_query), for every flat statement (any number of items, sources, joins). *)
From PV Require Import Base Crit gen.TermsTable Terms Page gen.QueryTable Query Parse lemmas.ParseMono lemmas.ParsePrint.
From PV Require Import C02Model C02Frag lemmas.C02Lemmas lemmas.C02Final gen.C04Table Select lemmas.SelectLemmas.
From Coq Require Import Lia Arith.
Local Open Scope string_scope.

(* ------------------------------------------------------------------------------------------- *)
(* flattening                                                                                    *)
(* ------------------------------------------------------------------------------------------- *)
Lemma sflatten_app (a b : list stok) : sflatten (a ++ b)%list = sflatten a ++ sflatten b.
Proof. unfold sflatten. rewrite map_app. apply sconcat_app. Qed.
Lemma sflatten_cons x (r : list stok) : sflatten (x :: r) = stok_text x ++ sflatten r.
Proof. reflexivity. Qed.
Lemma sflatten_nil : sflatten [] = "".
Proof. reflexivity. Qed.
Lemma sflatten_SE ts : sflatten (map SE ts) = flatten ts.
Proof. unfold sflatten, flatten. rewrite map_map. reflexivity. Qed.

Lemma sflatten_commas (l : list (list stok)) : sflatten (commas l) = join "," (map sflatten l).
Proof.
  induction l as [|x r IH]; [reflexivity|]. destruct r as [|y r'].
  - reflexivity.
  - change (commas (x :: y :: r')) with (x ++ SE KComma :: commas (y :: r'))%list.
    rewrite sflatten_app, sflatten_cons, IH. reflexivity.
Qed.

Lemma sflatten_concat (l : list (list stok)) : sflatten (List.concat l) = sconcat (map sflatten l).
Proof. induction l as [|x r IH]; [reflexivity|]. cbn [List.concat map sconcat]. rewrite sflatten_app, IH. reflexivity. Qed.

(* ------------------------------------------------------------------------------------------- *)
(* one expression, with and without its alias                                                    *)
(* ------------------------------------------------------------------------------------------- *)
(* the context of a clause of a top-level SQLite statement *)
Definition sq_like (c : ctx) : Prop := q c = dq /\ aq c = None /\ askw c = false.

Lemma sq_ci_like w a b : sq_like (sq_ci w a b).
Proof. repeat split. Qed.
Lemma sq_ci_wa w a b : wa (sq_ci w a b) = a.
Proof. reflexivity. Qed.

Lemma alias_text c s a : sq_like c -> alias_sql c (q c) s (Some a) = s ++ " " ++ fq dq a.
Proof. intros [Hq [Ha Hk]]. unfold alias_sql, fmt_alias. rewrite Ha, Hk, Hq. reflexivity. Qed.

Ltac open_binds :=
  repeat match goal with
  | H : context [match ?w with WNil => _ | WCons _ _ _ => _ end] |- _ => destruct w; try discriminate
  | H : bind ?x _ = Ok _ |- _ => destruct x eqn:?; cbn [bind] in *; try discriminate
  end.

Lemma render_split_wa c t t0 a ts : sq_like c -> wa c = true -> split_alias t = (t0, a) -> rtoks c t0 = Some ts ->
  render c t = Ok (flatten ts ++ match a with Some al => " " ++ fq dq al | None => "" end).
Proof.
  intros L W S R. pose proof (rtoks_render c t0 ts R) as H0.
  destruct t; cbn [split_alias] in S; injection S as <- <-; try (rewrite sapp_nil_r; exact H0);
    cbn [render] in *; open_binds; rewrite W in *;
    match goal with
    | |- Ok (alias_sql _ _ _ ?x) = _ =>
        destruct x as [al|];
        [ rewrite alias_text by assumption; unfold alias_sql, fmt_alias in H0;
          apply (f_equal (fun r : res string => match r with Ok v => Ok (v ++ " " ++ fq dq al) | Err e => Err e end)) in H0; exact H0
        | rewrite sapp_nil_r; exact H0 ]
    end.
Qed.

Lemma render_split_nowa c t ts : wa c = false -> rtoks c (fst (split_alias t)) = Some ts -> render c t = Ok (flatten ts).
Proof.
  intros W R. pose proof (rtoks_render c _ ts R) as H0.
  destruct t; cbn [split_alias fst] in H0; try exact H0;
    cbn [render] in *; open_binds; rewrite W in *; exact H0.
Qed.

(* ------------------------------------------------------------------------------------------- *)
(* all_some                                                                                      *)
(* ------------------------------------------------------------------------------------------- *)
Lemma all_some_inv {A} (x : option A) l r : all_some (x :: l) = Some r ->
  exists a r', x = Some a /\ all_some l = Some r' /\ r = a :: r'.
Proof.
  cbn. destruct x as [a|]; [|discriminate]. destruct (all_some l) as [r'|]; cbn; [|discriminate].
  intros H. inversion H. eauto.
Qed.

(* ------------------------------------------------------------------------------------------- *)
(* the list segments of a flat statement                                                         *)
(* ------------------------------------------------------------------------------------------- *)
Lemma flat_items_text kk srcs c : sq_like c -> wa c = true -> forall sels its toks,
  all_some (map (it_term srcs) sels) = Some its ->
  all_some (map (item_toks c) (map split_alias its)) = Some toks ->
  seg_items kk srcs c sels = Ok (map sflatten toks).
Proof.
  intros L W. induction sels as [|y sels IH]; intros its toks H1 H2.
  - cbn in H1. inversion H1; subst. cbn in H2. inversion H2. reflexivity.
  - cbn [map] in H1. apply all_some_inv in H1 as [t [its' [Hy [H1 ->]]]].
    cbn [map] in H2. apply all_some_inv in H2 as [tk [toks' [Ht [H2 ->]]]].
    destruct y; try discriminate. cbn [it_term] in Hy. inversion Hy; subst.
    cbn [seg_items]. rewrite ritem_IT.
    unfold item_toks, etoks in Ht. destruct (split_alias (map_tref (resolve_tref srcs) t0)) as [t1 al] eqn:S. cbn [fst snd] in Ht.
    destruct (rtoks c t1) as [ts|] eqn:R; [|discriminate]. cbn [option_map] in Ht. inversion Ht; subst.
    rewrite (render_split_wa c _ t1 al ts L W S R). cbn [bind]. rewrite (IH its' toks' H1 H2). cbn [bind map].
    f_equal. f_equal. destruct al; [rewrite sflatten_app, sflatten_SE; cbn; rewrite sapp_nil_r; reflexivity | rewrite sflatten_SE, sapp_nil_r; reflexivity].
Qed.

Lemma flat_from_text k ci : forall from ns tabs,
  all_some (map src_table from) = Some tabs -> seg_from k ci from ns = Ok (map (table_sql (ci true true)) tabs).
Proof.
  induction from as [|s from IH]; intros ns tabs H.
  - cbn in H. inversion H. reflexivity.
  - cbn [map] in H. apply all_some_inv in H as [t [tabs' [Hs [H ->]]]]. destruct s; try discriminate. cbn in Hs. inversion Hs; subst.
    cbn [seg_from bind]. rewrite (IH _ _ H). reflexivity.
Qed.

Lemma gitem_text k kk srcs w b sels y g ts : k = sq_k ->
  gitem_of sels srcs y = Some g -> gitem_toks (sq_ci w false b) g = Some ts ->
  match alias_ref_of sels y with
  | Some a => Ok (fq (or_ostr (aq (kc k)) (q (kc k))) a)
  | None => ritem kk srcs (sq_ci w false b) y end = Ok (sflatten ts).
Proof.
  intros -> G T. unfold gitem_of in G. destruct (alias_ref_of sels y) as [a|].
  - inversion G; subst. cbn [gitem_toks] in T. inversion T; subst.
    unfold sflatten. cbn [map sconcat stok_text tok_text]. rewrite sapp_nil_r. reflexivity.
  - destruct y; try discriminate. cbn [it_term option_map] in G. inversion G; subst.
    cbn [gitem_toks] in T. unfold etoks in T.
    destruct (rtoks (sq_ci w false b) (fst (split_alias (map_tref (resolve_tref srcs) t)))) as [tk|] eqn:R; [|discriminate].
    inversion T; subst. rewrite ritem_IT, sflatten_SE. apply render_split_nowa; [reflexivity | exact R].
Qed.

Lemma flat_groups_text kk srcs w sels : forall gb gs toks,
  all_some (map (gitem_of sels srcs) gb) = Some gs ->
  all_some (map (gitem_toks (sq_ci w false clause_subq_groupby)) gs) = Some toks ->
  seg_groups sq_k kk srcs (sq_ci w) (alias_ref_of sels) gb = Ok (map sflatten toks).
Proof.
  induction gb as [|y gb IH]; intros gs toks H1 H2.
  - cbn in H1. inversion H1; subst. cbn in H2. inversion H2. reflexivity.
  - cbn [map] in H1. apply all_some_inv in H1 as [g [gs' [Hy [H1 ->]]]].
    cbn [map] in H2. apply all_some_inv in H2 as [tk [toks' [Ht [H2 ->]]]].
    cbn [seg_groups]. change (k_gba sq_k) with true. cbv iota.
    rewrite (gitem_text sq_k kk srcs w clause_subq_groupby sels y g tk eq_refl Hy Ht). cbn [bind]. rewrite (IH _ _ H1 H2). reflexivity.
Qed.

Lemma flat_orders_text kk srcs w sels : forall ob os toks,
  all_some (map (fun od => option_map (fun g => (g, snd od)) (gitem_of sels srcs (fst od))) ob) = Some os ->
  all_some (map (order_toks (sq_ci w false clause_subq_orderby)) os) = Some toks ->
  seg_orders sq_k kk srcs (sq_ci w) (alias_ref_of sels) ob = Ok (map sflatten toks).
Proof.
  induction ob as [|[y d] ob IH]; intros os toks H1 H2.
  - cbn in H1. inversion H1; subst. cbn in H2. inversion H2. reflexivity.
  - cbn [map] in H1. apply all_some_inv in H1 as [g [os' [Hy [H1 ->]]]].
    cbn [map] in H2. apply all_some_inv in H2 as [tk [toks' [Ht [H2 ->]]]].
    cbn [fst snd] in Hy. destruct (gitem_of sels srcs y) as [g0|] eqn:G; [|discriminate]. cbn [option_map] in Hy. inversion Hy; subst.
    unfold order_toks in Ht. cbn [fst snd] in Ht.
    destruct (gitem_toks (sq_ci w false clause_subq_orderby) g0) as [t0|] eqn:T; [|discriminate]. cbn [option_map] in Ht. inversion Ht; subst.
    cbn [seg_orders]. rewrite (gitem_text sq_k kk srcs w clause_subq_orderby sels y g0 t0 eq_refl G T). cbn [bind]. rewrite (IH _ _ H1 H2). cbn [bind map].
    f_equal. f_equal. destruct d as [[|]|]; [rewrite sflatten_app | rewrite sflatten_app | reflexivity]; cbn; rewrite ?sapp_nil_r; reflexivity.
Qed.

(* joins: one text per join; each is the join's tokens without the leading blank *)
Lemma sflatten_cols cs : sflatten (commas (map (fun n => [SCol n]) cs)) = join "," (map (fq dq) cs).
Proof.
  rewrite sflatten_commas, map_map. f_equal. apply map_ext. intros n.
  unfold sflatten. cbn [map sconcat stok_text]. apply sapp_nil_r.
Qed.

Lemma flat_joins_text kk srcs w : forall joins jnames js toks,
  List.length jnames = List.length joins ->
  all_some (map (fun jn : jhow * source * jcond * option string =>
                   match jn with
                   | ((h, SrcT t, cnd), n) =>
                       match (match cnd with
                              | JOn i => option_map FOn (it_term srcs i)
                              | JUsing [] => None
                              | JUsing fs => Some (FUsing fs)
                              | JCrossCond => Some FNone end) with
                       | Some fc => Some (jprefix h cnd, table_sql (sq_ci w true true) (src_ref (SrcT t) n), fc)
                       | None => None end
                   | _ => None end) (combine joins jnames)) = Some js ->
  all_some (map (join_toks w) js) = Some toks ->
  exists ss, seg_joins sq_k kk srcs (sq_ci w) joins jnames = Ok ss /\ map (fun s => " " ++ s) ss = map sflatten toks.
Proof.
  induction joins as [|[[h s] cnd] joins IH]; intros jnames js toks HL H1 H2.
  - cbn in H1. inversion H1; subst. cbn in H2. inversion H2. exists []. split; reflexivity.
  - destruct jnames as [|n jnames]; [discriminate|]. cbn [List.length] in HL. injection HL as HL.
    cbn [combine map] in H1. apply all_some_inv in H1 as [j [js' [Hj [H1 ->]]]].
    cbn [map] in H2. apply all_some_inv in H2 as [tk [toks' [Ht [H2 ->]]]].
    destruct (IH jnames js' toks' HL H1 H2) as [ss [Hs Hm]].
    destruct s as [t| |]; try discriminate.
    cbn [seg_joins List.hd List.tl bind].
    destruct cnd as [i|fs|].
    + destruct (it_term srcs i) as [e|] eqn:E; [|discriminate]. cbn [option_map] in Hj. inversion Hj; subst.
      cbn [join_toks] in Ht. unfold etoks in Ht. destruct (rtoks (sq_ci w false true) e) as [te|] eqn:R; [|discriminate].
      cbn [option_map] in Ht. inversion Ht; subst.
      destruct i; try discriminate. cbn [it_term] in E. inversion E; subst.
      rewrite ritem_IT. rewrite (rtoks_render _ _ _ R). cbn [bind]. rewrite Hs. cbn [bind].
      eexists. split; [reflexivity|]. cbn [map]. rewrite Hm. f_equal.
      rewrite !sflatten_cons, sflatten_SE. cbn [stok_text skw_text]. rewrite !sapp_assoc. reflexivity.
    + destruct fs as [|f0 fs'] eqn:EF; [discriminate|]. rewrite <- EF in *. clear EF. injection Hj as <-. cbn [join_toks] in Ht. injection Ht as <-.
      rewrite Hs. cbn [bind]. eexists. split; [reflexivity|]. cbn [map]. rewrite Hm. f_equal.
      rewrite !sflatten_cons, sflatten_app, sflatten_cols, sflatten_cons, sflatten_nil.
      cbn [stok_text skw_text tok_text]. rewrite !sapp_assoc, sapp_nil_r. reflexivity.
    + injection Hj as <-. cbn [join_toks] in Ht. injection Ht as <-.
      rewrite Hs. cbn [bind]. eexists. split; [reflexivity|]. cbn [map]. rewrite Hm. f_equal.
Qed.

Lemma name_joins_length base : forall l taken own, List.length (fst (name_joins base taken own l)) = List.length l.
Proof.
  induction l as [|[[h s] c] l IH]; intros taken own; [reflexivity|].
  cbn [name_joins]. destruct s as [t|x|n].
  - match goal with |- context [name_joins base ?tk ?ow l] => specialize (IH tk ow); destruct (name_joins base tk ow l) end.
    cbn in *. congruence.
  - destruct (qalias x);
      match goal with |- context [name_joins base ?tk ?ow l] => specialize (IH tk ow); destruct (name_joins base tk ow l) end;
      cbn in *; congruence.
  - match goal with |- context [name_joins base ?tk ?ow l] => specialize (IH tk ow); destruct (name_joins base tk ow l) end.
    cbn in *. congruence.
Qed.

Lemma opt_text kw kk srcs c o oe ts pre : wa c = false -> skw_text kw = pre ->
  match o with None => Some None | Some i => option_map Some (it_term srcs i) end = Some oe ->
  opt_clause kw c oe = Some ts ->
  opt_bind o (fun i => a <- ritem kk srcs c i ;; Ok (pre ++ a)) = Ok (sflatten ts).
Proof.
  intros W P H1 H2. destruct o as [i|].
  - destruct (it_term srcs i) as [e|] eqn:E; [|discriminate]. cbn in H1. inversion H1; subst.
    cbn [opt_clause] in H2. unfold etoks in H2. destruct (rtoks c e) as [te|] eqn:R; [|discriminate]. cbn in H2. inversion H2; subst.
    destruct i; try discriminate. cbn [it_term] in E. inversion E; subst.
    cbn [opt_bind]. rewrite ritem_IT, (rtoks_render _ _ _ R). cbn [bind]. rewrite sflatten_cons, sflatten_SE. reflexivity.
  - inversion H1; subst. cbn in H2. inversion H2. reflexivity.
Qed.

Lemma join_space (ss : list string) : (match ss with [] => "" | _ => " " ++ join " " ss end) = sconcat (map (fun s => " " ++ s) ss).
Proof. destruct ss as [|s r]; [reflexivity|]. apply join_space_pref. discriminate. Qed.

Lemma page_text l o : (truthyZ o && negb (is_some l)) = false ->
  page_tail CSQLLite KSelect l o = sflatten (page_stoks l (if truthyZ o then o else None)).
Proof.
  intros H. unfold page_tail, render_page, page_toks, page_pieces, lby_toks, Page.pg. cbn [lim off lby top].
  destruct l as [n|]; destruct o as [m|]; cbn [is_some negb andb] in H; cbn [is_some gp app].
  - destruct (truthyZ (Some m)) eqn:T; cbn [gp flat_map app piece_toks limit_toks offset_toks is_fetch lim off page_stoks].
    + unfold untok, sflatten. cbn. rewrite !sapp_nil_r. reflexivity.
    + unfold untok, sflatten. cbn. rewrite !sapp_nil_r. reflexivity.
  - cbn [truthyZ gp flat_map app piece_toks limit_toks offset_toks is_fetch lim off page_stoks].
    unfold untok, sflatten. cbn. rewrite !sapp_nil_r. reflexivity.
  - rewrite andb_true_r in H. rewrite H. reflexivity.
  - reflexivity.
Qed.

(* ------------------------------------------------------------------------------------------- *)
(* THE TEXT LEMMA                                                                                *)
(* ------------------------------------------------------------------------------------------- *)
Theorem flat_text x fl ts : flat_of x = Some fl -> flat_toks fl = Some ts -> str_query x = Ok (sflatten ts).
Proof.
  intros HF HT.
  destruct x as [c withs d sels from joins wh hv gb ob l o fu al| | | |]; try discriminate.
  cbn [flat_of] in HF. destruct c; try discriminate. destruct withs; [|discriminate]. destruct fu; [discriminate|].
  destruct al; [discriminate|].
  unfold str_query. cbn [top_cls]. rewrite rquery_QSel. unfold sel_text.
  pose proof (name_joins_length (base_tables from) joins (src_names from (fst (name_from sub_count 0 from))) (snd (name_from sub_count 0 from))) as HL.
  destruct (name_from sub_count 0 from) as [fnames n1]. cbn [fst snd] in HL.
  destruct (name_joins (base_tables from) (src_names from fnames) n1 joins) as [jnames n2]. cbn [fst] in HL.
  cbv zeta in HF |- *.
  set (srcs := (src_refs from fnames ++ src_refs (map (fun j => snd (fst j)) joins) jnames)%list) in *.
  set (w := wns_of from joins srcs wh) in *.
  destruct sels as [|s0 sels']; [discriminate|]. set (sels := s0 :: sels') in *.
  destruct (truthyZ o && negb (is_some l)) eqn:HP; [discriminate|].
  destruct (all_some (map (it_term srcs) sels)) as [its|] eqn:E1; [|discriminate].
  destruct (all_some (map src_table from)) as [tabs|] eqn:E2; [|discriminate].
  match type of HF with context [all_some (map ?f (combine joins jnames))] =>
    destruct (all_some (map f (combine joins jnames))) as [js|] eqn:E3; [|discriminate] end.
  destruct (match wh with None => Some None | Some i => option_map Some (it_term srcs i) end) as [ow|] eqn:E4; [|discriminate].
  destruct (all_some (map (gitem_of sels srcs) gb)) as [gs|] eqn:E5; [|discriminate].
  destruct (match hv with None => Some None | Some i => option_map Some (it_term srcs i) end) as [oh|] eqn:E6; [|discriminate].
  match type of HF with context [all_some (map ?f ob)] =>
    destruct (all_some (map f ob)) as [os|] eqn:E7; [|discriminate] end.
  injection HF as <-.
  unfold flat_toks in HT. cbn [f_distinct f_items f_from f_joins f_where f_group f_having f_order f_lim f_off f_wns] in HT.
  destruct (all_some (map (item_toks (sq_ci w true true)) (map split_alias its))) as [itoks|] eqn:T1; [|discriminate].
  destruct (all_some (map (join_toks w) js)) as [jtoks|] eqn:T3; [|discriminate].
  destruct (opt_clause KWhere (sq_ci w false true) ow) as [wtoks|] eqn:T4; [|discriminate].
  destruct (all_some (map (gitem_toks (sq_ci w false clause_subq_groupby)) gs)) as [gtoks|] eqn:T5; [|discriminate].
  destruct (opt_clause KHaving (sq_ci w false clause_subq_having) oh) as [htoks|] eqn:T6; [|discriminate].
  destruct (all_some (map (order_toks (sq_ci w false clause_subq_orderby)) os)) as [otoks|] eqn:T7; [|discriminate].
  injection HT as <-.
  change (defaults CSQLLite (top_ctx CSQLLite)) with sq_k.
  change (fun wa_ sq_ : bool => ctx_item sq_k wa_ sq_ w) with (sq_ci w).
  change (ctx_item sq_k true true w) with (sq_ci w true true).
  change (ctx_item sq_k false true w) with (sq_ci w false true).
  change (ctx_item sq_k false clause_subq_having w) with (sq_ci w false clause_subq_having).
  change (ctx_item sq_k false clause_subq_groupby w) with (sq_ci w false clause_subq_groupby).
  change (ctx_item sq_k false clause_subq_orderby w) with (sq_ci w false clause_subq_orderby).
  set (kk := with_c sq_k (set_wn (kc sq_k) w)).
  rewrite (flat_items_text kk srcs (sq_ci w true true) (sq_ci_like _ _ _) eq_refl sels its itoks E1 T1). cbn [bind].
  rewrite (flat_from_text sq_k (sq_ci w) from fnames tabs E2). cbn [bind].
  destruct (flat_joins_text kk srcs w joins jnames js jtoks HL E3 T3) as [jss [J1 J2]].
  rewrite J1. cbn [bind].
  rewrite (opt_text KWhere kk srcs (sq_ci w false true) wh ow wtoks " WHERE " eq_refl eq_refl E4 T4). cbn [bind].
  assert (GB : (match gb with [] => Ok "" | _ :: _ =>
                  gs0 <- seg_groups sq_k kk srcs (sq_ci w) (alias_ref_of sels) gb ;; Ok (" GROUP BY " ++ join "," gs0) end)
               = Ok (sflatten (match gtoks with [] => [] | _ :: _ => SK KGroupBy :: commas gtoks end))).
  { rewrite (flat_groups_text kk srcs w sels gb gs gtoks E5 T5).
    destruct gb as [|g0 gb'].
    - cbn in E5. inversion E5; subst. cbn in T5. inversion T5. reflexivity.
    - cbn [bind]. destruct gtoks as [|t0 gt'].
      + exfalso. cbn [map] in E5. apply all_some_inv in E5 as [? [? [_ [_ ->]]]]. cbn [map] in T5. apply all_some_inv in T5 as [? [? [_ [_ X]]]]. discriminate.
      + rewrite sflatten_cons, sflatten_commas. reflexivity. }
  rewrite GB. cbn [bind].
  rewrite (opt_text KHaving kk srcs (sq_ci w false clause_subq_having) hv oh htoks " HAVING " eq_refl eq_refl E6 T6). cbn [bind].
  assert (OB : (match ob with [] => Ok "" | _ :: _ =>
                  os0 <- seg_orders sq_k kk srcs (sq_ci w) (alias_ref_of sels) ob ;; Ok (" ORDER BY " ++ join "," os0) end)
               = Ok (sflatten (match otoks with [] => [] | _ :: _ => SK KOrderBy :: commas otoks end))).
  { rewrite (flat_orders_text kk srcs w sels ob os otoks E7 T7).
    destruct ob as [|o0 ob'].
    - cbn in E7. inversion E7; subst. cbn in T7. inversion T7. reflexivity.
    - cbn [bind]. destruct otoks as [|t0 ot'].
      + exfalso. cbn [map] in E7. apply all_some_inv in E7 as [? [? [_ [_ ->]]]]. cbn [map] in T7. apply all_some_inv in T7 as [? [? [_ [_ X]]]]. discriminate.
      + rewrite sflatten_cons, sflatten_commas. reflexivity. }
  rewrite OB. cbn [bind].
  cbn [paren]. f_equal.
  rewrite (page_text l o HP).
  (* both sides are now concatenations of the same pieces *)
  rewrite sflatten_cons, !sflatten_app. cbn [stok_text skw_text].
  rewrite sflatten_commas, sflatten_concat, <- J2, join_space.
  assert (FR : forall fr, (match fr with [] => "" | _ :: _ => " FROM " ++ join "," fr end) = sflatten (from_stoks fr)).
  { intros fr. destruct fr as [|t0 r0]; [reflexivity|]. unfold from_stoks.
    rewrite sflatten_cons, sflatten_commas, map_map. cbn [stok_text skw_text]. f_equal. f_equal.
    rewrite <- (map_id (t0 :: r0)) at 1. apply map_ext. intros t. unfold sflatten. cbn [map sconcat stok_text]. rewrite sapp_nil_r. reflexivity. }
  rewrite FR. rewrite sapp_nil_r.
  destruct d; [change (sflatten [SK KDistinct]) with "DISTINCT " | change (sflatten (@nil stok)) with ""]; reflexivity.
Qed.
