(* DialectQuery.v — C07, statement level (all five statement kinds, every nesting position, any depth).
   1. EXACT: every token of every statement carries the quote its origin prescribes; identifiers always the
      outermost quote_char.   2. The quote-erased, devendored token list is the same whatever classes the
      (sub-)statements are labelled with.   3. "Outermost class wins": the defaults algebra of Query.defaults. *)
From PV Require Import Base Crit gen.TermsTable Terms Page gen.QueryTable Query Dialect lemmas.DialectTerms.
Local Open Scope list_scope.

(* ---------------- generic helpers ---------------- *)
Lemma rmapM_ok {A B} (P : B -> Prop) (f : A -> res B) l ss :
  (forall x b, f x = Ok b -> P b) -> rmapM f l = Ok ss -> Forall P ss.
Proof.
  intros Hf. revert ss. induction l as [|x r IH]; intros ss H; cbn [rmapM] in H.
  - inversion H. constructor.
  - inv_ok H. constructor; [eapply Hf; eassumption|apply IH; reflexivity].
Qed.

Lemma rmapM_rel {A B B'} (g : B -> B') (f f' : A -> res B) l :
  (forall x, rmap g (f x) = rmap g (f' x)) -> rmap (map g) (rmapM f l) = rmap (map g) (rmapM f' l).
Proof.
  intros Hf. induction l as [|x r IH]; [reflexivity|]. cbn [rmapM].
  eapply (bind_rel g); [apply Hf|intros a a' Ha].
  eapply (bind_rel (map g)); [exact IH|intros b b' Hb]. cbn [rmap map]. congruence.
Qed.

Lemma ex_mark_group v ts : ex v ts -> ex v (mark_group ts).
Proof. unfold ex, mark_group. intros H. apply Forall_map. eapply Forall_impl; [|exact H]. intros [b a] Ha. exact Ha. Qed.
Lemma ex_page v c kd l o : ex v (page_toks_v c kd l o).
Proof. unfold page_toks_v. destruct (page_tail c kd l o); auto with exdb. Qed.
Lemma ex_concat v ss : Forall (ex v) ss -> ex v (List.concat ss).
Proof. induction 1; cbn [List.concat]; auto with exdb. Qed.
Lemma ex_cte v nm og ts : ex v ts -> ex v ((false, AId RCte None nm og) :: ts).
Proof. intros H. constructor; [|exact H]. split; [reflexivity|]. Abort.
Lemma ex_cte v nm og ts : og_adm v og = true -> ex v ts -> ex v ((false, AId RCte None nm og) :: ts).
Proof. intros Ha H. constructor; [split; [reflexivity|exact Ha]|exact H]. Qed.
Lemma ex_if v (b : bool) a c : ex v a -> ex v c -> ex v (if b then a else c).
Proof. destruct b; auto. Qed.
#[export] Hint Resolve ex_mark_group ex_page ex_concat ex_cte ex_if : exdb.

Lemma ctx_ok_ctx_item v og k wa_ sq_ wns : ctx_ok v og (kc k) -> ctx_ok v og (ctx_item k wa_ sq_ wns).
Proof. intros H. unfold ctx_item. auto with exdb. Qed.
#[export] Hint Resolve ctx_ok_ctx_item : exdb.

Lemma table_toks_ex v og c t : ctx_ok v og c -> ex v (table_toks c og t).
Proof.
  intros Hc. unfold table_toks. pose proof Hc as (Hq & Hs & Ha & Hk & Hadm).
  apply ex_falias; [intros a; cbn [exact_q snd]; rewrite Ha, Hq; reflexivity|exact Hk|exact Hadm|].
  assert (Hb : ex v [(false, AId RIdent (q c) (tname t) og)]) by (apply ex_ident; [exact Hc|apply ex_nil]).
  destruct (tschema t) as [|s0 ch]; [exact Hb|].
  apply ex_app; [|apply ex_T; exact Hb]. apply ex_tjoin. apply Forall_map. apply Forall_forall. intros x _.
  apply ex_ident; [exact Hc|apply ex_nil].
Qed.
#[export] Hint Resolve table_toks_ex : exdb.

(* the sub-query alias quote travels in the kwargs context next to the other conventions *)
Definition k_ok (v : conv) (og : origin) (k : kctx) : Prop := k_qaq k = og_qa v og /\ (k_abs k = true -> v_abs v = true).
Lemma k_ok_with_c v og k c : k_ok v og k -> k_ok v og (with_c k c).
Proof. exact (fun H => H). Qed.
Lemma k_ok_fk v og k : k_ok v og k -> k_ok v og (fk k).
Proof. exact (fun H => H). Qed.
Lemma k_ok_defaults v og0 c kin : k_ok v og0 kin -> k_ok v (origin_after c kin og0) (defaults c kin).
Proof.
  unfold k_ok, defaults, origin_after. intros [H H2]. destruct (k_abs kin); cbn [k_qaq k_abs mk_k og_qa]; (split; [|discriminate]);
    [reflexivity|exact H].
Qed.
#[export] Hint Resolve k_ok_with_c k_ok_fk k_ok_defaults : exdb.

(* the origin bookkeeping of _set_kwargs_defaults *)
Lemma defaults_ok v og0 c kin :
  k_ok v og0 kin -> ctx_ok v og0 (kc kin) -> ctx_ok v (origin_after c kin og0) (kc (defaults c kin)).
Proof.
  intros [_ Hc] (Hq & Hs & Ha & Hk & Hadm). unfold defaults, origin_after. destruct (k_abs kin); cbn [kc mk_k].
  - repeat split; cbn; try reflexivity; try assumption. apply Hc. reflexivity.
  - repeat split; assumption.
Qed.

(* ================= 1. EXACT ================= *)
Section Exact.
Variable rho : cls -> cls.
Variable it : kctx -> origin -> list tref -> ctx -> item -> res (list dtok).
Variable qt : kctx -> origin -> bool -> bool -> bool -> option string -> query -> res (list dtok).
Variable v : conv.
Hypothesis Hit : forall k og srcs c i ts, k_ok v og k -> ctx_ok v og c -> it k og srcs c i = Ok ts -> ex v ts.
Hypothesis Hqt : forall kin og0 wal sub pv ali x ts, k_ok v og0 kin -> ctx_ok v og0 (kc kin) -> qt kin og0 wal sub pv ali x = Ok ts -> ex v ts.

Ltac tt E := let X := fresh "X" in
  match type of E with
  | ttoks _ _ _ = Ok ?a => assert (X : ex v a) by (eapply ttoks_exact; [|exact E]; eauto with exdb); clear E
  | qt _ _ _ _ _ _ _ = Ok ?a => assert (X : ex v a) by (eapply Hqt; [| |exact E]; cbn [kc with_c mk_k]; eauto with exdb); clear E
  | it _ _ _ _ _ = Ok ?a => assert (X : ex v a) by (eapply Hit; [| |exact E]; eauto with exdb); clear E
  end.
Ltac tts := repeat match goal with E : _ = Ok _ |- _ => tt E end.

Lemma item_toks_ex k og srcs c i ts : k_ok v og k -> ctx_ok v og c -> item_toks it qt k og srcs c i = Ok ts -> ex v ts.
Proof.
  intros Hk0 Hc H. destruct i; cbn [item_toks] in H.
  - eapply ttoks_exact; eassumption.
  - eapply Hqt; [| |exact H]; [exact Hk0|exact Hc].
  - inv_ok H. tts. auto with exdb.
  - inv_ok H. tts. auto with exdb.
  - inv_ok H. tts. auto with exdb.
  - inv_ok H.
    match goal with E : rmapM _ _ = Ok ?a |- _ =>
      assert (X : Forall (ex v) a) by (eapply rmapM_ok; [|exact E]; intros x b Hx; eapply Hit; [| |exact Hx];
                                       cbn [kc fk with_c mk_k]; eauto with exdb) end.
    destruct (wa c); auto 10 with exdb.
  - inv_ok H. tts. auto 8 with exdb.
  - inv_ok H. tts. auto with exdb.
Qed.

Lemma src_toks_ex k og cx sn ts : k_ok v og k -> ctx_ok v og cx -> src_toks qt k og cx sn = Ok ts -> ex v ts.
Proof.
  intros Hk0 Hc H. unfold src_toks in H. destruct (fst sn).
  - inv_ok H. auto with exdb.
  - tt H. assumption.
  - inv_ok H. apply ex_cte; [exact (proj2 (proj2 (proj2 (proj2 Hc))))|apply ex_nil].
Qed.
Lemma from_toks_ex k og cx sn ts : k_ok v og k -> ctx_ok v og cx -> from_toks qt k og cx sn = Ok ts -> ex v ts.
Proof.
  intros Hk0 Hc H. unfold from_toks in H. destruct (fst sn) eqn:E.
  - inv_ok H. auto with exdb.
  - eapply src_toks_ex; [exact Hk0|exact Hc|exact H].
  - eapply src_toks_ex; [exact Hk0|exact Hc|exact H].
Qed.
Lemma join_toks_ex k kk og srcs cs co jn ts :
  k_ok v og k -> k_ok v og kk -> ctx_ok v og cs -> ctx_ok v og co -> join_toks it qt k kk og srcs cs co jn = Ok ts -> ex v ts.
Proof.
  intros Hk0 Hkk Hs Ho H. unfold join_toks in H. inv_bind H.
  match goal with E : src_toks _ _ _ _ _ = Ok ?a |- _ => assert (ex v a) by (eapply src_toks_ex; [| |exact E]; assumption); clear E end.
  destruct (snd (fst jn)) as [i|fs|].
  - inv_ok H. match goal with E : bind _ _ = Ok _ |- _ => inv_ok E end. tts. auto 8 with exdb.
  - inv_ok H. match goal with E : Ok _ = Ok _ |- _ => inversion E; subst; clear E end.
    apply ex_T, ex_app; [assumption|]. apply ex_T, ex_app; [|auto with exdb].
    apply ex_tjoin. apply Forall_map. apply Forall_forall. intros x _. auto with exdb.
  - inv_ok H. match goal with E : Ok _ = Ok _ |- _ => inversion E; subst; clear E end. auto with exdb.
Qed.
Lemma where_toks_ex kw kk og srcs cx w ts : k_ok v og kk -> ctx_ok v og cx -> where_toks it kw kk og srcs cx w = Ok ts -> ex v ts.
Proof.
  intros Hkk Hc H. unfold where_toks, opt_toks in H. destruct w as [i|]; [|inversion H; apply ex_nil].
  inv_ok H. tts. auto with exdb.
Qed.
Lemma with_toks_ex kk og withs ts : k_ok v og kk -> ctx_ok v og (kc kk) -> with_toks qt kk og withs = Ok ts -> ex v ts.
Proof.
  intros Hkk Hc H. unfold with_toks in H. destruct withs as [|w0 wr]; [inversion H; apply ex_nil|].
  inv_ok H. apply ex_T, ex_tjoin. eapply rmapM_ok; [|eassumption].
  intros x b Hx. cbn beta in Hx. inv_ok Hx. tts.
  apply ex_cte; [exact (proj2 (proj2 (proj2 (proj2 Hc))))|]. auto 8 with exdb.
Qed.
Lemma alias_ref_tok_ex og base a : ctx_ok v og base -> ex v [(false, AId RAlias (or_ostr (aq base) (q base)) a og)].
Proof.
  intros (Hq & _ & Ha & _ & Hadm0). constructor; [|constructor]. split; [|exact Hadm0].
  cbn [exact_q snd]. rewrite Ha, Hq. reflexivity.
Qed.
Lemma gitem_toks_ex kk og srcs cx base gba selects y ts :
  k_ok v og kk -> ctx_ok v og cx -> ctx_ok v og base -> gitem_toks it kk og srcs cx base gba selects y = Ok ts -> ex v ts.
Proof.
  intros Hkk Hc Hb H. unfold gitem_toks in H. inv_ok H. apply ex_mark_group.
  destruct (if gba then alias_ref selects y else None).
  - match goal with E : Ok _ = Ok _ |- _ => inversion E; subst; clear E end. apply alias_ref_tok_ex; assumption.
  - tts. assumption.
Qed.
Lemma group_toks_ex kk og srcs cx base gba selects groupbys ts :
  k_ok v og kk -> ctx_ok v og cx -> ctx_ok v og base -> group_toks it kk og srcs cx base gba selects groupbys = Ok ts -> ex v ts.
Proof.
  intros Hkk Hc Hb H. unfold group_toks in H. destruct groupbys; [inversion H; apply ex_nil|]. inv_ok H.
  apply ex_T, ex_tjoin. eapply rmapM_ok; [|eassumption]. intros x b Hx. eapply gitem_toks_ex; [| | |exact Hx]; assumption.
Qed.
Lemma oitem_toks_ex kk og srcs cx base selects yd ts :
  k_ok v og kk -> ctx_ok v og cx -> ctx_ok v og base -> oitem_toks it kk og srcs cx base selects yd = Ok ts -> ex v ts.
Proof.
  intros Hkk Hc Hb H. unfold oitem_toks in H. inv_ok H.
  match goal with |- ex v (match ?d with Some _ => ?a ++ _ | None => _ end) => assert (X : ex v a) end.
  { destruct (alias_ref selects (fst yd)).
    - match goal with E : Ok _ = Ok _ |- _ => inversion E; subst; clear E end. apply alias_ref_tok_ex; assumption.
    - tts. assumption. }
  destruct (snd yd); auto with exdb.
Qed.
Lemma order_toks_ex kk og srcs cx base selects orderbys ts :
  k_ok v og kk -> ctx_ok v og cx -> ctx_ok v og base -> order_toks it kk og srcs cx base selects orderbys = Ok ts -> ex v ts.
Proof.
  intros Hkk Hc Hb H. unfold order_toks in H. destruct orderbys; [inversion H; apply ex_nil|]. inv_ok H.
  apply ex_T, ex_tjoin. eapply rmapM_ok; [|eassumption]. intros x b Hx. eapply oitem_toks_ex; [| | |exact Hx]; assumption.
Qed.

Lemma ex_qalias og c k base body ali (w : bool) :
  k_ok v og k -> ctx_ok v og base -> ex v body ->
  ex v (if w then falias (RQAlias c) og body ali (q base) (k_qaq k) (askw base) else body).
Proof.
  intros Hk0 (Hq & _ & _ & Hk & Hadm0) Hb. destruct w; [|exact Hb].
  apply ex_falias; [intros a; cbn [exact_q snd]; rewrite Hq, (proj1 Hk0); reflexivity|exact Hk|exact Hadm0|exact Hb].
Qed.

Ltac clause_facts :=
  repeat match goal with
  | E : with_toks _ _ _ _ = Ok ?a |- _ =>
      assert (ex v a) by (eapply with_toks_ex; [| |exact E]; cbn [kc with_c mk_k]; eauto with exdb); clear E
  | E : where_toks _ _ _ _ _ _ _ = Ok ?a |- _ =>
      assert (ex v a) by (eapply where_toks_ex; [| |exact E]; eauto with exdb); clear E
  | E : group_toks _ _ _ _ _ _ _ _ _ = Ok ?a |- _ =>
      assert (ex v a) by (eapply group_toks_ex; [| | |exact E]; eauto with exdb); clear E
  | E : order_toks _ _ _ _ _ _ _ _ = Ok ?a |- _ =>
      assert (ex v a) by (eapply order_toks_ex; [| | |exact E]; eauto with exdb); clear E
  | E : rmapM (from_toks _ _ _ _) _ = Ok ?a |- _ =>
      assert (Forall (ex v) a) by (eapply rmapM_ok; [|exact E]; intros ? ? ?; eapply from_toks_ex; [| |eassumption]; eauto with exdb);
      clear E
  | E : rmapM (join_toks _ _ _ _ _ _ _ _) _ = Ok ?a |- _ =>
      assert (Forall (ex v) a) by (eapply rmapM_ok; [|exact E]; intros ? ? ?; eapply join_toks_ex; [| | | |eassumption]; eauto with exdb);
      clear E
  | E : rmapM (it _ _ _ _) _ = Ok ?a |- _ =>
      assert (Forall (ex v) a) by (eapply rmapM_ok; [|exact E]; intros ? ? ?; eapply Hit; [| |eassumption]; eauto with exdb);
      clear E
  end.

Lemma ex_opt_list (ss : list (list dtok)) (pre : dtok) sep :
  exact_tok v pre -> Forall (ex v) ss -> ex v (match ss with [] => [] | _ => pre :: tjoin sep ss end).
Proof. intros Hp H. destruct ss; [apply ex_nil|]. constructor; [exact Hp|]. apply ex_tjoin. exact H. Qed.

Lemma qsel_toks_ex kin og0 wal sub pv ali c0 withs distinct selects from joins wheres havings groupbys orderbys l o fu ts :
  k_ok v og0 kin -> ctx_ok v og0 (kc kin) ->
  qsel_toks rho it qt kin og0 wal sub pv ali c0 withs distinct selects from joins wheres havings groupbys orderbys l o fu = Ok ts ->
  ex v ts.
Proof.
  intros Hk0 Hk H. unfold qsel_toks in H.
  pose proof (defaults_ok v og0 (rho c0) kin Hk0 Hk) as Hb.
  pose proof (k_ok_defaults v og0 (rho c0) kin Hk0) as Hkb.
  set (k := defaults (rho c0) kin) in *. set (og := origin_after (rho c0) kin og0) in *.
  cbv zeta in H. destruct selects as [|s0 sr]; [inversion H; apply ex_nil|].
  inv_ok H. clause_facts.
  apply (ex_qalias og (rho c0) k (kc k)); [exact Hkb|exact Hb|]. apply ex_vparen.
  repeat (apply ex_app || apply ex_T || apply ex_if || apply ex_tjoin || apply ex_nil || apply ex_page
          || (apply ex_opt_list; [split; exact I|]) || assumption).
Qed.

Lemma qins_toks_ex kin og0 wal sub pv ali c0 into columns rows sel replace ts :
  k_ok v og0 kin -> ctx_ok v og0 (kc kin) -> qins_toks rho it qt kin og0 wal sub pv ali c0 into columns rows sel replace = Ok ts -> ex v ts.
Proof.
  intros Hk0 Hk H. unfold qins_toks in H.
  pose proof (defaults_ok v og0 (rho c0) kin Hk0 Hk) as Hb.
  pose proof (k_ok_defaults v og0 (rho c0) kin Hk0) as Hkb.
  set (k := defaults (rho c0) kin) in *. set (og := origin_after (rho c0) kin og0) in *.
  cbv zeta in H. inv_bind H.
  assert (Hbase : ctx_ok v og (set_wn (kc k) false)) by auto with exdb.
  match goal with E : match columns with [] => _ | _ => _ end = Ok ?cols |- _ => assert (Hcols : ex v cols); [|clear E] end.
  { destruct columns as [|c1 cr].
    - match goal with E : Ok [] = Ok _ |- _ => inversion E; apply ex_nil end.
    - match goal with E : bind _ _ = Ok _ |- _ => inv_ok E end.
      apply ex_T, ex_app; [|auto with exdb]. apply ex_tjoin.
      eapply (proj1 (proj2 ttoks_exact_all)); eassumption. }
  assert (Hhead : ex v (T (if replace then "REPLACE INTO " else "INSERT INTO ") :: table_toks (set_wn (kc k) false) og into))
    by auto with exdb.
  destruct rows as [|r0 rr].
  - destruct sel as [y|]; [|inversion H; apply ex_nil].
    destruct (negb (is_qsel y)); [discriminate H|].
    destruct (Nat.eqb (nselects y) 0); [inversion H; apply ex_nil|]. inv_bind H.
    match goal with E : qt _ _ _ _ _ _ _ = Ok ?s |- _ =>
      assert (ex v s) by (eapply Hqt; [| |exact E]; cbn [kc with_c mk_k]; [apply k_ok_with_c; exact Hkb|exact Hbase]) end.
    inversion H; subst; clear H. apply (ex_qalias og (rho c0) k (set_wn (kc k) false)); [exact Hkb|exact Hbase|]. apply ex_vparen. auto 8 with exdb.
  - inv_ok H. apply ex_T, ex_app; [auto with exdb|]. apply ex_app; [exact Hcols|]. apply ex_T, ex_app; [|auto with exdb].
    apply ex_tjoin. eapply rmapM_ok; [|eassumption]. intros row b Hx. cbn beta in Hx. inv_ok Hx.
    apply ex_tjoin. eapply rmapM_ok; [|eassumption]. intros ? ? ?. eapply Hit; [| |eassumption]; auto with exdb.
Qed.

Lemma qupd_toks_ex kin og0 c0 tbl sets from joins wheres l ts :
  k_ok v og0 kin -> ctx_ok v og0 (kc kin) -> qupd_toks rho it qt kin og0 c0 tbl sets from joins wheres l = Ok ts -> ex v ts.
Proof.
  intros Hk0 Hk H. unfold qupd_toks in H.
  pose proof (defaults_ok v og0 (rho c0) kin Hk0 Hk) as Hb.
  pose proof (k_ok_defaults v og0 (rho c0) kin Hk0) as Hkb.
  set (k := defaults (rho c0) kin) in *. set (og := origin_after (rho c0) kin og0) in *.
  cbv zeta in H. destruct sets as [|s0 sr]; [inversion H; apply ex_nil|].
  inv_ok H. clause_facts.
  match goal with E : rmapM _ (s0 :: sr) = Ok ?a |- _ => assert (Forall (ex v) a) end.
  { eapply rmapM_ok; [|eassumption]. intros x b Hx. cbn beta in Hx. inv_ok Hx. tts. auto with exdb. }
  apply ex_V, ex_app; [auto with exdb|].
  repeat (apply ex_app || apply ex_T || apply ex_V || apply ex_tjoin || apply ex_nil || apply ex_page
          || (apply ex_opt_list; [split; exact I|]) || assumption).
Qed.

Lemma qdel_toks_ex kin og0 sub pv c0 from wheres ts :
  k_ok v og0 kin -> ctx_ok v og0 (kc kin) -> qdel_toks rho it qt kin og0 sub pv c0 from wheres = Ok ts -> ex v ts.
Proof.
  intros Hk0 Hk H. unfold qdel_toks in H.
  pose proof (defaults_ok v og0 (rho c0) kin Hk0 Hk) as Hb.
  pose proof (k_ok_defaults v og0 (rho c0) kin Hk0) as Hkb.
  set (k := defaults (rho c0) kin) in *. set (og := origin_after (rho c0) kin og0) in *.
  cbv zeta in H. inv_ok H. clause_facts. apply ex_vparen. apply ex_app; [|assumption].
  destruct (cls_is_clickhouse (rho c0)); apply ex_V;
    match goal with |- ex v (match ?fr with [] => [] | _ => _ end) => destruct fr; [apply ex_nil|] end;
    apply ex_V; try apply ex_app; try apply ex_tjoin; auto with exdb.
Qed.

Lemma sitem_toks_ex c og0 sa td ts : ctx_ok v og0 c -> sitem_toks c og0 sa td = Ok ts -> ex v ts.
Proof.
  intros Hc H. unfold sitem_toks in H. inv_ok H.
  match goal with |- ex v (match ?d with Some _ => ?a ++ _ | None => _ end) => assert (X : ex v a) end.
  { destruct (term_alias (fst td)) as [a0|].
    - destruct (truthy_ostr (Some a0) && existsb (option_eqb String.eqb (Some a0)) sa).
      + match goal with E : Ok _ = Ok _ |- _ => inversion E; subst; clear E end. apply alias_ref_tok_ex. exact Hc.
      + tts. assumption.
    - tts. assumption. }
  destruct (snd td); auto with exdb.
Qed.

Lemma qset_toks_ex kin og0 wal sub pv ali base ops orderbys l o ts :
  k_ok v og0 kin -> ctx_ok v og0 (kc kin) -> qset_toks rho qt kin og0 wal sub pv ali base ops orderbys l o = Ok ts -> ex v ts.
Proof.
  intros Hk0 Hk H. unfold qset_toks in H.
  pose proof (defaults_ok v og0 (base_cls_of rho base) kin Hk0 Hk) as Hb.
  pose proof (k_ok_defaults v og0 (base_cls_of rho base) kin Hk0) as Hkb.
  set (k := defaults (base_cls_of rho base) kin) in *. set (og := origin_after (base_cls_of rho base) kin og0) in *.
  cbv zeta in H. inv_ok H.
  match goal with E : qt _ _ _ _ _ _ base = Ok ?a |- _ => assert (ex v a) by (eapply Hqt; [| |exact E]; assumption); clear E end.
  match goal with E : rmapM _ ops = Ok ?a |- _ => assert (Forall (ex v) a) end.
  { eapply rmapM_ok; [|eassumption]. intros x b Hx. cbn beta in Hx. inv_bind Hx.
    destruct (Nat.eqb (nselects base) (nselects (snd x))); [|discriminate Hx]. inversion Hx; subst.
    match goal with E : qt _ _ _ _ _ _ _ = Ok ?a |- _ => assert (ex v a) by (eapply Hqt; [| |exact E]; assumption) end.
    apply ex_T. destruct (snd x); try assumption. destruct (cls_wrap (base_cls_of rho base)); auto with exdb. }
  match goal with E : _ = Ok ?ob |- ex v (if _ then falias _ _ (vparen _ _ (_ ++ _ ++ ?ob ++ _)) _ _ _ _ else _) =>
    assert (ex v ob) end.
  { destruct orderbys as [|o0 or_].
    - match goal with E : Ok _ = Ok _ |- _ => inversion E; apply ex_nil end.
    - match goal with E : bind _ _ = Ok _ |- _ => inv_ok E end. apply ex_T, ex_tjoin.
      eapply rmapM_ok; [|eassumption]. intros x b Hx. eapply sitem_toks_ex; [|exact Hx]; assumption. }
  apply (ex_qalias og (base_cls_of rho base) k (kc k)); [exact Hkb|exact Hb|]. apply ex_vparen. auto 8 with exdb.
Qed.

Lemma query_toks_ex kin og0 wal sub pv ali x ts :
  k_ok v og0 kin -> ctx_ok v og0 (kc kin) -> query_toks rho it qt kin og0 wal sub pv ali x = Ok ts -> ex v ts.
Proof.
  intros Hk0 Hk H. destruct x; cbn [query_toks] in H.
  - eapply qsel_toks_ex; eassumption.
  - eapply qins_toks_ex; eassumption.
  - eapply qupd_toks_ex; eassumption.
  - eapply qdel_toks_ex; eassumption.
  - eapply qset_toks_ex; eassumption.
Qed.
End Exact.

Theorem toks_exact rho v n :
  (forall k og srcs c i ts, k_ok v og k -> ctx_ok v og c -> itoks rho n k og srcs c i = Ok ts -> ex v ts) /\
  (forall kin og0 wal sub pv ali x ts, k_ok v og0 kin -> ctx_ok v og0 (kc kin) ->
     qtoks rho n kin og0 wal sub pv ali x = Ok ts -> ex v ts).
Proof.
  induction n as [|n [IHi IHq]].
  - split; intros; discriminate.
  - split.
    + intros k og srcs c i ts Hk0 Hc H. cbn [itoks] in H.
      eapply item_toks_ex; [| |exact Hk0|exact Hc|exact H]; cbn beta; assumption.
    + intros kin og0 wal sub pv ali x ts Hk0 Hc H. cbn [qtoks] in H.
      eapply query_toks_ex; [| |exact Hk0|exact Hc|exact H]; cbn beta; assumption.
Qed.

(* ================= 2. the erased token list does not depend on the class labels ================= *)
(* [agr g x x']: whenever both computations succeed, their results agree under [g].  (Success itself can depend on
   the class: with groupby_alias an aliased GROUP BY item is not rendered at all, so an unrenderable term there
   raises only for Oracle / MSSQL.) *)
Definition agr {A B} (g : A -> B) (x x' : res A) : Prop := forall a a', x = Ok a -> x' = Ok a' -> g a = g a'.

Lemma agr_of_eq {A B} (g : A -> B) x x' : rmap g x = rmap g x' -> agr g x x'.
Proof. intros H a a' E E'. subst. cbn in H. congruence. Qed.
Lemma agr_ok {A B} (g : A -> B) a a' : g a = g a' -> agr g (Ok a) (Ok a').
Proof. intros H b b' E E'. congruence. Qed.
Lemma agr_err_l {A B} (g : A -> B) e x' : agr g (Err e) x'.
Proof. intros a a' E. discriminate E. Qed.
Lemma agr_err_r {A B} (g : A -> B) e x : agr g x (Err e).
Proof. intros a a' _ E. discriminate E. Qed.
Lemma agr_bind {A A' B B'} (gA : A -> A') (gB : B -> B') (x x' : res A) (f f' : A -> res B) :
  agr gA x x' -> (forall a a', gA a = gA a' -> agr gB (f a) (f' a')) -> agr gB (bind x f) (bind x' f').
Proof.
  intros Hx Hf b b' E E'. destruct x as [a|e]; [|discriminate E]. destruct x' as [a'|e']; [|discriminate E'].
  cbn [bind] in E, E'. eapply Hf; [|exact E|exact E']. apply Hx; reflexivity.
Qed.
Lemma agr_rmapM {A B B'} (g : B -> B') (f f' : A -> res B) l :
  (forall x, agr g (f x) (f' x)) -> agr (map g) (rmapM f l) (rmapM f' l).
Proof.
  intros Hf. induction l as [|x r IH]; cbn [rmapM]; [apply agr_ok; reflexivity|].
  eapply agr_bind; [apply Hf|intros a a' Ha]. eapply agr_bind; [exact IH|intros b b' Hb]. apply agr_ok. cbn [map]. congruence.
Qed.

Lemma erase_page c kd l o : erase (page_toks_v c kd l o) = [].
Proof. unfold page_toks_v. destruct (page_tail c kd l o); reflexivity. Qed.
Lemma erase_if_T (b : bool) s : erase (if b then [T s] else []) = if b then [EText s] else [].
Proof. destruct b; reflexivity. Qed.
Lemma erase_opt_list pre sep ss :
  erase (match ss with [] => [] | _ => T pre :: tjoin sep ss end) =
  match map erase ss with [] => [] | _ => EText pre :: ejoin sep (map erase ss) end.
Proof. destruct ss; [reflexivity|]. rewrite erase_cons, erase_tjoin. reflexivity. Qed.
Lemma erase_vparen_any b b' pv ts ts' :
  (pv = false -> b = b') -> erase ts = erase ts' -> erase (vparen b pv ts) = erase (vparen b' pv ts').
Proof.
  intros Hb H. destruct pv.
  - rewrite !erase_vparen. exact H.
  - rewrite (Hb eq_refl), !erase_vparen_f, H. reflexivity.
Qed.
Lemma erase_table c c' og og' t : erase (table_toks c og t) = erase (table_toks c' og' t).
Proof.
  unfold table_toks. rewrite !erase_falias. f_equal.
  destruct (tschema t) as [|s0 ch]; [reflexivity|]. rewrite !erase_app, !erase_tjoin, !map_map. reflexivity.
Qed.
Lemma erase_concat ss : erase (List.concat ss) = List.concat (map erase ss).
Proof. induction ss as [|x r IH]; [reflexivity|]. cbn [List.concat map]. rewrite erase_app, IH. reflexivity. Qed.
#[export] Hint Rewrite erase_page erase_if_T erase_opt_list erase_concat : era.

Lemma csim_defaults c c' kin kin' : csim (kc kin) (kc kin') -> csim (kc (defaults c kin)) (kc (defaults c' kin')).
Proof.
  intros (H1 & H2 & H3 & H4). unfold defaults. destruct (k_abs kin), (k_abs kin'); cbn [kc mk_k]; repeat split; assumption.
Qed.
Lemma csim_ctx_item k k' a b w : csim (kc k) (kc k') -> csim (ctx_item k a b w) (ctx_item k' a b w).
Proof. intros H. unfold ctx_item. auto with exdb. Qed.
Lemma csim_if (b : bool) c1 c1' c2 c2' : csim c1 c1' -> csim c2 c2' -> csim (if b then c1 else c2) (if b then c1' else c2').
Proof. destruct b; auto. Qed.
Lemma ctx_ok_if v og (b : bool) c1 c2 : ctx_ok v og c1 -> ctx_ok v og c2 -> ctx_ok v og (if b then c1 else c2).
Proof. destruct b; auto. Qed.
#[export] Hint Resolve csim_defaults csim_ctx_item csim_if ctx_ok_if : exdb.

Section Erase.
Variables rho rho' : cls -> cls.
Variables it it' : kctx -> origin -> list tref -> ctx -> item -> res (list dtok).
Variables qt qt' : kctx -> origin -> bool -> bool -> bool -> option string -> query -> res (list dtok).
Hypothesis Rit : forall k k' og og' srcs c c' i, csim c c' -> agr erase (it k og srcs c i) (it' k' og' srcs c' i).
Hypothesis Rqt : forall kin kin' og og' wal sub sub' pv ali x, csim (kc kin) (kc kin') -> (pv = false -> sub = sub') ->
  agr erase (qt kin og wal sub pv ali x) (qt' kin' og' wal sub' pv ali x).

Ltac ab lem := eapply (agr_bind erase); [lem|intros ? ? ?].
Ltac abl lem := eapply (agr_bind (map erase)); [lem|intros ? ? ?].
Ltac tq := apply agr_of_eq, (proj1 ttoks_erase_all); auto with exdb.
Ltac fin_ok := apply agr_ok; autorewrite with era; cbn [erase1 fst snd T V erole_of app];
  repeat match goal with H : erase _ = erase _ |- _ => rewrite H; clear H end;
  repeat match goal with H : map erase _ = map erase _ |- _ => rewrite H; clear H end;
  try reflexivity.

Lemma item_toks_agr k k' og og' srcs c c' i :
  csim c c' -> agr erase (item_toks it qt k og srcs c i) (item_toks it' qt' k' og' srcs c' i).
Proof.
  intros Hs. pose proof Hs as (Hwa & Hwn & Hsq & Hsc). destruct i; cbn [item_toks].
  - tq.
  - rewrite Hwa, Hsq. apply Rqt; [exact Hs|reflexivity].
  - ab tq. rewrite Hwa. ab ltac:(apply Rqt; [cbn [kc with_c mk_k]; auto with exdb|reflexivity]). fin_ok.
  - rewrite Hwa, Hsq. ab ltac:(apply Rqt; [exact Hs|reflexivity]). fin_ok.
  - ab tq. rewrite Hsq. ab ltac:(apply Rqt; [cbn [kc with_c mk_k]; auto with exdb|reflexivity]). fin_ok.
  - abl ltac:(apply agr_rmapM; intros y; apply Rit; cbn [kc fk with_c mk_k]; auto with exdb).
    rewrite Hwa. destruct (wa c'); fin_ok.
  - ab ltac:(apply Rit; auto with exdb). ab ltac:(apply Rit; auto with exdb). rewrite Hsc. fin_ok.
  - ab ltac:(apply Rit; auto with exdb). fin_ok.
Qed.

Lemma src_toks_agr k k' og og' cx cx' sn :
  csim cx cx' -> agr erase (src_toks qt k og cx sn) (src_toks qt' k' og' cx' sn).
Proof.
  intros Hs. unfold src_toks. destruct (fst sn).
  - apply agr_ok. apply erase_table.
  - apply Rqt; [exact Hs|reflexivity].
  - apply agr_ok. reflexivity.
Qed.
Lemma from_toks_agr k k' og og' cx cx' sn :
  csim cx cx' -> agr erase (from_toks qt k og cx sn) (from_toks qt' k' og' cx' sn).
Proof.
  intros Hs. unfold from_toks. destruct (fst sn) eqn:E.
  - apply agr_ok. apply erase_table.
  - apply src_toks_agr; exact Hs.
  - apply src_toks_agr; exact Hs.
Qed.
Lemma join_toks_agr k k' kk kk' og og' srcs cs cs' co co' jn :
  csim cs cs' -> csim co co' ->
  agr erase (join_toks it qt k kk og srcs cs co jn) (join_toks it' qt' k' kk' og' srcs cs' co' jn).
Proof.
  intros Hs Ho. unfold join_toks. ab ltac:(apply src_toks_agr; exact Hs).
  eapply (agr_bind erase).
  - destruct (snd (fst jn)) as [i|fs|].
    + ab ltac:(apply Rit; exact Ho). fin_ok.
    + apply agr_ok. rewrite !erase_cons, !erase_app, !erase_tjoin, !map_map. reflexivity.
    + apply agr_ok. reflexivity.
  - intros ? ? ?. fin_ok.
Qed.
Lemma where_toks_agr kw kk kk' og og' srcs cx cx' w :
  csim cx cx' -> agr erase (where_toks it kw kk og srcs cx w) (where_toks it' kw kk' og' srcs cx' w).
Proof.
  intros Hs. unfold where_toks, opt_toks. destruct w as [i|]; [|apply agr_ok; reflexivity].
  ab ltac:(apply Rit; exact Hs). fin_ok.
Qed.
Lemma with_toks_agr kk kk' og og' withs :
  csim (kc kk) (kc kk') -> agr erase (with_toks qt kk og withs) (with_toks qt' kk' og' withs).
Proof.
  intros Hs. unfold with_toks. destruct withs as [|w0 wr]; [apply agr_ok; reflexivity|].
  abl ltac:(apply agr_rmapM; intros ny; cbn beta; ab ltac:(apply Rqt; [exact Hs|reflexivity]); fin_ok). fin_ok.
Qed.
Lemma gitem_toks_agr kk kk' og og' srcs cx cx' base base' gba gba' selects y :
  agr erase (gitem_toks it kk og srcs cx base gba selects y) (gitem_toks it' kk' og' srcs cx' base' gba' selects y).
Proof.
  unfold gitem_toks. intros a a' E E'. inv_ok E. inv_ok E'. rewrite !erase_mark_group. reflexivity.
Qed.
Lemma group_toks_agr kk kk' og og' srcs cx cx' base base' gba gba' selects groupbys :
  agr erase (group_toks it kk og srcs cx base gba selects groupbys) (group_toks it' kk' og' srcs cx' base' gba' selects groupbys).
Proof.
  unfold group_toks. destruct groupbys; [apply agr_ok; reflexivity|].
  abl ltac:(apply agr_rmapM; intros y; apply gitem_toks_agr). fin_ok.
Qed.
Lemma oitem_toks_agr kk kk' og og' srcs cx cx' base base' selects yd :
  csim cx cx' -> agr erase (oitem_toks it kk og srcs cx base selects yd) (oitem_toks it' kk' og' srcs cx' base' selects yd).
Proof.
  intros Hs. unfold oitem_toks. eapply (agr_bind erase).
  - destruct (alias_ref selects (fst yd)); [apply agr_ok; reflexivity|apply Rit; exact Hs].
  - intros ? ? ?. destruct (snd yd); fin_ok.
Qed.
Lemma order_toks_agr kk kk' og og' srcs cx cx' base base' selects orderbys :
  csim cx cx' -> agr erase (order_toks it kk og srcs cx base selects orderbys) (order_toks it' kk' og' srcs cx' base' selects orderbys).
Proof.
  intros Hs. unfold order_toks. destruct orderbys; [apply agr_ok; reflexivity|].
  abl ltac:(apply agr_rmapM; intros y; apply oitem_toks_agr; exact Hs). fin_ok.
Qed.

Lemma qsel_toks_agr kin kin' og0 og0' wal sub sub' pv ali c0 withs distinct selects from joins wheres havings groupbys orderbys l o fu :
  csim (kc kin) (kc kin') -> (pv = false -> sub = sub') ->
  agr erase (qsel_toks rho it qt kin og0 wal sub pv ali c0 withs distinct selects from joins wheres havings groupbys orderbys l o fu)
            (qsel_toks rho' it' qt' kin' og0' wal sub' pv ali c0 withs distinct selects from joins wheres havings groupbys orderbys l o fu).
Proof.
  intros Hs Hp. unfold qsel_toks.
  pose proof (csim_defaults (rho c0) (rho' c0) kin kin' Hs) as Hd.
  set (k := defaults (rho c0) kin). set (k' := defaults (rho' c0) kin'). fold k k' in Hd.
  cbv zeta. destruct selects as [|s0 sr]; [apply agr_ok; reflexivity|].
  ab ltac:(apply with_toks_agr; cbn [kc with_c mk_k]; auto with exdb).
  abl ltac:(apply agr_rmapM; intros y; apply Rit; auto with exdb).
  abl ltac:(apply agr_rmapM; intros y; apply from_toks_agr; auto with exdb).
  abl ltac:(apply agr_rmapM; intros y; apply join_toks_agr; auto with exdb).
  ab ltac:(apply where_toks_agr; auto with exdb).
  ab ltac:(apply group_toks_agr).
  ab ltac:(apply where_toks_agr; auto with exdb).
  ab ltac:(apply order_toks_agr; auto with exdb).
  apply agr_ok.
  match goal with |- erase (if wal then falias _ _ ?b _ _ _ _ else _) = erase (if wal then falias _ _ ?b' _ _ _ _ else _) =>
    assert (Hb : erase b = erase b') end.
  { apply erase_vparen_any; [exact Hp|]. autorewrite with era; cbn [erase1 fst snd T V erole_of app].
    repeat match goal with H : erase _ = erase _ |- _ => rewrite H; clear H end.
    repeat match goal with H : map erase _ = map erase _ |- _ => rewrite H; clear H end. reflexivity. }
  destruct wal; [rewrite !erase_falias, Hb; reflexivity|exact Hb].
Qed.

Lemma qins_toks_agr kin kin' og0 og0' wal sub sub' pv ali c0 into columns rows sel replace :
  csim (kc kin) (kc kin') -> (pv = false -> sub = sub') ->
  agr erase (qins_toks rho it qt kin og0 wal sub pv ali c0 into columns rows sel replace)
            (qins_toks rho' it' qt' kin' og0' wal sub' pv ali c0 into columns rows sel replace).
Proof.
  intros Hs Hp. unfold qins_toks.
  pose proof (csim_defaults (rho c0) (rho' c0) kin kin' Hs) as Hd.
  set (k := defaults (rho c0) kin). set (k' := defaults (rho' c0) kin'). fold k k' in Hd.
  cbv zeta. eapply (agr_bind erase).
  - destruct columns as [|c1 cr]; [apply agr_ok; reflexivity|].
    abl ltac:(apply agr_of_eq, (proj1 (proj2 ttoks_erase_all)); auto with exdb). fin_ok.
  - intros cols cols' Hc. destruct rows as [|r0 rr].
    + destruct sel as [y|]; [|apply agr_ok; reflexivity].
      destruct (negb (is_qsel y)); [apply agr_err_l|].
      destruct (Nat.eqb (nselects y) 0); [apply agr_ok; reflexivity|].
      ab ltac:(apply Rqt; [cbn [kc with_c mk_k]; auto with exdb|reflexivity]).
      * apply agr_ok.
        match goal with |- erase (if wal then falias _ _ ?b _ _ _ _ else _) = erase (if wal then falias _ _ ?b' _ _ _ _ else _) =>
          assert (Hb : erase b = erase b') end.
        { apply erase_vparen_any; [exact Hp|]. rewrite !erase_app, !erase_cons, Hc, H.
          rewrite (erase_table _ (set_wn (kc k') false) _ (origin_after (rho' c0) kin' og0')). reflexivity. }
        destruct wal; [rewrite !erase_falias, Hb; reflexivity|exact Hb].
    + abl ltac:(apply agr_rmapM; intros row; cbn beta;
                abl ltac:(apply agr_rmapM; intros y; apply Rit; auto with exdb); fin_ok).
      apply agr_ok. rewrite !erase_app, !erase_cons, !erase_app, !erase_tjoin, Hc.
      rewrite (erase_table _ (set_wn (kc k') false) _ (origin_after (rho' c0) kin' og0')).
      match goal with H : map erase _ = map erase _ |- _ => rewrite H end. reflexivity.
Qed.

Lemma erase_opt_list_V pre sep ss tl :
  erase (match ss with [] => [] | _ => V pre :: tjoin sep ss ++ tl end) =
  match map erase ss with [] => [] | _ => ejoin sep (map erase ss) ++ erase tl end.
Proof. destruct ss; [reflexivity|]. rewrite erase_cons, erase_app, erase_tjoin. reflexivity. Qed.

Lemma qupd_toks_agr kin kin' og0 og0' c0 tbl sets from joins wheres l :
  csim (kc kin) (kc kin') ->
  agr erase (qupd_toks rho it qt kin og0 c0 tbl sets from joins wheres l)
            (qupd_toks rho' it' qt' kin' og0' c0 tbl sets from joins wheres l).
Proof.
  intros Hs. unfold qupd_toks.
  pose proof (csim_defaults (rho c0) (rho' c0) kin kin' Hs) as Hd.
  set (k := defaults (rho c0) kin). set (k' := defaults (rho' c0) kin'). fold k k' in Hd.
  cbv zeta. destruct sets as [|s0 sr]; [apply agr_ok; reflexivity|].
  abl ltac:(apply agr_rmapM; intros y; apply join_toks_agr; auto with exdb).
  abl ltac:(apply agr_rmapM; intros fv; cbn beta; ab tq; ab ltac:(apply Rit; auto with exdb); fin_ok).
  abl ltac:(apply agr_rmapM; intros y; apply from_toks_agr; auto with exdb).
  ab ltac:(apply where_toks_agr; auto with exdb).
  apply agr_ok. rewrite !erase_cons, !erase_app.
  match goal with |- _ ++ erase (table_toks ?c1 ?o1 tbl) ++ _ = _ ++ erase (table_toks ?c2 ?o2 tbl) ++ _ =>
    rewrite (erase_table c1 c2 o1 o2) end.
  autorewrite with era; cbn [erase1 fst snd T V erole_of app].
  repeat match goal with H : erase _ = erase _ |- _ => rewrite H; clear H end.
  repeat match goal with H : map erase _ = map erase _ |- _ => rewrite H; clear H end. reflexivity.
Qed.

Lemma qdel_toks_agr kin kin' og0 og0' sub sub' pv c0 from wheres :
  csim (kc kin) (kc kin') -> (pv = false -> sub = sub') ->
  agr erase (qdel_toks rho it qt kin og0 sub pv c0 from wheres) (qdel_toks rho' it' qt' kin' og0' sub' pv c0 from wheres).
Proof.
  intros Hs Hp. unfold qdel_toks.
  pose proof (csim_defaults (rho c0) (rho' c0) kin kin' Hs) as Hd.
  set (k := defaults (rho c0) kin). set (k' := defaults (rho' c0) kin'). fold k k' in Hd.
  cbv zeta.
  abl ltac:(apply agr_rmapM; intros y; apply from_toks_agr; auto with exdb).
  ab ltac:(apply where_toks_agr; auto with exdb).
  apply agr_ok. apply erase_vparen_any; [exact Hp|]. rewrite !erase_app. f_equal; [|assumption].
  assert (L : forall (b : bool) fr, erase (if b
                then V "ALTER TABLE" :: (match fr with [] => [] | _ => V " " :: tjoin "," fr ++ [V " DELETE"] end)
                else V "DELETE" :: (match fr with [] => [] | _ => V " FROM " :: tjoin "," fr end)) = ejoin "," (map erase fr)).
  { intros b fr. destruct b; rewrite erase_cons; cbn [erase1 fst snd V app].
    - destruct fr; [reflexivity|]. rewrite erase_cons, erase_app, erase_tjoin. cbn. apply app_nil_r.
    - destruct fr; [reflexivity|]. rewrite erase_cons, erase_tjoin. reflexivity. }
  rewrite !L. congruence.
Qed.

Lemma sitem_toks_agr c c' og og' sa td : csim c c' -> agr erase (sitem_toks c og sa td) (sitem_toks c' og' sa td).
Proof.
  intros Hs. unfold sitem_toks. eapply (agr_bind erase).
  - destruct (term_alias (fst td)) as [a0|]; [destruct (truthy_ostr (Some a0) && existsb (option_eqb String.eqb (Some a0)) sa)|].
    + apply agr_ok. reflexivity.
    + tq.
    + tq.
  - intros ? ? ?. destruct (snd td); fin_ok.
Qed.

Lemma qset_toks_agr kin kin' og0 og0' wal sub sub' pv ali base ops orderbys l o :
  csim (kc kin) (kc kin') -> (pv = false -> sub = sub') ->
  agr erase (qset_toks rho qt kin og0 wal sub pv ali base ops orderbys l o)
            (qset_toks rho' qt' kin' og0' wal sub' pv ali base ops orderbys l o).
Proof.
  intros Hs Hp. unfold qset_toks.
  pose proof (csim_defaults (base_cls_of rho base) (base_cls_of rho' base) kin kin' Hs) as Hd.
  set (k := defaults (base_cls_of rho base) kin). set (k' := defaults (base_cls_of rho' base) kin'). fold k k' in Hd.
  cbv zeta.
  ab ltac:(apply Rqt; [exact Hd|discriminate]).
  abl ltac:(apply agr_rmapM; intros sy; cbn beta; ab ltac:(apply Rqt; [exact Hd|discriminate]);
            destruct (Nat.eqb (nselects base) (nselects (snd sy))); [|apply agr_err_l];
            apply agr_ok; rewrite !erase_cons; f_equal;
            destruct (snd sy); try assumption;
            destruct (cls_wrap (base_cls_of rho base)), (cls_wrap (base_cls_of rho' base));
            rewrite ?erase_cons, ?erase_app; cbn [erase1 fst snd V app]; rewrite ?app_nil_r; assumption).
  eapply (agr_bind erase).
  - destruct orderbys as [|o0 or_]; [apply agr_ok; reflexivity|].
    abl ltac:(apply agr_rmapM; intros y; apply sitem_toks_agr; auto with exdb). fin_ok.
  - intros ? ? ?. apply agr_ok.
    match goal with |- erase (if wal then falias _ _ ?b _ _ _ _ else _) = erase (if wal then falias _ _ ?b' _ _ _ _ else _) =>
      assert (Hb : erase b = erase b') end.
    { apply erase_vparen_any; [exact Hp|]. autorewrite with era.
      repeat match goal with H : erase _ = erase _ |- _ => rewrite H; clear H end.
      repeat match goal with H : map erase _ = map erase _ |- _ => rewrite H; clear H end. reflexivity. }
    destruct wal; [rewrite !erase_falias, Hb; reflexivity|exact Hb].
Qed.

Lemma query_toks_agr kin kin' og0 og0' wal sub sub' pv ali x :
  csim (kc kin) (kc kin') -> (pv = false -> sub = sub') ->
  agr erase (query_toks rho it qt kin og0 wal sub pv ali x) (query_toks rho' it' qt' kin' og0' wal sub' pv ali x).
Proof.
  intros Hs Hp. destruct x; cbn [query_toks].
  - apply qsel_toks_agr; assumption.
  - apply qins_toks_agr; assumption.
  - apply qupd_toks_agr; assumption.
  - apply qdel_toks_agr; assumption.
  - apply qset_toks_agr; assumption.
Qed.
End Erase.

Theorem toks_agree rho rho' n :
  (forall k k' og og' srcs c c' i, csim c c' -> agr erase (itoks rho n k og srcs c i) (itoks rho' n k' og' srcs c' i)) /\
  (forall kin kin' og og' wal sub sub' pv ali x, csim (kc kin) (kc kin') -> (pv = false -> sub = sub') ->
     agr erase (qtoks rho n kin og wal sub pv ali x) (qtoks rho' n kin' og' wal sub' pv ali x)).
Proof.
  induction n as [|n [IHi IHq]].
  - split; intros; apply agr_err_l.
  - split.
    + intros. cbn [itoks]. apply item_toks_agr; [exact IHi|exact IHq|assumption].
    + intros. cbn [qtoks]. apply query_toks_agr; [exact IHi|exact IHq|assumption|assumption].
Qed.

(* ================= 3. outermost class wins: the algebra of _set_kwargs_defaults ================= *)
Lemma defaults_present c k : k_abs k = false -> kc (defaults c k) = kc k.
Proof. intros H. unfold defaults. rewrite H. reflexivity. Qed.
Lemma defaults_fills c k : k_abs (defaults c k) = false.
Proof. reflexivity. Qed.
Lemma defaults_outer_wins c c' k : kc (defaults c' (defaults c k)) = kc (defaults c k).
Proof. apply defaults_present, defaults_fills. Qed.
Lemma defaults_gba c k : k_gba (defaults c k) = cls_gba c && k_gba k.
Proof. unfold defaults. cbn [k_gba mk_k]. destruct (cls_gba c); reflexivity. Qed.
Lemma defaults_quote_kept c k : q (kc (defaults c k)) = q (kc k) /\ dia (kc (defaults c k)) = dia (kc k).
Proof. unfold defaults. destruct (k_abs k); split; reflexivity. Qed.
Lemma defaults_qaq_kept c k : k_abs k = false -> k_qaq (defaults c k) = k_qaq k.
Proof. intros H. unfold defaults. rewrite H. reflexivity. Qed.
(* below a function call nothing is absent any more (1270518): a sub-query there sees the OUTER conventions *)
Lemma defaults_below_function c k :
  k_abs k = false ->
  let k' := defaults c (fk k) in
  sq (kc k') = sq (kc k) /\ aq (kc k') = aq (kc k) /\ askw (kc k') = askw (kc k) /\ q (kc k') = q (kc k)
  /\ k_qaq k' = k_qaq k /\ k_gba k' = cls_gba c && k_gba k.
Proof. intros H. unfold defaults, fk, with_c. cbn [k_abs mk_k kc k_gba k_qaq]. rewrite H. destruct (cls_gba c); repeat split. Qed.
