(* LexFollow.v — in the token list of ANY term, rendered in a context whose secondary quote is the single quote,
   every literal is written with that quote and is followed by a separator that does not begin with a quote
   (or by the end of the term).  Hence follow_ok, hence the text reads back (LexBack.lex_along_flatten). *)
From PV Require Import Base Crit gen.TermsTable Terms gen.C03Table Lex lemmas.LexLemmas lemmas.LexTokLemmas.
Local Open Scope string_scope.

Definition safe (k : string) : bool := negb (starts_with squote k).
(* a separator: non-empty and not beginning with the quote *)
Definition ssafe (s : string) : bool := match s with String a _ => negb (Ascii.eqb a squote) | EmptyString => false end.

Lemma ssafe_app s x : ssafe s = true -> safe (s ++ x) = true.
Proof. destruct s as [|a s]; [discriminate|]. intros H. exact H. Qed.

(* follow_ok relative to a continuation text k, and with the quote fixed to the single quote *)
Fixpoint fok (ts : list ctok) (k : string) : bool :=
  match ts with
  | [] => true
  | CLit qc _ :: r => Ascii.eqb qc squote && safe (cflatten r ++ k) && fok r k
  | _ :: r => fok r k
  end.

Lemma fok_app a b k : fok (a ++ b)%list k = fok a (cflatten b ++ k) && fok b k.
Proof.
  induction a as [|t a IH]; [reflexivity|].
  destruct t; cbn [app fok]; try exact IH.
  rewrite IH, cflatten_app, app_assoc_s. destruct (Ascii.eqb qc squote), (safe (cflatten a ++ cflatten b ++ k)); reflexivity.
Qed.

Lemma fok_follow ts : fok ts "" = true -> follow_ok ts = true.
Proof.
  induction ts as [|t r IH]; [reflexivity|]. destruct t; cbn [fok follow_ok]; auto.
  intros H. apply andb_prop in H. destruct H as [H H3]. apply andb_prop in H. destruct H as [H1 H2].
  apply Ascii.eqb_eq in H1. subst qc. rewrite app_nil_r_s in H2. unfold safe in H2. rewrite H2. cbn. apply IH. exact H3.
Qed.

Definition G (ts : list ctok) : Prop := forall k, safe k = true -> fok ts k = true.
Fixpoint all_G (l : list (list ctok)) : Prop := match l with [] => True | x :: r => G x /\ all_G r end.

Lemma G_nil : G []. Proof. intros k _. reflexivity. Qed.
Lemma G_text s : G [CText s]. Proof. intros k _. reflexivity. Qed.
Lemma G_num s : G [CNum s]. Proof. intros k _. reflexivity. Qed.
Lemma G_bool s : G [CBool s]. Proof. intros k _. reflexivity. Qed.
Lemma G_null : G [CNull]. Proof. intros k _. reflexivity. Qed.
Lemma G_lit s : G [CLit squote s].
Proof. intros k Hk. cbn [fok]. rewrite Ascii.eqb_refl. cbn. rewrite Hk. reflexivity. Qed.
Lemma G_cons_text s a : G a -> G (CText s :: a).
Proof. intros Ha k Hk. cbn [fok]. apply Ha. exact Hk. Qed.
Lemma G_sep a sep b : G a -> ssafe sep = true -> G b -> G (a ++ CText sep :: b)%list.
Proof.
  intros Ha Hs Hb k Hk. rewrite fok_app. cbn [fok]. rewrite (Hb k Hk), andb_true_r.
  apply Ha. rewrite cflatten_cons. cbn [ctok_text]. rewrite app_assoc_s. apply ssafe_app. exact Hs.
Qed.
Lemma G_snoc a s : G a -> ssafe s = true -> G (a ++ [CText s])%list.
Proof. intros Ha Hs. apply G_sep; auto. apply G_nil. Qed.
Lemma G_alias c qc ts alias : G ts -> G (alias_toks c qc ts alias).
Proof. intros H. destruct alias; cbn [alias_toks]; [|exact H]. apply G_snoc; [exact H|]. destruct (askw c); reflexivity. Qed.
Lemma G_tparen b ts : G ts -> G (tparen b ts).
Proof. intros H. destruct b; cbn [tparen]; [|exact H]. apply G_cons_text. apply G_snoc; [exact H|reflexivity]. Qed.
Lemma G_topnd sl t ts : G ts -> G (topnd sl t ts).
Proof. apply G_tparen. Qed.
Lemma sq_opc sl t c : sq (opc sl t c) = sq c.
Proof. unfold opc. destruct (operand_parens sl (okind_of t) && negb operand_keeps_subc); reflexivity. Qed.
Lemma G_tjoin sep l : ssafe sep = true -> all_G l -> G (tjoin sep l).
Proof.
  intros Hs. induction l as [|x r IH]; intros H; [apply G_nil|]. destruct H as [Hx Hr]. destruct r as [|y r'].
  - exact Hx.
  - change (tjoin sep (x :: y :: r')) with (x ++ CText sep :: tjoin sep (y :: r'))%list. apply G_sep; auto.
Qed.

Lemma aop_ssafe op : ssafe (aop_text op) = true. Proof. destruct op; reflexivity. Qed.
Lemma cmp_ssafe cm : ssafe (cmp_text cm) = true. Proof. destruct cm; reflexivity. Qed.

Definition Gt (t : term) := forall c ts, sq c = Some "'" -> toks c t = Ok ts -> G ts.
Definition Gl (l : tlist) := forall c tss, sq c = Some "'" -> toks_list c l = Ok tss -> all_G tss.
Definition Gw (l : wlist) := forall c tss, sq c = Some "'" -> toks_whens c l = Ok tss -> all_G tss.
Definition Go (o : oterm) := match o with ONone => True | OSome t => Gt t end.

Ltac inv_bind H :=
  repeat match type of H with
  | bind ?x _ = Ok _ => let E := fresh "E" in destruct x eqn:E; cbn [bind] in H; [|discriminate H]
  end.
Ltac leaf H := inv_bind H; inversion H; subst; apply G_text.

Lemma follow_all : (forall t, Gt t) /\ (forall l, Gl l) /\ (forall l, Gw l) /\ (forall o, Go o).
Proof.
  apply term_all_ind3; unfold Gt, Gl, Gw, Go.
  - (* TField *) intros name tbl alias c ts Hq H. cbn [toks] in H. leaf H.
  - (* TStar *) intros tbl c ts Hq H. cbn [toks] in H. leaf H.
  - (* TValS *) intros s alias c ts Hq H. cbn [toks] in H. inversion H; subst. apply G_alias.
    unfold lit_toks. rewrite Hq. apply G_lit.
  - (* TValI *) intros z alias c ts Hq H. inversion H; subst. apply G_alias, G_num.
  - (* TValB *) intros b sl alias c ts Hq H. inversion H; subst. apply G_alias, G_bool.
  - (* TValNone *) intros alias c ts Hq H. inversion H; subst. apply G_alias, G_null.
  - (* TValRaw *) intros txt alias c ts Hq H. inversion H; subst. apply G_alias, G_num.
  - (* TLit *) intros raw alias c ts Hq H. cbn [toks] in H. leaf H.
  - (* TParam *) intros txt c ts Hq H. cbn [toks] in H. leaf H.
  - (* TNeg *) intros t IH c ts Hq H. cbn [toks] in H. inv_bind H. inversion H; subst. apply G_cons_text.
    apply G_tparen, G_topnd. (eapply IH; [ | eassumption]; first [exact Hq | reflexivity | rewrite sq_opc; exact Hq]).
  - (* TArith *) intros op l IHl r IHr alias c ts Hq H. cbn [toks] in H. inv_bind H.
    destruct (wa c); inversion H; subst; try apply G_alias;
      (apply G_sep; [apply G_tparen, G_topnd; (eapply IHl; [ | eassumption]; first [exact Hq | reflexivity | rewrite sq_opc; exact Hq])
                    | apply aop_ssafe
                    | apply G_tparen, G_topnd; (eapply IHr; [ | eassumption]; first [exact Hq | reflexivity | rewrite sq_opc; exact Hq])]).
  - (* TBasic *) intros cm l IHl r IHr alias c ts Hq H. cbn [toks] in H. inv_bind H.
    destruct (wa c); inversion H; subst; try apply G_alias;
      (apply G_sep; [apply G_topnd; (eapply IHl; [ | eassumption]; first [exact Hq | reflexivity | rewrite sq_opc; exact Hq])
                    | apply cmp_ssafe
                    | apply G_topnd; (eapply IHr; [ | eassumption]; first [exact Hq | reflexivity | rewrite sq_opc; exact Hq])]).
  - (* TCplx *) intros bo l IHl r IHr alias c ts Hq H. cbn [toks] in H. inv_bind H.
    destruct (wa c); inversion H; subst; try apply G_alias;
      (apply G_tparen; apply G_sep; [(eapply IHl; [ | eassumption]; first [exact Hq | reflexivity | rewrite sq_opc; exact Hq]) | reflexivity | (eapply IHr; [ | eassumption]; first [exact Hq | reflexivity | rewrite sq_opc; exact Hq])]).
  - (* TIn *) intros t IHt cont IHc negated alias c ts Hq H. cbn [toks] in H. inv_bind H. inversion H; subst.
    apply G_alias. apply G_sep; [apply G_topnd; (eapply IHt; [ | eassumption]; first [exact Hq | reflexivity | rewrite sq_opc; exact Hq]) | reflexivity | (eapply IHc; [ | eassumption]; first [exact Hq | reflexivity | rewrite sq_opc; exact Hq])].
  - (* TBetween *) intros t IHt lo IHlo hi IHhi alias c ts Hq H. cbn [toks] in H. inv_bind H. inversion H; subst.
    apply G_alias. apply G_sep; [apply G_topnd; (eapply IHt; [ | eassumption]; first [exact Hq | reflexivity | rewrite sq_opc; exact Hq]) | reflexivity |].
    apply G_sep; [apply G_topnd; (eapply IHlo; [ | eassumption]; first [exact Hq | reflexivity | rewrite sq_opc; exact Hq]) | reflexivity | apply G_topnd; (eapply IHhi; [ | eassumption]; first [exact Hq | reflexivity | rewrite sq_opc; exact Hq])].
  - (* TBitAnd *) intros t IHt v alias c ts Hq H. cbn [toks] in H. inv_bind H. inversion H; subst.
    apply G_alias, G_cons_text. apply G_snoc; [(eapply IHt; [ | eassumption]; first [exact Hq | reflexivity | rewrite sq_opc; exact Hq]) | reflexivity].
  - (* TIsNull *) intros t IHt alias c ts Hq H. cbn [toks] in H. inv_bind H. inversion H; subst.
    apply G_alias. apply G_snoc; [apply G_topnd; (eapply IHt; [ | eassumption]; first [exact Hq | reflexivity | rewrite sq_opc; exact Hq]) | reflexivity].
  - (* TNotNull *) intros t IHt alias c ts Hq H. cbn [toks] in H. inv_bind H. inversion H; subst.
    apply G_alias. apply G_snoc; [apply G_topnd; (eapply IHt; [ | eassumption]; first [exact Hq | reflexivity | rewrite sq_opc; exact Hq]) | reflexivity].
  - (* TNot *) intros t IHt alias c ts Hq H. cbn [toks] in H. inv_bind H. inversion H; subst.
    apply G_alias, G_cons_text. (eapply IHt; [ | eassumption]; first [exact Hq | reflexivity | rewrite sq_opc; exact Hq]).
  - (* TAll *) intros t IHt alias c ts Hq H. cbn [toks] in H. inv_bind H. inversion H; subst.
    apply G_alias. apply G_snoc; [(eapply IHt; [ | eassumption]; first [exact Hq | reflexivity | rewrite sq_opc; exact Hq]) | reflexivity].
  - (* TEmpty *) intros c ts Hq H. discriminate H.
  - (* TCase *) intros ws IHw els IHe alias c ts Hq H. cbn [toks] in H. destruct ws as [|cr v r]; [discriminate|].
    destruct (toks_whens (set_wa c false) (WCons cr v r)) as [cs|] eqn:Ew; cbn [bind] in H; [|discriminate].
    assert (Hcs : all_G cs) by ((eapply IHw; [ | eassumption]; first [exact Hq | reflexivity | rewrite sq_opc; exact Hq])).
    assert (Hj : G (tjoin " " cs)) by (apply G_tjoin; [reflexivity|exact Hcs]).
    destruct els as [|t'].
    + cbn [bind] in H. assert (Hs : G (CText "CASE " :: tjoin " " cs ++ [] ++ [CText " END"])%list).
      { apply G_cons_text. cbn [app]. apply G_snoc; [exact Hj|reflexivity]. }
      destruct (wa c); inversion H; subst; [apply G_alias|]; exact Hs.
    + cbn in IHe. destruct (toks (set_wa c false) t') as [e|] eqn:Ee; cbn [bind] in H; [|discriminate].
      assert (Hs : G (CText "CASE " :: tjoin " " cs ++ (CText " ELSE " :: e) ++ [CText " END"])%list).
      { apply G_cons_text. apply G_sep; [exact Hj | reflexivity |]. apply G_snoc; [(eapply IHe; [ | eassumption]; first [exact Hq | reflexivity | rewrite sq_opc; exact Hq]) | reflexivity]. }
      destruct (wa c); inversion H; subst; [apply G_alias|]; exact Hs.
  - (* TFunc *) intros name args IHa special alias c ts Hq H. cbn [toks] in H. inv_bind H.
    destruct (wa c); inversion H; subst; try apply G_alias;
      (apply G_cons_text; apply G_snoc;
        [apply G_tjoin; [reflexivity|]; (eapply IHa; [ | eassumption]; first [exact Hq | reflexivity | rewrite sq_opc; exact Hq]) | destruct special; reflexivity]).
  - (* TTuple *) intros vs IHv alias c ts Hq H. cbn [toks] in H. inv_bind H. inversion H; subst.
    apply G_alias, G_cons_text. apply G_snoc; [|reflexivity]. apply G_tjoin; [reflexivity|]. (eapply IHv; [ | eassumption]; first [exact Hq | reflexivity | rewrite sq_opc; exact Hq]).
  - (* TArray *) intros vs IHv alias c ts Hq H. cbn [toks] in H.
    destruct (toks_list (set_wa c false) vs) as [ss|] eqn:Es; cbn [bind] in H; [|discriminate]. inversion H; subst.
    apply G_alias. assert (Hj : G (tjoin "," ss)) by (apply G_tjoin; [reflexivity|]; (eapply IHv; [ | eassumption]; first [exact Hq | reflexivity | rewrite sq_opc; exact Hq])).
    destruct (is_pg (dia c)); [destruct (all_empty (tjoin "," ss))|].
    + apply G_text.
    + apply G_cons_text. apply G_snoc; [exact Hj|reflexivity].
    + apply G_cons_text. apply G_snoc; [exact Hj|reflexivity].
  - (* TSub *) intros col tb alias c ts Hq H. cbn [toks] in H. leaf H.
  - (* TNil *) intros c tss Hq H. inversion H; subst. exact I.
  - (* TCons *) intros t IHt r IHr c tss Hq H. cbn [toks_list] in H. inv_bind H. inversion H; subst.
    split; [(eapply IHt; [ | eassumption]; first [exact Hq | reflexivity | rewrite sq_opc; exact Hq]) | (eapply IHr; [ | eassumption]; first [exact Hq | reflexivity | rewrite sq_opc; exact Hq])].
  - (* WNil *) intros c tss Hq H. inversion H; subst. exact I.
  - (* WCons *) intros cr IHc v IHv r IHr c tss Hq H. cbn [toks_whens] in H. inv_bind H. inversion H; subst.
    split; [|(eapply IHr; [ | eassumption]; first [exact Hq | reflexivity | rewrite sq_opc; exact Hq])].
    apply G_cons_text. apply G_sep; [(eapply IHc; [ | eassumption]; first [exact Hq | reflexivity | rewrite sq_opc; exact Hq]) | reflexivity | (eapply IHv; [ | eassumption]; first [exact Hq | reflexivity | rewrite sq_opc; exact Hq])].
  - (* ONone *) exact I.
  - (* OSome *) intros t IHt. exact IHt.
Qed.

Theorem toks_follow_ok : forall c t ts, sq c = Some "'" -> toks c t = Ok ts -> follow_ok ts = true.
Proof.
  intros c t ts Hq H. apply fok_follow. apply (proj1 follow_all t c ts Hq H). reflexivity.
Qed.
