(* AliasLemmas.v — proofs about coq/Alias.v (C13). *)
From PV Require Import Base Crit gen.TermsTable Terms TermsCorr gen.C13Table Alias.


Scheme term_mindA := Induction for term Sort Prop
  with tlist_mindA := Induction for tlist Sort Prop
  with wlist_mindA := Induction for wlist Sort Prop
  with oterm_mindA := Induction for oterm Sort Prop.
Combined Scheme term_allA from term_mindA, tlist_mindA, wlist_mindA, oterm_mindA.

(* ------------------------------------------------------------------------------------------------ *)
(* 0. contexts                                                                                        *)
(* ------------------------------------------------------------------------------------------------ *)
Lemma set_wa_idem c b b' : set_wa (set_wa c b) b' = set_wa c b'.
Proof. reflexivity. Qed.
Lemma set_wa_same c : set_wa c (wa c) = c.
Proof. destruct c; reflexivity. Qed.
Lemma fctx_set_wa c b : fctx (set_wa c b) = fctx c.
Proof. reflexivity. Qed.
Lemma set_subc_set_wa c b b' : set_subc (set_wa c b) b' = set_wa (set_subc c b') b.
Proof. reflexivity. Qed.
Lemma set_subq_set_wa c b b' : set_subq (set_wa c b) b' = set_wa (set_subq c b') b.
Proof. reflexivity. Qed.

Lemma top_op_strip t : top_op (strip_all t) = top_op t.
Proof. induction t; cbn; auto. Qed.
Lemma top_bop_strip t : top_bop (strip_all t) = top_bop t.
Proof. destruct t; reflexivity. Qed.
Lemma alias_of_strip t : alias_of (strip_all t) = None.
Proof. destruct t; reflexivity. Qed.

Lemma okind_strip t : okind_of (strip_all t) = okind_of t.
Proof. destruct t; reflexivity. Qed.
Lemma opc_strip sl t c : opc sl (strip_all t) c = opc sl t c.
Proof. unfold opc. rewrite okind_strip. reflexivity. Qed.
Lemma opnd_strip sl t s : opnd sl (strip_all t) s = opnd sl t s.
Proof. unfold opnd. rewrite okind_strip. reflexivity. Qed.
Lemma wa_opc sl t c : wa (opc sl t c) = wa c.
Proof. unfold opc. destruct (operand_parens sl (okind_of t) && negb operand_keeps_subc); reflexivity. Qed.
Lemma opc_set_wa sl t c b : opc sl t (set_wa c b) = set_wa (opc sl t c) b.
Proof. unfold opc. destruct (operand_parens sl (okind_of t) && negb operand_keeps_subc); reflexivity. Qed.
Lemma neg_shape_strip {A} (x y z : A) t :
  match strip_all t with TArith _ _ _ _ => x | TNeg _ => y | _ => z end = match t with TArith _ _ _ _ => x | TNeg _ => y | _ => z end.
Proof. destruct t; reflexivity. Qed.
Lemma wa_opc_false sl t c : wa c = false -> wa (opc sl t c) = false.
Proof. intros H. rewrite wa_opc. exact H. Qed.

Lemma wa_opc_setwa sl t c : wa (opc sl t (set_wa c false)) = false.
Proof. rewrite wa_opc. reflexivity. Qed.

Lemma andb3 a b : a && b = true -> a = true /\ b = true.
Proof. apply andb_prop. Qed.

Ltac split_and H :=
  repeat match type of H with
  | (_ && _ = true) => let H2 := fresh "Hq" in apply andb_prop in H; destruct H as [H H2]
  end.
Ltac noalias a H := destruct a; [discriminate H|].

(* one-step unfoldings of the mutual renderer on lists *)
Lemma render_list_cons c t r :
  render_list c (TCons t r) = (a <- render c t ;; rest <- render_list c r ;; Ok (a :: rest)).
Proof. reflexivity. Qed.
Lemma render_whens_cons c cr v r :
  render_whens c (WCons cr v r) =
  (a <- render c cr ;; b <- render c v ;; rest <- render_whens c r ;; Ok (("WHEN " ++ a ++ " THEN " ++ b) :: rest)).
Proof. reflexivity. Qed.
Lemma render_case c ws els a :
  render c (TCase ws els a) =
  match ws with
  | WNil => Err "CaseException"
  | _ => cs <- render_whens (set_wa c false) ws ;; e <- else_text (set_wa c false) els ;;
         let s := "CASE " ++ join " " cs ++ e ++ " END" in
         Ok (if wa c then alias_sql c (q c) s a else s)
  end.
Proof. destruct ws; reflexivity. Qed.
Lemma strip_whens_nil_iff ws : match strip_whens ws with WNil => ws = WNil | _ => ws <> WNil end.
Proof. destruct ws; cbn; congruence. Qed.

(* ------------------------------------------------------------------------------------------------ *)
(* 1. THEOREM B: outside the select list (with_alias false) a quiet term renders alias-free, at every depth *)
(* ------------------------------------------------------------------------------------------------ *)
Definition Qt (t : term) := forall c, wa c = false -> quiet t = true -> render c t = render c (strip_all t).
Definition Ql (l : tlist) := forall c, wa c = false -> quiet_list l = true -> render_list c l = render_list c (strip_list l).
Definition Qw (l : wlist) := forall c, wa c = false -> quiet_whens l = true -> render_whens c l = render_whens c (strip_whens l).
Definition Qo (o : oterm) := forall c, wa c = false -> quiet_oterm o = true -> else_text c o = else_text c (strip_oterm o).

Lemma quiet_render_all : (forall t, Qt t) /\ (forall l, Ql l) /\ (forall l, Qw l) /\ (forall o, Qo o).
Proof.
  apply term_allA; unfold Qt, Ql, Qw, Qo.
  - (* TField *) intros n tb a c Hwa _. cbn [render strip_all]. rewrite Hwa. reflexivity.
  - (* TStar *) reflexivity.
  - (* TValS *) intros s a c _ H. cbn [quiet] in H. noalias a H. reflexivity.
  - (* TValI *) intros s a c _ H. cbn [quiet] in H. noalias a H. reflexivity.
  - (* TValB *) intros b sl a c _ H. cbn [quiet] in H. noalias a H. reflexivity.
  - (* TValNone *) intros a c _ H. cbn [quiet] in H. noalias a H. reflexivity.
  - (* TValRaw *) intros s a c _ H. cbn [quiet] in H. noalias a H. reflexivity.
  - (* TLit *) intros s a c _ H. cbn [quiet] in H. noalias a H. reflexivity.
  - (* TParam *) reflexivity.
  - (* TNeg *) intros t IH c Hwa H. cbn [quiet] in H. cbn [render strip_all].
    rewrite opc_strip, neg_shape_strip, (IH (opc SNeg t (set_wa c false)) (wa_opc_setwa _ _ _) H).
    destruct (render (opc SNeg t (set_wa c false)) (strip_all t)); [|reflexivity]. cbn [bind]. rewrite opnd_strip. reflexivity.
  - (* TArith *) intros op l IHl r IHr a c Hwa H. cbn [quiet] in H. split_and H. cbn [render strip_all].
    rewrite !opc_strip, (IHl (opc SArithL l (set_wa c false)) (wa_opc_setwa _ _ _) H),
            (IHr (opc SArithR r (set_wa c false)) (wa_opc_setwa _ _ _) Hq), !top_op_strip, Hwa.
    destruct (render (opc SArithL l (set_wa c false)) (strip_all l)); [|reflexivity].
    destruct (render (opc SArithR r (set_wa c false)) (strip_all r)); [|reflexivity].
    cbn [bind]. rewrite !opnd_strip. reflexivity.
  - (* TBasic *) intros cm l IHl r IHr a c Hwa H. cbn [quiet] in H. split_and H. cbn [render strip_all].
    rewrite !opc_strip, (IHl (opc SCmpL l (set_wa c false)) (wa_opc_setwa _ _ _) H),
            (IHr (opc SCmpR r (set_wa c false)) (wa_opc_setwa _ _ _) Hq), Hwa.
    destruct (render (opc SCmpL l (set_wa c false)) (strip_all l)); [|reflexivity].
    destruct (render (opc SCmpR r (set_wa c false)) (strip_all r)); [|reflexivity].
    cbn [bind]. rewrite !opnd_strip. reflexivity.
  - (* TCplx *) intros bo l IHl r IHr a c Hwa H. cbn [quiet] in H. split_and H. cbn [render strip_all].
    rewrite !top_bop_strip.
    rewrite (IHl (set_subc (set_wa c false) (needs_brackets_x bo (top_bop l))) eq_refl H),
            (IHr (set_subc (set_wa c false) (needs_brackets_x bo (top_bop r))) eq_refl Hq), Hwa.
    reflexivity.
  - (* TIn *) intros t IHt cont IHc neg a c Hwa H. cbn [quiet] in H. split_and H. noalias a H. cbn [render strip_all].
    rewrite opc_strip, (IHt (opc SInTerm t (set_wa (set_subq c false) false)) (wa_opc_setwa SInTerm t (set_subq c false)) Hq0),
            (IHc (set_wa (set_subq c true) false) eq_refl Hq).
    destruct (render (opc SInTerm t (set_wa (set_subq c false) false)) (strip_all t)); [|reflexivity]. cbn [bind]. rewrite opnd_strip. reflexivity.
  - (* TBetween *) intros t IHt lo IHlo hi IHhi a c Hwa H. cbn [quiet] in H. split_and H. noalias a H. cbn [render strip_all].
    rewrite !opc_strip, (IHt (opc SBetTerm t (set_wa c false)) (wa_opc_setwa _ _ _) Hq1),
            (IHlo (opc SBetLo lo (set_wa c false)) (wa_opc_setwa _ _ _) Hq0), (IHhi (opc SBetHi hi (set_wa c false)) (wa_opc_setwa _ _ _) Hq).
    destruct (render (opc SBetTerm t (set_wa c false)) (strip_all t)); [|reflexivity].
    destruct (render (opc SBetLo lo (set_wa c false)) (strip_all lo)); [|reflexivity].
    destruct (render (opc SBetHi hi (set_wa c false)) (strip_all hi)); [|reflexivity]. cbn [bind]. rewrite !opnd_strip. reflexivity.
  - (* TBitAnd *) intros t IHt v a c Hwa H. cbn [quiet] in H. split_and H. noalias a H. cbn [render strip_all].
    rewrite (IHt (set_wa c false) eq_refl Hq). reflexivity.
  - (* TIsNull *) intros t IHt a c Hwa H. cbn [quiet] in H. split_and H. noalias a H. cbn [render strip_all].
    rewrite opc_strip, (IHt (opc SIsNull t (set_wa c false)) (wa_opc_setwa _ _ _) Hq).
    destruct (render (opc SIsNull t (set_wa c false)) (strip_all t)); [|reflexivity]. cbn [bind]. rewrite opnd_strip. reflexivity.
  - (* TNotNull *) intros t IHt a c Hwa H. cbn [quiet] in H. split_and H. noalias a H. cbn [render strip_all].
    rewrite opc_strip, (IHt (opc SNotNull t (set_wa c false)) (wa_opc_setwa _ _ _) Hq).
    destruct (render (opc SNotNull t (set_wa c false)) (strip_all t)); [|reflexivity]. cbn [bind]. rewrite opnd_strip. reflexivity.
  - (* TNot *) intros t IHt a c Hwa H. cbn [quiet] in H. split_and H. noalias a H. cbn [render strip_all].
    rewrite (IHt (set_wa (set_subc c true) false) eq_refl Hq). reflexivity.
  - (* TAll *) intros t IHt a c Hwa H. cbn [quiet] in H. split_and H. noalias a H. cbn [render strip_all].
    rewrite (IHt (set_wa c false) eq_refl Hq). reflexivity.
  - (* TEmpty *) reflexivity.
  - (* TCase *) intros ws IHw els IHe a c Hwa H. cbn [quiet] in H. split_and H. cbn [strip_all]. rewrite !render_case.
    rewrite <- (IHw (set_wa c false) eq_refl H), <- (IHe (set_wa c false) eq_refl Hq), Hwa.
    destruct ws; reflexivity.
  - (* TFunc *) intros n args IHa sp a c Hwa H. cbn [quiet] in H. cbn [render strip_all].
    rewrite (IHa (fctx c) eq_refl H), Hwa. reflexivity.
  - (* TTuple *) intros vs IHv a c Hwa H. cbn [quiet] in H. split_and H. noalias a H. cbn [render strip_all].
    rewrite (IHv (set_wa c false) eq_refl Hq). reflexivity.
  - (* TArray *) intros vs IHv a c Hwa H. cbn [quiet] in H. split_and H. noalias a H. cbn [render strip_all].
    rewrite (IHv (set_wa c false) eq_refl Hq). reflexivity.
  - (* TSub *) intros col tb a c Hwa _. cbn [render strip_all]. rewrite Hwa. reflexivity.
  - (* TNil *) reflexivity.
  - (* TCons *) intros t IHt r IHr c Hwa H. cbn [quiet_list] in H. split_and H. cbn [strip_list]. rewrite !render_list_cons.
    rewrite (IHt c Hwa H), (IHr c Hwa Hq). reflexivity.
  - (* WNil *) reflexivity.
  - (* WCons *) intros cr IHc v IHv r IHr c Hwa H. cbn [quiet_whens] in H. split_and H. cbn [strip_whens]. rewrite !render_whens_cons.
    rewrite (IHc c Hwa H), (IHv c Hwa Hq0), (IHr c Hwa Hq). reflexivity.
  - (* ONone *) reflexivity.
  - (* OSome *) intros t IHt c Hwa H. cbn [quiet_oterm] in H. cbn [strip_oterm else_text]. rewrite (IHt c Hwa H). reflexivity.
Qed.

Theorem quiet_render : forall t c, wa c = false -> quiet t = true -> render c t = render c (strip_all t).
Proof. exact (proj1 quiet_render_all). Qed.
Lemma quiet_render_list : forall l c, wa c = false -> quiet_list l = true -> render_list c l = render_list c (strip_list l).
Proof. exact (proj1 (proj2 quiet_render_all)). Qed.
Lemma quiet_render_whens : forall l c, wa c = false -> quiet_whens l = true -> render_whens c l = render_whens c (strip_whens l).
Proof. exact (proj1 (proj2 (proj2 quiet_render_all))). Qed.
Lemma quiet_else : forall o c, wa c = false -> quiet_oterm o = true -> else_text c o = else_text c (strip_oterm o).
Proof. exact (proj2 (proj2 (proj2 quiet_render_all))). Qed.

(* the alias-free term is quiet, so its rendering does not depend on with_alias at all *)
Lemma strip_quiet_all : (forall t, quiet (strip_all t) = true) /\ (forall l, quiet_list (strip_list l) = true)
  /\ (forall l, quiet_whens (strip_whens l) = true) /\ (forall o, quiet_oterm (strip_oterm o) = true).
Proof.
  apply term_allA; intros; cbn [strip_all strip_list strip_whens strip_oterm quiet quiet_list quiet_whens quiet_oterm is_some negb];
  repeat match goal with H : _ = true |- _ => rewrite H end; reflexivity.
Qed.
Lemma strip_quiet t : quiet (strip_all t) = true.
Proof. apply strip_quiet_all. Qed.
Lemma strip_idem_all : (forall t, strip_all (strip_all t) = strip_all t) /\ (forall l, strip_list (strip_list l) = strip_list l)
  /\ (forall l, strip_whens (strip_whens l) = strip_whens l) /\ (forall o, strip_oterm (strip_oterm o) = strip_oterm o).
Proof.
  apply term_allA; intros; cbn [strip_all strip_list strip_whens strip_oterm]; congruence.
Qed.
Lemma strip_idem t : strip_all (strip_all t) = strip_all t.
Proof. apply strip_idem_all. Qed.

(* ------------------------------------------------------------------------------------------------ *)
(* 2. THEOREM A: in the select list (with_alias true) a Consumes constructor over quiet children renders as the
      alias-free expression followed by format_alias_sql's suffix, once                                 *)
(* ------------------------------------------------------------------------------------------------ *)

Theorem consumes_render : forall t c, wa c = true -> consumes t = true -> quiet t = true ->
  render c t = select_spec c t.
Proof.
  intros t c Hwa Hc Hq. unfold select_spec.
  destruct t; try discriminate Hc; cbn [quiet] in Hq; cbn [alias_of reach_q reach_aq alias_behaviour].
  - (* TField *) cbn [render strip_all]. rewrite Hwa. cbn [wa set_wa bind]. destruct c; reflexivity.
  - (* TArith *) split_and Hq. cbn [render strip_all]. rewrite set_wa_idem, !top_op_strip, !opc_strip.
    rewrite (quiet_render t1 (opc SArithL t1 (set_wa c false)) (wa_opc_setwa _ _ _) Hq),
            (quiet_render t2 (opc SArithR t2 (set_wa c false)) (wa_opc_setwa _ _ _) Hq0), Hwa.
    destruct (render (opc SArithL t1 (set_wa c false)) (strip_all t1)); [|reflexivity].
    destruct (render (opc SArithR t2 (set_wa c false)) (strip_all t2)); [|reflexivity].
    cbn [bind wa set_wa]. rewrite !opnd_strip. reflexivity.
  - (* TBasic *) split_and Hq. cbn [render strip_all]. rewrite set_wa_idem, !opc_strip.
    rewrite (quiet_render t1 (opc SCmpL t1 (set_wa c false)) (wa_opc_setwa _ _ _) Hq),
            (quiet_render t2 (opc SCmpR t2 (set_wa c false)) (wa_opc_setwa _ _ _) Hq0), Hwa.
    destruct (render (opc SCmpL t1 (set_wa c false)) (strip_all t1)); [|reflexivity].
    destruct (render (opc SCmpR t2 (set_wa c false)) (strip_all t2)); [|reflexivity].
    cbn [bind wa set_wa]. rewrite !opnd_strip. reflexivity.
  - (* TCplx *) split_and Hq. cbn [render strip_all]. rewrite !top_bop_strip, !set_wa_idem.
    rewrite (quiet_render t1 (set_subc (set_wa c false) (needs_brackets_x b (top_bop t1))) eq_refl Hq),
            (quiet_render t2 (set_subc (set_wa c false) (needs_brackets_x b (top_bop t2))) eq_refl Hq0), Hwa.
    destruct (render (set_subc (set_wa c false) (needs_brackets_x b (top_bop t1))) (strip_all t1)); [|reflexivity].
    destruct (render (set_subc (set_wa c false) (needs_brackets_x b (top_bop t2))) (strip_all t2)); reflexivity.
  - (* TCase *) split_and Hq. cbn [strip_all]. rewrite !render_case, set_wa_idem.
    rewrite (quiet_render_whens ws (set_wa c false) eq_refl Hq), (quiet_else els (set_wa c false) eq_refl Hq0), Hwa.
    pose proof (strip_whens_nil_iff ws) as N. destruct ws; [reflexivity|]. clear N.
    cbn [strip_whens]. change (WCons (strip_all c0) (strip_all v) (strip_whens ws)) with (strip_whens (WCons c0 v ws)).
    destruct (render_whens (set_wa c false) (strip_whens (WCons c0 v ws))); [|reflexivity].
    destruct (else_text (set_wa c false) (strip_oterm els)); reflexivity.
  - (* TFunc *) cbn [render strip_all]. rewrite fctx_set_wa, (quiet_render_list args (fctx c) eq_refl Hq), Hwa.
    destruct (render_list (fctx c) (strip_list args)); reflexivity.
  - (* TSub *) cbn [render strip_all]. rewrite Hwa. reflexivity.
Qed.

(* when the reaching quote characters give the convention of the context, the suffix has the specified shape *)
Lemma select_spec_suffix c t a : alias_of t = Some a -> top_ok c t = true ->
  select_spec c t = with_suffix (render (set_wa c false) (strip_all t))
                                ((if askw c then " AS " else " ") ++ conv_quote c ++ a ++ conv_quote c).
Proof.
  intros Ha Hok. unfold select_spec, with_suffix. rewrite Ha. unfold top_ok in Hok.
  destruct (alias_behaviour t) eqn:E; try discriminate. apply String.eqb_eq in Hok.
  destruct (render (set_wa c false) (strip_all t)); [|reflexivity]. cbn [bind]. unfold fmt_alias, fq. rewrite Hok. reflexivity.
Qed.

(* ------------------------------------------------------------------------------------------------ *)
(* 3. render follows alias_behaviour, for EVERY term (no fragment): the general per-constructor law    *)
(* ------------------------------------------------------------------------------------------------ *)


Lemma bind_ok_id {A} (r : res A) : (x <- r ;; Ok x) = r.
Proof. destruct r; reflexivity. Qed.

Theorem render_alias_spec : forall c t, render c t = behaviour_spec c t.
Proof.
  intros c t. unfold behaviour_spec.
  destruct t; cbn [alias_behaviour set_alias alias_of reach_q reach_aq]; try reflexivity;
    try (cbn [render]; unfold alias_sql; cbn [fmt_alias bind];
         repeat match goal with |- context [bind ?r _] => destruct r; cbn [bind]; try reflexivity end;
         destruct (wa c); reflexivity).
  - (* TCase *) rewrite !render_case. destruct ws; [destruct (wa c); reflexivity|].
    destruct (render_whens (set_wa c false) (WCons c0 v ws)); cbn [bind]; [|destruct (wa c); reflexivity].
    destruct (else_text (set_wa c false) els); cbn [bind]; destruct (wa c); reflexivity.
Qed.

(* ------------------------------------------------------------------------------------------------ *)
(* 4. the extracted tables (code-sensitive finite lemmas, vm_compute over the complete tables)          *)
(* ------------------------------------------------------------------------------------------------ *)
Lemma extracted_rows_agree : forallb row_ok x_alias_rows = true.
Proof. vm_compute. reflexivity. Qed.
Lemma extracted_rows_classified : forallb row_class_ok x_alias_rows = true.
Proof. vm_compute. reflexivity. Qed.
Lemma modelled_rows_present : forallb row_present modelled_classes = true.
Proof. vm_compute. reflexivity. Qed.
Lemma function_family_ok : family_ok = true.
Proof. vm_compute. reflexivity. Qed.
Lemma fmt_alias_table_ok : forallb fmt_row_ok x_fmt_rows = true.
Proof. vm_compute. reflexivity. Qed.
Lemma star_rows_agree : forallb star_row_ok x_star_rows = true.
Proof. vm_compute. reflexivity. Qed.
Lemma class_contexts_ok : forall c, class_ctx_ok c = true.
Proof. destruct c; vm_compute; reflexivity. Qed.

(* the same facts in usable form (again by computation over the complete extracted table) *)
Lemma ctx_facts c j :
  wa (x_ctx_at c PSelect j) = true /\ wa (x_ctx_at c POn j) = false /\ wa (x_ctx_at c PWhere j) = false
  /\ wa (x_ctx_at c PGroup j) = false /\ wa (x_ctx_at c PHaving j) = false /\ wa (x_ctx_at c POrder j) = false
  /\ conv_quote (x_ctx_at c PSelect j) = spec_alias_quote c /\ askw (x_ctx_at c PSelect j) = spec_as_keyword c
  /\ conv_quote (x_ctx_at c PGroup j) = spec_alias_quote c /\ conv_quote (x_ctx_at c POrder j) = spec_alias_quote c
  /\ x_group_ref c = spec_group_alias_allowed c /\ x_order_ref c = spec_order_alias_allowed c.
Proof. destruct c, j; vm_compute; repeat split. Qed.

(* ------------------------------------------------------------------------------------------------ *)
(* 5. select('*', ...) keeps every non-field term, with its alias                                      *)
(* ------------------------------------------------------------------------------------------------ *)
Lemma fold_after_star ts : forall sels tabs,
  fold_left sel_step (map ST ts) {| st_star := true; st_tabs := tabs; st_sels := sels |}
  = {| st_star := true; st_tabs := tabs; st_sels := sels ++ filter (fun t => negb (is_fieldlike t)) ts |}.
Proof.
  induction ts as [|t r IH]; intros sels tabs; cbn [map fold_left filter].
  - rewrite app_nil_r. reflexivity.
  - unfold sel_step at 2. unfold is_fieldlike. destruct (table_of t) eqn:E; cbn [is_some negb st_star st_tabs st_sels].
    + apply IH.
    + rewrite IH. rewrite <- app_assoc. reflexivity.
Qed.

Theorem star_keeps_terms ts :
  normalize_sel (SStar :: map ST ts) = TStar None :: filter (fun t => negb (is_fieldlike t)) ts.
Proof. unfold normalize_sel. cbn [fold_left sel_step sel_state0 st_tabs]. rewrite fold_after_star. reflexivity. Qed.

(* so the alias of a function / arithmetic / CASE / criterion / sub-query selected after '*' IS a selected alias *)
Corollary star_alias_selected ts t a : In t ts -> is_fieldlike t = false -> alias_of t = Some a ->
  existsb (option_eqb String.eqb (Some a)) (map alias_of (normalize_sel (SStar :: map ST ts))) = true.
Proof.
  intros Hin Hf Ha. rewrite star_keeps_terms. apply existsb_exists. exists (Some a). split.
  - apply in_map_iff. exists t. split; [exact Ha|]. right. apply filter_In. split; [exact Hin|]. rewrite Hf. reflexivity.
  - cbn. apply String.eqb_refl.
Qed.
