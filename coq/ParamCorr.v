(* ParamCorr.v — correspondence entry points for parameterised rendering. Definitions only. *)
From PV Require Import Base Crit gen.TermsTable Terms gen.C06Table Param.
Local Open Scope list_scope.

Definition isf_of (floats : list string) (s : string) : bool := existsb (String.eqb s) floats.

Definition pstate_eqb (a b : pstate) : bool :=
  list_eqb (fun x y => String.eqb (fst x) (fst y) && pval_eqb (snd x) (snd y)) a b.

(* a case: which raw payload texts are floats, the collector class (None = no collector), the input, and what the
   implementation produced: the text (or "!ExceptionClass") and the collector's contents in insertion order
   (list classes: key ""; dict classes: the dict's items) *)
Inductive pcase :=
| PTerm (floats : list string) (m : option style) (c : ctx) (t : term) (text : string) (params : pstate)
| PStmt (floats : list string) (m : option style) (sqlite : bool) (s : stmt) (text : string) (params : pstate).

Definition outcome_eqb (r : tres) (text : string) (params : pstate) : bool :=
  match r with
  | Ok (ts, st) => String.eqb (flatten ts) text && pstate_eqb st params
  | Err e => String.eqb ("!" ++ e)%string text
  end.

Definition run_case (x : pcase) : tres :=
  match x with
  | PTerm fl m c t _ _ => render_t (isf_of fl) m c t []
  | PStmt fl m sqlite s _ _ => render_stmt (isf_of fl) m sqlite s []
  end.

Definition check_param (x : pcase) : bool :=
  match x with
  | PTerm _ _ _ _ text params => outcome_eqb (run_case x) text params
  | PStmt _ _ _ _ text params => outcome_eqb (run_case x) text params
  end.

Definition show_pval (v : pval) : string :=
  match v with
  | VStr s => "s:" ++ s
  | VInt z => "i:" ++ Z_to_string z
  | VBool b => if b then "b:True" else "b:False"
  | VFloat r => "f:" ++ r
  | VNone => "n:None"
  end.

Definition show_param (x : pcase) : string * list (string * string) :=
  match run_case x with
  | Ok (ts, st) => (flatten ts, map (fun kv => (fst kv, show_pval (snd kv))) st)
  | Err e => (("!" ++ e)%string, [])
  end.
