(* Alias.v — C13: where the alias of a term is rendered, and how a statement defines / references aliases.
   Definitions only.  Built on the shared expression model (Terms.v); everything class- or position-specific
   (the keyword arguments that reach each clause position of each of the ten builder classes, whether GROUP BY /
   ORDER BY substitute an alias reference, the text format_alias_sql produces, what every Term class does with
   with_alias) comes from gen/C13Table.v, which is regenerated from the sources on every run. *)
From PV Require Import Base Crit gen.TermsTable Terms TermsCorr gen.C13Table.

(* ------------------------------------------------------------------------------------------------ *)
(* 1. the alias slot of a term, and the alias-free version of a term                                  *)
(* ------------------------------------------------------------------------------------------------ *)
Definition alias_of (t : term) : option string :=
  match t with
  | TField _ _ a | TValS _ a | TValI _ a | TValB _ _ a | TValNone a | TValRaw _ a | TLit _ a
  | TArith _ _ _ a | TBasic _ _ _ a | TCplx _ _ _ a | TIn _ _ _ a | TBetween _ _ _ a | TBitAnd _ _ a
  | TIsNull _ a | TNotNull _ a | TNot _ a | TAll _ a | TCase _ _ a | TFunc _ _ _ a | TTuple _ a | TArray _ a
  | TSub _ _ a => a
  | TStar _ | TParam _ | TNeg _ | TEmpty => None
  end.

(* remove every alias, at the top and in every sub-term *)
Fixpoint strip_all (t : term) : term :=
  match t with
  | TField n tb _ => TField n tb None
  | TStar tb => TStar tb
  | TValS s _ => TValS s None
  | TValI z _ => TValI z None
  | TValB b sl _ => TValB b sl None
  | TValNone _ => TValNone None
  | TValRaw x _ => TValRaw x None
  | TLit x _ => TLit x None
  | TParam x => TParam x
  | TNeg t' => TNeg (strip_all t')
  | TArith op l r _ => TArith op (strip_all l) (strip_all r) None
  | TBasic cm l r _ => TBasic cm (strip_all l) (strip_all r) None
  | TCplx bo l r _ => TCplx bo (strip_all l) (strip_all r) None
  | TIn t' c n _ => TIn (strip_all t') (strip_all c) n None
  | TBetween t' lo hi _ => TBetween (strip_all t') (strip_all lo) (strip_all hi) None
  | TBitAnd t' v _ => TBitAnd (strip_all t') v None
  | TIsNull t' _ => TIsNull (strip_all t') None
  | TNotNull t' _ => TNotNull (strip_all t') None
  | TNot t' _ => TNot (strip_all t') None
  | TAll t' _ => TAll (strip_all t') None
  | TEmpty => TEmpty
  | TCase ws els _ => TCase (strip_whens ws) (strip_oterm els) None
  | TFunc n args sp _ => TFunc n (strip_list args) sp None
  | TTuple vs _ => TTuple (strip_list vs) None
  | TArray vs _ => TArray (strip_list vs) None
  | TSub c tb _ => TSub c tb None
  end
with strip_list (l : tlist) : tlist :=
  match l with TNil => TNil | TCons t r => TCons (strip_all t) (strip_list r) end
with strip_whens (l : wlist) : wlist :=
  match l with WNil => WNil | WCons c v r => WCons (strip_all c) (strip_all v) (strip_whens r) end
with strip_oterm (o : oterm) : oterm :=
  match o with ONone => ONone | OSome t => OSome (strip_all t) end.

(* ------------------------------------------------------------------------------------------------ *)
(* 2. what a constructor does with with_alias                                                         *)
(* ------------------------------------------------------------------------------------------------ *)
(* Consumes qr aqr : the alias is rendered exactly when with_alias is true; [qr] / [aqr] tell whether the
   caller's quote_char / alias_quote_char reach format_alias_sql.   Always : with_alias is ignored and the alias is
   appended in every position.   Never : the alias is never rendered. *)
Inductive abeh := Consumes (qr aqr : bool) | Always | Never.

Definition alias_behaviour (t : term) : abeh :=
  match t with
  | TField _ _ _ | TArith _ _ _ _ | TCase _ _ _ | TFunc _ _ _ _
  | TBasic _ _ _ _ | TCplx _ _ _ _ => Consumes true true      (* comparison: quoted since 97eddd6; AND/OR: rendered since 55bfddf *)
  | TSub _ _ _ => Consumes true false          (* a sub-query alias follows query_alias_quote_char, not alias_quote_char *)
  | TValS _ _ | TValI _ _ | TValB _ _ _ | TValNone _ | TValRaw _ _ | TLit _ _
  | TIn _ _ _ _ | TBetween _ _ _ _ | TBitAnd _ _ _ | TIsNull _ _ | TNotNull _ _ | TNot _ _ | TAll _ _
  | TTuple _ _ | TArray _ _ => Always
  | TNeg _ | TStar _ | TParam _ | TEmpty => Never          (* no alias slot in the term model *)
  end.

Definition consumes (t : term) : bool := match alias_behaviour t with Consumes _ _ => true | _ => false end.

(* the quote characters that reach format_alias_sql when constructor [t] renders its alias under context [c] *)
Definition reach_q (c : ctx) (t : term) : option string :=
  match alias_behaviour t with Consumes false _ => None | _ => q c end.
Definition reach_aq (c : ctx) (t : term) : option string :=
  match alias_behaviour t with Consumes _ false => None | _ => aq c end.

(* [quiet t]: no node of [t] that carries an alias is an Always constructor (aliases sit only on constructors that
   consume with_alias) *)
Fixpoint quiet (t : term) : bool :=
  match t with
  | TField _ _ _ | TStar _ | TParam _ | TEmpty | TSub _ _ _ => true
  | TValS _ a | TValI _ a | TValB _ _ a | TValNone a | TValRaw _ a | TLit _ a => negb (is_some a)
  | TNeg t' => quiet t'
  | TArith _ l r _ | TBasic _ l r _ | TCplx _ l r _ => quiet l && quiet r
  | TIn t' c _ a => negb (is_some a) && quiet t' && quiet c
  | TBetween t' lo hi a => negb (is_some a) && quiet t' && quiet lo && quiet hi
  | TBitAnd t' _ a | TIsNull t' a | TNotNull t' a | TNot t' a | TAll t' a => negb (is_some a) && quiet t'
  | TCase ws els _ => quiet_whens ws && quiet_oterm els
  | TFunc _ args _ _ => quiet_list args
  | TTuple vs a | TArray vs a => negb (is_some a) && quiet_list vs
  end
with quiet_list (l : tlist) : bool :=
  match l with TNil => true | TCons t r => quiet t && quiet_list r end
with quiet_whens (l : wlist) : bool :=
  match l with WNil => true | WCons c v r => quiet c && quiet v && quiet_whens r end
with quiet_oterm (o : oterm) : bool :=
  match o with ONone => true | OSome t => quiet t end.

(* ------------------------------------------------------------------------------------------------ *)
(* 3. the extracted per-class rows against the model                                                  *)
(* ------------------------------------------------------------------------------------------------ *)
Definition sentinel : string := "zqS".
Definition fa : term := TField "a" None None.
Definition fb : term := TField "b" None None.
Definition fc : term := TField "c" None None.
Definition one : term := TValI 1 None.
Definition two : term := TValI 2 None.

(* the representative instance the extraction builds for a class, as a model term ([None]: class not modelled) *)
Definition rep (cls : string) (a : option string) : option term :=
  if String.eqb cls "Field" then Some (TField "a" None a)
  else if String.eqb cls "ValueWrapper" then Some (TValI 1 a)
  else if String.eqb cls "LiteralValue" then Some (TLit "L" a)
  else if String.eqb cls "ArithmeticExpression" then Some (TArith OAdd fa fb a)
  else if String.eqb cls "BasicCriterion" then Some (TBasic CGt fa fb a)
  else if String.eqb cls "ComplexCriterion" then Some (TCplx BAnd (TBasic CEq fa one None) (TBasic CEq fb two None) a)
  else if String.eqb cls "ContainsCriterion" then Some (TIn fa (TTuple (TCons fb TNil) None) false a)
  else if String.eqb cls "BetweenCriterion" then Some (TBetween fa fb fc a)
  else if String.eqb cls "BitwiseAndCriterion" then Some (TBitAnd fa "2" a)
  else if String.eqb cls "NullCriterion" then Some (TIsNull fa a)
  else if String.eqb cls "NotNullCriterion" then Some (TNotNull fa a)
  else if String.eqb cls "Not" then Some (TNot (TBasic CEq fa one None) a)
  else if String.eqb cls "All" then Some (TAll fa a)
  else if String.eqb cls "Case" then Some (TCase (WCons (TBasic CEq fa one None) fb WNil) ONone a)
  else if String.eqb cls "Function" then Some (TFunc "F" (TCons fa TNil) None a)
  else if String.eqb cls "Function:Sum" then Some (TFunc "SUM" (TCons fa TNil) None a)
  else if String.eqb cls "Function:Cast" then Some (TFunc "CAST" (TCons fa TNil) (Some "AS SIGNED") a)
  else if String.eqb cls "Tuple" then Some (TTuple (TCons fa (TCons fb TNil)) a)
  else if String.eqb cls "Array" then Some (TArray (TCons fa (TCons fb TNil)) a)
  else if String.eqb cls "QueryBuilder" then Some (TSub "x" "u" a)
  else None.

(* the two quote sets of the extraction *)
Definition qs1 (w : bool) : ctx :=
  {| q := Some """"; sq := Some "'"; aq := Some "`"; askw := true; dia := None; wa := w; wn := false; subq := false; subc := false |}.
Definition qs2 (w : bool) : ctx :=
  {| q := Some """"; sq := Some "'"; aq := None; askw := false; dia := None; wa := w; wn := false; subq := false; subc := false |}.

Definition row_ok (r : string * (string * string * string * string)) : bool :=
  let '(cls, (s_absent, s_false, s_true, s_true2)) := r in
  match rep cls (Some sentinel), rep cls None with
  | Some t, Some t0 =>
      String.eqb (render_text (qs1 false) t) (render_text (qs1 false) t0 ++ s_absent)
      && String.eqb (render_text (qs1 false) t) (render_text (qs1 false) t0 ++ s_false)
      && String.eqb (render_text (qs1 true) t) (render_text (qs1 true) t0 ++ s_true)
      && String.eqb (render_text (qs2 true) t) (render_text (qs2 true) t0 ++ s_true2)
  | _, _ => true
  end.

(* classification of an extracted row, to be compared with [alias_behaviour] of the representative *)
Definition is_empty_str (s : string) : bool := match s with EmptyString => true | _ => false end.
Definition classify (r : string * string * string * string) : abeh :=
  let '(s_absent, s_false, s_true, s_true2) := r in
  if is_empty_str s_true && is_empty_str s_true2 then Never
  else if is_empty_str s_absent && is_empty_str s_false
       then Consumes (String.eqb s_true2 (" """ ++ sentinel ++ """")) (String.eqb s_true (" AS `" ++ sentinel ++ "`"))
       else Always.
Definition abeh_eqb (x y : abeh) : bool :=
  match x, y with
  | Consumes a b, Consumes a' b' => Bool.eqb a a' && Bool.eqb b b'
  | Always, Always | Never, Never => true
  | _, _ => false
  end.
Definition row_class_ok (r : string * (string * string * string * string)) : bool :=
  match rep (fst r) (Some sentinel) with
  | Some t => abeh_eqb (classify (snd r)) (alias_behaviour t)
  | None => true
  end.
(* every modelled class must be present in the extracted table *)
Definition modelled_classes : list string :=
  ["Field"; "ValueWrapper"; "LiteralValue"; "ArithmeticExpression"; "BasicCriterion"; "ComplexCriterion";
   "ContainsCriterion"; "BetweenCriterion"; "BitwiseAndCriterion"; "NullCriterion"; "NotNullCriterion"; "Not"; "All";
   "Case"; "Function"; "Function:Sum"; "Function:Cast"; "Tuple"; "Array"; "QueryBuilder"].
Definition row_present (cls : string) : bool := existsb (fun r => String.eqb (fst r) cls) x_alias_rows.
(* the members of the Function family used as aggregate / analytic select items share Function.get_sql *)
Definition family_ok : bool :=
  forallb (fun n => existsb (String.eqb n) x_function_family)
          ["Function"; "AggregateFunction"; "AnalyticFunction"; "WindowFrameAnalyticFunction"; "Sum"; "Count"; "Avg"; "Min";
           "Max"; "Cast"; "Coalesce"; "Rank"; "RowNumber"].

(* format_alias_sql against [fmt_alias] *)
Definition fmt_row_ok (r : option string * option string * option string * bool * string) : bool :=
  let '(a, qc, aqc, k, txt) := r in String.eqb (fmt_alias "X" a qc aqc k) txt.

(* ------------------------------------------------------------------------------------------------ *)
(* 4. the alias convention of a query class (specification side, written from the property / the dialects'  *)
(*    manuals, NOT from the code) and what the code hands to each position                            *)
(* ------------------------------------------------------------------------------------------------ *)
(* identifier quote of alias definitions and references, and whether the AS keyword is written *)
Definition spec_alias_quote (c : qclass) : string :=
  match c with QMySQL => "`" | QOracle => "" | _ => """" end.
Definition spec_as_keyword (c : qclass) : bool := match c with QClickHouse => true | _ => false end.
(* Oracle and SQL Server do not accept a select-list alias in GROUP BY; every class accepts one in ORDER BY *)
Definition spec_group_alias_allowed (c : qclass) : bool := match c with QOracle | QMSSQL => false | _ => true end.
Definition spec_order_alias_allowed (c : qclass) : bool := true.

Definition alias_suffix (c : qclass) (a : string) : string :=
  (if spec_as_keyword c then " AS " else " ") ++ spec_alias_quote c ++ a ++ spec_alias_quote c.
Definition alias_ref (c : qclass) (a : string) : string := spec_alias_quote c ++ a ++ spec_alias_quote c.

(* the convention a context carries: format_quotes(alias, alias_quote_char or quote_char), as_keyword *)
Definition conv_quote (c : ctx) : string := ostr (or_ostr (aq c) (q c)).
Definition class_ctx_ok (c : qclass) : bool :=
  forallb (fun j =>
    (* only the select list is rendered with with_alias (VALUES no longer is: f84cf61) *)
    wa (x_ctx_at c PSelect j) && negb (wa (x_ctx_at c PValues j)) && negb (wa (x_ctx_at c POn j)) && negb (wa (x_ctx_at c PWhere j))
    && negb (wa (x_ctx_at c PGroup j)) && negb (wa (x_ctx_at c PHaving j)) && negb (wa (x_ctx_at c POrder j))
    (* the select list defines aliases by the class's convention, GROUP BY / ORDER BY reference them the same way *)
    && String.eqb (conv_quote (x_ctx_at c PSelect j)) (spec_alias_quote c)
    && Bool.eqb (askw (x_ctx_at c PSelect j)) (spec_as_keyword c)
    && String.eqb (conv_quote (x_ctx_at c PGroup j)) (spec_alias_quote c)
    && String.eqb (conv_quote (x_ctx_at c POrder j)) (spec_alias_quote c)) [false; true]
  && Bool.eqb (x_group_ref c) (spec_group_alias_allowed c)
  && Bool.eqb (x_order_ref c) (spec_order_alias_allowed c)
  (* an element whose alias name is not in the select list is never replaced by a reference *)
  && negb (x_group_ref_unselected c) && negb (x_order_ref_unselected c).

(* does the alias of top-level select item [t] come out in the class's convention?  (Consumes constructors only) *)
Definition top_ok (c : ctx) (t : term) : bool :=
  match alias_behaviour t with
  | Consumes _ _ => String.eqb (ostr (or_ostr (reach_aq c t) (reach_q c t))) (conv_quote c)
  | _ => false
  end.

(* ------------------------------------------------------------------------------------------------ *)
(* 5. statements: the positions the property names                                                   *)
(* ------------------------------------------------------------------------------------------------ *)
(* SELECT <selects> FROM t [JOIN u ON <on>] [WHERE <where>] [GROUP BY <groupbys>] [HAVING <having>] [ORDER BY <orderbys>] *)
Record stmt := {
  s_cls : qclass;
  s_sel : list term;
  s_on : option term;                       (* criterion of one join (inner join of table u) *)
  s_where : option term;
  s_group : list term;
  s_having : option term;
  s_order : list (term * option dir)
}.

Definition joined (s : stmt) : bool := is_some (s_on s).
Definition ctx_at (s : stmt) (p : pos) : ctx := x_ctx_at (s_cls s) p (joined s).

(* selected_aliases = {s.alias for s in self._selects} : a set of names, None included *)
Definition selected_aliases (s : stmt) : list (option string) := map alias_of (s_sel s).
Definition name_in (a : option string) (l : list (option string)) : bool := existsb (option_eqb String.eqb a) l.

(* groupby_alias and field.alias and field.alias in selected_aliases *)
Definition substitutes (flag : bool) (s : stmt) (t : term) : bool :=
  flag && truthy_ostr (alias_of t) && name_in (alias_of t) (selected_aliases s).

Definition select_item (s : stmt) (t : term) : res string := render (ctx_at s PSelect) t.
Definition on_text (s : stmt) (t : term) : res string := render (ctx_at s POn) t.
Definition where_text (s : stmt) (t : term) : res string := render (ctx_at s PWhere) t.
Definition having_text (s : stmt) (t : term) : res string := render (ctx_at s PHaving) t.
Definition group_item (s : stmt) (t : term) : res string :=
  let c := ctx_at s PGroup in
  if substitutes (x_group_ref (s_cls s)) s t then Ok (fq (or_ostr (aq c) (q c)) (ostr (alias_of t)))
  else render c t.
Definition order_item (s : stmt) (x : term * option dir) : res string :=
  let c := ctx_at s POrder in
  body <- (if substitutes (x_order_ref (s_cls s)) s (fst x) then Ok (fq (or_ostr (aq c) (q c)) (ostr (alias_of (fst x))))
           else render c (fst x)) ;;
  Ok (match snd x with Some d => body ++ " " ++ dir_text d | None => body end).

Fixpoint map_res {A B} (f : A -> res B) (l : list A) : res (list B) :=
  match l with
  | [] => Ok []
  | x :: r => y <- f x ;; ys <- map_res f r ;; Ok (y :: ys)
  end.

Definition opt_clause (kw : string) (f : term -> res string) (o : option term) : res string :=
  match o with None => Ok "" | Some t => x <- f t ;; Ok (kw ++ x) end.
Definition list_clause {A} (kw : string) (f : A -> res string) (l : list A) : res string :=
  match l with [] => Ok "" | _ => xs <- map_res f l ;; Ok (kw ++ join "," xs) end.

(* QueryBuilder.get_sql, the SELECT path, clause by clause in the order the code evaluates them *)
Definition render_stmt (s : stmt) : res string :=
  match s_sel s with
  | [] => Ok ""                                               (* nothing selected: get_sql returns "" *)
  | _ =>
    let qc := q (ctx_at s PSelect) in
    sel <- map_res (select_item s) (s_sel s) ;;
    jn <- opt_clause (" JOIN " ++ fq qc "u" ++ " ON ") (on_text s) (s_on s) ;;
    wh <- opt_clause " WHERE " (where_text s) (s_where s) ;;
    gr <- list_clause " GROUP BY " (group_item s) (s_group s) ;;
    hv <- opt_clause " HAVING " (having_text s) (s_having s) ;;
    od <- list_clause " ORDER BY " (order_item s) (s_order s) ;;
    Ok ("SELECT " ++ join "," sel ++ " FROM " ++ fq qc "t" ++ jn ++ wh ++ gr ++ hv ++ od)
  end.

(* INSERT INTO t VALUES (row): _values_sql renders every value like a select item *)
Definition values_item (c : qclass) (t : term) : res string := render (x_ctx_at c PValues false) t.
Definition render_insert (c : qclass) (row : list term) : res string :=
  xs <- map_res (values_item c) row ;;
  Ok ("INSERT INTO " ++ fq (q (x_ctx_at c PValues false)) "t" ++ " VALUES (" ++ join "," xs ++ ")").

(* helper used by the statements of the theorems: append a suffix to a successful rendering *)
Definition with_suffix (r : res string) (sfx : string) : res string := s <- r ;; Ok (s ++ sfx).

(* ------------------------------------------------------------------------------------------------ *)
(* 5b. what select() leaves in the select list around '*' and table stars                              *)
(* ------------------------------------------------------------------------------------------------ *)
(* QueryBuilder.select folds its arguments: Field instances (Star included) go through _select_field, which ignores them
   after select('*') and after a star of their table, and a Star removes the fields of its table selected before it;
   the string '*' replaces the whole list by [Star()]; EVERY other term (_select_other: functions, arithmetic, CASE, criteria,
   sub-queries, constants) is appended unconditionally -- also after a star, with its alias *)
Definition table_of (t : term) : option (option tref) :=
  match t with TField _ tb _ | TStar tb => Some tb | _ => None end.
Definition is_fieldlike (t : term) : bool := is_some (table_of t).
Definition otref_eqb (a b : option tref) : bool := option_eqb tref_eqb a b.
Record selstate := { st_star : bool; st_tabs : list (option tref); st_sels : list term }.
Definition sel_step (st : selstate) (i : sitem) : selstate :=
  match i with
  | SStar => {| st_star := true; st_tabs := st_tabs st; st_sels := [TStar None] |}
  | ST t =>
      let app := {| st_star := st_star st; st_tabs := st_tabs st; st_sels := st_sels st ++ [t] |} in
      match table_of t with
      | None => app
      | Some tb =>
          if st_star st then st
          else if existsb (otref_eqb tb) (st_tabs st) then st
          else match t with
               | TStar _ =>
                   {| st_star := false; st_tabs := tb :: st_tabs st;
                      st_sels := filter (fun x => negb (match table_of x with Some tb' => otref_eqb tb tb' | None => false end))
                                        (st_sels st) ++ [t] |}
               | _ => app
               end
      end
  end.
Definition sel_state0 : selstate := {| st_star := false; st_tabs := []; st_sels := [] |}.
Definition normalize_sel (l : list sitem) : list term := st_sels (fold_left sel_step l sel_state0).

(* the extracted rows: program -> texts of the surviving select items *)
Definition star_ctx : ctx :=
  {| q := Some """"; sq := Some "'"; aq := None; askw := false; dia := None; wa := true; wn := true; subq := true; subc := false |}.
Definition star_row_ok (r : list sitem * list string) : bool :=
  list_eqb String.eqb (map (render_text star_ctx) (normalize_sel (fst r))) (snd r).

(* ------------------------------------------------------------------------------------------------ *)
(* 6. specification-side renderings used by the theorems                                              *)
(* ------------------------------------------------------------------------------------------------ *)
Definition else_text (c : ctx) (els : oterm) : res string :=
  match els with ONone => Ok "" | OSome t' => s <- render c t' ;; Ok (" ELSE " ++ s) end.

(* [set_alias t a]: the same node with another alias *)
Definition set_alias (t : term) (a : option string) : term :=
  match t with
  | TField n tb _ => TField n tb a | TValS s _ => TValS s a | TValI z _ => TValI z a | TValB b sl _ => TValB b sl a
  | TValNone _ => TValNone a | TValRaw x _ => TValRaw x a | TLit x _ => TLit x a
  | TArith op l r _ => TArith op l r a | TBasic cm l r _ => TBasic cm l r a | TCplx bo l r _ => TCplx bo l r a
  | TIn t' c n _ => TIn t' c n a | TBetween t' lo hi _ => TBetween t' lo hi a | TBitAnd t' v _ => TBitAnd t' v a
  | TIsNull t' _ => TIsNull t' a | TNotNull t' _ => TNotNull t' a | TNot t' _ => TNot t' a | TAll t' _ => TAll t' a
  | TCase ws els _ => TCase ws els a | TFunc n args sp _ => TFunc n args sp a
  | TTuple vs _ => TTuple vs a | TArray vs _ => TArray vs a | TSub c tb _ => TSub c tb a
  | TStar _ | TParam _ | TNeg _ | TEmpty => t
  end.

(* everything below the top node alias-free, the top alias kept *)
Definition strip_inner (t : term) : term := set_alias (strip_all t) (alias_of t).

(* select-list law of a Consumes constructor: alias-free expression, then format_alias_sql's suffix, once *)
Definition select_spec (c : ctx) (t : term) : res string :=
  s <- render (set_wa c false) (strip_all t) ;; Ok (fmt_alias s (alias_of t) (reach_q c t) (reach_aq c t) (askw c)).

(* the general per-constructor law: what [render] does with the alias of the top node, for every term *)
Definition behaviour_spec (c : ctx) (t : term) : res string :=
  let base := render c (set_alias t None) in
  let sfx := s <- base ;; Ok (fmt_alias s (alias_of t) (reach_q c t) (reach_aq c t) (askw c)) in
  match alias_behaviour t with
  | Consumes _ _ => if wa c then sfx else base
  | Always => sfx
  | Never => base
  end.

(* since 39a4740 / 55bfddf EVERY constructor renders its operands with with_alias=False (or through
   Function.get_function_sql): no constructor hands the flag down any more *)
Definition shields (t : term) : bool := true.

(* the fragment of the select list: a Consumes constructor whose alias comes out in the class's convention, over
   sub-terms none of which is an aliased Always constructor *)
Definition sel_frag (s : stmt) (t : term) : bool := consumes t && top_ok (ctx_at s PSelect) t && quiet t.
(* every select item carrying the name [a] is in the fragment *)
Definition defs_ok (s : stmt) (a : string) : bool :=
  forallb (fun t' => negb (option_eqb String.eqb (alias_of t') (Some a)) || sel_frag s t') (s_sel s).
Definition with_dir (d : option dir) (r : res string) : res string :=
  body <- r ;; Ok (match d with Some d' => body ++ " " ++ dir_text d' | None => body end).

(* ------------------------------------------------------------------------------------------------ *)
(* 7. the clauses of the property                                                                     *)
(* ------------------------------------------------------------------------------------------------ *)
(* the alias-free rendering of [t] at position [p] *)
Definition bare (s : stmt) (p : pos) (t : term) : res string := render (set_wa (ctx_at s p) false) (strip_all t).
Definition non_select (p : pos) : bool := match p with PSelect | PValues => false | _ => true end.

(* (1) an aliased object in the select list: the expression, then its alias exactly once, in the class's convention *)
Definition clause_select : Prop :=
  forall s t a, alias_of t = Some a -> a <> "" -> In t (s_sel s) ->
    select_item s t = with_suffix (bare s PSelect t) (alias_suffix (s_cls s) a).
(* (2) the same object in WHERE / HAVING / ON renders without the alias ... *)
Definition clause_filters : Prop :=
  forall s t, (s_where s = Some t -> where_text s t = bare s PWhere t)
           /\ (s_having s = Some t -> having_text s t = bare s PHaving t)
           /\ (s_on s = Some t -> on_text s t = bare s POn t).
(* ... as a function argument, in every position ... *)
Definition clause_funcarg : Prop :=
  forall s p f args sp fal,
    render (ctx_at s p) (TFunc f args sp fal) = render (ctx_at s p) (TFunc f (strip_list args) sp fal).
(* ... and inside any larger expression, in every position (the alias of the top node is not concerned) *)
Definition clause_larger : Prop :=
  forall s p e, render (ctx_at s p) e = render (ctx_at s p) (strip_inner e).
(* VALUES is not a select list: nothing is defined there *)
Definition clause_values : Prop :=
  forall c t, values_item c t = render (x_ctx_at c PValues false) (strip_all t).
(* (3) GROUP BY / ORDER BY: a reference to the alias exactly when the name is in the select list and the class allows
   it, otherwise the bare expression *)
Definition clause_group : Prop :=
  forall s t a, alias_of t = Some a -> a <> "" -> In t (s_group s) ->
    group_item s t = if name_in (Some a) (selected_aliases s) && spec_group_alias_allowed (s_cls s)
                     then Ok (alias_ref (s_cls s) a) else bare s PGroup t.
Definition clause_order : Prop :=
  forall s t d a, alias_of t = Some a -> a <> "" -> In (t, d) (s_order s) ->
    order_item s (t, d) = with_dir d (if name_in (Some a) (selected_aliases s) && spec_order_alias_allowed (s_cls s)
                                     then Ok (alias_ref (s_cls s) a) else bare s POrder t).
(* ... so the reference always names something the statement defines *)
Definition clause_defined : Prop :=
  forall s a, a <> "" -> name_in (Some a) (selected_aliases s) = true ->
    exists t', In t' (s_sel s) /\ alias_of t' = Some a
               /\ select_item s t' = with_suffix (bare s PSelect t') (alias_suffix (s_cls s) a).
