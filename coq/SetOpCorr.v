(* SetOpCorr.v — executable interpreter for the C11 correspondence cases.  Definitions only. *)
From PV Require Import Base SetOp.

(* an operand's rendering function given as a finite table recorded from the implementation:
   (kwargs, text with subquery=False, text with subquery=True) *)
Definition no_text : string := "<no text recorded for these kwargs>".
Fixpoint lookup_kw (tbl : list (kwargs * string * string)) (k : kwargs) (sub : bool) : string :=
  match tbl with
  | [] => no_text
  | (k', plain, wrapped) :: r => if kwargs_eqb k k' then (if sub then wrapped else plain) else lookup_kw r k sub
  end.
Fixpoint lookup_kw1 (tbl : list (kwargs * string)) (k : kwargs) : string :=
  match tbl with
  | [] => no_text
  | (k', t) :: r => if kwargs_eqb k k' then t else lookup_kw1 r k
  end.

Definition mk_op (sel : list (option string)) (builder chain wrap : bool) (defaults forced : kwargs) (page : pstyle)
           (tbl : list (kwargs * string * string)) : operand :=
  {| o_sel := sel; o_builder := builder; o_chain := chain; o_wrap := wrap; o_defaults := defaults; o_forced := forced;
     o_page := page; o_text := lookup_kw tbl |}.

Definition mk_field (alias : option string) (tbl : list (kwargs * string)) : option string * (kwargs -> string) :=
  (alias, lookup_kw1 tbl).

(* one case: the program, the call made on the finished chain, the text around it (container use), and what the
   implementation produced: ("ok", text, "") | ("SetOperationException", main, other) | ("TypeError", "", "") *)
Record ccase := {
  c_base : operand; c_meth : meth; c_first : operand; c_steps : list step;
  c_kwargs : kwargs; c_with_alias : bool; c_subquery : bool;
  c_prefix : string; c_suffix : string;
  c_tag : string; c_out1 : string; c_out2 : string
}.

Definition model_out (c : ccase) : string * string * string :=
  match render_setop (run_prog (c_base c) (c_meth c) (c_first c) (c_steps c))
                     (c_kwargs c) (c_with_alias c) (c_subquery c) with
  | ROk t => ("ok", c_prefix c ++ t ++ c_suffix c, "")
  | RSetOpExc m o => ("SetOperationException", m, o)
  | RTypeError => ("TypeError", "", "")
  end.

(* on the fragment, for the plain str(chain) call, the implementation must also equal the SPECIFICATION text
   directly (this is what C11_on_fragment proves of the model; evaluated here on the recorded output as a
   cross-check that the theorem speaks about the cases we run) *)
Definition spec_agrees (c : ccase) : bool :=
  let s := run_prog (c_base c) (c_meth c) (c_first c) (c_steps c) in
  if frag s (c_kwargs c) && negb (has_mismatch s) && negb (c_with_alias c) && negb (c_subquery c)
  then String.eqb (c_tag c) "ok" && String.eqb (c_out1 c) (c_prefix c ++ spec_text s (c_kwargs c) ++ c_suffix c)
  else true.

Definition check_case (c : ccase) : bool :=
  (let '(t, a, b) := model_out c in
   String.eqb t (c_tag c) && String.eqb a (c_out1 c) && String.eqb b (c_out2 c))
  && spec_agrees c.

Definition show_case (c : ccase) : string :=
  let '(t, a, b) := model_out c in t ++ ": " ++ a ++ (if String.eqb b "" then "" else " / " ++ b).
