(* Json.v — models of pypika.terms.JSON (get_sql / _recursive_get_sql / _get_dict_sql / _get_list_sql /
   _get_str_sql) and of Tuple / Array / Bracket get_sql, with their specification-side readers.
   Definitions only. *)
From PV Require Import Base gen.C20Table Interval.

(* ============================== JSON ============================== *)
(* a Python value handed to JSON(...): str / int / float (its repr text) / bool / None / list / dict
   (dict keys are arbitrary values: Python allows int, float, bool, None and str keys) *)
Inductive jvalue :=
| JStr (s : string)
| JInt (z : Z)
| JFloat (txt : string)
| JBool (b : bool)
| JNull
| JList (l : list jvalue)
| JDict (kvs : list (jvalue * jvalue)).

(* json.dumps(s, ensure_ascii=False)[1:-1]: the escapes of a JSON string (RFC 8259); bytes >= 0x80
   (UTF-8 of non-ASCII text) and DEL pass through *)
Definition hex_digit (n : nat) : ascii :=
  ascii_of_nat (if Nat.ltb n 10 then 48 + n else 87 + n).

Definition json_escape_char (c : ascii) : string :=
  let n := nat_of_ascii c in
  if Nat.eqb n 34 then "\"""
  else if Nat.eqb n 92 then "\\"
  else if Nat.eqb n 8 then "\b"
  else if Nat.eqb n 9 then "\t"
  else if Nat.eqb n 10 then "\n"
  else if Nat.eqb n 12 then "\f"
  else if Nat.eqb n 13 then "\r"
  else if Nat.ltb n 32 then "\u00" ++ String (hex_digit (Nat.div n 16)) (String (hex_digit (Nat.modulo n 16)) "")
  else String c "".

Fixpoint json_escape (s : string) : string :=
  match s with
  | EmptyString => EmptyString
  | String c r => json_escape_char c ++ json_escape r
  end.

(* JSON._recursive_get_sql(value) called without kwargs: strings escaped and wrapped by
   format_quotes(.., DQUOTE); None -> null, bool -> true/false; every other scalar through str(value) *)
Fixpoint json_text (v : jvalue) : string :=
  match v with
  | JStr s => fq (Some """") (json_escape s)
  | JInt z => Z_to_string z
  | JFloat t => t
  | JBool b => if b then "true" else "false"
  | JNull => "null"
  | JList l => "[" ++ join "," (map json_text l) ++ "]"
  | JDict kvs =>
      "{" ++ join "," (map (fun kv => match kv with (k, x) => json_text k ++ ":" ++ json_text x end) kvs) ++ "}"
  end.

(* JSON.get_sql(secondary_quote_char): quote = secondary_quote_char or "";
   format_quotes(text.replace(quote, quote * 2), quote), alias None *)
Definition json_sql (sq : option string) (v : jvalue) : string := fq sq (double_quote sq (json_text v)).

(* the keyword context a query builder hands to every term: quote_char, secondary_quote_char,
   alias_quote_char, dialect.  JSON.get_sql(secondary_quote_char, **kwargs) calls
   _recursive_get_sql(self.value) WITHOUT the kwargs: only the outer literal quote depends on the
   context; the identifier quote_char never reaches the JSON text. *)
Record qctx := mkCtx {
  cx_quote : option string;
  cx_secondary : option string;
  cx_alias_quote : option string;
  cx_dialect : option dialect }.

Definition json_sql_ctx (c : qctx) (v : jvalue) : string := json_sql (cx_secondary c) v.

Definition dialect_of_name (n : string) : option dialect :=
  find (fun d => String.eqb (dialect_name d) n)
       [DVertica; DClickhouse; DOracle; DMssql; DMysql; DPostgresql; DRedshift; DSqlite; DSnowflake].

(* the ten query classes with the constants read from the code on this run (gen/C20Table.v) *)
Definition class_ctxs : list (string * qctx) :=
  map (fun e => match e with
                | (name, (q, sq, aq, dn)) =>
                    (name, mkCtx q sq aq (match dn with Some n => dialect_of_name n | None => None end))
                end) query_class_ctx.

(* ---- specification: RFC 8259 text of the value (string escapes: [json_escape] above) (the layout of json.dumps with compact
        separators and ensure_ascii=False), and a standard SQL string literal around it ---- *)
Definition json_string_spec (s : string) : string := """" ++ json_escape s ++ """".

(* JSON object keys must be strings; json.dumps coerces the other scalar keys *)
Definition json_key_spec (k : jvalue) : string :=
  match k with
  | JStr s => json_string_spec s
  | JInt z => """" ++ Z_to_string z ++ """"
  | JFloat t => """" ++ t ++ """"
  | JBool b => if b then """true""" else """false"""
  | JNull => """null"""
  | _ => ""           (* lists and dicts are unhashable: never keys *)
  end.

Fixpoint json_spec (v : jvalue) : string :=
  match v with
  | JStr s => json_string_spec s
  | JInt z => Z_to_string z
  | JFloat t => t
  | JBool b => if b then "true" else "false"
  | JNull => "null"
  | JList l => "[" ++ join "," (map json_spec l) ++ "]"
  | JDict kvs =>
      "{" ++ join "," (map (fun kv => match kv with (k, x) => json_key_spec k ++ ":" ++ json_spec x end) kvs) ++ "}"
  end.

(* SQL string literal: quote, content with every quote doubled, quote *)
Definition sq_char : ascii := "'"%char.
Definition sql_quote (s : string) : string := String sq_char (double_char sq_char s ++ String sq_char "").

(* decoding a complete SQL string literal; None when the text is not exactly one literal *)
Fixpoint sql_unq (s : string) : option string :=
  match s with
  | EmptyString => None
  | String c r =>
      if Ascii.eqb c sq_char then
        match r with
        | EmptyString => Some EmptyString
        | String c2 r2 => if Ascii.eqb c2 sq_char then option_map (String sq_char) (sql_unq r2) else None
        end
      else option_map (String c) (sql_unq r)
  end.
Definition sql_decode (s : string) : option string :=
  match s with
  | String c r => if Ascii.eqb c sq_char then sql_unq r else None
  | EmptyString => None
  end.

(* ---- the quantifier of the property: JSON-serialisable values, i.e. every dict key is a string ---- *)
Definition is_jstr (v : jvalue) : bool := match v with JStr _ => true | _ => false end.

Fixpoint jkeys (v : jvalue) : bool :=
  match v with
  | JList l => forallb jkeys l
  | JDict kvs => forallb (fun kv => match kv with (k, x) => is_jstr k && jkeys x end) kvs
  | _ => true
  end.

(* the former fragment (before pypika 3c1f928 / 662043c / 4d1a379), kept to state that nothing was lost *)
Definition plain_char (c : ascii) : bool :=
  let n := nat_of_ascii c in
  Nat.leb 32 n && negb (Nat.eqb n 34) && negb (Nat.eqb n 92) && negb (Nat.eqb n 39).
Definition num_char (c : ascii) : bool :=
  is_digit c || ch c "+" || ch c "-" || ch c "." || ch c "e" || ch c "E".

Fixpoint jfrag (v : jvalue) : bool :=
  match v with
  | JStr s => all_chars plain_char s
  | JInt _ => true
  | JFloat t => all_chars num_char t
  | JBool _ => false
  | JNull => false
  | JList l => forallb jfrag l
  | JDict kvs => forallb (fun kv => match kv with (k, x) => is_jstr k && jfrag k && jfrag x end) kvs
  end.

(* ============================== Tuple / Array / Bracket ============================== *)
Inductive skind := KTuple | KArray.
(* an element is either an opaque, already rendered term (its text) or a nested Tuple/Array *)
Inductive sterm :=
| SAtom (txt : string)
| SSeq (k : skind) (vs : list sterm).

Definition pg_like (d : option dialect) : bool :=
  match d with Some DPostgresql | Some DRedshift => true | _ => false end.

Definition nonempty (s : string) : bool := match s with EmptyString => false | _ => true end.

(* Tuple.get_sql: the comma-joined element texts between round brackets;  Array.get_sql: between
   square brackets, or for PostgreSQL/Redshift ARRAY[..] if len(values) > 0 else the literal '{}'
   (the test is on the JOINED TEXT);  alias None *)
Fixpoint render_seq (d : option dialect) (t : sterm) : string :=
  match t with
  | SAtom s => s
  | SSeq k vs =>
      let values := join "," (map (render_seq d) vs) in
      match k with
      | KTuple => "(" ++ values ++ ")"
      | KArray =>
          if pg_like d then (if nonempty values then "ARRAY[" ++ values ++ "]" else "'{}'")
          else "[" ++ values ++ "]"
      end
  end.

(* ---- specification: the token structure of a bracketed list ---- *)
Definition is_quote (c : ascii) : bool := ch c "'" || ch c """".
Definition is_open (c : ascii) : bool := ch c "(" || ch c "[".
Definition is_close (c : ascii) : bool := ch c ")" || ch c "]".

Definition ohead (c : ascii) (o : option (list string)) : option (list string) :=
  match o with
  | Some (x :: r) => Some (String c x :: r)
  | _ => None
  end.

(* split the text that follows an opening bracket at the commas of nesting depth 0, outside quoted
   strings/identifiers, up to the bracket that closes depth 0, which must be the last character *)
Fixpoint items (d : nat) (q : option ascii) (s : string) : option (list string) :=
  match s with
  | EmptyString => None
  | String c r =>
      match q with
      | Some qc => ohead c (items d (if Ascii.eqb c qc then None else q) r)
      | None =>
          if is_quote c then ohead c (items d (Some c) r)
          else if is_open c then ohead c (items (S d) None r)
          else if is_close c then
            match d with
            | O => match r with EmptyString => Some [EmptyString] | _ => None end
            | S d' => ohead c (items d' None r)
            end
          else if ch c "," && Nat.eqb d 0 then option_map (cons EmptyString) (items 0 None r)
          else ohead c (items d None r)
      end
  end.

Fixpoint drop_prefix (p s : string) : option string :=
  match p with
  | EmptyString => Some s
  | String a p' => match s with
                   | String b s' => if Ascii.eqb a b then drop_prefix p' s' else None
                   | EmptyString => None
                   end
  end.

Definition strip_open (s : string) : option string :=
  match drop_prefix "ARRAY[" s with
  | Some r => Some r
  | None => match s with
            | String c r => if is_open c then Some r else None
            | EmptyString => None
            end
  end.

(* the element texts of a rendered Tuple/Array *)
Definition elements (s : string) : option (list string) :=
  if String.eqb s "'{}'" then Some []
  else match strip_open s with
       | Some r => match items 0 None r with
                   | Some [EmptyString] => Some []
                   | o => o
                   end
       | None => None
       end.

(* the state of the scanner after a text (relative nesting depth, open quote); None = the text
   closes a bracket it did not open *)
Fixpoint walk (d : nat) (q : option ascii) (s : string) : option (nat * option ascii) :=
  match s with
  | EmptyString => Some (d, q)
  | String c r =>
      match q with
      | Some qc => walk d (if Ascii.eqb c qc then None else q) r
      | None =>
          if is_quote c then walk d (Some c) r
          else if is_open c then walk (S d) None r
          else if is_close c then match d with O => None | S d' => walk d' None r end
          else walk d None r
      end
  end.

(* no comma at relative depth 0 outside quotes *)
Fixpoint nocomma (d : nat) (q : option ascii) (s : string) : bool :=
  match s with
  | EmptyString => true
  | String c r =>
      match q with
      | Some qc => nocomma d (if Ascii.eqb c qc then None else q) r
      | None =>
          if is_quote c then nocomma d (Some c) r
          else if is_open c then nocomma (S d) None r
          else if is_close c then match d with O => false | S d' => nocomma d' None r end
          else if ch c "," && Nat.eqb d 0 then false
          else nocomma d None r
      end
  end.

(* an admissible opaque element: non-empty, balanced brackets and quotes, no top-level comma
   (every pypika term renders such a text: literals are quoted, functions bracket their arguments) *)
Definition atom_ok (s : string) : bool :=
  nonempty s && nocomma 0 None s &&
  match walk 0 None s with Some (O, None) => true | _ => false end.

Fixpoint sterm_ok (t : sterm) : bool :=
  match t with
  | SAtom s => atom_ok s
  | SSeq _ vs => forallb sterm_ok vs
  end.
