(* C11 — Set operations compose operands in order with the documented arity check.
   This file holds only the statement, the closing [exact]s, witnesses and Print Assumptions.
   Model: SetOp.v (render_setop mirrors _SetOperation.get_sql; spec_text is the independent specification). *)
From PV Require Import Base SetOp lemmas.SetOpLemmas.

(* The property, for every chain (any length, any operator mix), every keyword-argument context, and every operand
   that is a query: [frag s k] says every operand has a list of selected terms (a QueryBuilder, or a chain, which
   answers with its base's list) and, when the base asks for wrapping, answers subquery=True with its own text in
   parentheses.  Then rendering raises SetOperationException exactly when some operand's arity differs from the
   base's (whatever with_alias/subquery flags the caller passes), and otherwise yields exactly the specified text:
   operands in call order, each operand's own text unchanged and parenthesised iff the base's flag asks (where it
   does not ask, a nested chain keeps its grouping as the derived table SELECT * FROM (own text)), the
   operators' keywords between them in order, ORDER BY / LIMIT / OFFSET once, after the last operand, outside every
   operand's parentheses.  (The engine clause of C11 is validated on SQLite by the harness, not stated here.) *)
Definition C11_full_statement : Prop :=
  forall (s : setop) (k : kwargs),
    frag s k = true ->
    (forall wa sub, is_setop_exc (render_setop s k wa sub) = true <-> has_mismatch s = true)
    /\ (has_mismatch s = false -> render_setop s k false false = ROk (spec_text s k)).

Theorem C11_holds : C11_full_statement.
Proof.
  intros s k F. destruct (frag_sound s k F) as [Hb Hs]. split.
  - intros wa sub. now apply render_exc_iff.
  - intros Hm. now apply render_ok.
Qed.
Print Assumptions C11_holds.

Definition kw0 := no_kwargs.
(* QueryBuilder._set_kwargs_defaults of the generic Query class *)
Definition generic_defaults : kwargs :=
  [("quote_char", VStr """"); ("secondary_quote_char", VStr "'"); ("alias_quote_char", VNone);
   ("query_alias_quote_char", VNone); ("as_keyword", VBool false); ("dialect", VNone)].
Definition q_of (sel : list (option string)) (plain : string) : operand :=
  {| o_sel := sel; o_builder := true; o_chain := false; o_wrap := true;
     o_defaults := generic_defaults; o_forced := []; o_page := PStd;
     o_text := fun _ sub => if sub then "(" ++ plain ++ ")" else plain |}.
Definition q1 := q_of [None] "SELECT ""a"" FROM ""t""".
Definition q2 := q_of [None] "SELECT ""a"" FROM ""u""".
Definition q3 := q_of [None] "SELECT ""a"" FROM ""v""".
Definition q4 := q_of [None; None] "SELECT ""a"",""b"" FROM ""w""".

(* ---------- chains as operands of chains are inside the statement's domain ----------
   a chain that renders honours the subquery flag and has its base's arity, so (with QueryBuilder leaves) nesting
   to any depth stays in [frag] *)
Theorem C11_chain_is_an_operand : forall c k,
  is_ok (render_setop c k false false) = true ->
  paren_okb k (as_operand c) = true /\ arity (as_operand c) = arity (s_base c)
  /\ o_builder (as_operand c) = o_builder (s_base c).
Proof. intros c k H. split; [now apply as_operand_paren | split; reflexivity]. Qed.
Print Assumptions C11_chain_is_an_operand.

(* ---------- the two hypotheses of [frag] are needed: objects that are not queries ----------
   a Table (no _selects: TypeError) and a builder with nothing to render (empty text, never parenthesised) *)
Definition table_u : operand :=
  {| o_sel := []; o_builder := false; o_chain := false; o_wrap := false; o_defaults := []; o_forced := [];
     o_page := PStd; o_text := fun _ _ => """u""" |}.
Definition empty_q : operand :=
  {| o_sel := []; o_builder := true; o_chain := false; o_wrap := true; o_defaults := generic_defaults;
     o_forced := []; o_page := PStd; o_text := fun _ _ => "" |}.
Theorem C11_domain_hypotheses_needed :
  render_setop (qb_union q1 table_u) kw0 false false = RTypeError
  /\ has_mismatch (qb_union empty_q empty_q) = false
  /\ render_setop (qb_union empty_q empty_q) kw0 false false = ROk " UNION "
  /\ spec_text (qb_union empty_q empty_q) kw0 = "() UNION ()".
Proof. vm_compute. repeat split. Qed.
Print Assumptions C11_domain_hypotheses_needed.

(* an object without _selects reached by the loop: TypeError, for every chain *)
Theorem C11_no_selects_TypeError : forall s k wa sub pre ty q post,
  s_ops s = (pre ++ (ty, q) :: post)%list -> forallb (good (s_base s)) pre = true -> o_builder q = false ->
  render_setop s k wa sub = RTypeError.
Proof. exact render_nonbuilder. Qed.
Print Assumptions C11_no_selects_TypeError.

(* the exception is raised at the FIRST operand (in call order) whose arity differs; the message quotes the base's
   and that operand's texts; operands after it are irrelevant *)
Theorem C11_first_mismatch : forall s k wa sub pre ty q post,
  all_builders s = true -> s_ops s = (pre ++ (ty, q) :: post)%list ->
  existsb (fun x => mismatch_b (s_base s) (snd x)) pre = false -> mismatch_b (s_base s) q = true ->
  render_setop s k wa sub =
  RSetOpExc (o_text (s_base s) (eff_kwargs s k) (o_wrap (s_base s))) (operand_sql (s_base s) (eff_kwargs s k) q).
Proof. exact render_first_mismatch. Qed.
Print Assumptions C11_first_mismatch.

(* ORDER BY / LIMIT / OFFSET: for EVERY chain (no fragment hypothesis) the text is the text of the same chain without
   trailing clauses, followed by the trailing clauses; errors are unaffected by them *)
Theorem C11_tail_after_chain : forall s k,
  match render_setop (strip_tail s) k false false with
  | ROk body => render_setop s k false false = ROk (body ++ spec_tail s k)
  | e => render_setop s k false false = e
  end.
Proof. exact render_tail. Qed.
Print Assumptions C11_tail_after_chain.

(* use as a sub-query / IN container / FROM or JOIN item: the whole chain in one pair of parentheses, alias after *)
Theorem C11_as_subquery : forall s k,
  match render_setop s k false false with
  | ROk t =>
      render_setop s k false true = ROk ("(" ++ t ++ ")")
      /\ (forall sub, render_setop s k true sub =
            ROk (fmt_alias (if sub then "(" ++ t ++ ")" else t)
                           (Some (if truthy_ostr (s_alias s) then ostr (s_alias s) else table_name_field_text))
                           (kw_str (eff_kwargs s k) "quote_char") (source_alias_quote (eff_kwargs s k))
                           (kw_true (eff_kwargs s k) "as_keyword")))
  | e => forall wa sub, render_setop s k wa sub = e
  end.
Proof. exact render_subquery. Qed.
Print Assumptions C11_as_subquery.

(* builder calls: call order = list order, for every program; each call appends at the end *)
Theorem C11_call_order : forall base m o steps,
  s_ops (run_prog base m o steps) = (meth_kind m, o) :: step_ops steps
  /\ s_base (run_prog base m o steps) = base.
Proof. exact prog_order. Qed.
Print Assumptions C11_call_order.

Theorem C11_call_appends : forall s m o, s_ops (do_step s (StOp m o)) = (s_ops s ++ [(meth_kind m, o)])%list.
Proof. exact step_appends. Qed.
Print Assumptions C11_call_appends.

(* + is union, * is union_all, - is minus, on both classes *)
Theorem C11_operators :
  qb_add = qb_union /\ qb_mul = qb_union_all /\ qb_sub = qb_minus
  /\ so_add = so_union /\ so_mul = so_union_all /\ so_sub = so_minus
  /\ (forall m b o, qb_call m b o = new_setop b o (meth_kind m))
  /\ (forall m s o, so_call m s o = so_append (meth_kind m) s o).
Proof. repeat split; try reflexivity; intros m; destruct m; reflexivity. Qed.
Print Assumptions C11_operators.

(* meaning: a chain denotes the left-to-right fold of its operators over the operands' rows, so adding an operand
   applies the new operator to (everything so far, new operand) *)
Theorem C11_left_to_right : forall (R : Type) (ap : sokind -> R -> R -> R) base ops k r,
  sem_chain ap base (ops ++ [(k, r)])%list = ap k (sem_chain ap base ops) r.
Proof. intros. apply sem_chain_snoc. Qed.
Print Assumptions C11_left_to_right.

(* ---------- non-vacuity ---------- *)
Definition ob_a : option string * (kwargs -> string) := (None, fun _ => """a""").
Definition example_chain : setop :=
  run_prog q1 MMul q2 [StOrderby [ob_a] (Some "DESC"); StOp MSub q3; StLimit (Some 0%Z); StOffset (Some 2%Z)].

Example C11_example_fragment :
  frag example_chain kw0 = true /\ has_mismatch example_chain = false
  /\ render_setop example_chain kw0 false false =
     ROk "(SELECT ""a"" FROM ""t"") UNION ALL (SELECT ""a"" FROM ""u"") MINUS (SELECT ""a"" FROM ""v"") ORDER BY ""a"" DESC LIMIT 0 OFFSET 2".
Proof. vm_compute. repeat split. Qed.
Print Assumptions C11_example_fragment.

Example C11_example_mismatch :
  let s := run_prog q1 MUnion q2 [StOp MIntersect q4; StOp MExcept q3] in
  frag s kw0 = true /\ has_mismatch s = true
  /\ render_setop s kw0 false false = RSetOpExc "(SELECT ""a"" FROM ""t"")" "(SELECT ""a"",""b"" FROM ""w"")".
Proof. vm_compute. repeat split. Qed.
Print Assumptions C11_example_mismatch.

(* q1 + (q2 * q3) - q3 : the nested chain is one operand, in its own parentheses, inside the fragment *)
Example C11_example_nested :
  let inner := as_operand (qb_mul q2 q3) in
  let s := so_sub (qb_add q1 inner) q3 in
  frag s kw0 = true /\ has_mismatch s = false
  /\ render_setop s kw0 false false =
     ROk "(SELECT ""a"" FROM ""t"") UNION ((SELECT ""a"" FROM ""u"") UNION ALL (SELECT ""a"" FROM ""v"")) MINUS (SELECT ""a"" FROM ""v"")"
  /\ render_setop (so_union s q4) kw0 false false
     = RSetOpExc "(SELECT ""a"" FROM ""t"")" "(SELECT ""a"",""b"" FROM ""w"")".
Proof. vm_compute. repeat split. Qed.
Print Assumptions C11_example_nested.

(* a base that does not parenthesise (ClickHouse, SQLite): the nested chain is a derived table, plain operands bare;
   a - (b - c) keeps its grouping *)
Definition bare_of (sel : list (option string)) (plain : string) (st : pstyle) : operand :=
  {| o_sel := sel; o_builder := true; o_chain := false; o_wrap := false;
     o_defaults := generic_defaults; o_forced := []; o_page := st;
     o_text := fun _ sub => if sub then "(" ++ plain ++ ")" else plain |}.
Definition b1 := bare_of [None] "SELECT ""a"" FROM ""t""" PStd.
Definition b2 := bare_of [None] "SELECT ""a"" FROM ""u""" PStd.
Definition b3 := bare_of [None] "SELECT ""a"" FROM ""v""" PStd.
Example C11_example_derived_table :
  let s := qb_except_of b1 (as_operand (qb_except_of b2 b3)) in
  frag s kw0 = true /\ has_mismatch s = false
  /\ render_setop s kw0 false false =
     ROk "SELECT ""a"" FROM ""t"" EXCEPT SELECT * FROM (SELECT ""a"" FROM ""u"" EXCEPT SELECT ""a"" FROM ""v"")".
Proof. vm_compute. repeat split. Qed.
Print Assumptions C11_example_derived_table.

(* the chain's limit/offset in the base dialect's syntax, still once and after the last operand *)
Example C11_example_pagination :
  let o := bare_of [None] "SELECT a FROM t" POracle in
  let m := bare_of [None] "SELECT ""a"" FROM ""t""" PMssql in
  render_setop (so_offset (so_limit (qb_union o o) (Some 3%Z)) (Some 2%Z)) kw0 false false
    = ROk "SELECT a FROM t UNION SELECT a FROM t OFFSET 2 ROWS FETCH NEXT 3 ROWS ONLY"
  /\ render_setop (so_limit (qb_union m m) (Some 0%Z)) kw0 false false
    = ROk "SELECT ""a"" FROM ""t"" UNION SELECT ""a"" FROM ""t"" OFFSET 0 ROWS FETCH NEXT 0 ROWS ONLY".
Proof. vm_compute. repeat split. Qed.
Print Assumptions C11_example_pagination.
