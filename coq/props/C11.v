(* C11 — Set operations compose operands in order with the documented arity check.
   This file holds only the statement, the closing [exact]s, witnesses and Print Assumptions.
   Model: SetOp.v (render_setop mirrors _SetOperation.get_sql; spec_text is the independent specification). *)
From PV Require Import Base SetOp lemmas.SetOpLemmas.

(* The property, for every chain (any length, any operator mix, any operands — an operand is any object with a
   rendering function and a list of selected terms), every keyword-argument context:
   rendering raises SetOperationException exactly when some operand's arity differs from the base's, and otherwise
   yields exactly the specified text: operands in call order, each operand's own text unchanged and parenthesised
   iff the base's flag asks, the operators' keywords between them in order, ORDER BY / LIMIT / OFFSET once, after
   the last operand, outside every operand's parentheses. *)
Definition C11_full_statement : Prop :=
  forall (s : setop) (k : kwargs),
    o_builder (s_base s) = true ->
    (is_setop_exc (render_setop s k false false) = true <-> has_mismatch s = true)
    /\ (has_mismatch s = false -> render_setop s k false false = ROk (spec_text s k)).

(* ---------- the faithful model refutes it, in two independent ways ---------- *)
Definition kw0 := no_kwargs.
Definition q_of (sel : list (option string)) (plain : string) : operand :=
  {| o_sel := sel; o_builder := true; o_wrap := true; o_dialect := None; o_quote := Some """";
     o_text := fun _ sub => if sub then "(" ++ plain ++ ")" else plain |}.
Definition q1 := q_of [None] "SELECT ""a"" FROM ""t""".
Definition q2 := q_of [None] "SELECT ""a"" FROM ""u""".
Definition q3 := q_of [None] "SELECT ""a"" FROM ""v""".
Definition q4 := q_of [None; None] "SELECT ""a"",""b"" FROM ""w""".

(* witness 1: an operand that is itself a chain  q1 + (q2 + q3).  It has the base's arity, is not a QueryBuilder *)
Definition nested23 : operand :=
  {| o_sel := [None]; o_builder := false; o_wrap := false; o_dialect := None; o_quote := None;
     o_text := fun _ sub => let t := "(SELECT ""a"" FROM ""u"") UNION (SELECT ""a"" FROM ""v"")" in
                            if sub then "(" ++ t ++ ")" else t |}.
Definition witness_nested : setop := qb_add q1 nested23.

Theorem C11_refuted : ~ C11_full_statement.
Proof.
  intros H. destruct (H witness_nested kw0 eq_refl) as [_ H2].
  specialize (H2 eq_refl). vm_compute in H2. discriminate.
Qed.
Print Assumptions C11_refuted.

(* witness 2: every operand IS a QueryBuilder, but one operand's own get_sql does not honour the subquery flag
   (VerticaQueryBuilder.get_sql with a hint splices the hint at fixed offsets): its text is changed in the chain *)
Definition vertica_hint : operand :=
  {| o_sel := [None]; o_builder := true; o_wrap := true; o_dialect := Some "VERTICA"; o_quote := Some """";
     o_text := fun _ sub => if sub then "(SELECT/*+label(h1)*/T ""a"" FROM ""t"")"
                            else "SELECT /*+label(h1)*/ ""a"" FROM ""t""" |}.
Definition witness_hint : setop := qb_union q1 vertica_hint.

Theorem C11_refuted_among_builders :
  ~ (forall s k, all_builders s = true -> has_mismatch s = false -> render_setop s k false false = ROk (spec_text s k)).
Proof. intros H. specialize (H witness_hint kw0 eq_refl eq_refl). vm_compute in H. discriminate. Qed.
Print Assumptions C11_refuted_among_builders.

(* what happens instead for a non-QueryBuilder operand reached by the loop: TypeError, for every chain *)
Theorem C11_nested_operand_TypeError : forall s k wa sub pre ty q post,
  s_ops s = (pre ++ (ty, q) :: post)%list -> forallb (good (s_base s)) pre = true -> o_builder q = false ->
  render_setop s k wa sub = RTypeError.
Proof. exact render_nonbuilder. Qed.
Print Assumptions C11_nested_operand_TypeError.

(* ---------- the fragment on which the full statement holds ----------
   frag s k: every operand is a QueryBuilder and, when the base asks for wrapping, every operand's own get_sql
   answers subquery=True with "(" + its subquery=False text + ")" under the effective kwargs. *)
Theorem C11_on_fragment : forall (s : setop) (k : kwargs),
  frag s k = true ->
  (forall wa sub, is_setop_exc (render_setop s k wa sub) = true <-> has_mismatch s = true)
  /\ (has_mismatch s = false -> render_setop s k false false = ROk (spec_text s k)).
Proof.
  intros s k F. destruct (frag_sound s k F) as [Hb Hs]. split.
  - intros wa sub. now apply render_exc_iff.
  - intros Hm. now apply render_ok.
Qed.
Print Assumptions C11_on_fragment.

(* the exception is raised at the FIRST operand (in call order) whose arity differs; the message quotes the base's
   and that operand's texts; operands after it are irrelevant *)
Theorem C11_first_mismatch : forall s k wa sub pre ty q post,
  all_builders s = true -> s_ops s = (pre ++ (ty, q) :: post)%list ->
  existsb (fun x => mismatch_b (s_base s) (snd x)) pre = false -> mismatch_b (s_base s) q = true ->
  render_setop s k wa sub =
  RSetOpExc (o_text (s_base s) (eff_kwargs s k) (o_wrap (s_base s))) (o_text q (eff_kwargs s k) (o_wrap (s_base s))).
Proof. exact render_first_mismatch. Qed.
Print Assumptions C11_first_mismatch.

(* ORDER BY / LIMIT / OFFSET: for EVERY chain (no fragment hypothesis) the text is the text of the same chain without
   trailing clauses, followed by the trailing clauses; errors are unaffected by them *)
Theorem C11_tail_after_chain : forall s k,
  match render_setop (strip_tail s) k false false with
  | ROk body => render_setop s k false false = ROk (body ++ spec_tail s k)
  | e => render_setop s k false false = e
  end.
Proof. exact render_tail. Qed.
Print Assumptions C11_tail_after_chain.

(* use as a sub-query / IN container / FROM or JOIN item: the whole chain in one pair of parentheses, alias after *)
Theorem C11_as_subquery : forall s k,
  match render_setop s k false false with
  | ROk t =>
      render_setop s k false true = ROk ("(" ++ t ++ ")")
      /\ (forall sub, render_setop s k true sub =
            ROk (fmt_alias (if sub then "(" ++ t ++ ")" else t)
                           (Some (if truthy_ostr (s_alias s) then ostr (s_alias s) else table_name_field_text))
                           (match kw_quote (eff_kwargs s k) with Some x => x | None => None end)
                           (kw_alias_quote k) (kw_as_keyword k)))
  | e => forall wa sub, render_setop s k wa sub = e
  end.
Proof. exact render_subquery. Qed.
Print Assumptions C11_as_subquery.

(* builder calls: call order = list order, for every program; each call appends at the end *)
Theorem C11_call_order : forall base m o steps,
  s_ops (run_prog base m o steps) = (meth_kind m, o) :: step_ops steps
  /\ s_base (run_prog base m o steps) = base.
Proof. exact prog_order. Qed.
Print Assumptions C11_call_order.

Theorem C11_call_appends : forall s m o, s_ops (do_step s (StOp m o)) = (s_ops s ++ [(meth_kind m, o)])%list.
Proof. exact step_appends. Qed.
Print Assumptions C11_call_appends.

(* + is union, * is union_all, - is minus, on both classes *)
Theorem C11_operators :
  qb_add = qb_union /\ qb_mul = qb_union_all /\ qb_sub = qb_minus
  /\ so_add = so_union /\ so_mul = so_union_all /\ so_sub = so_minus
  /\ (forall m b o, qb_call m b o = new_setop b o (meth_kind m))
  /\ (forall m s o, so_call m s o = so_append (meth_kind m) s o).
Proof. repeat split; try reflexivity; intros m; destruct m; reflexivity. Qed.
Print Assumptions C11_operators.

(* meaning: a chain denotes the left-to-right fold of its operators over the operands' rows, so adding an operand
   applies the new operator to (everything so far, new operand) *)
Theorem C11_left_to_right : forall (R : Type) (ap : sokind -> R -> R -> R) base ops k r,
  sem_chain ap base (ops ++ [(k, r)])%list = ap k (sem_chain ap base ops) r.
Proof. intros. apply sem_chain_snoc. Qed.
Print Assumptions C11_left_to_right.

(* ---------- non-vacuity ---------- *)
Definition ob_a : option string * (kwargs -> string) := (None, fun _ => """a""").
Definition example_chain : setop :=
  run_prog q1 MMul q2 [StOrderby [ob_a] (Some "DESC"); StOp MSub q3; StLimit (Some 0%Z); StOffset (Some 2%Z)].

Example C11_example_fragment :
  frag example_chain kw0 = true /\ has_mismatch example_chain = false
  /\ render_setop example_chain kw0 false false =
     ROk "(SELECT ""a"" FROM ""t"") UNION ALL (SELECT ""a"" FROM ""u"") MINUS (SELECT ""a"" FROM ""v"") ORDER BY ""a"" DESC LIMIT 0 OFFSET 2".
Proof. vm_compute. repeat split. Qed.
Print Assumptions C11_example_fragment.

Example C11_example_mismatch :
  let s := run_prog q1 MUnion q2 [StOp MIntersect q4; StOp MExcept q3] in
  frag s kw0 = true /\ has_mismatch s = true
  /\ render_setop s kw0 false false = RSetOpExc "(SELECT ""a"" FROM ""t"")" "(SELECT ""a"",""b"" FROM ""w"")".
Proof. vm_compute. repeat split. Qed.
Print Assumptions C11_example_mismatch.

Example C11_example_nested :
  render_setop witness_nested kw0 false false = RTypeError
  /\ has_mismatch witness_nested = false
  /\ render_setop (so_union witness_nested q4) kw0 false false = RTypeError.
Proof. vm_compute. repeat split. Qed.
Print Assumptions C11_example_nested.
