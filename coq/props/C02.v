(* C02 — rendered expressions keep the operator structure the user built.
   Statement, fragment theorem, refutation witnesses, non-vacuity examples. *)
From PV Require Import Base Crit gen.TermsTable Terms Parse C02Model C02Expected C02Frag.
From PV Require Import lemmas.ParsePrint lemmas.C02Lemmas lemmas.C02Final.
From Coq Require Import ZArith.
Local Open Scope list_scope.

(* For every term in the syntactic scope of the property (arithmetic/shift operators, unary minus, comparisons,
   LIKE/IN/BETWEEN/IS NULL, NOT, AND/OR/XOR, CASE, function calls; any context c = any position):
   every engine that has the operators reads the rendered tokens as a tree denoting the same function as the Python
   tree under every interpretation obeying the real-number/boolean identities, and no comment introducer arises. *)
Definition C02_full_statement : Prop :=
  forall c t ts e, rtoks c t = Some ts -> to_expr c t = Some e ->
    (forall i T, nth_error engines i = Some T -> forallb (supported i) (ops_of e) = true ->
       exists fuel e', parse T fuel 0 ts = Some (e', []) /\
         forall V sa sn snot (sb : binop -> V -> V -> V) sp si sbt sc scs, obeys_identities sb ->
           eval V sa sn snot sb sp si sbt sc scs e' = eval V sa sn snot sb sp si sbt sc scs e)
    /\ adjacency_ok ts = true.

(* what IS proved: the statement's conclusion for every term of the decidable fragment frag02 (any depth, any context),
   together with the fact that the tokens are exactly pypika's text *)
Theorem C02_on_fragment : forall c t, frag02 c t = true ->
  exists ts e, rtoks c t = Some ts /\ to_expr c t = Some e
    /\ render c t = Ok (flatten ts)
    /\ (forall T, In T engines -> exists fuel, parse T fuel 0 ts = Some (norm e, []))
    /\ (forall V sa sn snot (sb : binop -> V -> V -> V) sp si sbt sc scs, obeys_identities sb ->
          eval V sa sn snot sb sp si sbt sc scs (norm e) = eval V sa sn snot sb sp si sbt sc scs e)
    /\ adjacency_ok ts = true.
Proof. exact C02_fragment_theorem. Qed.
Print Assumptions C02_on_fragment.

(* the generic theorem it rests on, for the record *)
Check parse_print.
Print Assumptions parse_print.

(* the code-sensitive obligation: re-checked against the extracted predicates on every run *)
Theorem C02_policy_dominates_expected : forallb ok_all_engines expected_pairs = true.
Proof. exact expected_pairs_ok. Qed.
Print Assumptions C02_policy_dominates_expected.

(* ---- the full statement is FALSE of the faithful model: unary minus over a compound ---- *)
Definition fa := TField "a" None None.
Definition fb := TField "b" None None.
Definition fc := TField "c" None None.
Definition w_neg_sum := TNeg (TArith OAdd fa fb None).           (* -(a+b)  renders  -"a"+"b" *)
Definition w_sub_neglit := TArith OSub fa (TValI (-1) None) None. (* a-(-1)  renders  "a"--1 *)
Definition env1 (s : string) : Z := if String.eqb s """a""" then 1%Z else if String.eqb s """b""" then 2%Z else 4%Z.

Theorem C02_refuted : ~ C02_full_statement.
Proof.
  intros H.
  destruct (rtoks str_ctx w_neg_sum) as [ts|] eqn:R; [|vm_compute in R; discriminate].
  destruct (to_expr str_ctx w_neg_sum) as [e|] eqn:X; [|vm_compute in X; discriminate].
  destruct (H str_ctx w_neg_sum ts e R X) as [Hs _].
  destruct (Hs 0 pg eq_refl) as [fuel [e' [Hp Hev]]].
  { vm_compute in X. inversion X; subst. vm_compute. reflexivity. }
  vm_compute in R. inversion R; subst ts. vm_compute in X. inversion X; subst e.
  assert (W : parse pg 40 0 [KNeg; KAtom """a"""; KOp (BA OAdd); KAtom """b"""]
              = Some (EBin (BA OAdd) (ENeg (EAtom """a""")) (EAtom """b"""), [])) by (vm_compute; reflexivity).
  pose proof (parse_det _ _ _ _ _ _ _ Hp W) as E. inversion E; subst e'.
  specialize (Hev Z env1 Z.opp (fun x => (1 - x)%Z) z_bin (fun _ x => x) (fun _ x _ => x) (fun x _ _ => x)
                  (fun _ _ => 0%Z) (fun _ _ => 0%Z) z_bin_laws).
  vm_compute in Hev. discriminate.
Qed.
Print Assumptions C02_refuted.

(* second witness: the lexical clause -- a negative literal to the right of '-' creates the comment introducer -- *)
Theorem C02_refuted_comment : exists c t ts, rtoks c t = Some ts /\ adjacency_ok ts = false
  /\ flatten ts = """a""--1".
Proof. exists str_ctx, w_sub_neglit. eexists. split; [vm_compute; reflexivity|]. split; vm_compute; reflexivity. Qed.
Print Assumptions C02_refuted_comment.

(* further machine-checked witnesses: each engine reads a different tree than the one built *)
Definition misread (t : term) : bool :=
  match rtoks str_ctx t, to_expr str_ctx t with
  | Some ts, Some e => existsb (fun T => match read_with T ts with Some e' => negb (expr_eqb e' (norm e)) | None => true end) engines
  | _, _ => false end.
Example C02_witnesses_misread :
  map misread
    [ w_neg_sum;                                                           (* -(a+b) *)
      TNeg (TNeg fa);                                                      (* -(-a): tokens parse, text is a comment: see adjacency *)
      TArith OAdd (TArith OShl fa fb None) fc None;                        (* (a<<b)+c *)
      TArith OShl fa (TArith OShl fb fc None) None;                        (* a<<(b<<c) *)
      TArith OMul fa (TArith OShl fb fc None) None;                        (* a*(b<<c) *)
      TArith OAdd (TBasic CGt fa fb None) (TValI 1 None) None;             (* (a>b)+1 *)
      TBasic CEq fa (TCplx BAnd (TBasic CEq fb (TValI 1 None) None) (TBasic CEq fc (TValI 2 None) None) None) None  (* a=(b=1 AND c=2) *)
    ] = [true; false; true; true; true; true; true].
Proof. vm_compute. reflexivity. Qed.

(* ---- non-vacuity: a deep, mixed term lies in the fragment; so the theorem applies to it ---- *)
Definition big_term : term :=
  TCplx BOr
    (TCplx BAnd
       (TBasic CGe (TArith OSub fa (TArith OSub fb (TArith OMul fc (TArith ODiv fa (TArith OAdd fb fc None) None) None) None) None)
                   (TNeg (TFunc "ABS" (TCons (TArith OAdd fa (TArith OSub fb fc None) None) TNil) None None)) None)
       (TNot (TCplx BOr (TBetween fa (TArith OAdd fb (TValI 1 None) None) (TArith OMul fc (TValI 2 None) None) None)
                        (TIn fb (TTuple (TCons (TValI 1 None) (TCons (TValS "it's" None) TNil)) None) true None) None) None)
       None)
    (TBasic CLike (TCase (WCons (TIsNull fa None) (TValS "x" None) (WCons (TBasic CLt fb fc None) fb WNil)) (OSome fc) None)
                  (TValS "a%" None) None)
    None.
Example C02_fragment_nonvacuous : frag02 str_ctx big_term = true.
Proof. vm_compute. reflexivity. Qed.
Example C02_fragment_text :
  render str_ctx big_term = Ok "(""a""-(""b""-""c""*""a""/(""b""+""c""))>=-ABS(""a""+""b""-""c"") AND NOT (""a"" BETWEEN ""b""+1 AND ""c""*2 OR ""b"" NOT IN (1,'it''s'))) OR CASE WHEN ""a"" IS NULL THEN 'x' WHEN ""b""<""c"" THEN ""b"" ELSE ""c"" END LIKE 'a%'".
Proof. vm_compute. reflexivity. Qed.
