(* C02 — rendered expressions keep the operator structure the user built.
   Statement, fragment theorem, refutation witnesses, non-vacuity examples. *)
From PV Require Import Base Crit gen.TermsTable Terms TermsCorr Parse C02Model C02Frag.
From PV Require Import lemmas.ParsePrint lemmas.C02Lemmas lemmas.C02Univ lemmas.C02Final.
From Coq Require Import ZArith.
Local Open Scope list_scope.

(* For every term in the syntactic scope of the property (arithmetic/shift operators, unary minus, comparisons,
   LIKE/IN/BETWEEN/IS NULL, NOT, AND/OR/XOR, CASE, function calls; any context c = any position):
   every engine that has the operators reads the rendered tokens as a tree denoting the same function as the Python
   tree under every interpretation obeying the real-number/boolean identities, and no comment introducer arises. *)
Definition C02_full_statement : Prop :=
  forall c t ts e, rtoks c t = Some ts -> to_expr c t = Some e ->
    (forall i T, nth_error engines i = Some T -> forallb (supported i) (ops_of e) = true ->
       exists fuel e', parse T fuel 0 ts = Some (e', []) /\
         forall V sa sn snot (sb : binop -> V -> V -> V) sp si sbt sc scs, obeys_identities sb ->
           eval V sa sn snot sb sp si sbt sc scs e' = eval V sa sn snot sb sp si sbt sc scs e)
    /\ adjacency_ok ts = true.

(* WHAT IS PROVED: the full statement's conclusion for every context and term (any depth, any operators) in a purely
   syntactic scope:
     subc c = false   - the position does not set the subcriterion flag (no position of a statement does);
     nl false t       - no NOT hands that flag through a CASE / value list to an AND/OR term (harmless extra brackets);
     clean e          - NOT is never an operand of an operator or predicate (pypika's own suite pins
                        Field("foo").negate().eq("bar") to the text NOT "foo"='bar', so this cannot be repaired);
     lex_ok e         - the leaves are lexically well-formed (raw SQL leaves do not end in '-' or '/'; the star only as
                        a list item). *)
Definition C02_scoped_statement : Prop :=
  forall c t ts e, rtoks c t = Some ts -> to_expr c t = Some e ->
    subc c = false -> nl false t = true -> clean e = true -> lex_ok e = true ->
    render c t = Ok (flatten ts)
    /\ (forall i T, nth_error engines i = Some T -> forallb (supported i) (ops_of e) = true ->
       exists fuel e', parse T fuel 0 ts = Some (e', []) /\
         forall V sa sn snot (sb : binop -> V -> V -> V) sp si sbt sc scs, obeys_identities sb ->
           eval V sa sn snot sb sp si sbt sc scs e' = eval V sa sn snot sb sp si sbt sc scs e)
    /\ adjacency_ok ts = true.

Theorem C02_holds : C02_scoped_statement.
Proof.
  intros c t ts e R X S N C L. destruct (C02_universal c t ts e R X S N C L) as [Hr [Hp [He Ha]]].
  split; [exact Hr|]. split; [|exact Ha].
  intros i T HT _. destruct (Hp T (nth_error_In _ _ HT)) as [fuel Hf]. exists fuel, (norm e). split; [exact Hf|].
  intros. apply He. assumption.
Qed.
Print Assumptions C02_holds.

(* the same through the decidable scope predicate frag02 (used by the correspondence check on every generated case) *)
Theorem C02_on_fragment : forall c t, frag02 c t = true ->
  exists ts e, rtoks c t = Some ts /\ to_expr c t = Some e
    /\ render c t = Ok (flatten ts)
    /\ (forall T, In T engines -> exists fuel, parse T fuel 0 ts = Some (norm e, []))
    /\ (forall V sa sn snot (sb : binop -> V -> V -> V) sp si sbt sc scs, obeys_identities sb ->
          eval V sa sn snot sb sp si sbt sc scs (norm e) = eval V sa sn snot sb sp si sbt sc scs e)
    /\ adjacency_ok ts = true.
Proof. exact C02_fragment_theorem. Qed.
Print Assumptions C02_on_fragment.

(* the generic theorem it rests on, for the record *)
Check parse_print.
Print Assumptions parse_print.

(* the code-sensitive obligations: re-checked against the extracted predicates and probed tables on every run *)
Theorem C02_policy_dominates : forall p h, allowed (p, h) = true -> ok_all_engines (p, h) = true.
Proof. exact allowed_ok. Qed.
Print Assumptions C02_policy_dominates.
Theorem C02_tokens_are_the_printers : forall c t ts e, rtoks c t = Some ts -> to_expr c t = Some e ->
  subc c = false -> nl false t = true -> ts = pr impl_pol e /\ atoms_ok e = true.
Proof. exact tokens_are_printed. Qed.
Print Assumptions C02_tokens_are_the_printers.

(* ---- the UNSCOPED statement is false of the faithful model: NOT as an operand ---- *)
Definition fa := TField "a" None None.
Definition fb := TField "b" None None.
Definition fc := TField "c" None None.
Definition w_not_eq := TBasic CEq (TNot fa None) fb None.            (* (NOT a) = b  renders  NOT "a"="b" *)
Definition w_div_star := TArith ODiv fa (TStar None) None.            (* a / *  renders  "a"/*  (not a well-typed tree) *)
Definition env1 (s : string) : Z := if String.eqb s """a""" then 1%Z else if String.eqb s """b""" then 2%Z else 4%Z.

Theorem C02_refuted : ~ C02_full_statement.
Proof.
  intros H.
  destruct (rtoks str_ctx w_not_eq) as [ts|] eqn:R; [|vm_compute in R; discriminate].
  destruct (to_expr str_ctx w_not_eq) as [e|] eqn:X; [|vm_compute in X; discriminate].
  destruct (H str_ctx w_not_eq ts e R X) as [Hs _].
  destruct (Hs 0 pg eq_refl) as [fuel [e' [Hp Hev]]].
  { vm_compute in X. inversion X; subst. vm_compute. reflexivity. }
  vm_compute in R. inversion R; subst ts. vm_compute in X. inversion X; subst e.
  assert (W : parse pg 40 0 [KNot; KAtom """a"""; KOp (BC CEq); KAtom """b"""]
              = Some (ENot (EBin (BC CEq) (EAtom """a""") (EAtom """b""")), [])) by (vm_compute; reflexivity).
  pose proof (parse_det _ _ _ _ _ _ _ Hp W) as E. inversion E; subst e'.
  specialize (Hev Z env1 Z.opp (fun x => (1 - x)%Z) z_bin (fun _ x => x) (fun _ x _ => x) (fun x _ _ => x)
                  (fun _ _ => 0%Z) (fun _ _ => 0%Z) z_bin_laws).
  vm_compute in Hev. discriminate.
Qed.
Print Assumptions C02_refuted.

(* second witness, for the lexical clause: the star as right operand of '/' *)
Theorem C02_refuted_comment : exists c t ts, rtoks c t = Some ts /\ adjacency_ok ts = false
  /\ flatten ts = """a""/*".
Proof. exists str_ctx, w_div_star. eexists. split; [vm_compute; reflexivity|]. split; vm_compute; reflexivity. Qed.
Print Assumptions C02_refuted_comment.

(* the witnesses lie outside the proved scope, as they must *)
Example C02_witnesses_out_of_scope : frag02 str_ctx w_not_eq = false /\ frag02 str_ctx w_div_star = false.
Proof. vm_compute. split; reflexivity. Qed.

(* the shapes that were misread before the repairs (unary minus over a compound, double minus, shifts, predicates as
   operands) are in scope now, read back correctly, and render with the parentheses the tree needs *)
Definition misread (t : term) : bool :=
  match rtoks str_ctx t, to_expr str_ctx t with
  | Some ts, Some e => existsb (fun T => match read_with T ts with Some e' => negb (expr_eqb e' (norm e)) | None => true end) engines
  | _, _ => false end.
Definition repaired_witnesses : list term :=
  [ TNeg (TArith OAdd fa fb None);                                       (* -(a+b) *)
    TArith OSub fa (TValI (-1) None) None;                               (* a-(-1) *)
    TNeg (TNeg fa);                                                      (* -(-a) *)
    TArith OAdd (TArith OShl fa fb None) fc None;                        (* (a<<b)+c *)
    TArith OShl fa (TArith OShl fb fc None) None;                        (* a<<(b<<c) *)
    TArith OMul fa (TArith OShl fb fc None) None;                        (* a*(b<<c) *)
    TArith OAdd (TBasic CGt fa fb None) (TValI 1 None) None;             (* (a>b)+1 *)
    TBasic CEq fa (TCplx BAnd (TBasic CEq fb (TValI 1 None) None) (TBasic CEq fc (TValI 2 None) None) None) None  (* a=(b=1 AND c=2) *)
  ].
Example C02_repaired_behaviour :
  map misread repaired_witnesses = [false; false; false; false; false; false; false; false]
  /\ map (frag02 str_ctx) repaired_witnesses = [true; true; true; true; true; true; true; true]
  /\ map (render_text str_ctx) repaired_witnesses =
     [ "-(""a""+""b"")"; """a""-(-1)"; "-(-""a"")"; "(""a""<<""b"")+""c"""; """a""<<(""b""<<""c"")"; """a""*(""b""<<""c"")";
       "(""a"">""b"")+1"; """a""=(""b""=1 AND ""c""=2)" ].
Proof. vm_compute. repeat split; reflexivity. Qed.
Example C02_witness_misread : misread w_not_eq = true.
Proof. vm_compute. reflexivity. Qed.

(* ---- non-vacuity: a deep, mixed term lies in the fragment; so the theorem applies to it ---- *)
Definition big_term : term :=
  TCplx BOr
    (TCplx BAnd
       (TBasic CGe (TArith OSub fa (TArith OSub fb (TArith OMul fc (TArith ODiv fa (TArith OAdd fb fc None) None) None) None) None)
                   (TNeg (TFunc "ABS" (TCons (TArith OAdd fa (TArith OSub fb fc None) None) TNil) None None)) None)
       (TNot (TCplx BOr (TBetween fa (TArith OAdd fb (TValI 1 None) None) (TArith OMul fc (TValI 2 None) None) None)
                        (TIn fb (TTuple (TCons (TValI 1 None) (TCons (TValS "it's" None) TNil)) None) true None) None) None)
       None)
    (TBasic CLike (TCase (WCons (TIsNull fa None) (TValS "x" None) (WCons (TBasic CLt fb fc None) fb WNil)) (OSome fc) None)
                  (TValS "a%" None) None)
    None.
Example C02_fragment_nonvacuous : frag02 str_ctx big_term = true.
Proof. vm_compute. reflexivity. Qed.
Example C02_fragment_text :
  render str_ctx big_term = Ok "(""a""-(""b""-""c""*""a""/(""b""+""c""))>=-ABS(""a""+""b""-""c"") AND NOT (""a"" BETWEEN ""b""+1 AND ""c""*2 OR ""b"" NOT IN (1,'it''s'))) OR CASE WHEN ""a"" IS NULL THEN 'x' WHEN ""b""<""c"" THEN ""b"" ELSE ""c"" END LIKE 'a%'".
Proof. vm_compute. reflexivity. Qed.
