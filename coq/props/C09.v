(* C09 — Rendering is a pure, repeatable, process-independent function.
   Statement over the effect model (Purity.v) instantiated with the effect table extracted from the current
   pypika sources (gen/C09Table.v, regenerated on every run).  This file: statement, closing [exact]s,
   Print Assumptions. *)
From PV Require Import Base Purity lemmas.PurityLemmas gen.C09Table.

(* For every semantics of the observers (what they return, what a listed write would store), every heap, every
   history of observations (any object, any observer, any keyword arguments, any set-iteration order per call),
   every object l, every call c and every two iteration orders:
     1. the heap after the history is the heap before (no object's state changed);
     2. the text of c on l after the history, under order ord1, is its text before, under order ord2;
     3. it is the text of any identically constructed object (same unfolding), in this or another heap.      *)
Definition C09_full_statement : Prop := rendering_pure table.

(* the two facts about the current code, re-checked against the sources on every run *)
Lemma C09_table_writes_now : writes table = [].
Proof. reflexivity. Qed.
Print Assumptions C09_table_writes_now.

Lemma C09_table_set_iterations_now : set_iters table = [].
Proof. reflexivity. Qed.
Print Assumptions C09_table_set_iterations_now.

(* set iterations on the rendering path that only build the message of an exception being raised (the observation
   then has no text; the exception class does not depend on the order).  Reviewed list: a new entry must be looked at. *)
Lemma C09_table_raise_only_iterations_now : map i_fn (raise_iters table) = ["queries.JoinOn.validate_with"].
Proof. reflexivity. Qed.
Print Assumptions C09_table_raise_only_iterations_now.

Theorem C09_holds : C09_full_statement.
Proof. exact (rendering_pure_generic table C09_table_writes_now C09_table_set_iterations_now). Qed.
Print Assumptions C09_holds.

(* the same for an arbitrary table: the theorem is about tables, the table is about the code *)
Theorem C09_generic : forall T, writes T = [] -> set_iters T = [] -> rendering_pure T.
Proof. exact rendering_pure_generic. Qed.
Print Assumptions C09_generic.

(* an arbitrary (non-empty) table still gives the three conclusions on the part of a heap its effects cannot reach *)
Theorem C09_on_fragment :
  forall T sem w hist l c ord1 ord2,
    forallb (fun h => pure_on T w (fst (fst h))) hist = true ->
    ord_visible T w l = false ->
    run T sem w hist = w
    /\ snd (observe T sem (run T sem w hist) l c ord1) = snd (observe T sem w l c ord2)
    /\ (forall w2 l2, twin w l w2 l2 -> ord_visible T w2 l2 = false ->
          snd (observe T sem w l c ord1) = snd (observe T sem w2 l2 c ord2)).
Proof. exact rendering_pure_on_fragment. Qed.
Print Assumptions C09_on_fragment.

(* non-vacuity: the analysis covered the renderers; the hypotheses are necessary — a table with a cache write in
   get_sql, or with the historical set-typed FOR UPDATE OF (fixed in 68bca14), refutes the statement *)
Example C09_table_covers_renderers :
  mem_str "queries.QueryBuilder.get_sql" (analysed table) = true
  /\ mem_str "terms.Term.__hash__" (analysed table) = true
  /\ mem_str "dialects.PostgreSQLQueryBuilder._for_update_sql" (analysed table) = true
  /\ mem_str "utils.format_alias_sql" (analysed table) = true
  /\ mem_str "terms.ListParameter.update_parameters" (excluded table) = true
  /\ mem_str "queries.QueryBuilder" (ancestors table "dialects.MySQLQueryBuilder") = true.
Proof. vm_compute. repeat split. Qed.
Print Assumptions C09_table_covers_renderers.

Example C09_cache_write_refutes : ~ rendering_pure T_cache.
Proof. exact cache_write_breaks_purity. Qed.
Print Assumptions C09_cache_write_refutes.

Example C09_set_iteration_refutes : ~ rendering_pure T_forupdate.
Proof. exact set_iteration_breaks_order_independence. Qed.
Print Assumptions C09_set_iteration_refutes.

Example C09_fragment_nonvacuous :
  pure_on T_cache [mkObj "Table" [("alias", VAtom "None")]; mkObj "Q" []] 0 = true
  /\ pure_on T_cache [mkObj "Table" [("alias", VAtom "None")]; mkObj "Q" []] 1 = false
  /\ ord_visible T_forupdate [mkObj "Table" []] 0 = false
  /\ ord_visible T_forupdate w_forupdate 0 = true.
Proof. exact fragment_example. Qed.
Print Assumptions C09_fragment_nonvacuous.
