(* C06 — parameterised rendering is equivalent to inline rendering.
   Model: Param.v (token renderer over the shared Terms.term AST, threaded through the collector state; statement
   layer with the clause order of QueryBuilder.get_sql regenerated into gen/C06Table.v).
   The statement over ALL value types is still REFUTED on the faithful model by one class of payloads: numbers that
   are neither int nor float (Decimal) are collected as their text.  Under the value guard "no such payload is
   collected" the whole statement is PROVED for every statement and every collector class (C06_holds); its
   bookkeeping half holds without the guard.  (None collected as the string 'null' and set(field, <expression>)
   collected as SQL text were repaired in pypika 3c2a8b6 / c10cc28; the model follows the repaired code.) *)
From PV Require Import Base Crit gen.TermsTable Terms gen.C06Table Param.
From PV Require Import lemmas.ParamInline lemmas.ParamSim lemmas.ParamLemmas.
Local Open Scope list_scope.

(* What the property claims about one statement rendered with a fresh collector of class [sty]:
   [ti] inline tokens, [tp] parameterised tokens, [st'] the collector afterwards. *)
Definition C06_claims (isf : string -> bool) (sty : style) (ti tp : list tok) (st' : pstate) : Prop :=
     count_auto tp = List.length st'                                   (* the counts agree *)
  /\ bookkeeping sty [] tp st'                                         (* k-th placeholder <-> k-th value / its name maps to it; keys distinct *)
  /\ subst isf sty st' (unguard tp) = Some (map (by_value isf) (unguard ti))
       (* substituting the values' literals gives the inline tokens, by value -- up to the parentheses the inline renderer
          puts around an operand whose TEXT starts with a minus sign ("a"-(-1), -(-1), "a"-(-1*"b")): with a placeholder
          in front of it the text does not ("a"-?), so they are absent there; [unguard] erases them on both sides *)
  /\ count_lit ti = count_auto tp + count_lit tp.                      (* every literal is EITHER collected OR inline *)

Definition C06_full_statement : Prop :=
  forall (isf : string -> bool) (sty : style) (sqlite : bool) (s : stmt),
    match render_stmt isf None sqlite s [], render_stmt isf (Some sty) sqlite s [] with
    | Ok (ti, _), Ok (tp, st') => C06_claims isf sty ti tp st'
    | Err e, Err e' => e = e'                                          (* same exception either way *)
    | _, _ => False
    end.

(* ---- refutation: a Decimal in WHERE ---- *)
Definition w_decimal : stmt :=
  SSelect (Sel false [TField "a" None None] (SrcT "t" None) [] (WSome (WT (TBasic CGt (TField "b" None None) (TValRaw "1.50" None) None)))
               [] WNone [] None None).
Definition no_float (s : string) : bool := false.

Theorem C06_refuted : ~ C06_full_statement.
Proof.
  intros H. specialize (H no_float Qmark true w_decimal). vm_compute in H.
  destruct H as [_ [_ [H _]]]. discriminate H.
Qed.
Print Assumptions C06_refuted.

Definition w_collision : term :=
  TCplx BAnd (TBasic CEq (TField "a" None None) (TParam ":1") None) (TBasic CEq (TField "b" None None) (TValI 5 None) None) None.

Theorem C06_refutation_witnesses :
  (* Decimal: collected as the STRING "1.50", inline a number *)
  (exists tp ti, render_stmt no_float (Some Named) false w_decimal [] = Ok (tp, [("param1", VStr "1.50")])
              /\ render_stmt no_float None false w_decimal [] = Ok (ti, [])
              /\ subst no_float Named [("param1", VStr "1.50")] (unguard tp) <> Some (map (by_value no_float) (unguard ti)))
  (* NumericParameter next to an explicit Parameter(":1"): two placeholders spelled :1, one of them the collector's
     (the token view tells them apart, the text does not) *)
  /\ render_t no_float (Some Numeric) str_ctx w_collision [] =
       Ok ([KTxt """a"""; KTxt "="; KExp ":1"; KTxt " AND "; KTxt """b"""; KTxt "="; KAuto 0 ":1"], [("", VInt 5)]).
Proof.
  split; [|vm_compute; reflexivity].
  eexists. eexists. split; [vm_compute; reflexivity|]. split; [vm_compute; reflexivity|]. vm_compute. discriminate.
Qed.
Print Assumptions C06_refutation_witnesses.

(* behaviour after the repairs 3c2a8b6 / c10cc28 (regression documentation) *)
Definition w_none : stmt := SUpdate "t" [("a", SVal (TValNone None))] WNone.
Definition w_wrapped : stmt := SUpdate "t" [("a", SWrap (TArith OAdd (TField "b" None None) (TValI 1 None) None))] WNone.
Example C06_repaired_behaviour :
  (* set(a, None): a placeholder, and the collector holds None *)
  render_stmt no_float (Some Qmark) true w_none [] = Ok ([KTxt "UPDATE ""t"""; KTxt " SET "; KTxt """a""="; KAuto 0 "?"], [("", VNone)])
  (* set(a, b+1): the expression is rendered, its constant collected *)
  /\ render_stmt no_float (Some Numeric) false w_wrapped [] =
       Ok ([KTxt "UPDATE ""t"""; KTxt " SET "; KTxt """a""="; KTxt """b"""; KTxt "+"; KAuto 0 ":1"], [("", VInt 1)]).
Proof. split; vm_compute; reflexivity. Qed.

(* ---- what holds for ALL statements and ALL value types (whose literals have non-empty text) ---- *)
Definition any_lit (_ : lit) : bool := true.

(* same exceptions; counts / order / naming / distinct keys; token-for-token agreement where a placeholder stands
   for what the collector stores for the literal at that position; no literal both collected and inline *)
Theorem C06_bookkeeping_holds :
  forall isf sty sqlite (s : stmt), stmt_ok any_lit sqlite s = true ->
    match render_stmt isf None sqlite s [], render_stmt isf (Some sty) sqlite s [] with
    | Ok (ti, _), Ok (tp, st') =>
        count_auto tp = List.length st' /\ bookkeeping sty [] tp st' /\ aligned isf any_lit sty st' (unguard tp) (unguard ti)
        /\ count_lit ti = count_auto tp + count_lit tp
    | Err e, Err e' => e = e'
    | _, _ => False
    end.
Proof.
  intros isf sty sqlite s H. pose proof (stmt_outcome isf any_lit sty sqlite s H) as R. unfold outcome_rel in R.
  destruct (render_stmt isf None sqlite s []) as [[ti s0]|e], (render_stmt isf (Some sty) sqlite s []) as [[tp st']|e']; try exact R.
  destruct R as [B [A C]]. repeat split; try assumption; try apply B.
  destruct B as [L _]. cbn in L. symmetry. exact L.
Qed.
Print Assumptions C06_bookkeeping_holds.

(* ---- the value guard: every collected literal is a str / int / bool / float / None, i.e. no raw numeric payload
        that is not a float (Decimal) is collected; and literal texts are non-empty ---- *)
Definition C06_value_guard (isf : string -> bool) (sqlite : bool) (s : stmt) : bool := stmt_ok (lit_exact isf) sqlite s.

Definition C06_guarded_statement : Prop :=
  forall (isf : string -> bool) (sty : style) (sqlite : bool) (s : stmt), C06_value_guard isf sqlite s = true ->
    match render_stmt isf None sqlite s [], render_stmt isf (Some sty) sqlite s [] with
    | Ok (ti, _), Ok (tp, st') => C06_claims isf sty ti tp st'
    | Err e, Err e' => e = e'
    | _, _ => False
    end.

Theorem C06_on_fragment :
  forall isf sty sqlite (s : stmt), stmt_ok (lit_exact isf) sqlite s = true ->
    match render_stmt isf None sqlite s [], render_stmt isf (Some sty) sqlite s [] with
    | Ok (ti, _), Ok (tp, st') => C06_claims isf sty ti tp st'
    | Err e, Err e' => e = e'
    | _, _ => False
    end.
Proof.
  intros isf sty sqlite s H. pose proof (stmt_outcome isf (lit_exact isf) sty sqlite s H) as R. unfold outcome_rel in R.
  destruct (render_stmt isf None sqlite s []) as [[ti s0]|e], (render_stmt isf (Some sty) sqlite s []) as [[tp st']|e']; try exact R.
  destruct R as [B [A C]]. unfold C06_claims. repeat split; try assumption; try apply B.
  - destruct B as [L _]. cbn in L. symmetry. exact L.
  - apply aligned_subst, A.
Qed.
Print Assumptions C06_on_fragment.

Theorem C06_holds : C06_guarded_statement.
Proof. exact C06_on_fragment. Qed.
Print Assumptions C06_holds.

(* the guard is exactly what separates the two: a statement outside it that violates the claims is w_decimal *)
Example C06_guard_is_needed : C06_value_guard no_float false w_decimal = false.
Proof. vm_compute. reflexivity. Qed.

(* the same for a bare term under any keyword context *)
Theorem C06_terms_on_fragment :
  forall isf sty c (t : term), vals_ok (lit_exact isf) (truthy_ostr (sq c)) t = true ->
    match render_t isf None c t [], render_t isf (Some sty) c t [] with
    | Ok (ti, _), Ok (tp, st') => C06_claims isf sty ti tp st'
    | Err e, Err e' => e = e'
    | _, _ => False
    end.
Proof.
  intros isf sty c t H. pose proof (term_outcome isf (lit_exact isf) sty c t H) as R. unfold outcome_rel in R.
  destruct (render_t isf None c t []) as [[ti s0]|e], (render_t isf (Some sty) c t []) as [[tp st']|e']; try exact R.
  destruct R as [B [A C]]. unfold C06_claims. repeat split; try assumption; try apply B.
  - destruct B as [L _]. cbn in L. symmetry. exact L.
  - apply aligned_subst, A.
Qed.
Print Assumptions C06_terms_on_fragment.

(* a collector that is reused keeps its earlier entries and goes on numbering after them (what happens to the
   statement text when one collector serves two renderings is C09's subject) *)
Theorem C06_reused_collector :
  forall isf sty c (t : term) st, fresh_keys sty st -> vals_ok any_lit (truthy_ostr (sq c)) t = true ->
    forall tp st', render_t isf (Some sty) c t st = Ok (tp, st') -> bookkeeping sty st tp st'.
Proof.
  intros isf sty c t st F H tp st' E. pose proof (sim_term isf sty any_lit c t [] st H) as R. unfold relS in R.
  rewrite E in R. destruct (render_t isf None c t []) as [[ti s0]|e]; [|contradiction].
  destruct R as [_ [S _]]. pose proof (sim_bookkeeping isf sty any_lit st st' _ _ S F) as B. unfold bookkeeping in *.
  rewrite !autos_unguard, !count_auto_unguard in B. exact B.
Qed.
Print Assumptions C06_reused_collector.

(* without a collector the token renderer IS the shared expression renderer of Terms.v *)
Theorem C06_inline_is_shared_renderer :
  forall isf c t st,
    match render_t isf None c t st, render c t with
    | Ok (ts, st'), Ok s => st' = st /\ flatten ts = s /\ no_auto ts = true
    | Err e, Err e' => e = e'
    | _, _ => False
    end.
Proof. intros. apply inline_term. Qed.
Print Assumptions C06_inline_is_shared_renderer.

(* the generated placeholder texts / keys are those of the real classes (samples obtained by running them) *)
Theorem C06_placeholder_samples : forallb sample_ok ph_samples = true.
Proof. exact ph_samples_ok. Qed.
Print Assumptions C06_placeholder_samples.

(* the sign-protecting parentheses: "a"-(-1) inline, "a"-? with [-1] under a collector; -(-1) versus -? *)
Example C06_sign_parentheses :
  render_t no_float None str_ctx (TArith OSub (TField "a" None None) (TValI (-1) None) None) [] =
    Ok ([KTxt """a"""; KTxt "-"; KGuard "("; KLit (LInt (-1)) "-1"; KGuard ")"], [])
  /\ render_t no_float (Some Qmark) str_ctx (TArith OSub (TField "a" None None) (TValI (-1) None) None) [] =
    Ok ([KTxt """a"""; KTxt "-"; KAuto 0 "?"], [("", VInt (-1))])
  /\ render_t no_float None str_ctx (TNeg (TValI (-1) None)) [] = Ok ([KTxt "-"; KGuard "("; KLit (LInt (-1)) "-1"; KGuard ")"], [])
  /\ render_t no_float (Some Qmark) str_ctx (TNeg (TValI (-1) None)) [] = Ok ([KTxt "-"; KAuto 0 "?"], [("", VInt (-1))]).
Proof. repeat split; vm_compute; reflexivity. Qed.

(* operands are collected left before right (the order is read off ArithmeticExpression.get_sql on every run) *)
Example C06_operand_order :
  arith_left_first = true
  /\ render_t no_float (Some Qmark) str_ctx
       (TArith OSub (TArith OAdd (TValI 1 None) (TField "a" None None) None) (TValI 2 None) None) [] =
     Ok ([KAuto 0 "?"; KTxt "+"; KTxt """a"""; KTxt "-"; KAuto 1 "?"], [("", VInt 1); ("", VInt 2)]).
Proof. split; vm_compute; reflexivity. Qed.

(* explicitly named placeholders (ParameterValueWrapper(PyformatParameter("status"), v), custom placeholder generators):
   for EVERY name the dict classes recover exactly the name from the placeholder text, and the real classes do so on a pool of
   names that stress the slicing (names made of / ending in the delimiter characters) *)
Theorem C06_explicit_names :
  (forall sty name, is_dict sty = true -> param_key sty (explicit_text sty name) = name)
  /\ forallb named_sample_ok ph_named_samples = true.
Proof. split; [exact key_of_explicit|exact ph_named_samples_ok]. Qed.
Print Assumptions C06_explicit_names.

(* ---- non-vacuity ---- *)
Definition ex_stmt : stmt :=
  SSelect (Sel false
    [TField "a" None None; TCase (WCons (TBasic CEq (TField "b" None None) (TValI 1 None) None) (TValS "one" None) WNil) (OSome (TValS "it's" None)) (Some "k")]
    (SrcQ (Sel false [TField "a" None None; TField "b" None None] (SrcT "t" None) []
               (WSome (WT (TBetween (TField "c" None None) (TValI 2 None) (TValI 9 None) None))) [] WNone [] None None) (Some "sq0"))
    []
    (WSome (WAnd (WT (TBasic CEq (TFunc "LOWER" (TCons (TValS "X" None) TNil) None None) (TValS "x" None) None))
                 (WIn (TField "a" None None)
                      (Sel false [TField "a" None None] (SrcT "u" None) [] (WSome (WT (TBasic CGt (TField "b" None None) (TValB true true None) None))) [] WNone [] None None)
                      false)))
    [] (WSome (WT (TBasic CLt (TField "a" None None) (TValRaw "1.5" None) None))) [(TField "a" None None, Some false)] (Some 10%Z) None).
Definition ex_isf (s : string) : bool := String.eqb s "1.5".

Example C06_fragment_inhabited :
  stmt_ok (lit_exact ex_isf) true ex_stmt = true
  /\ (match render_stmt ex_isf (Some Pyformat) true ex_stmt [] with
      | Ok (tp, st') =>
          flatten tp = "SELECT ""a"",CASE WHEN ""b""=%(param1)s THEN %(param2)s ELSE %(param3)s END ""k"" FROM (SELECT ""a"",""b"" FROM ""t"" WHERE ""c"" BETWEEN %(param4)s AND %(param5)s) ""sq0"" WHERE LOWER('X')=%(param6)s AND ""a"" IN (SELECT ""a"" FROM ""u"" WHERE ""b"">%(param7)s) HAVING ""a""<%(param8)s ORDER BY ""a"" DESC LIMIT 10"
          /\ st' = [("param1", VInt 1); ("param2", VStr "one"); ("param3", VStr "it's"); ("param4", VInt 2); ("param5", VInt 9);
                    ("param6", VStr "x"); ("param7", VBool true); ("param8", VFloat "1.5")]
          /\ count_lit tp = 1
      | Err _ => False
      end).
Proof. split; [vm_compute; reflexivity|]. vm_compute. repeat split. Qed.
