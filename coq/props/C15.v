(* C15 — replace_table equals building the same object with the other table.
   Only the statements, the closing [exact]s / evaluations and Print Assumptions.

   subst A B = the object built by the same calls with B in place of A (specification);
   rep A B   = the traversal the code performs, driven by the table [visited] extracted from the sources on every run
               (gen/C15Table.v); rep_stmt may end in Err "TypeError" (a method that does not exist is called).        *)
From PV Require Import Base Crit gen.TermsTable Terms gen.C15Table Replace ReplaceCorr.
From PV Require Import lemmas.ReplaceEqs lemmas.ReplaceLemmas lemmas.ReplaceStmt.

(* ---- the property as worded: for every term / wrapper term / statement, replace = built with B; other tables untouched *)
Definition C15_full_statement : Prop :=
  forall A B : tref,
    (forall t, sub_foreign A t = true -> rep A B t = subst A B t)
    /\ (forall w, rep_wt A B w = subst_wt A B w)
    /\ (forall s, rep_stmt A B s = Ok (subst_stmt A B s))
    /\ (forall C t, tref_eqb C A = false -> tref_eqb C B = false -> count C (rep A B t) = count C t).

(* The faithful model refutes it: -a.x keeps table a. *)
Theorem C15_refuted : ~ C15_full_statement.
Proof.
  intro H. destruct (H wa wb) as [Ht _].
  specialize (Ht (TNeg (fa "x")) eq_refl). vm_compute in Ht. discriminate Ht.
Qed.
Print Assumptions C15_refuted.

(* One machine-checked witness per (class, child slot) that the code does not visit -- the list of unvisited slots is
   computed from the extracted table, so a slot that stops being visited needs (and has) a witness too: the code's
   result renders differently from the object built with b. *)
Theorem C15_refuted_every_unvisited_slot : forallb witness_differs unvisited_pairs = true.
Proof. vm_compute. reflexivity. Qed.
Print Assumptions C15_refuted_every_unvisited_slot.

(* ... and every visited slot's witness renders like the object built with b; where "visiting" means calling
   replace_table on an AliasedQuery (WITH) or a Table (plain Join), the result is TypeError. *)
Theorem C15_visited_slots_witnessed : forallb witness_agrees visited_pairs = true.
Proof. vm_compute. reflexivity. Qed.
Print Assumptions C15_visited_slots_witnessed.

(* sub-queries are compared with ==, never entered: FROM (sub-query), JOIN (sub-query) ON ..; WITH and cross joins raise *)
Definition sub_from : stmt :=
  with_ (stmt0 false) [SrcSub qa (Some "sq")] None None [] [WT (fc "y")] [] [] None None [] None [] [] [] [] [].
Definition sub_join : stmt := join_stmt (JOn "" (SrcSub qa (Some "j0")) (WT (cc "k"))).
Theorem C15_refuted_subqueries_and_raises :
  rep_show wa wb (OS sub_from) <> subst_show wa wb (OS sub_from)
  /\ rep_show wa wb (OS sub_join) <> subst_show wa wb (OS sub_join)
  /\ (forall A B s, vis (skind s) S__with = true -> s_with s <> [] -> rep_stmt A B s = Err "TypeError")
  /\ rep_stmt wa wb (join_stmt (JCross (SrcTable wc))) = Err "TypeError".
Proof.
  split; [vm_compute; discriminate|]. split; [vm_compute; discriminate|]. split; [|vm_compute; reflexivity].
  intros A B s V W. unfold rep_stmt, rep_withs. rewrite V. destruct (s_with s); [congruence | reflexivity].
Qed.
Print Assumptions C15_refuted_subqueries_and_raises.

(* ---- the fragment on which the property holds, at any depth (mutual induction over term/tlist/wlist/oterm) ---- *)
Theorem C15_on_fragment : forall A B t, covered A t = true -> rep A B t = subst A B t.
Proof. exact covered_rep_subst. Qed.
Print Assumptions C15_on_fragment.

Theorem C15_on_fragment_render : forall A B t c, covered A t = true -> render c (rep A B t) = render c (subst A B t).
Proof. intros A B t c H. rewrite (covered_rep_subst A B t H). reflexivity. Qed.
Print Assumptions C15_on_fragment_render.

(* the fragment is exact: for B other than A, outside [covered] the code's result is NOT the object built with B *)
Theorem C15_fragment_exact : forall A B t, tref_eqb B A = false -> sub_foreign A t = true ->
  (covered A t = true <-> rep A B t = subst A B t).
Proof. intros A B t H F. exact (covered_iff A B H t F). Qed.
Print Assumptions C15_fragment_exact.

(* wrapper terms (FILTER / OVER / EXTRACT / PERIOD / nested criterion / sub-queries as operands) and statements *)
Theorem C15_on_fragment_wterm : forall A B w c, cov_wt A w = true ->
  rep_wt A B w = subst_wt A B w /\ render_wt c (rep_wt A B w) = render_wt c (subst_wt A B w).
Proof. intros A B w c H. rewrite (cov_wt_ok A B w H). split; reflexivity. Qed.
Print Assumptions C15_on_fragment_wterm.

Theorem C15_on_fragment_stmt : forall A B s, cov_stmt A s = true ->
  rep_stmt A B s = Ok (subst_stmt A B s) /\ stmt_after A B s = (dump_stmt (subst_stmt A B s), star_names (subst_stmt A B s)).
Proof. intros A B s H. unfold stmt_after. rewrite (cov_stmt_ok A B s H). split; reflexivity. Qed.
Print Assumptions C15_on_fragment_stmt.

(* ---- other tables are untouched, A disappears ---- *)
Theorem C15_other_tables_untouched : forall A B C t, tref_eqb C A = false ->
  count C (subst A B t) = count C t + (if tref_eqb C B then count A t else 0)
  /\ (tref_eqb C B = false -> count C (rep A B t) = count C t).
Proof.
  intros A B C t CA. split; [apply (proj1 (count_subst_all A B C CA)) | intro CB; apply (proj1 (count_rep_all A B C CA CB))].
Qed.
Print Assumptions C15_other_tables_untouched.

Theorem C15_A_is_gone : forall A B t, tref_eqb B A = false -> count A (subst A B t) = 0.
Proof. intros A B t H. apply (proj1 (count_A_subst_all A B H)). Qed.
Print Assumptions C15_A_is_gone.

(* Table.__eq__ on name/schema/alias is equality: a table with another schema or alias is another table *)
Theorem C15_table_eq : forall a b, tref_eqb a b = true <-> a = b.
Proof. exact tref_eqb_eq. Qed.
Print Assumptions C15_table_eq.

(* ---- tie to the code: the slots visited today are still visited (dropping one breaks this) ---- *)
Example C15_expected_coverage : forallb (fun p => vis (fst p) (snd p)) expected_visited = true.
Proof. vm_compute. reflexivity. Qed.

(* ---- non-vacuity ---- *)
(* a depth-4 term with a four times (one near miss, one other table), entirely inside the fragment *)
Definition ex_term : term :=
  TCase (WCons (TCplx BAnd (TBasic CGt (TArith OMul (fa "x") (TFunc "ABS" (TCons (fa "y") TNil) None None) None) one None)
                           (TNot (TIsNull (fa "z") None) None) None)
               (TArith OAdd (TField "w" (Some {| tname := "a"; tschema := ["s"]; talias := None |}) None) (fc "n") None) WNil)
        (OSome (fa "e")) None.
Example C15_example_fragment :
  covered wa ex_term = true /\ count wa ex_term = 4 /\ count wb (rep wa wb ex_term) = 4 /\ count wa (rep wa wb ex_term) = 0
  /\ count {| tname := "a"; tschema := ["s"]; talias := None |} (rep wa wb ex_term) = 1
  /\ render ns_ctx (rep wa wb ex_term)
     = Ok "CASE WHEN ""b"".""x""*ABS(""b"".""y"")>1 AND NOT ""b"".""z"" IS NULL THEN ""a"".""w""+""c"".""n"" ELSE ""b"".""e"" END".
Proof. vm_compute. repeat split. Qed.

(* a statement inside the fragment: FROM, JOIN item and ON, select list, WHERE, GROUP BY, HAVING, ORDER BY, star set *)
Definition ex_stmt : stmt :=
  with_ (stmt0 false) [SrcTable wa] None None [] [WT (TStar (Some wa)); WT (TFunc "SUM" (TCons (fa "x") TNil) None (Some "s"))] [] []
        (Some (WT (ca "y"))) None [WT (fa "g")] (Some (WT (TBasic CGt (TFunc "SUM" (TCons (fa "x") TNil) None None) one None)))
        [(WT (fa "o"), Some "DESC")] [JOn "LEFT" (SrcTable wc) (WT (TBasic CEq (fc "k") (fa "k") None))] [] [wa] [].
Example C15_example_stmt :
  cov_stmt wa ex_stmt = true
  /\ fst (stmt_after wa wb ex_stmt)
     = "Q FROM[""b""] INS[] UPD[] WITH[] SEL[""b"".*;SUM(""b"".""x"") ""s""] COL[] VAL[] WHERE[""b"".""y""=1] PRE[] GRP[""b"".""g""] HAV[SUM(""b"".""x"")>1] ORD[""b"".""o"" DESC] JOIN[JoinOn:LEFT:""c"":ON ""c"".""k""=""b"".""k""] SET[] LBY[]"
  /\ snd (stmt_after wa wb ex_stmt) = ["""b"""].
Proof. vm_compute. repeat split. Qed.

(* outside the fragment: the IN list keeps a although the tested operand is replaced *)
Example C15_example_outside :
  let t := TIn (fa "x") (TTuple (TCons (fa "y") (TCons one TNil)) None) false None in
  covered wa t = false
  /\ render ns_ctx (rep wa wb t) = Ok """b"".""x"" IN (""a"".""y"",1)"
  /\ render ns_ctx (subst wa wb t) = Ok """b"".""x"" IN (""b"".""y"",1)".
Proof. vm_compute. repeat split. Qed.
