(* C15 — replace_table equals building the same object with the other table.
   Only the statements, the closing [exact]s / evaluations and Print Assumptions.

   subst A B = the object built by the same calls with B in place of A (specification);
   rep A B   = the traversal the code performs, driven by the table [visited] extracted from the sources on every run
               (gen/C15Table.v); rep_stmt may end in Err "TypeError" (a method that does not exist is called).        *)
From PV Require Import Base Crit gen.TermsTable Terms gen.C15Table Replace ReplaceCorr.
From PV Require Import lemmas.ReplaceEqs lemmas.ReplaceLemmas lemmas.ReplaceStmt lemmas.ReplaceFull.

Notation rep := (Replace.rep tcfg).
Notation covered := (Replace.covered tcfg).
Notation rep_wt := (Replace.rep_wt tcfg).
Notation cov_wt := (Replace.cov_wt tcfg).
Notation rep_stmt := (Replace.rep_stmt tcfg).
Notation cov_stmt := (Replace.cov_stmt tcfg).

(* ---- the property as worded, for everything the model has an object for:
        terms of the shared expression AST (Field, Star, constants, Negative, ArithmeticExpression, Basic/ComplexCriterion,
        ContainsCriterion, BetweenCriterion, BitwiseAndCriterion with a constant, Null/NotNullCriterion, Not, All, Case,
        Function/Cast, Tuple, Array; the fixed sub-query leaf TSub over a table other than A),
        wrapper terms (AggregateFunction+FILTER, AnalyticFunction+FILTER/PARTITION BY/ORDER BY, Extract, PeriodCriterion,
        NestedCriterion, sub-query as term / IN container / comparison operand / EXISTS, ValueWrapper(term), AtTimezone),
        statements of QueryBuilder, ClickHouse-, PostgreSQL-, MySQLQueryBuilder (FROM tables / sub-queries / named queries,
        INSERT and UPDATE target, WITH, select list, columns, VALUES rows, WHERE, PREWHERE, GROUP BY, HAVING, ORDER BY,
        cross / ON / USING joins over tables or sub-queries, SET pairs, star-table set, LIMIT BY, DISTINCT ON, RETURNING,
        DELETE..USING tables, ON DUPLICATE KEY UPDATE pairs);
        (extracted, probed and pinned by C15_expected_coverage but without an object in this model: _SetOperation, the
        PostgreSQL ON CONFLICT parts, terms.Values, a term as right operand of BitwiseAndCriterion, the clickhouse helpers
        HasAny / Length, Empty, NotEmpty / ToFixedString, and Interval operands (a Node that is not a Term) -- exercised by the
        oracle on the implementation);
        replace = the object built with B; other tables untouched.  [wf_stmt]: dialect-only slots are empty elsewhere. *)
Definition C15_full_statement : Prop :=
  forall A B : tref,
    (forall t, sub_foreign A t = true -> rep A B t = subst A B t)
    /\ (forall w, sf_wt A w = true -> rep_wt A B w = subst_wt A B w)
    /\ (forall s, wf_stmt s = true -> sf_stmt A s = true -> rep_stmt A B s = Ok (subst_stmt A B s))
    /\ (forall C t, tref_eqb C A = false -> tref_eqb C B = false -> count C (rep A B t) = count C t).

(* It HOLDS as soon as the extracted configuration is complete: every slot of every modelled class entered, WITH bodies
   rebuilt, FROM entries / join items compared and, when sub-queries, entered.  (Generic theorem, any configuration.) *)
Theorem C15_holds_when_all_visited : full_cfg tcfg = true -> C15_full_statement.
Proof. intros F A B. exact (full_cfg_holds tcfg F A B). Qed.
Print Assumptions C15_holds_when_all_visited.

(* It is REFUTED as soon as one candidate object (the witness of a (class, slot) pair, a sub-query in FROM / JOIN, a WITH
   clause) renders differently after the code's traversal than after the specification. *)
Theorem C15_refuted_by : forall o, refuting o = true -> ~ C15_full_statement.
Proof.
  intros o R H. unfold refuting in R. apply andb_true_iff in R. destruct R as [K D].
  destruct (H wa wb) as [_ [Hw [Hs _]]]. apply negb_true_iff in D.
  destruct o as [w|s]; unfold rep_show, subst_show in D; simpl in K.
  - rewrite (Hw w K) in D. rewrite String.eqb_refl in D. discriminate.
  - apply andb_true_iff in K. destruct K as [K1 K2]. rewrite (Hs s K1 K2) in D. rewrite String.eqb_refl in D. discriminate.
Qed.
Print Assumptions C15_refuted_by.

(* The verdict for the configuration extracted from the sources of THIS run: holds, or refuted by a computed witness. *)
Theorem C15_verdict : if full_cfg tcfg then C15_full_statement else ~ C15_full_statement.
Proof.
  destruct (full_cfg tcfg) eqn:F.
  - exact (C15_holds_when_all_visited F).
  - first [ (vm_compute in F; discriminate F)
          | (assert (E : existsb refuting candidates = true) by (vm_compute; reflexivity);
             apply existsb_exists in E; destruct E as [o [_ R]]; exact (C15_refuted_by o R)) ].
Qed.
Print Assumptions C15_verdict.

(* Since 9e54a8b (DELETE..USING tables) the extracted configuration is complete: the property HOLDS for every object of the
   model -- all terms of the shared expression AST, all wrapper terms, all well-formed statements of the four builder classes
   (the exact list is in the comment of C15_full_statement).  [full_cfg tcfg = true] is checked by evaluation of the table
   extracted from the sources of this run: a replace_table that stops entering any modelled slot breaks this proof. *)
Theorem C15_holds : C15_full_statement.
Proof. exact (C15_holds_when_all_visited eq_refl). Qed.
Print Assumptions C15_holds.

(* in terms of rendering: the replaced object renders exactly like the object built with B, in every context *)
Theorem C15_holds_render : forall A B,
  (forall t c, sub_foreign A t = true -> render c (rep A B t) = render c (subst A B t))
  /\ (forall w c, sf_wt A w = true -> render_wt c (rep_wt A B w) = render_wt c (subst_wt A B w))
  /\ (forall s, wf_stmt s = true -> sf_stmt A s = true ->
        stmt_after A B s = (dump_stmt (subst_stmt A B s), star_names (subst_stmt A B s))).
Proof.
  intros A B. destruct (C15_holds A B) as [Ht [Hw [Hs _]]]. split; [|split].
  - intros t c F. rewrite (Ht t F). reflexivity.
  - intros w c F. rewrite (Hw w F). reflexivity.
  - intros s W F. unfold stmt_after. rewrite (Hs s W F). reflexivity.
Qed.
Print Assumptions C15_holds_render.

(* Independently of the statement-level verdict: the property holds for every term of the shared expression AST,
   because every slot of every expression class is visited (dropping one breaks this proof). *)
Theorem C15_holds_on_terms : forall A B t, sub_foreign A t = true ->
  rep A B t = subst A B t /\ (forall c, render c (rep A B t) = render c (subst A B t)).
Proof.
  intros A B t F.
  assert (E : rep A B t = subst A B t).
  { apply covered_rep_subst. apply (proj1 (all_visited_covered_all tcfg A eq_refl)). exact F. }
  rewrite E. split; reflexivity.
Qed.
Print Assumptions C15_holds_on_terms.

(* One machine-checked witness per (class, child slot) that the code does not visit -- the list of unvisited slots is
   computed from the extracted table, so a slot that stops being visited needs (and has) a witness too: the code's
   result renders differently from the object built with b.  Today: ValueWrapper.value (the value of a SET pair). *)
Theorem C15_refuted_every_unvisited_slot : forallb witness_differs unvisited_pairs = true.
Proof. vm_compute. reflexivity. Qed.
Print Assumptions C15_refuted_every_unvisited_slot.

(* ... and every visited slot's witness renders like the object built with b (or is TypeError where the extracted
   mode says that a method that does not exist is called -- nowhere, today). *)
Theorem C15_visited_slots_witnessed : forallb witness_agrees visited_pairs = true.
Proof. vm_compute. reflexivity. Qed.
Print Assumptions C15_visited_slots_witnessed.

(* sub-queries as FROM item, JoinOn item and plain Join item are entered since 6a71a3e ... *)
Theorem C15_subqueries_entered :
  rep_show wa wb (OS sub_from) = subst_show wa wb (OS sub_from)
  /\ rep_show wa wb (OS sub_join) = subst_show wa wb (OS sub_join)
  /\ rep_show wa wb (OS sub_cross) = subst_show wa wb (OS sub_cross)
  /\ cov_stmt wa sub_from = true /\ cov_stmt wa sub_join = true /\ cov_stmt wa sub_cross = true.
Proof. vm_compute. repeat split. Qed.
Print Assumptions C15_subqueries_entered.
(* ... whereas the comparison-only handling of the code before 6a71a3e (mode MCmp) leaves table a in all three *)
Definition cmp_cfg : cfg :=
  {| cvis := cvis tcfg; c_with_by_call := false; c_src_mode := fun _ => MCmp; c_with_ok := false; c_item_ok := false |}.
Theorem C15_cmp_mode_misses_subqueries :
  forallb (fun s => match Replace.rep_stmt cmp_cfg wa wb s with
                    | Ok s' => negb (String.eqb (show_stmt s') (show_stmt (subst_stmt wa wb s)))
                    | Err _ => false end) [sub_from; sub_join; sub_cross] = true.
Proof. vm_compute. reflexivity. Qed.
Print Assumptions C15_cmp_mode_misses_subqueries.

(* the TypeError of the code before 11d7c56, kept as a theorem about the generic model: whenever _with is handled by
   calling replace_table on an AliasedQuery (which has no such method), any non-empty WITH list raises; with today's
   extracted configuration nothing raises *)
Theorem C15_with_by_call_raises : forall cf A B s,
  cvis cf (skind s) S__with = true -> c_with_by_call cf = true -> c_with_ok cf = false -> s_with s <> [] ->
  Replace.rep_stmt cf A B s = Err "TypeError".
Proof.
  intros cf A B s V W K N. unfold Replace.rep_stmt, rep_withs. rewrite V, W, K. destruct (s_with s); [congruence | reflexivity].
Qed.
Print Assumptions C15_with_by_call_raises.
Example C15_no_raise_today :
  c_with_by_call tcfg = false /\ c_src_mode tcfg KJoin = MCmpEnter
  /\ (exists s', rep_stmt wa wb (with_ (stmt0 QGeneric) [SrcTable wa] None None [("w", qa)] [WT (fa "x")] [] [] None None [] None []
                                        [JCross (SrcTable wa)] [] [] []) = Ok s'
                  /\ show_stmt s' = "Q FROM[""b""] INS[] UPD[] WITH[w=SELECT ""k"" FROM ""b""] SEL[""b"".""x""] COL[] VAL[] WHERE[] PRE[] GRP[] HAV[] ORD[] JOIN[Join::""b""] SET[] LBY[] DON[] RET[] USING[] DUP[] STAR[]").
Proof. split; [reflexivity|]. split; [reflexivity|]. eexists. split; vm_compute; reflexivity. Qed.

(* ---- the fragment on which the property holds, at any depth, for ANY configuration of visited slots ---- *)
Theorem C15_on_fragment : forall cf A B t, Replace.covered cf A t = true -> Replace.rep cf A B t = subst A B t.
Proof. exact covered_rep_subst. Qed.
Print Assumptions C15_on_fragment.

Theorem C15_on_fragment_render : forall A B t c, covered A t = true -> render c (rep A B t) = render c (subst A B t).
Proof. intros A B t c H. rewrite (covered_rep_subst tcfg A B t H). reflexivity. Qed.
Print Assumptions C15_on_fragment_render.

(* the fragment is exact: for B other than A, outside [covered] the code's result is NOT the object built with B *)
Theorem C15_fragment_exact : forall cf A B t, tref_eqb B A = false -> sub_foreign A t = true ->
  (Replace.covered cf A t = true <-> Replace.rep cf A B t = subst A B t).
Proof. intros cf A B t H F. exact (covered_iff cf A B H t F). Qed.
Print Assumptions C15_fragment_exact.

(* wrapper terms (FILTER / OVER / EXTRACT / PERIOD / nested criterion / sub-queries as operands) and statements *)
Theorem C15_on_fragment_wterm : forall A B w c, cov_wt A w = true ->
  rep_wt A B w = subst_wt A B w /\ render_wt c (rep_wt A B w) = render_wt c (subst_wt A B w).
Proof. intros A B w c H. rewrite (cov_wt_ok tcfg A B w H). split; reflexivity. Qed.
Print Assumptions C15_on_fragment_wterm.

Theorem C15_on_fragment_stmt : forall A B s, cov_stmt A s = true ->
  rep_stmt A B s = Ok (subst_stmt A B s) /\ stmt_after A B s = (dump_stmt (subst_stmt A B s), star_names (subst_stmt A B s)).
Proof. intros A B s H. unfold stmt_after. rewrite (cov_stmt_ok tcfg A B s H). split; reflexivity. Qed.
Print Assumptions C15_on_fragment_stmt.

(* ---- other tables are untouched, A disappears ---- *)
Theorem C15_other_tables_untouched : forall A B C t, tref_eqb C A = false ->
  count C (subst A B t) = count C t + (if tref_eqb C B then count A t else 0)
  /\ (tref_eqb C B = false -> count C (rep A B t) = count C t).
Proof.
  intros A B C t CA. split; [apply (proj1 (count_subst_all A B C CA)) | intro CB; apply (proj1 (count_rep_all tcfg A B C CA CB))].
Qed.
Print Assumptions C15_other_tables_untouched.

Theorem C15_A_is_gone : forall A B t, tref_eqb B A = false -> count A (subst A B t) = 0.
Proof. intros A B t H. apply (proj1 (count_A_subst_all A B H)). Qed.
Print Assumptions C15_A_is_gone.

(* Table.__eq__ on name/schema/alias is equality: a table with another schema or alias is another table *)
Theorem C15_table_eq : forall a b, tref_eqb a b = true <-> a = b.
Proof. exact tref_eqb_eq. Qed.
Print Assumptions C15_table_eq.

(* ---- tie to the code: the slots visited today are still visited (dropping one breaks this) ---- *)
Example C15_expected_coverage : forallb (fun p => vis (fst p) (snd p)) expected_visited = true.
Proof. vm_compute. reflexivity. Qed.

(* ---- non-vacuity ---- *)
(* a depth-4 term with a four times (one near miss, one other table), entirely inside the fragment *)
Definition ex_term : term :=
  TCase (WCons (TCplx BAnd (TBasic CGt (TArith OMul (fa "x") (TFunc "ABS" (TCons (fa "y") TNil) None None) None) one None)
                           (TNot (TIsNull (fa "z") None) None) None)
               (TArith OAdd (TField "w" (Some {| tname := "a"; tschema := ["s"]; talias := None |}) None) (fc "n") None) WNil)
        (OSome (fa "e")) None.
Example C15_example_fragment :
  covered wa ex_term = true /\ count wa ex_term = 4 /\ count wb (rep wa wb ex_term) = 4 /\ count wa (rep wa wb ex_term) = 0
  /\ count {| tname := "a"; tschema := ["s"]; talias := None |} (rep wa wb ex_term) = 1
  /\ render ns_ctx (rep wa wb ex_term)
     = Ok "CASE WHEN ""b"".""x""*ABS(""b"".""y"")>1 AND NOT ""b"".""z"" IS NULL THEN ""a"".""w""+""c"".""n"" ELSE ""b"".""e"" END".
Proof. vm_compute. repeat split. Qed.

(* a statement inside the fragment: FROM, JOIN item and ON, select list, WHERE, GROUP BY, HAVING, ORDER BY, star set *)
Definition ex_stmt : stmt :=
  with_ (stmt0 QGeneric) [SrcTable wa] None None [] [WT (TStar (Some wa)); WT (TFunc "SUM" (TCons (fa "x") TNil) None (Some "s"))] [] []
        (Some (WT (ca "y"))) None [WT (fa "g")] (Some (WT (TBasic CGt (TFunc "SUM" (TCons (fa "x") TNil) None None) one None)))
        [(WT (fa "o"), Some "DESC")] [JOn "LEFT" (SrcTable wc) (WT (TBasic CEq (fc "k") (fa "k") None))] [] [wa] [].
Example C15_example_stmt :
  cov_stmt wa ex_stmt = true
  /\ fst (stmt_after wa wb ex_stmt)
     = "Q FROM[""b""] INS[] UPD[] WITH[] SEL[""b"".*;SUM(""b"".""x"") ""s""] COL[] VAL[] WHERE[""b"".""y""=1] PRE[] GRP[""b"".""g""] HAV[SUM(""b"".""x"")>1] ORD[""b"".""o"" DESC] JOIN[JoinOn:LEFT:""c"":ON ""c"".""k""=""b"".""k""] SET[] LBY[] DON[] RET[] USING[] DUP[]"
  /\ snd (stmt_after wa wb ex_stmt) = ["""b"""].
Proof. vm_compute. repeat split. Qed.

(* the value of a SET pair (a ValueWrapper around a term) is replaced since 1c7b7d2 *)
Example C15_example_set_value :
  let s := with_ (stmt0 QGeneric) [SrcTable wc] None (Some wa) [] [] [] [] None None [] None [] [] [(fa "c0", WT (fa "y"))] [] [] in
  cov_stmt wa s = true
  /\ (exists s', rep_stmt wa wb s = Ok s' /\ s_updates s' = [(TField "c0" (Some wb) None, WT (TField "y" (Some wb) None))]).
Proof. vm_compute. split; [reflexivity|]. eexists; split; reflexivity. Qed.

(* the IN list, which kept a before b9f327b, is inside the fragment now *)
Example C15_example_in_list :
  let t := TIn (fa "x") (TTuple (TCons (fa "y") (TCons one TNil)) None) false None in
  covered wa t = true /\ render ns_ctx (rep wa wb t) = Ok """b"".""x"" IN (""b"".""y"",1)".
Proof. vm_compute. repeat split. Qed.
