(* C05 — INSERT, UPDATE and DELETE statements have exactly the intended effect.
   SYNTACTIC HALF (proved here): whatever list of builder calls expresses a DML specification, the builder accepts
   it, the statement renders, and the positional reader of the SQLite DML grammar reads back exactly the
   specification: verb, table, column list in order, every value token in the row and column (or SET pair) it was
   given for, the criterion text.  Value tokens denote the given values (storage class and content).
   ENGINE HALF (not a theorem: Coq cannot run SQLite): that SQLite gives this grammar the positional meaning is
   validated on every run by harness/props/C05.py (state differential against a reference that does not use pypika).
   This file holds only statements, closing [exact]s, examples and Print Assumptions. *)
From PV Require Import Base Crit gen.TermsTable Terms Page gen.QueryTable Query Dml
                       lemmas.DmlRead lemmas.DmlRender lemmas.DmlStep lemmas.DmlLemmas.

(* ---- DML specifications ---- *)
Inductive dml_spec :=
| SpInsert (m : imode) (tbl : string) (cols : list string) (rows : list (list pyval))
| SpInsertSelect (m : imode) (tbl : string) (cols : list string) (from : list tref) (sels : list term) (wh : option term)
| SpUpdate (tbl : string) (sets : list (string * pyval)) (wh : option term)
| SpDelete (tbl : string) (wh : option term).

Definition ptab (n : string) : tref := {| tname := n; tschema := []; talias := None |}.
Definition t_of (r : res dstate) : res string := match r with Ok st => dml_text st | Err e => Err e end.
Definition spec_table (s : dml_spec) : string :=
  match s with SpInsert _ t _ _ | SpInsertSelect _ t _ _ _ _ | SpUpdate t _ _ | SpDelete t _ => t end.
Definition start_of (s : dml_spec) : start :=
  match s with
  | SpInsert _ t _ _ | SpInsertSelect _ t _ _ _ _ => SInto (ptab t)
  | SpUpdate t _ _ => SUpdate (ptab t)
  | SpDelete t _ => SDelete (ptab t)
  end.
(* names free of the identifier quote; at least one row / SET pair / select item; rows non-empty; values literal
   (str — ANY bytes —, int, bool, None, float text) *)
Definition wf_spec (s : dml_spec) : bool :=
  name_ok (spec_table s) &&
  match s with
  | SpInsert _ _ cols rows =>
      forallb name_ok cols && match rows with [] => false | _ => true end && forallb lit_row rows
  | SpInsertSelect _ _ cols _ sels _ => forallb name_ok cols && match sels with [] => false | _ => true end
  | SpUpdate _ sets _ =>
      match sets with [] => false | _ => true end && forallb (fun p => name_ok (fst p) && lit_val (snd p)) sets
  | SpDelete _ _ => true
  end.

(* a call list expresses a specification: its calls are of the statement's kind and legal shape, and their
   positional summary (Dml.v section 4) is the specification.  Chained insert() calls, columns() before or after
   insert(), (1,2),(3,4) vs [..],[..] vs a single tuple, several set() calls, where() before or after set(),
   replace()/insert_or_replace() are all covered: the summary functions do not care. *)
Definition expresses (c : cls) (s : dml_spec) (cs : list call) : Prop :=
  match s with
  | SpInsert m _ cols rows =>
      forallb (insert_call_ok c) cs = true /\ cols_of_calls cs = map CStr cols /\ rows_of_calls cs = rows
      /\ mode_of_calls cs = m
  | SpInsertSelect m _ cols fr sels wh =>
      forallb inssel_call_ok cs = true /\ cols_of_calls cs = map CStr cols /\ froms_of_calls cs = fr
      /\ sels_of_calls cs = sels /\ where_of_calls cs = wh /\ mode_of_calls cs = m
  | SpUpdate _ sets wh =>
      forallb update_call_ok cs = true /\ sets_of_calls cs = map (fun p => (CStr (fst p), snd p)) sets
      /\ where_of_calls cs = wh
  | SpDelete _ wh => forallb delete_call_ok cs = true /\ where_of_calls cs = wh
  end.

(* the statement the specification asks for; criteria and the SELECT of INSERT ... SELECT are opaque: their text is
   whatever the shared renderer (Query.v / Terms.v) writes for them in that position *)
Definition ast_of (c : cls) (s : dml_spec) : res dml_ast :=
  match s with
  | SpInsert m t cols rows => Ok (AInsert m t cols (map (map (value_tok_ins c)) rows))
  | SpInsertSelect m t cols fr sels wh =>
      match ins_sel_res c (QSel c [] false (map IT sels) (map SrcT fr) [] (option_map IT wh) None [] [] None None false None) with
      | Ok s => if starts_select s then Ok (AInsertSelect m t cols s) else Err "not a SELECT"
      | Err e => Err e
      end
  | SpUpdate t sets wh =>
      match where_res (upd_where_res c (ptab t)) wh with
      | Ok wo => Ok (AUpdate t (map (fun p => (fst p, value_tok_set c (snd p))) sets) wo)
      | Err e => Err e
      end
  | SpDelete t wh =>
      match where_res (del_where_res c (ptab t)) wh with
      | Ok wo => Ok (ADelete t wo)
      | Err e => Err e
      end
  end.

Definition C05_full_statement : Prop :=
  forall c spec cs ast,
    dml_cls_ok c = true ->            (* the class quotes identifiers and strings like SQLLiteQuery (decided on the extracted table) *)
    wf_spec spec = true -> expresses c spec cs -> ast_of c spec = Ok ast ->
    exists st txt, run c (start_of spec) cs = Ok st /\ dml_text st = Ok txt /\ parse_dml txt = Some ast.

Lemma map_CStr_str cols : forallb name_ok cols = true -> forallb str_col (map CStr cols) = true /\ map col_str (map CStr cols) = cols.
Proof.
  induction cols as [|x r IH]; intros H; [split; reflexivity|]. cbn [forallb] in H. apply andb_prop in H as [Hx Hr].
  destruct (IH Hr) as [I1 I2]. cbn [map forallb str_col col_str]. rewrite Hx, I1, I2. split; reflexivity.
Qed.
Lemma sets_CStr c sets : forallb (fun p : string * pyval => name_ok (fst p) && lit_val (snd p)) sets = true ->
  forallb set_ok (map (fun p => (CStr (fst p), snd p)) sets) = true
  /\ set_toks c (map (fun p => (CStr (fst p), snd p)) sets) = map (fun p => (fst p, value_tok_set c (snd p))) sets.
Proof.
  induction sets as [|[n v] r IH]; intros H; [split; reflexivity|]. cbn [forallb fst snd] in H. apply andb_prop in H as [Hx Hr].
  destruct (IH Hr) as [I1 I2]. unfold set_toks, set_ok in *. cbn [map forallb fst snd str_col col_str]. rewrite Hx, I1, I2. split; reflexivity.
Qed.

Theorem C05_holds : C05_full_statement.
Proof.
  intros c spec cs ast Hc Hwf Hex Hast. unfold wf_spec in Hwf. apply andb_prop in Hwf as [Hname Hwf].
  assert (Hpt : plain_table (ptab (spec_table spec)) = true) by (unfold plain_table, ptab; cbn [tname tschema talias]; rewrite Hname; reflexivity).
  destruct spec as [m t cols rows|m t cols fr sels wh|t sets wh|t wh]; cbn [spec_table start_of] in *.
  - destruct Hex as (H1 & H2 & H3 & H4). apply andb_prop in Hwf as [Hwf Hr]. apply andb_prop in Hwf as [Hcn Hne].
    destruct (map_CStr_str cols Hcn) as [M1 M2]. injection Hast as <-.
    destruct (insert_reads_back c (ptab t) cs Hc Hpt H1) as (st & txt & R1 & R2 & _ & R4).
    + rewrite H2. exact M1.
    + rewrite H3. destruct rows; [discriminate|discriminate].
    + rewrite H3. exact Hr.
    + exists st, txt. rewrite H2, H3, H4, M2 in R4. auto.
  - destruct Hex as (H1 & H2 & H3 & H4 & H5 & H6). apply andb_prop in Hwf as [Hcn Hne].
    destruct (map_CStr_str cols Hcn) as [M1 M2]. cbn [ast_of] in Hast.
    destruct (ins_sel_res c _) as [s|e] eqn:Es; [|discriminate]. destruct (starts_select s) eqn:Ess; [|discriminate]. injection Hast as <-.
    destruct (insert_select_reads_back c (ptab t) cs s Hc Hpt H1) as (st & txt & R1 & R2 & _ & R4).
    + rewrite H2. exact M1.
    + rewrite H4. destruct sels; [discriminate|discriminate].
    + unfold inssel_query. rewrite H3, H4, H5. exact Es.
    + exact Ess.
    + exists st, txt. rewrite H2, H6, M2 in R4. auto.
  - destruct Hex as (H1 & H2 & H3). apply andb_prop in Hwf as [Hne Hs]. destruct (sets_CStr c sets Hs) as [S1 S2].
    cbn [ast_of] in Hast. destruct (where_res _ wh) as [wo|e] eqn:Ew; [|discriminate]. injection Hast as <-.
    destruct (update_reads_back c (ptab t) cs wo Hc Hpt H1) as (st & txt & R1 & R2 & _ & R4).
    + rewrite H2. destruct sets; [discriminate|discriminate].
    + rewrite H2. exact S1.
    + rewrite H3. exact Ew.
    + exists st, txt. rewrite H2, S2 in R4. auto.
  - destruct Hex as (H1 & H2). cbn [ast_of] in Hast. destruct (where_res _ wh) as [wo|e] eqn:Ew; [|discriminate]. injection Hast as <-.
    destruct (delete_reads_back c (ptab t) cs wo Hc Hpt H1) as (st & txt & R1 & R2 & _ & R4).
    + rewrite H2. exact Ew.
    + exists st, txt. auto.
Qed.
Print Assumptions C05_holds.

(* "every value lands in the row and column it was given for, in the order given": for every expressing call list
   the statement read back from the text has the specification's column list, and its r-th row is, position by
   position, the token of the r-th given row; each token denotes the given value (storage class and content) *)
Theorem C05_values_land : forall c m t cols rows cs,
  dml_cls_ok c = true -> wf_spec (SpInsert m t cols rows) = true -> expresses c (SpInsert m t cols rows) cs ->
  exists st txt rows', run c (SInto (ptab t)) cs = Ok st /\ dml_text st = Ok txt
    /\ parse_dml txt = Some (AInsert m t cols rows')
    /\ List.length rows' = List.length rows
    /\ (forall r, nth r rows' [] = map (value_tok_ins c) (nth r rows []))
    /\ (forall r k v, nth_error (nth r rows []) k = Some v ->
          exists l, nth_error (nth r rows' []) k = Some l /\ lit_value l = pyval_value v).
Proof.
  intros c m t cols rows cs Hc Hwf Hex.
  destruct (C05_holds c (SpInsert m t cols rows) cs _ Hc Hwf Hex eq_refl) as (st & txt & R1 & R2 & R3).
  exists st, txt, (map (map (value_tok_ins c)) rows). repeat split; auto.
  - apply map_length.
  - intros r. change (@nil lit) with (map (value_tok_ins c) []). apply map_nth.
  - intros r k v Hv. exists (value_tok_ins c v). split.
    + change (@nil lit) with (map (value_tok_ins c) []). rewrite map_nth. apply map_nth_error. exact Hv.
    + apply inserted_value_denotes.
      unfold wf_spec in Hwf. apply andb_prop in Hwf as [_ Hwf]. apply andb_prop in Hwf as [_ Hr].
      rewrite forallb_forall in Hr.
      destruct (Nat.lt_ge_cases r (List.length rows)) as [Hlt|Hge].
      * assert (Hin : In (nth r rows []) rows) by (apply nth_In; exact Hlt).
        specialize (Hr _ Hin). unfold lit_row in Hr. destruct (nth r rows []) as [|x xs] eqn:E; [destruct k; discriminate|].
        rewrite forallb_forall in Hr. apply Hr. eapply nth_error_In. exact Hv.
      * rewrite (nth_overflow rows [] Hge) in Hv. destruct k; discriminate.
Qed.
Print Assumptions C05_values_land.

(* SET pairs in the order given, each value token denoting the given value *)
Theorem C05_sets_in_order : forall c t sets wh cs wo,
  dml_cls_ok c = true -> wf_spec (SpUpdate t sets wh) = true -> expresses c (SpUpdate t sets wh) cs ->
  where_res (upd_where_res c (ptab t)) wh = Ok wo ->
  exists st txt, run c (SUpdate (ptab t)) cs = Ok st /\ dml_text st = Ok txt
    /\ parse_dml txt = Some (AUpdate t (map (fun p => (fst p, value_tok_set c (snd p))) sets) wo)
    /\ (forall k n v, nth_error sets k = Some (n, v) -> lit_value (value_tok_set c v) = pyval_value v).
Proof.
  intros c t sets wh cs wo Hc Hwf Hex Hw.
  assert (Hast : ast_of c (SpUpdate t sets wh) = Ok (AUpdate t (map (fun p => (fst p, value_tok_set c (snd p))) sets) wo))
    by (cbn [ast_of]; rewrite Hw; reflexivity).
  destruct (C05_holds c (SpUpdate t sets wh) cs _ Hc Hwf Hex Hast) as (st & txt & R1 & R2 & R3).
  exists st, txt. repeat split; auto.
  intros k n v Hk. apply assigned_value_denotes.
  unfold wf_spec in Hwf. apply andb_prop in Hwf as [_ Hwf]. apply andb_prop in Hwf as [_ Hs].
  rewrite forallb_forall in Hs. specialize (Hs _ (nth_error_In _ _ Hk)). cbn [fst snd] in Hs.
  apply andb_prop in Hs as [_ Hs]. exact Hs.
Qed.
Print Assumptions C05_sets_in_order.

(* the builder layer on its own: ANY legal call list on a builder with an INSERT target is accepted and leaves the
   positional state — also when values are terms, rows are empty, or a SELECT is attached *)
Theorem C05_builder_positional : forall c tb cs, forallb (call_ok c) cs = true ->
  exists st, run c (SInto tb) cs = Ok st /\ positional (Some tb) (init c (SInto tb)) cs st.
Proof. intros c tb cs H. exact (run_positional_into cs (init c (SInto tb)) tb eq_refl H). Qed.
Print Assumptions C05_builder_positional.
Theorem C05_builder_positional_update : forall c s cs, forallb nodml_call cs = true ->
  exists st, run c s cs = Ok st /\ positional (d_into (init c s)) (init c s) cs st.
Proof. intros c s cs H. exact (run_positional_nodml cs (init c s) H). Qed.
Print Assumptions C05_builder_positional_update.

(* the INSERT target may be chosen late: into() after any from_() / where() / limit() calls leaves exactly the state of
   into() first, so everything above holds for those call orders too (into() AFTER select() is pypika's SELECT ... INTO,
   a different statement) *)
Theorem C05_into_position_irrelevant : forall c t pre post, forallb pre_into_call pre = true ->
  run c SBuilder (pre ++ KInto t :: post) = run c (SInto t) (pre ++ post).
Proof. exact into_position_irrelevant. Qed.
Print Assumptions C05_into_position_irrelevant.
Example C05_insert_select_call_orders :
  let u := ptab "u" in let t := ptab "t" in let x := TField "x" None None in
  let w := TBasic CGt x (TValI 1 None) None in
  t_of (run CSQLLite SBuilder [KFrom u; KInto t; KColumns [ColOne (CStr "a")]; KSel [x]; KWhere w; KInsertOrReplace []])
  = Ok "INSERT OR REPLACE INTO ""t"" (""a"") SELECT ""x"" FROM ""u"" WHERE ""x"">1"
  /\ t_of (run CSQLLite SBuilder [KWhere w; KInto t; KReplace []; KSel [x]; KFrom u; KColumns [ColSeq [CStr "a"]]])
     = Ok "REPLACE INTO ""t"" (""a"") SELECT ""x"" FROM ""u"" WHERE ""x"">1"
  /\ t_of (run CSQLLite SBuilder [KSel [x]; KFrom u; KInto t]) = Err "unmodelled".
Proof. vm_compute. repeat split; reflexivity. Qed.

(* the literal round trip the quote-aware reader rests on: ANY bytes — quotes, row separators, commas, parentheses, comment
   markers, newlines — come back unchanged, and the rest of the text is untouched *)
Theorem C05_literal_round_trip : forall s rest, delim_head rest = true ->
  read_lit (fmt_lit (LStr s) ++ rest) = Some (LStr s, rest).
Proof. intros s rest H. exact (read_lit_fmt (LStr s) rest eq_refl H). Qed.
Print Assumptions C05_literal_round_trip.

(* the error cases of the builder layer are part of the model *)
Theorem C05_errors_kept :
  (forall c t a, run c (SUpdate t) [KInsert a] = Err "AttributeError")
  /\ (forall c t a, run c (SDelete t) [KColumns a] = Err "AttributeError")
  /\ (forall c t l z, run c (SInto t) [KInsert [ASeq SqTuple l; AVal (VInt z)]] = Err "TypeError")
  /\ (forall t a, run CQuery (SInto t) [KInsertOrReplace a] = Err "TypeError").
Proof. repeat split; intros; reflexivity. Qed.
Print Assumptions C05_errors_kept.

(* ---- the class constants: decided on the table regenerated from the code on every run ---- *)
Example C05_sqlite_class_ok : dml_cls_ok CSQLLite = true /\ cls_sqlite_bool CSQLLite = true.
Proof. vm_compute. split; reflexivity. Qed.
Example C05_classes_covered :
  filter dml_cls_ok all_cls = [CQuery; CVertica; CRedshift; CMSSQL; CSQLLite].
Proof. vm_compute. reflexivity. Qed.

(* ---- non-vacuity: hostile data through different call lists of ONE specification ---- *)
Definition ex_spec : dml_spec :=
  SpInsert MInsertOrReplace "t" ["a"; "b"]
    [[VInt (-1); VStr "it's ),( x, -- /* "]; [VNone; VBool true]; [VFloat "1.5"; VStr ""]].
Definition ex_calls_1 : list call :=
  [KColumns [ColOne (CStr "a"); ColOne (CStr "b")];
   KInsert [AVal (VInt (-1)); AVal (VStr "it's ),( x, -- /* ")];
   KInsertOrReplace [ASeq SqTuple [VNone; VBool true]; ASeq SqTuple [VFloat "1.5"; VStr ""]]].
Definition ex_calls_2 : list call :=
  [KReplace [ASeq SqList [VInt (-1); VStr "it's ),( x, -- /* "]];
   KColumns [ColSeq [CStr "a"; CStr "b"]];
   KInsertOrReplace [ASeq SqTuple [VNone; VBool true]];
   KInsertOrReplace [AVal (VFloat "1.5"); AVal (VStr "")]].
Example C05_example_wf : wf_spec ex_spec = true. Proof. vm_compute. reflexivity. Qed.
Example C05_example_expresses : expresses CSQLLite ex_spec ex_calls_1 /\ expresses CSQLLite ex_spec ex_calls_2.
Proof. vm_compute. repeat split; reflexivity. Qed.
Example C05_example_text :
  (match run CSQLLite (SInto (ptab "t")) ex_calls_1 with Ok st => dml_text st | Err e => Err e end)
  = Ok "INSERT OR REPLACE INTO ""t"" (""a"",""b"") VALUES (-1,'it''s ),( x, -- /* '),(NULL,1),(1.5,'')"
  /\ (match run CSQLLite (SInto (ptab "t")) ex_calls_2 with Ok st => dml_text st | Err e => Err e end)
     = (match run CSQLLite (SInto (ptab "t")) ex_calls_1 with Ok st => dml_text st | Err e => Err e end)
  /\ parse_dml "INSERT OR REPLACE INTO ""t"" (""a"",""b"") VALUES (-1,'it''s ),( x, -- /* '),(NULL,1),(1.5,'')"
     = Some (AInsert MInsertOrReplace "t" ["a"; "b"]
               [[LBare "-1"; LStr "it's ),( x, -- /* "]; [LBare "NULL"; LBare "1"]; [LBare "1.5"; LStr ""]]).
Proof. vm_compute. repeat split; reflexivity. Qed.

Definition ex_upd : dml_spec :=
  SpUpdate "t" [("a", VBool false); ("b", VStr "x'y, ""z""=1 WHERE"); ("c", VNone); ("a", VInt 10)]
           (Some (TCplx BAnd (TBasic CEq (TField "a" None None) (TValI 2 None) None)
                             (TIsNull (TField "b" None None) None) None)).
Definition ex_upd_calls : list call :=
  [KSet (CStr "a") (VBool false);
   KWhere (TBasic CEq (TField "a" None None) (TValI 2 None) None);
   KSet (CStr "b") (VStr "x'y, ""z""=1 WHERE"); KSet (CStr "c") VNone;
   KWhere (TIsNull (TField "b" None None) None);
   KSet (CStr "a") (VInt 10)].
Example C05_example_update :
  wf_spec ex_upd = true /\ expresses CSQLLite ex_upd ex_upd_calls
  /\ (match run CSQLLite (SUpdate (ptab "t")) ex_upd_calls with Ok st => dml_text st | Err e => Err e end)
     = Ok "UPDATE ""t"" SET ""a""=0,""b""='x''y, ""z""=1 WHERE',""c""=null,""a""=10 WHERE ""a""=2 AND ""b"" IS NULL"
  /\ ast_of CSQLLite ex_upd
     = Ok (AUpdate "t" [("a", LBare "0"); ("b", LStr "x'y, ""z""=1 WHERE"); ("c", LBare "null"); ("a", LBare "10")]
                   (Some """a""=2 AND ""b"" IS NULL")).
Proof. vm_compute. repeat split; reflexivity. Qed.

Example C05_example_delete_and_select :
  (exists a, ast_of CSQLLite (SpDelete "t" (Some (TBasic CGt (TField "a" None None) (TValS "z'" None) None))) = Ok a
             /\ a = ADelete "t" (Some """a"">'z'''"))
  /\ (exists a, ast_of CSQLLite (SpInsertSelect MReplace "t" ["a"] [ptab "u"] [TField "x" None None]
                                   (Some (TBasic CGt (TField "x" None None) (TValI 1 None) None))) = Ok a
                /\ a = AInsertSelect MReplace "t" ["a"] "SELECT ""x"" FROM ""u"" WHERE ""x"">1").
Proof. split; eexists; split; vm_compute; reflexivity. Qed.

(* ---- beyond literal values: ANY value terms (expressions over columns, functions, sub-queries ...) ---- *)
(* The positional structure of the text does not depend on what the values are: for every UPDATE call list whose
   value terms render, the text is  UPDATE "t" SET "c1"=<text of value 1>,...,"cn"=<text of value n>[ WHERE <criterion>]
   with the pairs in call order, <text of value k> being exactly what the shared renderer (Terms.render, the function
   C02's fragment theorem reads back to the tree) writes for the k-th given value in SET-value position, and the
   criterion text at the very end; likewise INSERT ... VALUES with one text per given cell, row by row. *)
Definition C05_structure_any_value : Prop :=
  (forall c tbl cs texts wo,
     dml_cls_ok c = true -> plain_table tbl = true -> forallb update_call_ok cs = true ->
     sets_of_calls cs <> [] -> forallb (fun p => str_col (fst p)) (sets_of_calls cs) = true ->
     mapM (fun p : colarg * pyval => set_value_res c tbl (where_of_calls cs) (snd (wrap_set c (snd p)))) (sets_of_calls cs) = Ok texts ->
     where_res (upd_where_res c tbl) (where_of_calls cs) = Ok wo ->
     exists st, run c (SUpdate tbl) cs = Ok st
       /\ dml_text st = Ok (update_text_x (tname tbl) (combine (map (fun p => col_str (fst p)) (sets_of_calls cs)) texts) wo)
       /\ List.length texts = List.length (sets_of_calls cs)
       /\ (forall k p, nth_error (sets_of_calls cs) k = Some p ->
             exists txt, nth_error texts k = Some txt
                         /\ set_value_res c tbl (where_of_calls cs) (snd (wrap_set c (snd p))) = Ok txt))
  /\ (forall c tbl cs texts,
     dml_cls_ok c = true -> plain_table tbl = true -> forallb (insert_call_ok c) cs = true ->
     forallb str_col (cols_of_calls cs) = true -> rows_of_calls cs <> [] ->
     mapM (fun row : list pyval => mapM (fun v => ins_value_res c (snd (wrap_constant c v))) row) (rows_of_calls cs) = Ok texts ->
     exists st, run c (SInto tbl) cs = Ok st
       /\ dml_text st = Ok (insert_text_x (mode_of_calls cs) (tname tbl) (map col_str (cols_of_calls cs)) texts)
       /\ List.length texts = List.length (rows_of_calls cs)
       /\ (forall r row, nth_error (rows_of_calls cs) r = Some row ->
             exists trow, nth_error texts r = Some trow
                          /\ mapM (fun v => ins_value_res c (snd (wrap_constant c v))) row = Ok trow)).
Theorem C05_structure_any_value_holds : C05_structure_any_value.
Proof.
  split.
  - intros c tbl cs texts wo Hc Ht Hcs Hne Hcols Hv Hw.
    destruct (update_structure_any c tbl cs texts wo Hc Ht Hcs Hne Hcols Hv Hw) as (st & R1 & R2).
    destruct (mapM_bind_ok _ _ _ Hv) as [L N]. exists st. repeat split; auto.
  - intros c tbl cs texts Hc Ht Hcs Hcols Hne Hv.
    destruct (insert_structure_any c tbl cs texts Hc Ht Hcs Hcols Hne Hv) as (st & R1 & R2).
    destruct (mapM_bind_ok _ _ _ Hv) as [L N]. exists st. repeat split; auto.
Qed.
Print Assumptions C05_structure_any_value_holds.

(* The findings C05 used to list about expressions were C02's rendering defects seen through the database state:
   b-(-1) rendered "b"--1, where the engine's lexical pre-pass (engine_lex: "--" outside quotes opens a comment) swallowed
   the rest of the statement, WHERE included; -(a+1) rendered -"a"+1; a sub-query as SET value without parentheses.
   They are repaired in pypika (fbde87c, 33fa91c, 5249523); the model follows through the regenerated tables.  The
   examples state the repaired texts (a regression of the code breaks them) and, as pure string facts, what the old
   texts meant to the engine. *)
Example C05_double_minus_repaired :
  t_of (run CSQLLite (SUpdate (ptab "t")) [KSet (CStr "a") (VTerm (TArith OSub (TField "b" None None) (TValI (-1) None) None));
                                            KWhere (TBasic CEq (TField "id" None None) (TValI 2 None) None)])
  = Ok "UPDATE ""t"" SET ""a""=""b""-(-1) WHERE ""id""=2"
  /\ engine_lex "UPDATE ""t"" SET ""a""=""b""-(-1) WHERE ""id""=2" = "UPDATE ""t"" SET ""a""=""b""-(-1) WHERE ""id""=2"
  /\ t_of (run CSQLLite (SDelete (ptab "t"))
             [KWhere (TBasic CEq (TArith OSub (TField "a" None None) (TValI (-1) None) None) (TValI 3 None) None)])
     = Ok "DELETE FROM ""t"" WHERE ""a""-(-1)=3"
  /\ t_of (run CSQLLite (SUpdate (ptab "t")) [KSet (CStr "c") (VStr "z");
             KWhere (TBasic CEq (TArith OSub (TField "a" None None) (TNeg (TField "b" None None)) None) (TValI 3 None) None)])
     = Ok "UPDATE ""t"" SET ""c""='z' WHERE ""a""-(-""b"")=3".
Proof. vm_compute. repeat split; reflexivity. Qed.
Example C05_neg_over_compound_repaired :
  t_of (run CSQLLite (SUpdate (ptab "t"))
          [KSet (CStr "b") (VTerm (TNeg (TArith OAdd (TField "a" None None) (TValI 1 None) None)))])
  = Ok "UPDATE ""t"" SET ""b""=-(""a""+1)".
Proof. vm_compute. reflexivity. Qed.
Example C05_subquery_set_value_parenthesised :
  t_of (run CSQLLite (SUpdate (ptab "t")) [KSet (CStr "a") (VTerm (TSub "x" "u" None)); KSet (CStr "b") (VInt 1)])
  = Ok "UPDATE ""t"" SET ""a""=(SELECT ""x"" FROM ""u""),""b""=1".
Proof. vm_compute. reflexivity. Qed.
Example C05_what_the_old_texts_meant :
  engine_lex "UPDATE ""t"" SET ""a""=""b""--1 WHERE ""id""=2" = "UPDATE ""t"" SET ""a""=""b"""
  /\ engine_lex "DELETE FROM ""t"" WHERE ""a""--1=3" = "DELETE FROM ""t"" WHERE ""a"""
  (* a "--" inside a string literal is data, not a comment *)
  /\ engine_lex "INSERT INTO ""t"" VALUES ('--c',-1)" = "INSERT INTO ""t"" VALUES ('--c',-1)".
Proof. vm_compute. repeat split; reflexivity. Qed.

(* ---- outside the fragment, for the record ---- *)
(* an alias on an inserted EXPRESSION is no longer rendered inside VALUES (f84cf61: with_alias=False; the former text
   VALUES (NOW() "n") was rejected by SQLite — C13's finding); a ValueWrapper still writes its own alias whatever
   with_alias says, which leaves the grammar.  An alias is not part of a DML specification. *)
Example C05_alias_in_values :
  t_of (run CSQLLite (SInto (ptab "t")) [KInsert [AVal (VTerm (TFunc "NOW" TNil None (Some "n"))); AVal (VInt 2)]])
  = Ok "INSERT INTO ""t"" VALUES (NOW(),2)"
  /\ t_of (run CSQLLite (SInto (ptab "t")) [KInsert [AVal (VTerm (TValI 1 (Some "n")))]]) = Ok "INSERT INTO ""t"" VALUES (1 ""n"")"
  /\ parse_dml "INSERT INTO ""t"" VALUES (1 ""n"")" = None.
Proof. vm_compute. repeat split; reflexivity. Qed.
(* insert() without arguments adds no row: nothing to render *)
Example C05_insert_no_terms_is_noop :
  (match run CSQLLite (SInto (ptab "t")) [KInsert []] with Ok st => dml_text st | Err e => Err e end) = Ok "".
Proof. vm_compute. reflexivity. Qed.
(* since e7a5678 inserted values are wrapped by the class's value wrapper like assigned ones: SQLLiteQuery writes
   booleans as 1 / 0 in VALUES too (before: true / false, which needs SQLite >= 3.23); the generic Query keeps true / false;
   the items of a nested tuple are still wrapped without the class's wrapper *)
Example C05_bool_tokens :
  value_tok_ins CSQLLite (VBool true) = LBare "1" /\ value_tok_set CSQLLite (VBool false) = LBare "0"
  /\ value_tok_ins CQuery (VBool true) = LBare "true"
  /\ lit_value (LBare "true") = lit_value (LBare "1")
  /\ t_of (run CSQLLite (SInto (ptab "t")) [KInsert [AVal (VBool true); ASeq SqTuple [VInt 2; VBool true]]])
     = Ok "INSERT INTO ""t"" VALUES (1,(2,true))".
Proof. vm_compute. repeat split; reflexivity. Qed.
