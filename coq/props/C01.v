(* C01 — Builder calls never change any object that already exists.
   Statement, closing [exact]s and Print Assumptions only; proofs live in lemmas/HeapLemmas.v. *)
From PV Require Import Base Heap lemmas.HeapLemmas lemmas.HeapMutable lemmas.HeapExpected gen.C01Table.
From Coq Require Import Lia.
Close Scope string_scope. Close Scope list_scope. Open Scope list_scope. Open Scope string_scope.

(* For every finite history of constructor and chaining calls (any receivers among the live objects, hence any
   branching), started in any well-formed heap, executed over the class table extracted from the sources:
   after every call, every object that was alive before it has the same deep observation (class, every attribute,
   every container element, recursively through referenced objects, at every depth). *)
Definition C01_full_statement : Prop :=
  forall (h : list step) (w0 : world), wfb w0 = true -> preserved class_table w0 h.

(* --- generic theorem, for an arbitrary table T: a statically safe table gives full immutability --- *)
Theorem C01_generic : forall T, safeb T = true ->
  forall h w0, wfb w0 = true -> hist_immutable T w0 h = true -> preserved T w0 h.
Proof. intros T HS h w0 W. apply immutability_generic; auto. now apply wfb_wf. Qed.
Print Assumptions C01_generic.

(* --- the extracted table is not wholly safe: the property is refuted on the faithful model --- *)
Definition q_attrs : list (attr * cell) :=
  [("_from", mkCell true []); ("_subquery_count", mkCell false [IAtom "0"]); ("alias", mkCell false [IAtom "None"])].
Definition refuting_history : list step :=
  [ SNew "queries.QueryBuilder" q_attrs;                       (* 0: q   = Query._builder()          *)
    SNew "queries.QueryBuilder" q_attrs;                       (* 1: sub = Query.from_(t).select(..) *)
    SCall 0 "from_" [("selectable", IRef 1)]                   (* 2: q.from_(sub) writes sub.alias   *)
          [(true, mkCell true [IRef 1]); (true, mkCell false [IAtom "sq0"]); (true, mkCell false [IAtom "1"])] [] ].

Theorem C01_refuted : ~ C01_full_statement.
Proof.
  intros H. specialize (H refuting_history empty_world eq_refl).
  eapply (preserved_nth _ _ _ 2) with (fuel := 1) (o := 1) in H;
    [ | vm_compute; reflexivity | vm_compute; reflexivity | vm_compute; repeat constructor ].
  vm_compute in H. discriminate H.
Qed.
Print Assumptions C01_refuted.

(* --- the fragment on which it holds, dynamic reading: every history in which every call copies its receiver
       (a @builder method on an object without immutable=False) and no unsafe effect of the table fires --- *)
Theorem C01_on_fragment :
  forall h w0, wfb w0 = true -> hist_quiet class_table w0 h = true -> preserved class_table w0 h.
Proof. intros h w0 W Q. apply quiet_history_preserved; auto. now apply wfb_wf. Qed.
Print Assumptions C01_on_fragment.

(* and the observation at creation time is the observation in EVERY later world (branches never see each other) *)
Theorem C01_branches_independent :
  forall h w0, wfb w0 = true -> hist_quiet class_table w0 h = true ->
  forall i wi wj fuel o, nth_error (run class_table w0 h) i = Some wi ->
    (exists j, i <= j /\ nth_error (run class_table w0 h) j = Some wj) ->
    o < length (objs wi) -> obs fuel wj (IRef o) = obs fuel wi (IRef o).
Proof.
  intros h w0 W Q. apply wfb_wf in W. revert w0 W Q.
  induction h as [|s h IH]; intros w0 W Q i wi wj fuel o Hi (j & Hij & Hj) Ho; [destruct i; discriminate|].
  cbn in *. destruct (exec_step class_table w0 s) as [[w1 r]|] eqn:E; [|destruct i; discriminate].
  apply andb_prop in Q as [Q1 Q2]. destruct (quiet_step_ext _ _ _ _ _ W Q1 E) as [E1 W1].
  destruct i as [|i].
  - inversion Hi; subst wi. destruct j as [|j]; [inversion Hj; subst; auto|]. cbn in Hj.
    pose proof (quiet_history_ext class_table h w1 W1 Q2) as F. rewrite Forall_forall in F.
    destruct (F wj (nth_error_In _ _ Hj)) as [E2 _]. apply obs_ext; auto.
  - destruct j as [|j]; [lia|]. cbn in Hi, Hj. eapply (IH w1 W1 Q2 i wi wj); eauto. exists j. split; [lia|auto].
Qed.
Print Assumptions C01_branches_independent.

(* --- static reading: the (class, method) pairs that are safe in the extracted table, computed --- *)
Theorem C01_safe_pairs_fragment :
  forall h w0, wfb w0 = true -> hist_uses class_table (safe_pairs class_table) w0 h = true -> preserved class_table w0 h.
Proof.
  intros h w0 W U. apply C01_on_fragment; auto.
  eapply uses_history_quiet; [apply safe_pairs_safe | exact U].
Qed.
Print Assumptions C01_safe_pairs_fragment.

(* every pair committed as safe is still safe in the sources of this run (complete evaluation of the finite table) *)
Example expected_safe_ok : subset_pairs expected_safe (safe_pairs class_table) = true.
Proof. vm_compute. reflexivity. Qed.

(* nothing but the known defects is unsafe in the sources of this run *)
Example no_new_unsafe : subset_pairs (unsafe_pairs class_table) expected_unsafe = true.
Proof. vm_compute. reflexivity. Qed.

(* ... at the level of single effects: e.g. an in-place write whose attribute a __copy__ no longer re-creates *)
Example no_new_unsafe_effect : subset_ueffs (unsafe_effs class_table) expected_unsafe_effs = true.
Proof. vm_compute. reflexivity. Qed.

Theorem C01_expected_fragment :
  forall h w0, wfb w0 = true -> hist_uses class_table expected_safe w0 h = true -> preserved class_table w0 h.
Proof.
  intros h w0 W U. apply C01_on_fragment; auto.
  eapply uses_history_quiet; [apply subset_pairs_safe; exact expected_safe_ok | exact U].
Qed.
Print Assumptions C01_expected_fragment.

(* --- third sentence (immutable=False), partial: for every chain of calls whose fired effects act on the receiver
       only and that return it (no argument write, no wrapper), on an object none of whose attributes share a cell:
       run in place (the decorator never copies) the chain returns the one object, and that object ends up holding,
       attribute by attribute, exactly what the last copy holds when the same chain runs through copies.
       (One level deep: class, attribute names in order, container flag and items of every attribute.) --- *)
Definition C01_mutable_statement : Prop :=
  forall (chain : list call) w o ob c wm om wi oi,
    wfb w = true -> nth_error (objs w) o = Some ob -> find_class class_table (ocls ob) = Some c ->
    unaliased w o = true -> forallb (call_self_only c) chain = true ->
    run_chain class_table false w o chain = Some (wm, om) -> run_chain class_table true w o chain = Some (wi, oi) ->
    om = o /\ view wm om = view wi oi.

Theorem C01_mutable_mode_partial : C01_mutable_statement.
Proof.
  intros chain w o ob c wm om wi oi W. apply wfb_wf in W. now apply mutable_same_statement.
Qed.
Print Assumptions C01_mutable_mode_partial.

(* a call that is REJECTED inside an in-place chain (no copy, no effect of its row fired) changes nothing at all: the heap is
   the same and the receiver is handed back - so a chain with rejected calls ends where the chain without them ends *)
Theorem C01_mutable_rejected_call :
  forall w o mn args chs w' r c m,
    lookup_call class_table w o mn = Some (c, m) -> mret m = RSelf ->
    fired_ok false (crecopy c) (meffs m) chs = true ->
    exec_call class_table (fun _ _ k => false && mcopies k) w o mn args chs [] = Some (w', r) -> w' = w /\ r = o.
Proof. intros w o mn args chs w' r c m LC MR Q H. exact (unfired_in_place_noop _ _ _ _ _ _ _ _ _ _ _ LC eq_refl MR Q H). Qed.
Print Assumptions C01_mutable_rejected_call.

Definition mutable_chain : list call :=
  [ ("select", [], [(true, mkCell true [IAtom "a"]); (false, mkCell true []); (true, mkCell true [IAtom "a"]); (false, mkCell false [])]);
    ("from_", [], [(true, mkCell true [IAtom "t"]); (false, mkCell false []); (false, mkCell false [])]);
    ("select", [], [(false, mkCell true []); (false, mkCell true []); (true, mkCell true [IAtom "a"; IAtom "b"]); (false, mkCell false [])]) ].
Definition q_world : world :=
  match new_obj empty_world "queries.QueryBuilder" (("_selects", mkCell true []) :: ("_select_star_tables", mkCell true []) :: q_attrs)
  with Some (w, _) => w | None => empty_world end.

(* --- non-vacuity: a branching history over safe pairs executes (no step is stuck), is covered by the fragment
       theorem, and really shares / un-shares cells the way copy.copy + __copy__ do --- *)
Definition case_attrs : list (attr * cell) :=
  [("_cases", mkCell true []); ("_else", mkCell false [IAtom "None"]); ("alias", mkCell false [IAtom "None"])].
Definition branching_history : list step :=
  [ SNew "terms.Case" case_attrs;                                                         (* 0: c = Case()      *)
    SCall 0 "when" [] [(true, mkCell true [IAtom "w1"])] [];                              (* 1: x = c.when(..)  *)
    SCall 0 "when" [] [(true, mkCell true [IAtom "w2"])] [];                              (* 2: y = c.when(..)  *)
    SCall 1 "else_" [] [(true, mkCell false [IAtom "e"])] [];                             (* 3: z = x.else_(..) *)
    SNew "queries.QueryBuilder" q_attrs;                                                  (* 4: q               *)
    SCall 4 "select" [] [(true, mkCell true [IAtom "a"]); (false, mkCell true []); (true, mkCell true [IAtom "a"]);
                         (false, mkCell false [])] [] ].                                  (* 5: q.select('a')   *)

Example C01_nonvacuous :
  length (run class_table empty_world branching_history) = 6
  /\ hist_uses class_table expected_safe empty_world branching_history = true
  /\ hist_quiet class_table empty_world refuting_history = false
  (* the mutable-mode theorem applies to a real chain: both runs succeed, hypotheses hold, results differ as objects *)
  /\ (exists wm wi oi, run_chain class_table false q_world 0 mutable_chain = Some (wm, 0)
        /\ run_chain class_table true q_world 0 mutable_chain = Some (wi, oi) /\ oi = 3
        /\ view wm 0 = view wi 3 /\ view wm 0 <> view q_world 0)
  /\ unaliased q_world 0 = true
  /\ match find_class class_table "queries.QueryBuilder" with
     | Some c => forallb (call_self_only c) mutable_chain | None => false end = true.
Proof.
  vm_compute. repeat split.
  do 3 eexists. repeat split; try reflexivity. discriminate.
Qed.
