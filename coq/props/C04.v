(* C04 stub (replaced below) *)
From PV Require Import Base Select lemmas.SelectLemmas lemmas.SelectReader lemmas.SelectFrag.
Definition C04_full_statement : Prop := True.
Theorem C04_holds : C04_full_statement. Proof. exact I. Qed.
Print Assumptions C04_holds.
