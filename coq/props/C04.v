(* C04 — SELECT statements mean what was built (checked on a real engine).

   PARTIAL.  The property has two halves.
   * Syntactic half (this file, proved): the text pypika renders for a SELECT is, clause by clause and in SQLite's
     grammatical order, the specification that was built -- no item dropped, duplicated or moved to another clause,
     every expression the rendering of the specified term in its clause's context -- and, for flat SQLite statements
     whose expressions lie in C02's fragment, a reader that uses the sqlite precedence table for every expression reads
     the rendered tokens back as exactly the specified statement (expressions up to C02's re-association).
   * Engine half (NOT a Coq statement, validated on every run by harness/props/C04.py): SQLite accepts the text and
     returns the same rows as a maximally explicit text written without pypika, on two seeded databases.
   This file holds only statements, closing [exact]s and Print Assumptions. *)
From PV Require Import Base Crit gen.TermsTable Terms Page gen.QueryTable Query QueryCorr Parse C02Model C02Frag gen.C04Table Select.
From PV Require Import lemmas.ParseMono lemmas.ParsePrint lemmas.C02Lemmas lemmas.C02Final.
From PV Require Import lemmas.SelectLemmas lemmas.SelectReader lemmas.SelectFrag lemmas.SelectText lemmas.SelectMono.
From Coq Require Import Lia Arith.
Local Open Scope string_scope.

(* ------------------------------------------------------------------------------------------- *)
(* the syntactic half as one statement                                                           *)
(* ------------------------------------------------------------------------------------------- *)
(* for a flat statement x with a token view ts and a denoted abstract statement a: the model's text of x is ts
   flattened, and the reader reads ts as a (for every sufficiently large fuel) *)
Definition reads_back (x : query) : Prop :=
  forall fl ts a, flat_of x = Some fl -> flat_toks fl = Some ts -> flat_ast fl = Some a ->
    str_query x = Ok (sflatten ts) /\ exists F, forall f, F <= f -> read_select f ts = Some a.

Definition C04_full_statement : Prop := forall x, reads_back x.

(* refuted: C02's remaining defect is a statement-level defect too.  SELECT (NOT a) = b renders NOT "a"="b", which reads
   as NOT (a = b)  (pypika's own suite pins the un-parenthesised NOT).  The former witness SELECT -(a+b) is repaired
   (/repo 33fa91c): see C04_repaired below. *)
Definition w_x : query :=
  QSel CSQLLite [] false [IT (TBasic CEq (TNot (TField "a" None None) None) (TField "b" None None) None)]
       [SrcT {| tname := "t"; tschema := []; talias := None |}] [] None None [] [] None None false None.

Definition w_fl : option flat := Eval vm_compute in flat_of w_x.
Definition w_ts : list stok := [SK KSel; SE KNot; SE (KAtom """a"""); SE (KOp (BC CEq)); SE (KAtom """b"""); SK KFrom; SSrc """t"""].
Definition w_spec : expr := EBin (BC CEq) (ENot (EAtom """a""")) (EAtom """b""").       (* what was built *)
Definition w_read : expr := ENot (EBin (BC CEq) (EAtom """a""") (EAtom """b""")).       (* what the text says *)
Definition w_ast (e : expr) : sel_ast := mkAst false [(e, None)] ["""t"""] [] None [] None [] None None.

Theorem C04_witness :
  (exists fl, flat_of w_x = Some fl /\ flat_toks fl = Some w_ts /\ flat_ast fl = Some (w_ast w_spec))
  /\ sflatten w_ts = "SELECT NOT ""a""=""b"" FROM ""t"""
  /\ read_select 100 w_ts = Some (w_ast w_read)
  /\ sel_frag w_x = false.
Proof.
  split; [|split; [|split]]; try (vm_compute; reflexivity).
  destruct w_fl as [fl|] eqn:E; [|discriminate E].
  exists fl. unfold w_fl in E. split; [exact E|].
  injection E as <-. split; vm_compute; reflexivity.
Qed.
Print Assumptions C04_witness.

Theorem C04_refuted : ~ C04_full_statement.
Proof.
  intros H. destruct C04_witness as [[fl [E1 [E2 E3]]] [_ [R _]]].
  destruct (H w_x fl w_ts (w_ast w_spec) E1 E2 E3) as [_ [F HF]].
  specialize (HF (max F 100) (Nat.le_max_l _ _)).
  pose proof (read_select_mono 100 (max F 100) w_ts _ (Nat.le_max_r _ _) R) as R'.
  rewrite HF in R'. discriminate R'.
Qed.
Print Assumptions C04_refuted.

(* on the fragment (flat SQLite statement, every expression in C02's fragment in its clause's context) it holds,
   and the token view and the denoted statement exist *)
Theorem C04_on_fragment : forall x, sel_frag x = true ->
  exists fl ts a, flat_of x = Some fl /\ flat_toks fl = Some ts /\ flat_ast fl = Some a
    /\ str_query x = Ok (sflatten ts)
    /\ exists F, forall f, F <= f -> read_select f ts = Some a.
Proof.
  intros x H. unfold sel_frag in H. destruct (flat_of x) as [fl|] eqn:E; [|discriminate].
  destruct (flat_reader fl H) as [ts [a [T [A R]]]].
  exists fl, ts, a. repeat split; auto. exact (flat_text x fl ts E T).
Qed.
Print Assumptions C04_on_fragment.

(* ... i.e. the full statement holds for every statement of the fragment (frag02 is now a purely syntactic condition:
   subcriterion flag off, NOT never an operand, lexically well-formed leaves) *)
Theorem C04_holds_on_fragment : forall x, sel_frag x = true -> reads_back x.
Proof.
  intros x H fl ts a E1 E2 E3. destruct (C04_on_fragment x H) as [fl' [ts' [a' [F1 [F2 [F3 [T R]]]]]]].
  rewrite E1 in F1. injection F1 as <-. rewrite E2 in F2. injection F2 as <-. rewrite E3 in F3. injection F3 as <-.
  split; assumption.
Qed.
Print Assumptions C04_holds_on_fragment.

(* the former refutation witness is in the fragment now: -(a+b) keeps its parentheses *)
Definition w_old : query :=
  QSel CSQLLite [] false [IT (TNeg (TArith OAdd (TField "a" None None) (TField "b" None None) None))]
       [SrcT {| tname := "t"; tschema := []; talias := None |}] [] None None [] [] None None false None.
Example C04_repaired : sel_frag w_old = true /\ str_query w_old = Ok "SELECT -(""a""+""b"") FROM ""t""".
Proof. vm_compute. split; reflexivity. Qed.

(* the text of EVERY flat statement (fragment or not) is its token view flattened *)
Theorem C04_text_is_tokens : forall x fl ts, flat_of x = Some fl -> flat_toks fl = Some ts -> str_query x = Ok (sflatten ts).
Proof. exact flat_text. Qed.
Print Assumptions C04_text_is_tokens.

(* statement-level print/parse: reading the print of any well-formed abstract statement gives the statement back *)
Theorem C04_statement_print_parse : forall a, ast_ok a -> exists F, forall f, F <= f -> read_select f (ast_toks a) = Some a.
Proof. exact read_print_select. Qed.
Print Assumptions C04_statement_print_parse.

(* the reader is deterministic across fuels *)
Theorem C04_reader_deterministic : forall f1 f2 s a1 a2, read_select f1 s = Some a1 -> read_select f2 s = Some a2 -> a1 = a2.
Proof. exact read_select_det. Qed.
Print Assumptions C04_reader_deterministic.

(* what an expression of the denoted statement is: the normal form of the specified term's tree, which denotes the
   same function under every interpretation obeying the identities pypika relies on (composition with C02) *)
Theorem C04_expressions_denote : forall c t e, eexpr c t = Some e ->
  exists e0, to_expr c t = Some e0 /\ e = norm e0
    /\ forall V sa sn snot (sb : binop -> V -> V -> V) sp si sbt sc scs, obeys_identities sb ->
         eval V sa sn snot sb sp si sbt sc scs e = eval V sa sn snot sb sp si sbt sc scs e0.
Proof.
  intros c t e H. unfold eexpr in H. destruct (to_expr c t) as [e0|]; [|discriminate]. inversion H; subst.
  exists e0. repeat split. intros. apply eval_norm. assumption.
Qed.
Print Assumptions C04_expressions_denote.

(* ------------------------------------------------------------------------------------------- *)
(* the skeleton: every SELECT of every class (sub-queries, WITH, joins ... included)             *)
(* ------------------------------------------------------------------------------------------- *)
Theorem C04_skeleton_partial :
  (* the rendered statement is the concatenation of its clause segments in [sel_order], then parenthesised / aliased *)
  (forall kin wa_ sq_ ali c withs d sels from joins wh hv gb ob l o fu a, sels <> [] ->
     rquery kin wa_ sq_ ali (QSel c withs d sels from joins wh hv gb ob l o fu a) =
     (s <- sel_segs kin c withs d sels from joins wh hv gb ob l o fu ;; Ok (finish kin c wa_ sq_ ali (assemble s))))
  (* and [sel_order] is the order in which QueryBuilder.get_sql calls the clause renderers (extracted on every run) *)
  /\ map clause_call sel_order = filter is_modelled (map snd x_select_path)
  /\ filter (fun s => negb (is_modelled s)) (map snd x_select_path) = unmodelled_calls
  (* with the per-clause item flags and separators of the code *)
  /\ model_item_flags = x_item_flags
  /\ x_distinct = ("DISTINCT ", "").
Proof.
  split; [intros; apply select_is_its_segments; assumption|].
  split; [exact clause_order_matches_code|]. split; [exact unmodelled_are_known|].
  split; [exact item_flags_match_code | exact distinct_matches_code].
Qed.
Print Assumptions C04_skeleton_partial.

(* every list-valued segment lists exactly the specification's items, one text per item, in the order given; an
   expression item is Terms.render of the specified term (source references resolved) in the clause's context *)
Theorem C04_segments_list_the_items :
  (forall kk srcs c l ss, seg_items kk srcs c l = Ok ss <-> Forall2 (fun y s => ritem kk srcs c y = Ok s) l ss)
  /\ (forall k srcs c t, ritem k srcs c (IT t) = render c (map_tref (resolve_tref srcs) t))
  /\ (forall k ci l ns ss, seg_from k ci l ns = Ok ss <->
        Forall2 (fun sn s => src_text k ci (fst sn) (snd sn) = Ok s)
                (combine l (map (fun i => nth i ns None) (seq 0 (List.length l)))) ss)
  /\ (forall k kk srcs ci l ns ss, seg_joins k kk srcs ci l ns = Ok ss -> List.length ss = List.length l)
  /\ (forall k kk srcs ci aref l ss, seg_groups k kk srcs ci aref l = Ok ss <->
        Forall2 (fun y s => match (if k_gba k then aref y else None) with
                            | Some a => s = fq (or_ostr (aq (kc k)) (q (kc k))) a
                            | None => ritem kk srcs (ci false clause_subq_groupby) y = Ok s end) l ss)
  /\ (forall k kk srcs ci aref l ss, seg_orders k kk srcs ci aref l = Ok ss <->
        Forall2 (fun yd s => exists a,
                   match aref (fst yd) with
                   | Some al => a = fq (or_ostr (aq (kc k)) (q (kc k))) al
                   | None => ritem kk srcs (ci false clause_subq_orderby) (fst yd) = Ok a end
                   /\ s = match snd yd with Some d' => a ++ " " ++ order_text d' | None => a end) l ss).
Proof.
  split; [exact seg_items_spec|]. split; [exact ritem_IT|]. split; [exact seg_from_spec|].
  split; [exact seg_joins_length|]. split; [exact seg_groups_spec | exact seg_orders_spec].
Qed.
Print Assumptions C04_segments_list_the_items.

(* column references bound to a source are qualified as soon as the statement has a join or a second source (C10's
   statement, at the place where C04 needs it) *)
Theorem C04_bound_columns_qualified :
  (forall from joins srcs wh, joins <> [] \/ 2 <= List.length from -> wns_of from joins srcs wh = true)
  /\ (forall c name tb, wn c = true -> wa c = false ->
        render c (TField name (Some tb) None) = Ok (fq (q c) (table_name tb) ++ "." ++ fq (q c) name)).
Proof.
  split.
  - intros from joins srcs wh [H|H]; unfold wns_of.
    + destruct joins; [congruence|]. reflexivity.
    + destruct from as [|s1 [|s2 r]]; cbn in H; try lia. cbn [List.length Nat.ltb Nat.leb]. rewrite orb_true_r. reflexivity.
  - intros c name tb Hn Ha. cbn [render]. rewrite Hn, Ha. reflexivity.
Qed.
Print Assumptions C04_bound_columns_qualified.

(* ------------------------------------------------------------------------------------------- *)
(* non-vacuity                                                                                   *)
(* ------------------------------------------------------------------------------------------- *)
Definition ex_t : tref := {| tname := "t"; tschema := []; talias := None |}.
Definition ex_u : tref := {| tname := "u"; tschema := []; talias := Some "x" |}.
Definition ex_f0 (n : string) := TField n (Some {| tname := "#0"; tschema := []; talias := None |}) None.
Definition ex_f1 (n : string) := TField n (Some {| tname := "#1"; tschema := []; talias := None |}) None.
Definition ex_q : query :=
  QSel CSQLLite [] true
       [IT (TArith OAdd (ex_f0 "a") (TValI 1 None) (Some "al")); IT (ex_f1 "b"); IT (TFunc "SUM" (TCons (ex_f0 "c") TNil) None None)]
       [SrcT ex_t]
       [(JLeft, SrcT ex_u, JOn (IT (TBasic CEq (ex_f0 "a") (ex_f1 "a") None))); (JInner, SrcT ex_t, JUsing ["id"])]
       (Some (IT (TCplx BAnd (TBasic CGt (ex_f0 "a") (TValI 2 None) None)
                         (TCplx BOr (TIsNull (ex_f1 "b") None) (TBasic CLt (ex_f1 "c") (TValI 5 None) None) None) None)))
       (Some (IT (TBasic CGt (TFunc "SUM" (TCons (ex_f0 "c") TNil) None None) (TValI 0 None) None)))
       [IT (TArith OAdd (ex_f0 "a") (TValI 1 None) (Some "al")); IT (ex_f1 "b")]
       [(IT (TArith OAdd (ex_f0 "a") (TValI 1 None) (Some "al")), Some Desc); (IT (ex_f1 "b"), None)]
       (Some 10%Z) (Some 2%Z) false None.

Example C04_example :
  sel_frag ex_q = true
  /\ str_query ex_q = Ok ("SELECT DISTINCT ""t"".""a""+1 ""al"",""x"".""b"",SUM(""t"".""c"") FROM ""t"" LEFT JOIN ""u"" ""x"" ON ""t"".""a""=""x"".""a"" JOIN ""t"" ""t2"" USING (""id"") WHERE ""t"".""a"">2 AND (""x"".""b"" IS NULL OR ""x"".""c""<5) GROUP BY ""al"",""x"".""b"" HAVING SUM(""t"".""c"")>0 ORDER BY ""al"" DESC,""x"".""b"" LIMIT 10 OFFSET 2")
  /\ match flat_of ex_q with
     | Some fl => match flat_toks fl, flat_ast fl with
                  | Some ts, Some a =>
                      a_where a = Some (EBin (BB BAnd) (EBin (BC CGt) (EAtom """t"".""a""") (EAtom "2"))
                                             (EBin (BB BOr) (EPost PIsNull (EAtom """x"".""b""")) (EBin (BC CLt) (EAtom """x"".""c""") (EAtom "5"))))
                      /\ List.length (a_items a) = 3 /\ List.length (a_joins a) = 2
                      /\ a_order a = [(EAtom """al""", Some Desc); (EAtom """x"".""b""", None)]
                      /\ a_limit a = Some 10%Z /\ a_offset a = Some 2%Z
                  | _, _ => False end
     | None => False end.
Proof. vm_compute. repeat split. Qed.
