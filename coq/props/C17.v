(* C17 - CREATE/DROP statements define exactly the schema objects described.
   Statement, closing [exact]s, refutations by computation on explicit witnesses, Print Assumptions.
   Model: coq/Ddl.v (builders + renderers mirrored from pypika, and a reader of the statements);
   class constants: coq/gen/C17Table.v, regenerated from the real classes on every run.
   Level: the syntactic half (str(ddl) read back = the description) is proved; the engine half
   (SQLite PRAGMAs) is validated by harness/props/C17.py, not proved. *)
From Coq Require Import Permutation.
From PV Require Import Base gen.C17Table Ddl lemmas.DdlStrings lemmas.DdlItems lemmas.DdlBuild lemmas.DdlCreate lemmas.DdlDrop lemmas.DdlIndex lemmas.DdlApi.

(* CREATE TABLE: for every builder class, every table, every program of option calls the builder
   accepts (any order) whose description is one the property speaks about ([spec_ok]: quote-free
   names, balanced opaque types/defaults, TEMPORARY xor UNLOGGED, AS SELECT xor a column body with
   at least one column), the printed statement is read back as exactly the description [ast_of]:
   every column and constraint once, in the order given, with the attributes given, and every flag.
   The builder is the one as called ([api_build]: Table arguments pass through _ddl_target, so an
   alias they carry is not part of the description: [api_spec_ok]/[api_ast_of] are [spec_ok]/[ast_of]
   of the alias-free program and put no condition on aliases). *)
Definition C17_create_statement (frag : ccls -> list ccall -> bool) : Prop :=
  forall cls t calls st,
    api_build cls t calls = Ok st ->
    api_spec_ok (create_quote cls) t calls = true ->
    frag cls calls = true ->
    parse_create (create_quote cls) (render_create cls st) = Some (api_ast_of t calls).

(* CREATE INDEX: for every program of calls, the statement is printed and names the given index,
   table, columns and options *)
Definition C17_index_statement (frag : istate -> bool) : Prop :=
  forall i calls, frag (api_ibuild i calls) = true ->
    exists s, render_index (api_ibuild i calls) = Ok s /\ parse_index s = Some (index_ast_of i (map norm_icall calls)).

(* DROP: for every drop builder class and every accepted program, the statement names the object of
   the (last) drop_xxx call, IF EXISTS iff if_exists() was called, and the cluster given *)
Definition C17_drop_statement : Prop :=
  forall cls calls st k tg,
    api_drun cls init_dstate calls = Ok st ->
    last_drop (map norm_dcall calls) = Some (k, tg) ->
    target_ok (drop_quote cls) tg = true ->
    (match last_cluster calls with Some c => name_ok cluster_quote c | None => true end) = true ->
    parse_drop (drop_quote cls) cluster_quote (render_drop cls st)
    = Some (drop_ast_of (mk_drop_spec k tg (existsb is_dcall_if_exists calls) (last_cluster calls))).

(* the property as stated: all builders, all flags; index names merely quote-free *)
Definition C17_full_statement : Prop :=
  C17_create_statement (fun _ _ => true) /\ C17_index_statement index_wide /\ C17_drop_statement.

Definition w_table := tbl "t".

(* ---- the CREATE TABLE and DROP parts hold in full ----
   (since 1e06637 the Vertica builder rejects unlogged() instead of dropping it, since d178bc5 it prints
   IF NOT EXISTS: no class/flag combination is left out) *)
Theorem C17_create_holds : C17_create_statement (fun _ _ => true).
Proof. intros cls t calls st H Hs _. exact (api_create_roundtrip cls t calls st H Hs). Qed.
Print Assumptions C17_create_holds.

Theorem C17_drop_holds : C17_drop_statement.
Proof. exact api_drop_roundtrip. Qed.
Print Assumptions C17_drop_holds.

(* an accepted program never contains a flag call its class cannot print *)
Theorem C17_accepted_flags_printable : forall cls t calls st, api_build cls t calls = Ok st -> create_frag cls calls = true.
Proof. exact api_accepted_create_frag. Qed.
Print Assumptions C17_accepted_flags_printable.

(* ---- refuted: the faithful model reproduces the one remaining defect of the code ----
   CreateIndexBuilder prints the column names bare (c.name): a name with a space is not read back
   (str index and table names are quoted since f8ac2a6) *)
Theorem C17_index_refuted_unquoted : ~ C17_index_statement index_wide.
Proof.
  intros H.
  destruct (H (INStr "my idx") [XOn (ITStr "my table"); XColumns [CAStr "my col"]] eq_refl) as (s & H1 & H2).
  vm_compute in H1. inversion H1. subst s. vm_compute in H2. discriminate.
Qed.
Print Assumptions C17_index_refuted_unquoted.

(* ---- a Table object carrying an alias (shared with a SELECT) as DDL target (fixed in 70f811c) ----
   the alias makes no difference to any DDL statement, in all four places a table is taken; and the
   hypotheses of the theorems above only look at the names ([table_wide]: any alias) *)
Theorem C17_alias_independent :
  (forall cls t calls, create_text cls t calls = create_text cls (ddl_target t) (map norm_ccall calls))
  /\ (forall i calls, index_text i calls = index_text i (map norm_icall calls))
  /\ (forall cls calls, drop_text cls calls = drop_text cls (map norm_dcall calls)).
Proof. exact alias_independent. Qed.
Print Assumptions C17_alias_independent.

Theorem C17_alias_free_hypotheses : forall q t, table_wide q t = true -> table_ok q (ddl_target t) = true.
Proof. exact table_wide_target. Qed.
Print Assumptions C17_alias_free_hypotheses.

Definition w_aliased := mk_table "t" ["s"] (Some "x").
Example C17_alias_holds :
  table_wide QDouble w_aliased = true
  /\ drop_text DGeneric [DDrop KTable (DTTable w_aliased)] = "DROP TABLE ""s"".""t"""
  /\ option_map y_target (parse_drop QDouble QDouble (drop_text DGeneric [DDrop KTable (DTTable w_aliased)])) = Some (tbls "s" "t")
  /\ option_map a_table (parse_create QDouble (create_text CGeneric w_aliased [KColumns [CAStr "a"]])) = Some (tbls "s" "t")
  /\ create_text CGeneric w_table [KColumns [CAStr "a"]; KForeignKey ["a"] w_aliased ["b"] None None]
     = "CREATE TABLE ""t"" (""a"",FOREIGN KEY (""a"") REFERENCES ""s"".""t"" (""b""))"
  /\ option_map x_table (parse_index (index_text (INStr "i") [XOn (ITObj w_aliased); XColumns [CAStr "a"]])) = Some (tbls "s" "t").
Proof. vm_compute. repeat split. Qed.
Print Assumptions C17_alias_holds.

Theorem C17_refuted : ~ C17_full_statement.
Proof. intros [_ [H _]]. exact (C17_index_refuted_unquoted H). Qed.
Print Assumptions C17_refuted.

(* ---- proved on the exactly described fragment ----
   CREATE TABLE: the whole statement (all classes, all flags);
   index_frag  : the column names (always printed bare) are bare identifiers; index and table names,
                 given as str or as objects, are merely quote-free; the criterion text is unrestricted;
   DROP        : the whole statement. *)
Theorem C17_on_fragment :
  C17_create_statement (fun _ _ => true) /\ C17_index_statement index_frag /\ C17_drop_statement.
Proof.
  split; [exact C17_create_holds|]. split; [exact api_index_roundtrip | exact api_drop_roundtrip].
Qed.
Print Assumptions C17_on_fragment.

(* ---- "for all orders of the option calls" ---- *)
(* a program the builder accepts leaves the described state, whatever the order of its calls *)
Theorem C17_state_is_description : forall cls t calls st, api_build cls t calls = Ok st -> st = api_state_of t calls.
Proof. exact api_build_state. Qed.
Print Assumptions C17_state_is_description.

(* any two accepted orders of the same calls (flag calls anywhere, the others in the same relative
   order) print the same statement *)
Theorem C17_order_invariant : forall cls t c1 c2 s1 s2,
  api_build cls t c1 = Ok s1 -> api_build cls t c2 = Ok s2 ->
  Permutation c1 c2 -> filter structural c1 = filter structural c2 ->
  s1 = s2 /\ render_create cls s1 = render_create cls s2.
Proof. exact api_order_invariant. Qed.
Print Assumptions C17_order_invariant.

(* temporary/unlogged/with_system_versioning/if_not_exists commute with any neighbouring call -
   same builder, same error - except temporary() before Vertica's local()/preserve_rows() *)
Theorem C17_flag_calls_commute : forall cls l1 f c l2 st, is_flag_call f = true ->
  (is_call_temporary f && reads_temporary c)%bool = false ->
  api_run cls st (l1 ++ f :: c :: l2) = api_run cls st (l1 ++ c :: f :: l2).
Proof. exact api_flag_call_commutes. Qed.
Print Assumptions C17_flag_calls_commute.

(* the once-only guards raise AttributeError (primary_key/foreign_key: as soon as the slot is not None) *)
Theorem C17_guards : forall cls st,
  (forall t, is_some (s_table st) = true -> api_step cls st (KCreateTable t) = Err "AttributeError")
  /\ (forall ns, pk_set st = true -> api_step cls st (KPrimaryKey ns) = Err "AttributeError")
  /\ (forall a t b od ou, fk_set st = true -> api_step cls st (KForeignKey a t b od ou) = Err "AttributeError")
  /\ (forall cs, is_some (s_as_select st) = true -> api_step cls st (KColumns cs) = Err "AttributeError")
  /\ (forall q, nonempty (s_columns st) = true -> api_step cls st (KAsSelect q) = Err "AttributeError")
  /\ ((has_vertica_flags cls && s_temporary st)%bool = false ->
      api_step cls st KLocal = Err "AttributeError" /\ api_step cls st KPreserveRows = Err "AttributeError").
Proof. exact api_create_guards. Qed.
Print Assumptions C17_guards.

(* programs without once-only conflicts are accepted, in every order (so the theorems are not vacuous) *)
Theorem C17_simple_programs_accepted : forall cls t calls, simple_program calls = true -> create_frag cls calls = true ->
  exists st, api_build cls t calls = Ok st.
Proof. exact api_simple_program_accepted. Qed.
Print Assumptions C17_simple_programs_accepted.

Theorem C17_drop_programs_accepted : forall cls k tg pre post,
  (is_ch_kind k && negb (has_clickhouse_drops cls))%bool = false ->
  forallb is_dcall_if_exists pre = true -> forallb is_dcall_if_exists post = true ->
  exists st, api_drun cls init_dstate (pre ++ DDrop k tg :: post) = Ok st.
Proof. exact api_drop_program_accepted. Qed.
Print Assumptions C17_drop_programs_accepted.

(* ---- the class constants read off the code are the documented ones ---- *)
Theorem C17_tables_as_documented :
  (forall c, create_quote c = match c with CGeneric => QDouble | CMySQL => QBacktick | CVertica => QDouble | CSnowflake => QNone end)
  /\ (forall c, drop_quote c = match c with DGeneric => QDouble | DMySQL => QBacktick | DSnowflake => QNone | DClickHouse => QDouble end)
  /\ cluster_quote = QDouble
  /\ (forall o, refopt_text o = match o with RCascade => "CASCADE" | RNoAction => "NO ACTION" | RRestrict => "RESTRICT"
                                       | RSetNull => "SET NULL" | RSetDefault => "SET DEFAULT" end)
  /\ (forall k, drop_kind_text k = match k with KDatabase => "DATABASE" | KTable => "TABLE" | KUser => "USER" | KView => "VIEW"
                                         | KIndex => "INDEX" | KDictionary => "DICTIONARY" | KQuota => "QUOTA" end)
  /\ (forall c, has_vertica_flags c = match c with CVertica => true | _ => false end)
  /\ (forall c, rejects_unlogged c = match c with CVertica => true | _ => false end)
  /\ (forall c, has_clickhouse_drops c = match c with DClickHouse => true | _ => false end).
Proof. repeat split; intros []; reflexivity. Qed.
Print Assumptions C17_tables_as_documented.

(* ---- the entry points are declared with the documented parameters, in the documented order
   (docstrings of queries.py / README "Creating Tables"): the harness calls them positionally in this
   order and by these keywords; a signature that drifts from it breaks this theorem ---- *)
Theorem C17_signatures_as_documented :
  signatures =
  [ ("create.create_table", ["table"]);
    ("create.columns", ["*columns"]);
    ("create.period_for", ["name"; "start_column"; "end_column"]);
    ("create.unique", ["*columns"]);
    ("create.primary_key", ["*columns"]);
    ("create.foreign_key", ["columns"; "reference_table"; "reference_columns"; "on_delete"; "on_update"]);
    ("create.as_select", ["query_builder"]);
    ("index.create_index", ["index"]);
    ("index.columns", ["*columns"]);
    ("index.on", ["table"]);
    ("index.where", ["criterion"]);
    ("drop.drop_database", ["database"]);
    ("drop.drop_table", ["table"]);
    ("drop.drop_user", ["user"]);
    ("drop.drop_view", ["view"]);
    ("drop.drop_index", ["index"]);
    ("drop.drop_dictionary", ["dictionary"]);
    ("drop.drop_quota", ["quota"]);
    ("drop.on_cluster", ["cluster"]);
    ("Column", ["column_name"; "column_type"; "nullable"; "default"]);
    ("PeriodFor", ["name"; "start_column"; "end_column"]);
    ("Index", ["name"; "alias"]);
    ("Table", ["name"; "schema"; "alias"; "query_cls"]);
    ("Database", ["name"; "parent"]) ].
Proof. reflexivity. Qed.
Print Assumptions C17_signatures_as_documented.

(* ---- non-vacuity: a program using every construct, in a scrambled order, on every class ---- *)
Definition ex_calls : list ccall :=
  [ KIfNotExists;
    KUnique ["a"; "b_c"];
    KColumns [CAStr "a"; CATuple "b_c" "VARCHAR(100)"];
    KForeignKey ["a"] (mk_table "parent" ["db"; "s"] None) ["x"] (Some RCascade) (Some RSetNull);
    KTemporary;
    KColumns [CACol (mk_column "d" (Some "DECIMAL(10, 2)") (Some false) (Some "0"));
              CACol (mk_column "e" None (Some true) (Some "'it''s (ok)'"))];
    KPeriodFor "p" "d" "e";
    KUnique ["d"];
    KPrimaryKey ["a"; "d"];
    KSysVer ].

Example C17_example_create :
  forall cls,
    exists st, api_build cls w_table ex_calls = Ok st
      /\ api_spec_ok (create_quote cls) w_table ex_calls = true /\ create_frag cls ex_calls = true
      /\ parse_create (create_quote cls) (render_create cls st) = Some (api_ast_of w_table ex_calls).
Proof.
  intros []; (eexists; split; [vm_compute; reflexivity|]); vm_compute; repeat split; reflexivity.
Qed.
Print Assumptions C17_example_create.

Example C17_example_text :
  create_text CGeneric w_table ex_calls =
  "CREATE TEMPORARY TABLE IF NOT EXISTS ""t"" (""a"",""b_c"" VARCHAR(100),""d"" DECIMAL(10, 2) NOT NULL DEFAULT 0,""e"" NULL DEFAULT 'it''s (ok)',PERIOD FOR ""p"" (""d"",""e""),UNIQUE (""a"",""b_c""),UNIQUE (""d""),PRIMARY KEY (""a"",""d""),FOREIGN KEY (""a"") REFERENCES ""db"".""s"".""parent"" (""x"") ON DELETE CASCADE ON UPDATE SET NULL) WITH SYSTEM VERSIONING"
  /\ create_text CVertica w_table [KTemporary; KLocal; KIfNotExists; KColumns [CAStr "a"]; KPreserveRows]
     = "CREATE LOCAL TEMPORARY TABLE IF NOT EXISTS ""t"" (""a"") ON COMMIT PRESERVE ROWS"
  /\ create_text CGeneric w_table [KColumns [CAStr "a"]; KPrimaryKey ["a"]; KPrimaryKey ["b"]] = "!AttributeError"
  /\ create_text CGeneric w_table [KColumns [CAStr "a"]; KPrimaryKey []; KPrimaryKey ["a"]] = "!AttributeError"
  /\ create_text CVertica w_table [KUnlogged; KColumns [CAStr "a"]] = "!AttributeError"
  /\ create_text CMySQL w_table [KUnlogged; KColumns [CAStr "a"]] = "CREATE UNLOGGED TABLE `t` (`a`)"
  /\ create_text CGeneric w_table [KIfNotExists] = "".
Proof. vm_compute. repeat split. Qed.
Print Assumptions C17_example_text.

Example C17_example_vertica :
  let calls := [KTemporary; KColumns [CAStr "a"; CATuple "my col" "DOUBLE PRECISION"]; KPreserveRows; KIfNotExists; KLocal; KUnique ["my col"; "a"]] in
  exists st, api_build CVertica w_table calls = Ok st
    /\ api_spec_ok QDouble w_table calls = true /\ create_frag CVertica calls = true
    /\ parse_create QDouble (render_create CVertica st) = Some (api_ast_of w_table calls).
Proof. eexists; split; [vm_compute; reflexivity|]; vm_compute; repeat split; reflexivity. Qed.
Print Assumptions C17_example_vertica.

Example C17_example_index :
  let calls := [XWhere """a"">1"; XUnique; XColumns [CAStr "a"; CATuple "b" "INT"]; XOn (ITObj (mk_table "my  t" ["db"; "s"] None)); XIfNotExists; XWhere """c"" IS NULL"] in
  index_frag (api_ibuild (INStr "my idx") calls) = true
  /\ render_index (api_ibuild (INStr "my idx") calls)
     = Ok "CREATE UNIQUE INDEX IF NOT EXISTS ""my idx"" ON ""db"".""s"".""my  t""(a, b) WHERE ""a"">1 AND ""c"" IS NULL"
  /\ option_map x_cols (parse_index "CREATE UNIQUE INDEX IF NOT EXISTS ""my idx"" ON ""db"".""s"".""my  t""(a, b) WHERE ""a"">1 AND ""c"" IS NULL")
     = Some ["a"; "b"].
Proof. vm_compute. repeat split. Qed.
Print Assumptions C17_example_index.

Example C17_example_drop :
  let calls := [DIfExists; DDrop KTable (DTTable (mk_table "t" ["db"; "s"] None)); DOnCluster "c"] in
  drop_text DClickHouse calls = "DROP TABLE IF EXISTS ""db"".""s"".""t"" ON CLUSTER ""c"""
  /\ last_drop calls = Some (KTable, DTTable (mk_table "t" ["db"; "s"] None))
  /\ target_ok QDouble (DTTable (mk_table "t" ["db"; "s"] None)) = true
  /\ drop_text DMySQL [DDrop KView (DTStr "v")] = "DROP VIEW `v`"
  /\ drop_text DGeneric [DDrop KTable (DTStr "t"); DDrop KView (DTStr "v")] = "!AttributeError".
Proof. vm_compute. repeat split. Qed.
Print Assumptions C17_example_drop.
