(* C19 — Empty criteria are neutral and all/any fold filters in order.
   This file holds only the statement, the closing [exact]s and Print Assumptions. *)
From PV Require Import Base Crit lemmas.CritLemmas.

Definition C19_full_statement : Prop :=
  (* the empty criterion is the identity of AND / OR / XOR on either side *)
  (forall op x, cbin op Empty x = x /\ cbin op x Empty = x)
  (* and is its own negation, through ~ and through .negate() *)
  /\ cinv Empty = Empty /\ cneg Empty = Empty
  (* Criterion.all / any = left-to-right AND / OR of the non-empty members *)
  /\ (forall cs, call_all cs = chain BAnd (nonempty cs))
  /\ (forall cs, call_any cs = chain BOr (nonempty cs))
  (* where()/having() ignore the empty criterion wherever it is inserted *)
  /\ (forall cs w, fold_left add_filter cs w = fold_left add_filter (nonempty cs) w)
  (* successive where()/having() calls = one call with their conjunction:
     the same tree from an empty slot, the same text from a filled slot *)
  /\ (forall cs, fold_left add_filter cs None = add_filter None (call_all cs))
  /\ (forall wns cs a sub, is_empty a = false ->
        option_map (rc wns sub) (fold_left add_filter cs (Some a)) =
        option_map (rc wns sub) (add_filter (Some a) (call_all cs)))
  (* ... and the same with_namespace decision: the sticky _foreign_table flag after several where() calls is the flag
     after one call with their conjunction (so table qualification does not depend on how the filter was split) *)
  /\ (forall cs f, snd (fold_left add_where cs (None, f)) = snd (add_where (None, f) (call_all cs)))
  /\ (forall cs st, fst (fold_left add_where cs st) = fold_left add_filter cs (fst st))
  (* no dangling WHERE/HAVING: only empties => no filter at all; otherwise the statement renders *)
  /\ (forall cs w, forallb is_empty cs = true -> fold_left add_filter cs w = w)
  /\ (forall wns head ws hs, forallb wf ws = true -> forallb wf hs = true ->
        exists s, render_stmt_h wns head (fold_left add_filter ws None) (fold_left add_filter hs None) = Some s).

Theorem C19_holds : C19_full_statement.
Proof.
  unfold C19_full_statement.
  split; [intros; split; [apply cbin_empty_l | apply cbin_empty_r]|].
  split; [reflexivity|]. split; [reflexivity|].
  split; [exact call_all_chain|]. split; [exact call_any_chain|].
  split; [exact add_filter_empties|]. split; [exact where_calls_from_none|].
  split; [intros wns; exact (where_calls_render wns)|].
  split; [exact where_flag|]. split; [intros cs st; rewrite add_where_fold; reflexivity|].
  split; [exact all_empty_no_filter|].
  intros wns head ws hs Hw Hh. apply stmt_renders; apply fold_add_filter_ok; auto.
Qed.
Print Assumptions C19_holds.

(* all/any nest: their results are ordinary (well-formed) criteria, so the laws apply recursively *)
Theorem C19_all_any_wf : forall op cs, forallb wf cs = true -> wf (fold_left (cbin op) cs Empty) = true.
Proof. intros op cs H. exact (fold_cbin_wf op cs Empty eq_refl H). Qed.
Print Assumptions C19_all_any_wf.

(* non-vacuity: concrete non-trivial instances evaluate as the laws say *)
Example C19_example :
  let a := Atom "a=1" in let b := Atom "b=2" in let c := Atom "c=3" in
  call_all [Empty; a; Empty; call_any [b; Empty; c]; Empty] = Cplx BAnd a (Cplx BOr b c)
  /\ render_stmt false (fold_left add_filter [Empty; a; call_any [b; c]] None) None
     = Some "SELECT * FROM ""t"" WHERE a=1 AND (b=2 OR c=3)"
  /\ render_stmt false (fold_left add_filter [Empty; Empty] None) None = Some "SELECT * FROM ""t"""
  /\ (let o := AtomT "x=y" "t.x=o.y" true in let l := AtomT "z>0" "t.z>0" false in
      (* a foreign reference in the FIRST where() keeps the whole statement qualified after a local second call *)
      let st := fold_left add_where [o; Empty; l] (None, false) in
      render_stmt (snd st) (fst st) None = Some "SELECT * FROM ""t"" WHERE t.x=o.y AND t.z>0").
Proof. vm_compute. repeat split. Qed.
