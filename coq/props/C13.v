(* C13 — Aliases are defined once where selected and referenced consistently.
   This file holds only the statements, the closing [exact]s and Print Assumptions.
   The clauses (clause_select, clause_filters, clause_funcarg, clause_larger, clause_values, clause_group, clause_order,
   clause_defined) are spelled out in Alias.v section 7; their fragment versions in lemmas/AliasFinal.v section 1. *)
From PV Require Import Base Crit gen.TermsTable Terms TermsCorr Page gen.QueryTable Query gen.C13Table Alias
  lemmas.AliasLemmas lemmas.AliasStmt lemmas.AliasFinal lemmas.AliasNested.

(* for all statements (ten classes x select list x join criterion x WHERE x GROUP BY x HAVING x ORDER BY), all terms of the
   expression model at every depth, all non-empty alias names *)
Definition C13_full_statement : Prop :=
  (* an aliased object in the select list renders as the alias-free expression followed by its alias exactly once, in
     the class's alias convention (identifier quote, AS keyword) *)
  clause_select
  (* the same object in WHERE / HAVING / ON, as a function argument, inside a larger expression (any position), or in
     VALUES renders without the alias *)
  /\ clause_filters /\ clause_funcarg /\ clause_larger /\ clause_values
  (* in GROUP BY / ORDER BY it is a reference to the alias exactly when the name is in the select list and the class
     allows it (Oracle, SQL Server: not in GROUP BY), otherwise the alias-free expression *)
  /\ clause_group /\ clause_order
  (* and a referenced name is defined by the rendered select list *)
  /\ clause_defined.

(* The faithful model refutes the full statement ... *)
Theorem C13_refuted : ~ C13_full_statement.
Proof. intros [H _]. exact (not_clause_select H). Qed.
Print Assumptions C13_refuted.

(* ... and every single clause of it, each by a machine-checked witness. After the repairs f84cf61 / 39a4740 / 55bfddf /
   97eddd6 two root causes are left: the classes that ignore with_alias (NullCriterion alias inside WHERE, GROUP BY,
   ORDER BY; an aliased ValueWrapper as function argument, as operand of a selected expression, inside VALUES) and the
   bare alias of a sub-query selected under Snowflake (select list, and the reference ORDER BY "sq" to it) *)
Theorem C13_every_clause_refuted :
  ~ clause_select /\ ~ clause_filters /\ ~ clause_funcarg /\ ~ clause_larger /\ ~ clause_values
  /\ ~ clause_group /\ ~ clause_order /\ ~ clause_defined.
Proof.
  exact (conj not_clause_select (conj not_clause_filters (conj not_clause_funcarg (conj not_clause_larger
        (conj not_clause_values (conj not_clause_group (conj not_clause_order not_clause_defined))))))).
Qed.
Print Assumptions C13_every_clause_refuted.

(* the deviating texts themselves (reproduced on the implementation by the corpus cases) *)
Theorem C13_refutation_witnesses : witness_texts.
Proof. exact witness_texts_hold. Qed.
Print Assumptions C13_refutation_witnesses.

(* The fragment on which every clause holds, for ALL statements / classes / terms / depths:
   - select list: [sel_frag s t] = the top constructor consumes with_alias (Field, ArithmeticExpression, Case, Function incl.
     aggregates/analytics, comparison, AND/OR criterion, sub-query), its alias comes out in the class's convention (all of
     them in all ten classes, except a sub-query under Snowflake), and [quiet t]: no sub-term at any depth is an aliased
     constructor that ignores with_alias;
   - every other position, function arguments, VALUES, and the inside of any larger expression in ANY position under ANY
     constructor: [quiet] of the term (of the arguments, of the sub-terms) -- the "shielding" side condition of the first
     version is gone, VALUES needs no unaliased top any more;
   - definedness: the select items of that name are in the select fragment ([defs_ok]). *)
Definition C13_fragment_statement : Prop :=
  frag_select /\ frag_filters /\ frag_funcarg /\ frag_larger /\ frag_values /\ frag_group /\ frag_order /\ frag_defined.

Theorem C13_on_fragment : C13_fragment_statement.
Proof.
  exact (conj frag_select_holds (conj frag_filters_holds (conj frag_funcarg_holds (conj frag_larger_holds
        (conj frag_values_holds (conj frag_group_holds (conj frag_order_holds frag_defined_holds))))))).
Qed.
Print Assumptions C13_on_fragment.

(* the two induction theorems behind the fragment, at every depth and for every rendering context *)
Theorem C13_no_alias_outside_select : forall t c, wa c = false -> quiet t = true -> render c t = render c (strip_all t).
Proof. exact quiet_render. Qed.
Print Assumptions C13_no_alias_outside_select.

Theorem C13_alias_once_in_select : forall t c, wa c = true -> consumes t = true -> quiet t = true ->
  render c t = select_spec c t.
Proof. exact consumes_render. Qed.
Print Assumptions C13_alias_once_in_select.

(* What holds with no fragment at all: the per-constructor alias law for every term; GROUP BY / ORDER BY substitute by
   name exactly when selected and allowed (so a reference always names a select item); Always constructors do render
   "expression alias" in the class's convention; and the model agrees with the tables extracted from the code on this run
   (alias behaviour of every modelled Term class, format_alias_sql grid, keyword arguments reaching each position of each
   of the ten builder classes = the specified conventions, Oracle/MSSQL GROUP BY switch) *)
Theorem C13_rest_holds : unconditional.
Proof. exact unconditional_holds. Qed.
Print Assumptions C13_rest_holds.

(* non-vacuity: an aliased arithmetic object with an aliased field inside, selected, filtered on, grouped and ordered by,
   together with an aliased aggregate, satisfies the fragment hypotheses in all ten classes; texts of five classes *)
Example C13_example : example_texts.
Proof. exact example_texts_hold. Qed.
Print Assumptions C13_example.

(* nested statements (shared statement model Query.v, validated against pypika by the nested correspondence family): the
   GROUP BY-alias switch, once off, stays off through every chain of nested statements of arbitrary classes; Oracle and
   SQL Server statements switch it off themselves, and they are the only classes that do (extracted class table) *)
Theorem C13_nested_groupby_switch_inherited :
  (forall cs k, k_gba k = false -> k_gba (fold_left (fun k' c => defaults c k') cs k) = false)
  /\ (forall k, k_gba (defaults COracle k) = false /\ k_gba (defaults CMSSQL k) = false
               /\ k_gba (top_ctx COracle) = false /\ k_gba (top_ctx CMSSQL) = false)
  /\ (forall c, cls_gba c = match c with COracle | CMSSQL => false | _ => true end).
Proof. exact (conj gba_inherited_chain (conj gba_off_oracle_mssql gba_classes)). Qed.
Print Assumptions C13_nested_groupby_switch_inherited.

(* Proved for EVERY term since the wave-2 repairs (it was false before 39a4740 / 55bfddf): no constructor hands with_alias
   to its operands -- a node without an alias of its own renders the same with and without the flag *)
Theorem C13_operands_never_see_with_alias : forall c t, alias_of t = None -> render c t = render (set_wa c false) t.
Proof. exact unaliased_wa_irrelevant. Qed.
Print Assumptions C13_operands_never_see_with_alias.

(* ... and comparisons / AND-OR criteria over quiet operands are in the select fragment of every statement of every class
   (before 97eddd6 / 55bfddf: a comparison only where alias_quote_char is set, an AND/OR criterion never) *)
Theorem C13_comparisons_in_fragment : forall s t,
  (match t with TBasic _ _ _ _ | TCplx _ _ _ _ => true | _ => false end) = true -> quiet t = true -> sel_frag s t = true.
Proof. exact basic_cplx_in_fragment. Qed.
Print Assumptions C13_comparisons_in_fragment.

(* the repaired deviations as texts (regression witnesses; the same cases are in the corpus) *)
Theorem C13_repaired_witnesses : repaired_texts.
Proof. exact repaired_texts_hold. Qed.
Print Assumptions C13_repaired_witnesses.

(* select('*', ...) / table stars: the select list that GROUP BY / ORDER BY look the alias up in is [normalize_sel] of the
   arguments of select() (the model equals the code on the extracted star programs: star_rows_agree). After '*' every term that
   is not a Field is kept with its alias -- so its alias IS in the select list and, by clause_group / clause_order above, an
   element carrying it must be rendered as the reference *)
Theorem C13_star_keeps_aliased_terms :
  forallb star_row_ok x_star_rows = true
  /\ (forall ts, normalize_sel (SStar :: map ST ts) = TStar None :: filter (fun t => negb (is_fieldlike t)) ts)
  /\ (forall ts t a, In t ts -> is_fieldlike t = false -> alias_of t = Some a ->
        name_in (Some a) (map alias_of (normalize_sel (SStar :: map ST ts))) = true).
Proof. exact (conj star_rows_agree (conj star_keeps_terms star_alias_selected)). Qed.
Print Assumptions C13_star_keeps_aliased_terms.

(* ... and the switch passes through the contexts of clause items and of function arguments unchanged, so a sub-query of any
   class below an ORDER BY / GROUP BY item (directly or as a function argument) of a statement with the switch off has it off *)
Theorem C13_nested_switch_below_items :
  (forall k c, k_gba (with_c k c) = k_gba k) /\ (forall k, k_gba (fk k) = k_gba k)
  /\ (forall k c c' cl, k_gba k = false -> k_gba (defaults cl (with_c (fk (with_c k c)) c')) = false).
Proof. exact (conj gba_with_c (conj gba_fk gba_below_items)). Qed.
Print Assumptions C13_nested_switch_below_items.
