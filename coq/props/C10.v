(* C10 — Column references resolve to exactly the source they were bound to.
   Statement, closing [exact]s and Print Assumptions only; definitions in Scope.v, proofs in lemmas/Scope*.v.

   Reading of the model:  [stoks kin walias subquery ali x] are the tagged tokens of statement [x] rendered under the
   incoming keyword arguments [kin] (so: at ANY nesting depth); a [KRef tb qual name star] token is one field / star
   leaf bound to table reference [tb] (resolved to the source's in-statement reference) printed with qualifier [qual];
   [sref_ok w] says  qual = (if w || tb has an alias then Some (alias or name) else None),  with w forced to false for
   SET targets and INSERT columns;  [q_wns x] is the statement's with_namespace flag as Query.v computes it. *)
From PV Require Import Base Crit gen.TermsTable Terms Page gen.QueryTable Query Scope.
From PV Require Import lemmas.ScopeLemmas lemmas.ScopeStmt lemmas.ScopeNames.
Local Open Scope list_scope.

Definition C10_full_statement : Prop :=
  (* (0) the token view is the text: for every statement, at any depth, under any keyword arguments *)
  (forall kin walias subquery ali x,
     rquery kin walias subquery ali x = rmap (sflat (stmt_q kin x)) (stoks kin walias subquery ali x))
  (* (1)+(2) every reference of the statement's own clauses is printed by the rule under the statement's flag:
     flag on  => qualified by alias-or-name;  aliased source => qualified by the alias whatever the flag *)
  /\ (forall kin walias subquery ali x ts, stoks kin walias subquery ali x = Ok ts -> Forall (sref_ok (q_wns x)) ts)
  (* (3) the flag is on whenever more than one row source is in scope, a reference to a table of an enclosing
     statement (correlated sub-query) counting as one more source *)
  /\ (forall x, is_sud x = true -> 1 < eff_scope x -> q_wns x = true)
  (* (4) schema / database prefixes outermost first, on the table itself *)
  /\ (forall qc first rest, sch_sql qc (init_schema first rest) = schema_sql qc (first :: rest))
  /\ (forall c t, table_sql c t
                  = fmt_alias (join "." (map (fq (q c)) (tschema t ++ [tname t]))) (talias t) (q c) (aq c) (askw c))
  (* (5) names: the sub-query sources of a statement have pairwise distinct names as long as the aliases the
     sub-queries were passed in with are distinct; and the names the builder makes up are pairwise distinct *)
  /\ (forall x, NoDup (given_sub_names x) -> NoDup (subquery_names x))
  /\ (forall x, NoDup (builder_names x)).

(* ---------------- witnesses of the three defects (the model reproduces the implementation's text) ---------------- *)
Definition tT := {| tname := "t"; tschema := []; talias := None |}.
Definition tU := {| tname := "u"; tschema := []; talias := None |}.
Definition tV := {| tname := "v"; tschema := []; talias := None |}.
Definition sel1 (c : cls) (from : list source) (sels : list item) (lim : option Z) (a : option string) : query :=
  QSel c [] false sels from [] None None [] [] lim None false a.
(* SQLLiteQuery.from_(u).select(t.a).limit(1): its only reference is bound to the OUTER table t *)
Definition w_inner : query := sel1 CSQLLite [SrcT tU] [IT (TField "a" (Some tT) None)] (Some 1%Z) None.
Definition w_corr : query := sel1 CSQLLite [SrcT tT] [ISub w_inner] None None.
(* a sub-query that another statement already named sq0, passed as second FROM item after a fresh one *)
Definition w_reuse : query :=
  sel1 CQuery [SrcQ (sel1 CQuery [SrcT tV] [IT (TField "a" (Some {| tname := "#0"; tschema := []; talias := None |}) None)] None None);
               SrcQ (sel1 CQuery [SrcT tU] [IT (TField "a" (Some {| tname := "#0"; tschema := []; talias := None |}) None)] None (Some "sq0"))]
       [IT (TField "a" (Some {| tname := "#0"; tschema := []; talias := None |}) None);
        IT (TField "a" (Some {| tname := "#1"; tschema := []; talias := None |}) None)] None None.
(* the same table joined twice without alias *)
Definition w_rejoin : query :=
  QSel CQuery [] false [IT (TField "b" (Some {| tname := "#1"; tschema := []; talias := None |}) None);
                        IT (TField "c" (Some {| tname := "#2"; tschema := []; talias := None |}) None)]
       [SrcT tT] [(JInner, SrcT tT, JCrossCond); (JInner, SrcT tT, JCrossCond)] None None [] [] None None false None.

(* a table that is literally called "sq", joined again after two tagged sub-queries: its numbered alias sq2 is also the
   next sub-query tag (the tag is not checked against the names in use) *)
Definition tSQ := {| tname := "sq"; tschema := []; talias := None |}.
Definition subx (t : tref) : query := sel1 CQuery [SrcT t] [IT (TField "x" None None)] None None.
Definition w_sqtable : query :=
  QSel CQuery [] false [IT (TField "x" (Some {| tname := "#3"; tschema := []; talias := None |}) None);
                        IT (TField "x" (Some {| tname := "#4"; tschema := []; talias := None |}) None)]
       [SrcQ (subx tU); SrcQ (subx tV); SrcT tSQ]
       [(JInner, SrcT tSQ, JCrossCond); (JInner, SrcQ (subx tT), JCrossCond)] None None [] [] None None false None.

Example C10_witness_texts :
  str_query w_corr = Ok "SELECT (SELECT ""a"" FROM ""u"" LIMIT 1) FROM ""t"""
  /\ str_query w_reuse = Ok "SELECT ""sq0"".""a"",""sq0"".""a"" FROM (SELECT ""a"" FROM ""v"") ""sq0"",(SELECT ""a"" FROM ""u"") ""sq0"""
  /\ str_query w_rejoin = Ok "SELECT ""t2"".""b"",""t3"".""c"" FROM ""t"" CROSS JOIN ""t"" ""t2"" CROSS JOIN ""t"" ""t3"""
  /\ str_query w_sqtable = Ok "SELECT ""sq2"".""x"",""sq2"".""x"" FROM (SELECT ""x"" FROM ""u"") ""sq0"",(SELECT ""x"" FROM ""v"") ""sq1"",""sq"" CROSS JOIN ""sq"" ""sq2"" CROSS JOIN (SELECT ""x"" FROM ""t"") ""sq2""".
Proof. vm_compute. repeat split. Qed.
Print Assumptions C10_witness_texts.

Theorem C10_refuted : ~ C10_full_statement.
Proof.
  intros [_ [_ [H3 _]]]. specialize (H3 w_inner eq_refl). vm_compute in H3.
  assert (L : 1 < 2) by (constructor). specialize (H3 L). discriminate H3.
Qed.
Print Assumptions C10_refuted.

(* each of the three defects refutes its own conjunct *)
Theorem C10_refuted_correlated : exists x, is_sud x = true /\ 1 < eff_scope x /\ q_wns x = false
  /\ outer_refs x = [Some tT] /\ stmt_refs x = [(ClSelect, None, "a")].
Proof. exists w_inner. vm_compute. repeat split. constructor. Qed.
Print Assumptions C10_refuted_correlated.
Theorem C10_refuted_reuse : exists x, NoDup (given_sub_names x) /\ ~ NoDup (subquery_names x).
Proof.
  exists w_reuse. split.
  - vm_compute. constructor; [intros []|constructor].
  - vm_compute. intros H. inversion H as [|? ? Hn _]; subst. apply Hn. left. reflexivity.
Qed.
Print Assumptions C10_refuted_reuse.
(* REPAIRED (pypika 10401de): joining the same table again and again gives t2, t3, ...; the numbered aliases of a statement
   are pairwise distinct and none is a name an earlier source carries — for ALL statements *)
Theorem C10_rejoin_holds :
  (forall nm taken, ~ In (first_free nm taken) taken)
  /\ (forall base l taken own,
        (forall s, In s (numbered_of (jsources l) (fst (name_joins base taken own l))) -> ~ In s taken)
        /\ NoDup (numbered_of (jsources l) (fst (name_joins base taken own l))))
  /\ (forall x, NoDup (name2_names x))
  (* ... and none of them is the name of a FROM item or of the UPDATE target (WITH queries that are only defined are no sources) *)
  /\ (forall x s, In s (name2_names x) -> ~ In s (base_names x))
  /\ source_names w_rejoin = ["t"; "t2"; "t3"] /\ name2_names w_rejoin = ["t2"; "t3"].
Proof.
  split; [exact first_free_fresh|]. split; [exact numbered_fresh|]. split; [exact name2_NoDup|]. split; [exact name2_fresh|]. vm_compute. split; reflexivity.
Qed.
Print Assumptions C10_rejoin_holds.
(* what is still false about builder-made names: a numbered table alias can equal a sub-query tag *)
Theorem C10_refuted_numbered_vs_tag : exists x, ~ NoDup (builder_names x) /\ source_names x = ["sq0"; "sq1"; "sq"; "sq2"; "sq2"].
Proof.
  exists w_sqtable. split; [|reflexivity].
  vm_compute. intros H. inversion H as [|? ? _ H1]; subst. inversion H1 as [|? ? _ H2]; subst.
  inversion H2 as [|? ? Hn _]; subst. apply Hn. left. reflexivity.
Qed.
Print Assumptions C10_refuted_numbered_vs_tag.

(* ---------------- what holds: everything except correlation outside WHERE and re-used / re-joined names ---------------- *)
Definition where_of (x : query) : option item :=
  match x with
  | QSel _ _ _ _ _ _ wh _ _ _ _ _ _ _ | QUpd _ _ _ _ _ wh _ | QDel _ _ wh => wh
  | _ => None end.

Theorem C10_on_fragment :
  (* (0) (1) (2) hold in full: all statements, all clauses, any depth, any keyword arguments *)
  (forall kin walias subquery ali x,
     rquery kin walias subquery ali x = rmap (sflat (stmt_q kin x)) (stoks kin walias subquery ali x))
  /\ (forall kin walias subquery ali x ts, stoks kin walias subquery ali x = Ok ts -> Forall (sref_ok (q_wns x)) ts)
  (* (3) on the fragment: two or more sources of its own, or the foreign reference sits anywhere in the WHERE criterion
     item (any mix of AND/OR/NOT/IN/comparison/function items; not inside a nested sub-query) *)
  /\ (forall x, 1 < scope_size x -> q_wns x = true)
  /\ (forall x w, is_sud x = true -> where_of x = Some w ->
        existsb (out_of_scope (q_scope x) (q_srcs x)) (item_tables w) = true -> q_wns x = true)
  (* (4) holds in full *)
  /\ (forall qc first rest, sch_sql qc (init_schema first rest) = schema_sql qc (first :: rest))
  /\ (forall c t, table_sql c t
                  = fmt_alias (join "." (map (fq (q c)) (tschema t ++ [tname t]))) (talias t) (q c) (aq c) (askw c))
  (* (5) the sq<d> names are ALWAYS pairwise distinct among themselves (any order of from_ / join calls);
     all sub-query names are distinct when no passed-in alias looks like an invented one (in particular when every
     sub-query passed in is fresh); the numbered table aliases are ALWAYS pairwise distinct (first_free); all builder-made
     names are distinct when no re-joined table is called "sq..." *)
  /\ (forall h own, NoDup (invented_of (fst (run_hist own h))))
  /\ (forall x, NoDup (invented_names x))
  /\ (forall x, NoDup (given_sub_names x) -> forallb (fun s => negb (sq_prefixed s)) (given_sub_names x) = true ->
                NoDup (subquery_names x))
  /\ (forall x, given_sub_names x = [] -> NoDup (subquery_names x))
  /\ (forall x, NoDup (name2_names x))
  /\ (forall x, forallb (fun s => negb (sq_prefixed s)) (name2_names x) = true -> NoDup (builder_names x)).
Proof.
  split; [exact rquery_stoks|]. split; [exact stoks_rule|]. split; [exact scope_gt1_wns|].
  split; [exact foreign_where_wns|]. split; [exact schema_chain_outermost_first|]. split; [exact table_sql_chain|].
  split; [exact invented_NoDup_hist|]. split; [exact invented_NoDup|]. split; [exact subquery_names_NoDup|].
  split; [exact fresh_subqueries_NoDup|]. split; [exact name2_NoDup|]. exact builder_names_NoDup.
Qed.
Print Assumptions C10_on_fragment.

(* no reference is lost at statement level either: the reference tokens of a SELECT / UPDATE / DELETE are exactly the
   field leaves of its own clause items (select list, ON, WHERE, GROUP BY, HAVING, ORDER BY, SET target / value), resolved
   to the sources' in-statement references, clause by clause and in order; a GROUP BY / ORDER BY item printed as a
   select alias contributes none *)
Theorem C10_no_reference_lost : forall kin walias subquery ali x ts,
  is_sud x = true -> stoks kin walias subquery ali x = Ok ts -> stok_tables ts = expected_refs kin x.
Proof. exact stoks_complete. Qed.
Print Assumptions C10_no_reference_lost.

(* the two readings of the rule at statement level, for a reference token of ANY clause of ANY statement *)
Theorem C10_aliased_source_always_qualified : forall kin walias subquery ali x ts cl tb qual n st,
  stoks kin walias subquery ali x = Ok ts -> In (cl, KRef (Some tb) qual n st) ts ->
  truthy_ostr (talias tb) = true -> qual = Some (ostr (talias tb)).
Proof.
  intros kin walias subquery ali x ts cl tb qual n st H Hin Ha.
  pose proof (stoks_rule _ _ _ _ _ _ H) as F. rewrite Forall_forall in F. specialize (F _ Hin).
  unfold sref_ok in F. cbn [fst snd ref_ok qualifier] in F. rewrite Ha, orb_true_r in F.
  rewrite F, table_name_alias; auto.
Qed.
Print Assumptions C10_aliased_source_always_qualified.
Theorem C10_multi_source_qualified : forall kin walias subquery ali x ts cl tb qual n st,
  stoks kin walias subquery ali x = Ok ts -> In (cl, KRef (Some tb) qual n st) ts ->
  1 < scope_size x -> is_target cl = false -> qual = Some (table_name tb).
Proof.
  intros kin walias subquery ali x ts cl tb qual n st H Hin Hs Ht.
  pose proof (stoks_rule _ _ _ _ _ _ H) as F. rewrite Forall_forall in F. specialize (F _ Hin).
  unfold sref_ok in F. cbn [fst snd ref_ok qualifier] in F. rewrite Ht, (scope_gt1_wns _ Hs) in F. exact F.
Qed.
Print Assumptions C10_multi_source_qualified.
(* the table reference a field bound to the i-th source resolves to carries the source's in-statement name:
   the effective alias (given, sq<d> or name2) when there is one, else the table's own alias-or-name *)
Theorem C10_in_statement_name :
  (forall t, table_name (src_ref (SrcT t) None) = table_name t)
  /\ (forall t a, truthy_ostr (Some a) = true -> table_name (src_ref (SrcT t) (Some a)) = a)
  /\ (forall y a, truthy_ostr (Some a) = true -> table_name (src_ref (SrcQ y) (Some a)) = a)
  /\ (forall srcs t i, is_src_ref t = Some i -> resolve_tref srcs t = nth i srcs t).
Proof.
  split; [intros [n ch a]; reflexivity|].
  split; [intros t a H; unfold table_name, src_ref; cbn [talias]; rewrite H; reflexivity|].
  split; [intros y a H; unfold table_name, src_ref; cbn [talias]; rewrite H; reflexivity|].
  intros srcs t i H. unfold resolve_tref. rewrite H. reflexivity.
Qed.
Print Assumptions C10_in_statement_name.

(* expression level (all terms, any depth): text = tokens; no leaf lost; the rule; its three readings *)
Theorem C10_terms :
  (forall c t, render c t = rmap (flat (q c)) (rtoks c t))
  /\ (forall c t ts, rtoks c t = Ok ts -> tok_tables ts = field_tables t)
  /\ (forall c t ts, rtoks c t = Ok ts -> Forall (ref_ok (wn c)) ts)
  /\ (forall c t ts tb qual n st, wn c = true -> rtoks c t = Ok ts -> In (KRef (Some tb) qual n st) ts -> qual = Some (table_name tb))
  /\ (forall c t ts tb qual n st, truthy_ostr (talias tb) = true -> rtoks c t = Ok ts -> In (KRef (Some tb) qual n st) ts ->
        qual = Some (ostr (talias tb)))
  /\ (forall c t ts tb qual n st, wn c = false -> truthy_ostr (talias tb) = false -> rtoks c t = Ok ts ->
        In (KRef (Some tb) qual n st) ts -> qual = None).
Proof.
  split; [exact rtoks_render|]. split; [exact rtoks_complete|]. split; [exact rtoks_rule|].
  split; [exact qualified_when_namespace|]. split; [exact aliased_always_qualified|]. exact bare_otherwise.
Qed.
Print Assumptions C10_terms.

(* items of a statement: text = tokens, the rule, and the reference tokens are exactly the (resolved) field leaves *)
Theorem C10_items :
  (forall srcs i k c, ritem k srcs c i = rmap (flat (q c)) (itoks k srcs c i))
  /\ (forall srcs i k c ts, itoks k srcs c i = Ok ts ->
        Forall (ref_ok (wn c)) ts /\ tok_tables ts = map (resolve_otref srcs) (item_tables i)).
Proof.
  split; [exact ritem_toks|]. intros srcs i k c ts H. split; [eapply itoks_rule; eassumption|].
  exact (proj2 (itoks_props srcs i k c ts H)).
Qed.
Print Assumptions C10_items.

(* Query.v's own naming functions give the sub-query / set-operation sources the names of the history run
   "every from_() first, then the joins" *)
Theorem C10_names_are_history : forall base tk from joins,
  sub_only from (fst (stmt_names base tk from joins)) ++ sub_only (jsources joins) (snd (stmt_names base tk from joins))
  = sub_names_hist (fst (run_hist 0 (stmt_hist from joins))).
Proof. exact stmt_names_hist. Qed.
Print Assumptions C10_names_are_history.

(* ---------------- non-vacuity ---------------- *)
Definition ex_join : query :=
  QSel CQuery [] false
    [IT (TField "a" (Some {| tname := "#0"; tschema := []; talias := None |}) None);
     IT (TFunc "F" (TCons (TField "b" (Some {| tname := "#1"; tschema := []; talias := None |}) None) TNil) None None)]
    [SrcT {| tname := "x"; tschema := ["d"; "s"]; talias := None |}]
    [(JInner, SrcQ (sel1 CQuery [SrcT tU] [IT (TField "b" None None)] None None),
      JOn (IT (TBasic CEq (TField "id" (Some {| tname := "#0"; tschema := []; talias := None |}) None)
                          (TField "id" (Some {| tname := "#1"; tschema := []; talias := None |}) None) None)))]
    (Some (IT (TBasic CGt (TField "c" (Some {| tname := "#0"; tschema := []; talias := None |}) None) (TValI 1 None) None)))
    (Some (IT (TBasic CGt (TFunc "SUM" (TCons (TField "c" (Some {| tname := "#1"; tschema := []; talias := None |}) None) TNil) None None)
                          (TValI 2 None) None)))
    [IT (TField "a" (Some {| tname := "#0"; tschema := []; talias := None |}) None)]
    [(IT (TField "b" (Some {| tname := "#1"; tschema := []; talias := None |}) None), Some Desc)]
    None None false None.
Example C10_example :
  str_query ex_join = Ok "SELECT ""x"".""a"",F(""sq0"".""b"") FROM ""d"".""s"".""x"" JOIN (SELECT ""b"" FROM ""u"") ""sq0"" ON ""x"".""id""=""sq0"".""id"" WHERE ""x"".""c"">1 GROUP BY ""x"".""a"" HAVING SUM(""sq0"".""c"")>2 ORDER BY ""sq0"".""b"" DESC"
  /\ stmt_refs ex_join = [(ClSelect, Some "x", "a"); (ClSelect, Some "sq0", "b"); (ClOn, Some "x", "id"); (ClOn, Some "sq0", "id");
                          (ClWhere, Some "x", "c"); (ClGroupBy, Some "x", "a"); (ClHaving, Some "sq0", "c"); (ClOrderBy, Some "sq0", "b")]
  /\ q_wns ex_join = true /\ scope_size ex_join = 2 /\ invented_names ex_join = ["sq0"] /\ source_names ex_join = ["x"; "sq0"].
Proof. vm_compute. repeat split. Qed.
Print Assumptions C10_example.
