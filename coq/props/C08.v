(* C08 -- Clause placement does not depend on the order of builder calls.
   Statement, closing [exact]s, non-vacuity examples and Print Assumptions only; proofs are in
   lemmas/BuilderFrames.v and lemmas/BuilderLemmas.v, the model in Builder.v (parametric in the term type),
   the get_sql clause table in gen/C08Table.v (re-extracted from pypika/queries.py on every run). *)
From PV Require Import Base Builder BuilderCorr lemmas.BuilderFrames lemmas.BuilderLemmas gen.C08Table.
Local Open Scope list_scope.

(* (1) any interleaving of clause-adding calls that keeps the relative order of the calls of each kind succeeds
   iff the original order does and yields a state no renderer can tell apart (render = any function of the slots
   that sees _foreign_table only through with_namespace, as get_sql does).  For every term type and every
   choice of the term observations, every start state, every two lists. *)
Definition C08_interleavings : Prop :=
  forall (term : Type) ft fnd and_ ie fo wi st iss selt mkr ra (s0 : qstate term) (l1 l2 : list (call term)),
    all_commuting term l1 = true ->
    same_kind_order term l1 l2 ->
    forall q1, run term ft fnd and_ ie fo wi st iss selt mkr ra s0 l1 = Ok q1 ->
    exists q2, run term ft fnd and_ ie fo wi st iss selt mkr ra s0 l2 = Ok q2
               /\ equiv term q1 q2
               /\ (forall T (R : bool -> qstate term -> T), render term R q1 = render term R q2).

(* (2) repeated calls of one kind accumulate in call order: where/prewhere/having by AND (left fold of &=),
   WITH / index hints / SET pairs / VALUES rows / ORDER BY terms by appending -- whatever other calls are
   interleaved *)
Definition C08_accumulate : Prop :=
  forall (term : Type) ft fnd and_ ie fo wi st iss selt mkr ra (s0 q : qstate term) (l : list (call term)),
    run term ft fnd and_ ie fo wi st iss selt mkr ra s0 l = Ok q ->
    q_wheres term q = fold_left (acc_wheres term and_ ie) l (q_wheres term s0)
    /\ q_prewheres term q = fold_left (acc_prewheres term and_) l (q_prewheres term s0)
    /\ q_havings term q = fold_left (acc_havings term and_ ie) l (q_havings term s0)
    /\ q_with term q = fold_left (acc_with term) l (q_with term s0)
    /\ q_force_indexes term q = fold_left (acc_force term) l (q_force_indexes term s0)
    /\ q_use_indexes term q = fold_left (acc_use term) l (q_use_indexes term s0)
    /\ q_updates term q = fold_left (acc_updates term) l (q_updates term s0)
    /\ q_values term q = fold_left (acc_values term) l (q_values term s0)
    /\ (all_commuting term l = true ->
        q_orderbys term q = fold_left (acc_orderbys term fo (q_from term s0)) l (q_orderbys term s0)).

(* (3) get_sql (as extracted from the source) emits the clauses of each statement shape in the canonical order *)
Definition no_return (t : list (string * string)) : list string :=
  map snd (filter (fun r => negb (String.eqb (snd r) "RETURN")) t).
Definition C08_clause_order : Prop :=
  select_branch get_sql_table = canonical_select_order
  /\ update_branch get_sql_table = canonical_update_order
  /\ insert_branch get_sql_table = canonical_insert_order
  /\ no_return pagination_base_table = ["limit"; "offset"]
  /\ no_return pagination_oracle_table = ["offset"; "limit"]          (* OFFSET n ROWS FETCH NEXT m ROWS ONLY *)
  /\ no_return pagination_mssql_table = ["offset"; "limit"]
  /\ no_return pagination_clickhouse_table = ["limit_by"; "super_pagination"].

Definition C08_full_statement : Prop :=
  C08_interleavings /\ C08_accumulate /\ C08_clause_order.

(* ---- the full statement holds (since pypika 160d589 + 2def80d no clause-adding call reads what a call of another
   kind writes, except _validate_table reading _joins, which only moves the _foreign_table flag under a forced
   with_namespace) -------------------------------------------------------------------------------------------- *)
Theorem C08_holds : C08_full_statement.
Proof.
  split; [|split].
  - intros term ft fnd and_ ie fo wi st iss selt mkr ra s0 l1 l2 Hc Hk q1 Hr.
    destruct (interleaving_commutes term ft fnd and_ ie fo wi st iss selt mkr ra s0 l1 l2 Hc Hk q1 Hr) as [q2 [H2 E]].
    exists q2. split; [exact H2|]. split; [exact E|].
    intros T R. apply render_equiv. exact E.
  - intros term ft fnd and_ ie fo wi st iss selt mkr ra s0 q l H.
    split; [eapply wheres_accumulate; eauto|]. split; [eapply prewheres_accumulate; eauto|].
    split; [eapply havings_accumulate; eauto|]. split; [eapply with_accumulate; eauto|].
    split; [eapply force_accumulate; eauto|]. split; [eapply use_accumulate; eauto|].
    split; [eapply updates_accumulate; eauto|]. split; [eapply values_accumulate; eauto|].
    intro Hc. eapply orderbys_accumulate; eauto.
  - vm_compute. repeat split.
Qed.
Print Assumptions C08_holds.

(* do_join as written builds base_tables with self._with; the model's step uses the equal function that does not *)
Theorem C08_do_join_ignores_with : forall term fnd fr upd w joins cnt item how spec,
  step_join_code term fnd fr upd w joins cnt item how spec = step_join term fnd fr upd joins cnt item how spec.
Proof. exact step_join_code_eq. Qed.
Print Assumptions C08_do_join_ignores_with.

(* ---- regressions of the two repaired findings --------------------------------------------------------------- *)
Definition w_s0 : cstate := match crun (init cterm) [CFrom _ (Tab "a" None) 0%Z] with Ok s => s | Err _ => init cterm end.
Definition w_sub : cterm := CArg "#sub" [] [] None false false.
Definition w_select : ccall := CSelect _ [SStr _ "x"].
(* C08-with-join-autoalias (10401de, repaired by 2def80d): the numbered alias of a re-joined table is a2 whether the
   WITH query a2 is attached before or after the join *)
Definition w_crit : cterm := CArg "#a.x==a_.y" [Some (Tab "a" None)] [Some (Tab "a" None); Some (Tab "a" None)] None false false.
Definition w_with : ccall := CWith _ "a2" w_sub.
Definition w_join : ccall := CJoin _ (Tab "a" None) "inner" (JSOn _ w_crit None).
Example C08_autoalias_any_order :
  exists q, crun w_s0 [w_with; w_join; w_select] = Ok q /\ crun w_s0 [w_join; w_with; w_select] = Ok q
            /\ map d_join (q_joins _ q) = ["ON(T(a,a2)|inner|#a.x==a_.y|~)"].
Proof. vm_compute. eexists. repeat split. Qed.
Print Assumptions C08_autoalias_any_order.

(* C08-with-join-validation (repaired by 160d589): a join criterion naming a WITH query is accepted before and after
   with_(), with the same state *)
Definition v_crit : cterm := CArg "#w.x==v.x" [Some (Tab "v" None); Some (Wq "w")] [Some (Wq "w"); Some (Tab "v" None)] None false false.
Definition v_with : ccall := CWith _ "w" w_sub.
Definition v_join : ccall := CJoin _ (Tab "v" None) "inner" (JSOn _ v_crit None).
Example C08_with_reference_any_order :
  exists q, crun w_s0 [v_with; v_join; w_select] = Ok q /\ crun w_s0 [v_join; v_with; w_select] = Ok q.
Proof. vm_compute. eexists. split; reflexivity. Qed.
Print Assumptions C08_with_reference_any_order.

(* the parts of the argument, under their own names *)
Theorem C08_step_writes : forall term ft fnd and_ ie fo wi st iss selt mkr ra c s s',
  step term ft fnd and_ ie fo wi st iss selt mkr ra s c = Ok s' ->
  forall x, smem x (writes (kind_of term c)) = false -> eq_on term x s s'.
Proof. exact step_writes. Qed.
Print Assumptions C08_step_writes.

Theorem C08_step_reads : forall term ft fnd and_ ie fo wi st iss selt mkr ra c s1 s2,
  (forall x, smem x (deps (kind_of term c)) = true -> eq_on term x s1 s2) ->
  agree_out term (kind_of term c) (step term ft fnd and_ ie fo wi st iss selt mkr ra s1 c)
            (step term ft fnd and_ ie fo wi st iss selt mkr ra s2 c).
Proof. exact step_reads. Qed.
Print Assumptions C08_step_reads.

Theorem C08_footprints : footprint_table = true.
Proof. exact footprint_table_ok. Qed.
Print Assumptions C08_footprints.

Theorem C08_swap_adjacent : forall term ft fnd and_ ie fo wi st iss selt mkr ra s c1 c2 a b,
  commuting (kind_of term c1) = true -> commuting (kind_of term c2) = true ->
  kind_eqb (kind_of term c1) (kind_of term c2) = false ->
  step term ft fnd and_ ie fo wi st iss selt mkr ra s c1 = Ok a -> step term ft fnd and_ ie fo wi st iss selt mkr ra a c2 = Ok b ->
  exists a' b', step term ft fnd and_ ie fo wi st iss selt mkr ra s c2 = Ok a'
                /\ step term ft fnd and_ ie fo wi st iss selt mkr ra a' c1 = Ok b' /\ equiv term b b'.
Proof. exact swap_adjacent. Qed.
Print Assumptions C08_swap_adjacent.

(* ---- non-vacuity: a SELECT with calls of nine kinds, two interleavings, one state ------------------------- *)
Definition ex_t : tbl := Tab "t" None.
Definition ex_u : tbl := Tab "u" None.
Definition ex_arg (txt : string) (tabs : list (option tbl)) : cterm := CArg txt tabs tabs None false false.
Definition ex_calls : list ccall :=
  [ CWhere _ (ex_arg "#u.x=1" [Some ex_u]);
    CSelect _ [SStr _ "a"; SOther _ (ex_arg "#count" [])];
    CJoin _ ex_u "left" (JSOn _ (ex_arg "#t.id=u.id" [Some ex_u; Some ex_t]) None);
    CGroupby _ [GStr _ "a"];
    CHaving _ (ex_arg "#h1" []);
    CLimit _ 10%Z;
    CHaving _ (ex_arg "#h2" []);
    COrderby _ [OStr _ "a"] (Some "desc");
    COffset _ 5%Z;
    CWith _ "w" (ex_arg "#sub" []);
    CDistinct _;
    CWhere _ (ex_arg "#t.y>2" [Some ex_t]) ].
(* another order: join first, filters last, havings before the group by ... *)
Definition ex_perm : list nat := [2; 9; 4; 6; 10; 8; 5; 7; 3; 1; 0; 11]%nat.
Definition ex_s0 : cstate := match crun (init cterm) [CFrom _ ex_t 0%Z] with Ok s => s | Err _ => init cterm end.

Example C08_example :
  all_commuting cterm ex_calls = true
  /\ (forall k, kfilter cterm k ex_calls = kfilter cterm k (pick ex_calls ex_perm))
  /\ (exists q1 q2, crun ex_s0 ex_calls = Ok q1 /\ crun ex_s0 (pick ex_calls ex_perm) = Ok q2
        /\ q_foreign_table _ q1 = true /\ q_foreign_table _ q2 = false     (* the call-time flag differs ... *)
        /\ with_namespace_of _ q1 = true /\ with_namespace_of _ q2 = true   (* ... and cannot be seen *)
        /\ dump (set_foreign_table _ false q1) = dump (set_foreign_table _ false q2)
        /\ q_havings _ q1 = Some (CAnd (ex_arg "#h1" []) (ex_arg "#h2" [])))
  /\ select_branch expected_get_sql_table = canonical_select_order.
Proof.
  split; [reflexivity|]. split; [intro k; destruct k; reflexivity|].
  split; [|reflexivity].
  vm_compute. eexists. eexists. repeat split.
Qed.
Print Assumptions C08_example.
