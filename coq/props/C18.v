(* C18 — Function, aggregate and window wrappers render every part, once, in order.
   This file holds only the statements, the closing proofs and Print Assumptions.
   Model: coq/Func.v (render_func chain, the reader parse_call, denote_edge, the wrapper catalogue types);
   proofs: lemmas/FuncText.v, lemmas/FuncLemmas.v, lemmas/FuncCatalogue.v;
   coq/gen/C18Table.v is regenerated from the pypika sources on every run. *)
From PV Require Import Base Func FuncCorr lemmas.FuncText lemmas.FuncLemmas lemmas.FuncOps lemmas.FuncCatalogue gen.C18Table.
Open Scope string_scope.

(* "renders every part, once, in order": the text exists, reads back as exactly the requested parts
   (name, DISTINCT flag, every argument once in call order, special clause last inside the parentheses,
   FILTER before OVER, PARTITION BY / ORDER BY / frame inside OVER with the bounds given), and the call
   text has balanced parentheses *)
Definition renders_every_part (o : ropts) (fd : func_desc) (args : list string) : Prop :=
  exists s, get_sql o fd args = Ok s
            /\ parse_call s = Some (expected_ast o fd args)
            /\ (ro_with_alias o = false -> balanced s = true).

(* frame bounds denote the numbers given: every integer n, every non-integer numeral text s (str() of a float,
   Decimal or numeric str: raw_ok), and UNBOUNDED exactly when no number was given *)
Definition edges_denote : Prop :=
  (forall d n, (0 <= n)%Z -> denote_edge (render_edge (d, Some (OInt n))) = Some (d, Some (OInt n)))
  /\ (forall d s, raw_ok s = true -> denote_edge (render_edge (d, Some (ORaw s))) = Some (d, Some (ORaw s)))
  /\ (forall d, denote_edge (render_edge (d, None)) = Some (d, None))
  /\ (forall d v, offset_ok v = true -> (prefix "UNBOUNDED" (render_edge (d, v)) = true <-> v = None)).

Definition distinct_splice_ok : Prop :=
  forall name rest, splice (name ++ "(" ++ rest) (String.length name + 1) = name ++ "(" ++ "DISTINCT " ++ rest.

(* every wrapper class found in the current sources has the generic shape (each constructor argument
   exactly once, in call order, special clause last) or is the documented bare CURRENT_TIMESTAMP,
   and agrees with the committed expectation class by class *)
Definition catalogue_ok : Prop :=
  forallb entry_ok catalogue = true
  /\ drift_free catalogue expected_catalogue = true
  /\ map w_class (filter (fun w => negb (wrapper_ok w)) catalogue) = ["CurTimestamp"]
  /\ (forall w p ts name,
        In w catalogue -> w_bare w = false -> In p (w_probes w) -> List.length ts = List.length (p_kinds p) ->
        forallb arg_ok ts = true -> (w_named w = true -> name_ok name = true) ->
        texts_ok (probe_desc w name p ts) = true /\ combo_ok (probe_desc w name p ts) = true
        /\ forallb arg_ok (inst_args p ts) = true
        /\ map (fun k => nth k ts "") (param_seq p) = ts).

(* The property as worded: ALL combinations of the optional clauses = every sequence of clause-method calls
   (.distinct .filter .over .orderby .rows/.range .ignore_nulls, FuncCorr.apply_ops) that pypika accepts on a
   freshly constructed wrapper; ALL CustomFunction calls. *)
Definition C18_full_statement : Prop :=
  (forall w o fd0 ops fd args,
     fresh fd0 = true -> apply_ops w fd0 ops = Ok fd ->
     texts_ok fd = true -> forallb arg_ok args = true -> tail_ok (tail_text o fd) = true ->
     renders_every_part o fd args)
  /\ (forall params args args', custom_call params args = Ok args' -> args' = args)
  /\ (forall ps args, List.length args <> List.length ps -> custom_call (Some ps) args = Err "FunctionException")
  /\ edges_denote /\ distinct_splice_ok /\ catalogue_ok.

(* Nothing is excluded at the level of calls.  At the level of descriptions the reachable states are exactly
   characterised by combo_ok (a requested FILTER has a criterion, a frame comes with the OVER clause):
   lemmas/FuncOps.v apply_ops_combo; C18_unreachable_state below shows what the rendering code would still do
   with a state outside it. *)

Lemma edges_denote_holds : edges_denote.
Proof.
  split; [intros; apply denote_render_edge; reflexivity|]. split; [intros; apply denote_render_edge; assumption|].
  split; [intros; apply denote_render_edge; reflexivity|]. exact unbounded_only_none.
Qed.

Lemma catalogue_ok_holds : catalogue_ok.
Proof.
  split; [exact catalogue_sound|]. split; [exact catalogue_no_drift|]. split; [exact exceptions_listed|].
  intros w p ts name Hin Hb Hp Hl Ha Hn. apply wrapper_instance; auto. apply catalogue_entries_generic; auto.
Qed.

(* the description-level theorem: every description inside combo_ok renders every part *)
Theorem C18_on_descriptions : forall o fd args,
  texts_ok fd = true -> combo_ok fd = true -> forallb arg_ok args = true -> tail_ok (tail_text o fd) = true ->
  renders_every_part o fd args.
Proof.
  intros o fd args Ht Hc Ha Htl. destruct (render_parse o fd args Ht Hc Ha Htl) as [s [H1 H2]].
  exists s. split; [exact H1|]. split; [exact H2|]. intros Hw.
  destruct (texts_ok_parts fd Ht) as [_ [_ [_ [_ [_ [_ Hb]]]]]]. destruct (combo_ok_parts fd Hc) as [Hne _].
  rewrite (get_sql_norm o fd args Hb Hne) in H1. inversion H1 as [E]. unfold tail_text. rewrite Hw. cbn [tail_part].
  rewrite sapp_nil_r. apply render_balanced; assumption.
Qed.
Print Assumptions C18_on_descriptions.

Lemma custom_call_passes : forall params args args', custom_call params args = Ok args' -> args' = args.
Proof.
  intros [ps|] args args' H; unfold custom_call in H; [|congruence].
  destruct (Nat.eqb (List.length args) (List.length ps)); congruence.
Qed.

Theorem C18_holds : C18_full_statement.
Proof.
  split.
  { intros w o fd0 ops fd args Hf Ha Ht Hargs Htl. apply C18_on_descriptions; auto.
    exact (apply_ops_combo w ops fd0 fd (fresh_combo fd0 Hf) Ha). }
  split; [exact custom_call_passes|]. split; [exact custom_call_mismatch|].
  split; [exact edges_denote_holds|]. split; [exact splice_after_paren|]. exact catalogue_ok_holds.
Qed.
Print Assumptions C18_holds.

(* The four defects found while building this check are fixed upstream and are now theorems of the model:
   filter() without arguments is a no-op (9b8ab76) and EmptyCriterion arguments are dropped (b46d576): apply_op;
   a frame switches OVER on (356e88f): set_frame; CustomFunction without declared params passes its
   arguments (b2a2b7a): custom_call_passes.
   The rendering code itself is unchanged: a description with _include_filter and no criteria would still raise
   TypeError - but no sequence of clause calls reaches it any more (C18_holds quantifies over all of them). *)
Definition no_alias : ropts := {| ro_with_alias := false; ro_quote := Some """"; ro_alias_quote := None; ro_as_keyword := false |}.
Definition w_sum : wrapper :=
  {| w_module := "pypika.functions"; w_class := "Sum"; w_sql := "SUM"; w_named := false; w_agg := true; w_distinct := true;
     w_analytic := false; w_frame := false; w_ignore_nulls := false; w_schema := false; w_alias := true; w_bare := false;
     w_probes := [{| p_kinds := [PTerm]; p_slots := [SParam 0]; p_special := None |}] |}.
Definition unreachable_empty_filter : func_desc :=
  {| fd_name := "SUM"; fd_schema := None; fd_alias := None; fd_special := None; fd_distinct := false;
     fd_filters := []; fd_include_filter := true; fd_partition := []; fd_orderbys := []; fd_include_over := false;
     fd_frame := None; fd_bare := false |}.
Theorem C18_unreachable_state :
  combo_ok unreachable_empty_filter = false
  /\ get_sql no_alias unreachable_empty_filter ["""a"""] = Err "TypeError"
  /\ (forall w fd0 ops, fresh fd0 = true -> apply_ops w fd0 ops <> Ok unreachable_empty_filter).
Proof.
  split; [reflexivity|]. split; [reflexivity|].
  intros w fd0 ops Hf H. pose proof (apply_ops_combo w ops fd0 _ (fresh_combo fd0 Hf) H) as C. discriminate.
Qed.
Print Assumptions C18_unreachable_state.

(* the former witnesses, on the model: all of them render now *)
Example C18_fixed_filter_examples :
  lookup_wrapper "pypika.functions" "Sum" catalogue = Some w_sum
  /\ apply_ops w_sum (plain_func "SUM") [OFilter []] = Ok (plain_func "SUM")
  /\ apply_ops w_sum (plain_func "SUM") [OFilter [None]; OFilter [None; None]] = Ok (plain_func "SUM")
  /\ match apply_ops w_sum (plain_func "SUM") [OFilter [None; Some (false, """a"">1"); None]; OFilter []; OFilter [Some (true, "x=2 OR y=3")]] with
     | Ok fd => get_sql no_alias fd ["""a"""] | Err e => Err e end = Ok "SUM(""a"") FILTER(WHERE ""a"">1 AND (x=2 OR y=3))".
Proof. vm_compute. repeat split; reflexivity. Qed.

(* regression facts for the upstream fixes, on the model *)
Theorem C18_fixed_filter_noop : forall w fd cs, w_agg w = true -> somes cs = [] -> apply_op w fd (OFilter cs) = Ok fd.
Proof. intros w fd cs H E. cbn. rewrite H, E. reflexivity. Qed.
Print Assumptions C18_fixed_filter_noop.

Theorem C18_fixed_frame_implies_over : forall fd k b ab fd',
  set_frame fd k b ab = Ok fd' -> fd_include_over fd' = true /\ fd_frame fd' = Some (k, b, ab).
Proof. intros fd k b ab fd' H. unfold set_frame in H. destruct (fd_frame fd); [discriminate|]. inversion H. split; reflexivity. Qed.
Print Assumptions C18_fixed_frame_implies_over.

Example C18_fixed_frame_example :
  match set_frame (plain_func "SUM") Rows (BEdge Preceding (Some (OInt 3%Z))) None with
  | Ok fd => get_sql no_alias fd ["""a"""] | Err e => Err e end = Ok "SUM(""a"") OVER( ROWS 3 PRECEDING)".
Proof. vm_compute. reflexivity. Qed.

Theorem C18_fixed_custom_function : forall args, custom_call None args = Ok args.
Proof. reflexivity. Qed.
Print Assumptions C18_fixed_custom_function.

(* the fixed defect (5862a90): bound 0 is a number, not UNBOUNDED - now a theorem for every n *)
Theorem C18_bound_zero : render_edge (Preceding, Some (OInt 0%Z)) = "0 PRECEDING" /\ render_edge (Following, None) = "UNBOUNDED FOLLOWING".
Proof. vm_compute. split; reflexivity. Qed.
Print Assumptions C18_bound_zero.

(* non-integral offsets (legal for RANGE frames) are written as given; "0.5" is not "0" *)
Example C18_fractional_bounds :
  render_frame (Range, BEdge Preceding (Some (ORaw "0.5")), Some (BEdge Following (Some (ORaw "1.5"))))
    = "RANGE BETWEEN 0.5 PRECEDING AND 1.5 FOLLOWING"
  /\ denote_edge "0.5 PRECEDING" = Some (Preceding, Some (ORaw "0.5"))
  /\ denote_edge "0 PRECEDING" = Some (Preceding, Some (OInt 0%Z))
  /\ forallb raw_ok ["0.5"; "2.25"; "1e-05"; "-1.5"; "05"] = true /\ raw_ok "5" = false /\ raw_ok "UNBOUNDED" = false.
Proof. vm_compute. repeat split. Qed.

(* DISTINCT goes after the wrapper's own parenthesis only, also when an argument or a criterion contains NAME( *)
Example C18_distinct_once :
  function_sql {| fd_name := "SUM"; fd_schema := None; fd_alias := None; fd_special := None; fd_distinct := true;
                  fd_filters := [(false, "SUM(""b"")>1")]; fd_include_filter := true; fd_partition := []; fd_orderbys := [];
                  fd_include_over := false; fd_frame := None; fd_bare := false |} ["CHECKSUM(""a"")"]
  = Ok "SUM(DISTINCT CHECKSUM(""a"")) FILTER(WHERE SUM(""b"")>1)".
Proof. vm_compute. reflexivity. Qed.

(* a DISTINCT splice one position early would land before the parenthesis *)
Theorem C18_splice_position : forall name rest,
  splice (name ++ "(" ++ rest) (String.length name) = name ++ "DISTINCT " ++ "(" ++ rest.
Proof. exact splice_off_by_one. Qed.
Print Assumptions C18_splice_position.

(* ---- non-vacuity ---- *)
(* the argument predicate accepts what pypika renders as arguments: quoted names, nested calls with commas
   inside their parentheses, CASE expressions with spaces, arithmetic, literals; and rejects a bare comma *)
Example C18_arg_ok_examples :
  forallb arg_ok ["""s0"""; "COALESCE(""n1"",2001)"; "CASE WHEN ""c2""=1 THEN 4002 ELSE 5002 END"; """s3""+3003"; "'lit4'";
                  "8105"; "NULL"; "*"; "CAST(""x"" AS VARCHAR(10))"; "(SELECT ""a"" FROM ""t"")"] = true
  /\ arg_ok "a,b" = false /\ arg_ok "x AS y" = false /\ arg_ok "f(" = false /\ arg_ok "" = false.
Proof. vm_compute. repeat split. Qed.

(* a scalar sub-query is a well-formed part in every position once it is rendered as one parenthesised unit
   (arguments, FILTER operands, PARTITION BY / ORDER BY terms, EXTRACT(.. FROM ..)); without the parentheses it is not
   (level-0 FROM keyword / not a unit): the hypotheses of the round trip are exactly what the repaired code guarantees *)
Example C18_subquery_parts :
  let q := "(SELECT MAX(""qx"") FROM ""qw0"")" in
  arg_ok q = true /\ part_ok q = true /\ ord_ok (q, Some Desc) = true /\ filter_ok (false, """b"">" ++ q) = true
  /\ special_ok (Some ("FROM " ++ q)) = true
  /\ arg_ok "SELECT MAX(""qx"") FROM ""qw0""" = false
  /\ option_map wa_partition (match parse_call ("SUM(x) OVER(PARTITION BY " ++ q ++ ",y ORDER BY " ++ q ++ " DESC)") with
                              | Some a => a_over a | None => None end) = Some [q; "y"].
Proof. vm_compute. repeat split. Qed.

Definition ex_fd : func_desc :=
  {| fd_name := "FIRST_VALUE"; fd_schema := Some """sc"""; fd_alias := Some "al"; fd_special := Some "IGNORE NULLS";
     fd_distinct := false; fd_filters := [(false, """fa""=1"); (true, """fb"">2 OR ""fc""=3"); (false, """fd""=4 AND ""fe""=5")]; fd_include_filter := true;
     fd_partition := ["""w0"""; "COALESCE(""v1"",6001)"]; fd_orderbys := [("""w10""", Some Desc); ("""w11""*7011", None)];
     fd_include_over := true; fd_frame := Some (Range, BEdge Preceding (Some (OInt 1000000000%Z)), Some BCurrentRow);
     fd_bare := false |}.
Definition ex_opts : ropts := {| ro_with_alias := true; ro_quote := Some """"; ro_alias_quote := None; ro_as_keyword := true |}.

Example C18_example :
  texts_ok ex_fd = true /\ combo_ok ex_fd = true /\ tail_ok (tail_text ex_opts ex_fd) = true
  /\ get_sql ex_opts ex_fd ["""s0"""; "COALESCE(""n1"",2001)"] =
     Ok ("""sc"".FIRST_VALUE(""s0"",COALESCE(""n1"",2001) IGNORE NULLS) FILTER(WHERE ""fa""=1 AND (""fb"">2 OR ""fc""=3) AND ""fd""=4 AND ""fe""=5) " ++
         "OVER(PARTITION BY ""w0"",COALESCE(""v1"",6001) ORDER BY ""w10"" DESC,""w11""*7011 " ++
         "RANGE BETWEEN 1000000000 PRECEDING AND CURRENT ROW) AS ""al""")
  /\ option_map a_args (parse_call ("COUNT(DISTINCT ""a"",f(1,2) AS T) FILTER(WHERE x) OVER( ROWS 0 PRECEDING)"))
     = Some ["""a"""; "f(1,2)"].
Proof. vm_compute. repeat split. Qed.

Example C18_distinct_example :
  function_sql {| fd_name := "COUNT"; fd_schema := None; fd_alias := None; fd_special := None; fd_distinct := true;
                  fd_filters := [(true, """fa""=1 OR ""fb""=2")]; fd_include_filter := true; fd_partition := []; fd_orderbys := [];
                  fd_include_over := false; fd_frame := None; fd_bare := false |} ["*"]
  = Ok "COUNT(DISTINCT *) FILTER(WHERE ""fa""=1 OR ""fb""=2)".
Proof. vm_compute. reflexivity. Qed.

(* the catalogue is not empty and contains the wrappers with special clauses in the stated form *)
Example C18_catalogue_examples :
  Nat.leb 50 (List.length catalogue) = true
  /\ option_map (fun w => (w_sql w, map p_slots (w_probes w), map p_special (w_probes w)))
       (lookup_wrapper "pypika.functions" "Extract" catalogue)
     = Some ("EXTRACT", [[SParam 0]; [SParam 0]], [Some ("FROM ", Some 1); Some ("FROM ", Some 1)])
  /\ option_map (fun w => map p_slots (w_probes w)) (lookup_wrapper "pypika.functions" "DateAdd" catalogue)
     = Some [[SParam 0; SParam 1; SParam 2]; [SParam 0; SParam 1; SParam 2]]
  /\ option_map (fun w => map p_slots (w_probes w)) (lookup_wrapper "pypika.functions" "NVL" catalogue)
     = Some [[SParam 0; SParam 1]].
Proof. vm_compute. repeat split. Qed.
