(* C18 — Function, aggregate and window wrappers render every part, once, in order.
   This file holds only the statements, the closing proofs and Print Assumptions.
   Model: coq/Func.v (render_func chain, the reader parse_call, denote_edge, the wrapper catalogue types);
   proofs: lemmas/FuncText.v, lemmas/FuncLemmas.v, lemmas/FuncCatalogue.v;
   coq/gen/C18Table.v is regenerated from the pypika sources on every run. *)
From PV Require Import Base Func FuncCorr lemmas.FuncText lemmas.FuncLemmas lemmas.FuncCatalogue gen.C18Table.
Open Scope string_scope.

(* "renders every part, once, in order": the text exists, reads back as exactly the requested parts
   (name, DISTINCT flag, every argument once in call order, special clause last inside the parentheses,
   FILTER before OVER, PARTITION BY / ORDER BY / frame inside OVER with the bounds given), and the call
   text has balanced parentheses *)
Definition renders_every_part (o : ropts) (fd : func_desc) (args : list string) : Prop :=
  exists s, get_sql o fd args = Ok s
            /\ parse_call s = Some (expected_ast o fd args)
            /\ (ro_with_alias o = false -> balanced s = true).

Definition edges_denote : Prop :=
  (forall d n, (0 <= n)%Z -> denote_edge (render_edge (d, Some n)) = Some (d, Some n))
  /\ (forall d, denote_edge (render_edge (d, None)) = Some (d, None))
  /\ (forall d v, prefix "UNBOUNDED" (render_edge (d, v)) = true <-> v = None).

Definition distinct_splice_ok : Prop :=
  forall name rest, splice (name ++ "(" ++ rest) (String.length name + 1) = name ++ "(" ++ "DISTINCT " ++ rest.

(* every wrapper class found in the current sources has the generic shape (each constructor argument
   exactly once, in call order, special clause last) or is the documented bare CURRENT_TIMESTAMP,
   and agrees with the committed expectation class by class *)
Definition catalogue_ok : Prop :=
  forallb entry_ok catalogue = true
  /\ drift_free catalogue expected_catalogue = true
  /\ map w_class (filter (fun w => negb (wrapper_ok w)) catalogue) = ["CurTimestamp"]
  /\ (forall w p ts name,
        In w catalogue -> w_bare w = false -> In p (w_probes w) -> List.length ts = List.length (p_kinds p) ->
        forallb arg_ok ts = true -> (w_named w = true -> name_ok name = true) ->
        texts_ok (probe_desc w name p ts) = true /\ combo_ok (probe_desc w name p ts) = true
        /\ forallb arg_ok (inst_args p ts) = true
        /\ map (fun k => nth k ts "") (param_seq p) = ts).

(* The property as worded: ALL combinations of the optional clauses, ALL CustomFunction calls. *)
Definition C18_full_statement : Prop :=
  (forall o fd args, texts_ok fd = true -> forallb arg_ok args = true -> tail_ok (tail_text o fd) = true ->
     renders_every_part o fd args)
  /\ (forall params args args', custom_call params args = Ok args' -> args' = args)
  /\ edges_denote /\ distinct_splice_ok /\ catalogue_ok.

(* ... on the clause combinations that can render what was asked (combo_ok: a requested FILTER has a criterion,
   a frame comes with over()/orderby()) and for CustomFunctions with declared parameters *)
Definition C18_fragment_statement : Prop :=
  (forall o fd args, texts_ok fd = true -> combo_ok fd = true -> forallb arg_ok args = true ->
     tail_ok (tail_text o fd) = true -> renders_every_part o fd args)
  /\ (forall ps args args', custom_call (Some ps) args = Ok args' -> args' = args)
  /\ (forall ps args, List.length args <> List.length ps -> custom_call (Some ps) args = Err "FunctionException")
  /\ edges_denote /\ distinct_splice_ok /\ catalogue_ok.

Lemma edges_denote_holds : edges_denote.
Proof.
  split; [intros; apply denote_render_edge|]. split; [intros; apply denote_render_edge|]. exact unbounded_only_none.
Qed.

Lemma catalogue_ok_holds : catalogue_ok.
Proof.
  split; [exact catalogue_sound|]. split; [exact catalogue_no_drift|]. split; [exact exceptions_listed|].
  intros w p ts name Hin Hb Hp Hl Ha Hn. apply wrapper_instance; auto. apply catalogue_entries_generic; auto.
Qed.

Theorem C18_on_fragment : C18_fragment_statement.
Proof.
  split.
  { intros o fd args Ht Hc Ha Htl. destruct (render_parse o fd args Ht Hc Ha Htl) as [s [H1 H2]].
    exists s. split; [exact H1|]. split; [exact H2|]. intros Hw.
    destruct (texts_ok_parts fd Ht) as [_ [_ [_ [_ [_ [_ Hb]]]]]]. destruct (combo_ok_parts fd Hc) as [Hne _].
    rewrite (get_sql_norm o fd args Hb Hne) in H1. inversion H1 as [E]. unfold tail_text. rewrite Hw. cbn [tail_part].
    rewrite sapp_nil_r. apply render_balanced; assumption. }
  split.
  { intros ps args args' H. unfold custom_call in H. destruct (Nat.eqb (List.length args) (List.length ps)); congruence. }
  split; [exact custom_call_mismatch|].
  split; [exact edges_denote_holds|]. split; [exact splice_after_paren|]. exact catalogue_ok_holds.
Qed.
Print Assumptions C18_on_fragment.

(* ---- the faithful model refutes the property as worded: three genuine defects ---- *)
Definition no_alias : ropts := {| ro_with_alias := false; ro_quote := Some """"; ro_alias_quote := None; ro_as_keyword := false |}.

(* filter() without criteria: include_filter is set, Criterion.all([]) is the EmptyCriterion, its get_sql
   does not take keyword arguments: TypeError at render *)
Definition w_empty_filter : func_desc :=
  {| fd_name := "SUM"; fd_schema := None; fd_alias := None; fd_special := None; fd_distinct := false;
     fd_filters := []; fd_include_filter := true; fd_partition := []; fd_orderbys := []; fd_include_over := false;
     fd_frame := None; fd_bare := false |}.
Theorem C18_refuted_empty_filter :
  texts_ok w_empty_filter = true /\ get_sql no_alias w_empty_filter ["""a"""] = Err "TypeError".
Proof. vm_compute. split; reflexivity. Qed.
Print Assumptions C18_refuted_empty_filter.

(* rows()/range() without over()/orderby(): the frame is silently dropped *)
Definition w_frame_no_over : func_desc :=
  {| fd_name := "SUM"; fd_schema := None; fd_alias := None; fd_special := None; fd_distinct := false;
     fd_filters := []; fd_include_filter := false; fd_partition := []; fd_orderbys := []; fd_include_over := false;
     fd_frame := Some (Rows, BEdge Preceding (Some 3%Z), Some (BEdge Following None)); fd_bare := false |}.
Theorem C18_refuted_frame_without_over :
  texts_ok w_frame_no_over = true
  /\ get_sql no_alias w_frame_no_over ["""a"""] = Ok "SUM(""a"")"
  /\ option_map a_over (parse_call "SUM(""a"")") = Some None
  /\ a_over (expected_ast no_alias w_frame_no_over ["""a"""]) <> None.
Proof. vm_compute. repeat split; try reflexivity. discriminate. Qed.
Print Assumptions C18_refuted_frame_without_over.

(* CustomFunction without declared parameters ignores its call arguments *)
Theorem C18_refuted_custom_function : custom_call None ["""a"""; """b"""] = Ok [].
Proof. reflexivity. Qed.
Print Assumptions C18_refuted_custom_function.

Theorem C18_refuted : ~ C18_full_statement.
Proof.
  intros [H _].
  destruct (H no_alias w_empty_filter ["""a"""] eq_refl eq_refl eq_refl) as [s [H1 _]].
  vm_compute in H1. discriminate.
Qed.
Print Assumptions C18_refuted.

(* the fixed defect (5862a90): bound 0 is a number, not UNBOUNDED - now a theorem for every n *)
Theorem C18_bound_zero : render_edge (Preceding, Some 0%Z) = "0 PRECEDING" /\ render_edge (Following, None) = "UNBOUNDED FOLLOWING".
Proof. vm_compute. split; reflexivity. Qed.
Print Assumptions C18_bound_zero.

(* a DISTINCT splice one position early would land before the parenthesis *)
Theorem C18_splice_position : forall name rest,
  splice (name ++ "(" ++ rest) (String.length name) = name ++ "DISTINCT " ++ "(" ++ rest.
Proof. exact splice_off_by_one. Qed.
Print Assumptions C18_splice_position.

(* ---- non-vacuity ---- *)
(* the argument predicate accepts what pypika renders as arguments: quoted names, nested calls with commas
   inside their parentheses, CASE expressions with spaces, arithmetic, literals; and rejects a bare comma *)
Example C18_arg_ok_examples :
  forallb arg_ok ["""s0"""; "COALESCE(""n1"",2001)"; "CASE WHEN ""c2""=1 THEN 4002 ELSE 5002 END"; """s3""+3003"; "'lit4'";
                  "8105"; "NULL"; "*"; "CAST(""x"" AS VARCHAR(10))"; "(SELECT ""a"" FROM ""t"")"] = true
  /\ arg_ok "a,b" = false /\ arg_ok "x AS y" = false /\ arg_ok "f(" = false /\ arg_ok "" = false.
Proof. vm_compute. repeat split. Qed.

Definition ex_fd : func_desc :=
  {| fd_name := "FIRST_VALUE"; fd_schema := Some """sc"""; fd_alias := Some "al"; fd_special := Some "IGNORE NULLS";
     fd_distinct := false; fd_filters := ["""fa""=1"; """fb"">2"]; fd_include_filter := true;
     fd_partition := ["""w0"""; "COALESCE(""v1"",6001)"]; fd_orderbys := [("""w10""", Some Desc); ("""w11""*7011", None)];
     fd_include_over := true; fd_frame := Some (Range, BEdge Preceding (Some 1000000000%Z), Some BCurrentRow);
     fd_bare := false |}.
Definition ex_opts : ropts := {| ro_with_alias := true; ro_quote := Some """"; ro_alias_quote := None; ro_as_keyword := true |}.

Example C18_example :
  texts_ok ex_fd = true /\ combo_ok ex_fd = true /\ tail_ok (tail_text ex_opts ex_fd) = true
  /\ get_sql ex_opts ex_fd ["""s0"""; "COALESCE(""n1"",2001)"] =
     Ok ("""sc"".FIRST_VALUE(""s0"",COALESCE(""n1"",2001) IGNORE NULLS) FILTER(WHERE ""fa""=1 AND ""fb"">2) " ++
         "OVER(PARTITION BY ""w0"",COALESCE(""v1"",6001) ORDER BY ""w10"" DESC,""w11""*7011 " ++
         "RANGE BETWEEN 1000000000 PRECEDING AND CURRENT ROW) AS ""al""")
  /\ option_map a_args (parse_call ("COUNT(DISTINCT ""a"",f(1,2) AS T) FILTER(WHERE x) OVER( ROWS 0 PRECEDING)"))
     = Some ["""a"""; "f(1,2)"].
Proof. vm_compute. repeat split. Qed.

Example C18_distinct_example :
  function_sql {| fd_name := "COUNT"; fd_schema := None; fd_alias := None; fd_special := None; fd_distinct := true;
                  fd_filters := ["""fa""=1"]; fd_include_filter := true; fd_partition := []; fd_orderbys := [];
                  fd_include_over := false; fd_frame := None; fd_bare := false |} ["*"]
  = Ok "COUNT(DISTINCT *) FILTER(WHERE ""fa""=1)".
Proof. vm_compute. reflexivity. Qed.

(* the catalogue is not empty and contains the wrappers with special clauses in the stated form *)
Example C18_catalogue_examples :
  Nat.leb 50 (List.length catalogue) = true
  /\ option_map (fun w => (w_sql w, map p_slots (w_probes w), map p_special (w_probes w)))
       (lookup_wrapper "pypika.functions" "Extract" catalogue)
     = Some ("EXTRACT", [[SParam 0]; [SParam 0]], [Some ("FROM ", Some 1); Some ("FROM ", Some 1)])
  /\ option_map (fun w => map p_slots (w_probes w)) (lookup_wrapper "pypika.functions" "DateAdd" catalogue)
     = Some [[SParam 0; SParam 1; SParam 2]; [SParam 0; SParam 1; SParam 2]]
  /\ option_map (fun w => map p_slots (w_probes w)) (lookup_wrapper "pypika.functions" "NVL" catalogue)
     = Some [[SParam 0; SParam 1]].
Proof. vm_compute. repeat split. Qed.
