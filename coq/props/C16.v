(* C16 — Table, schema and named-query identity is a coherent equality.
   Statement, closing [exact]s and Print Assumptions only.  [x_cfg] (gen/C16Table.v) is regenerated from the
   code under test on every run: the attribute lists compared by each __eq__/__ne__ and reaching each
   __hash__, and the hashable kinds.  The lemmas used are proved for every configuration. *)
From PV Require Import Base Ident lemmas.IdentLemmas.
From PV Require Import gen.C16Table.

(* The property, for a configuration c, on the objects satisfying P:
   == is an equivalence on tables, schemas/databases and named queries; != is its negation;
   equal objects have equal hash keys (hence equal hashes whatever the hash function of the key is);
   objects differing in name, schema chain or alias — or in the temporal clause — are unequal;
   every kind is hashable; list membership, set membership and dictionary lookup agree. *)
Definition C16_statement_on (c : cfg) (P : ident -> bool) : Prop :=
  (forall a, ieq c a a = true)
  /\ (forall a b, ieq c a b = ieq c b a)
  /\ (forall a b d, ieq c a b = true -> ieq c b d = true -> ieq c a d = true)
  /\ (forall a b, ine c a b = negb (ieq c a b))
  /\ (forall a b, P a = true -> P b = true -> ieq c a b = true -> ikey c a = ikey c b)
  /\ (forall a b, differ_core a b -> ieq c a b = false)
  /\ (forall a b, P a = true -> P b = true -> differ_temporal a b -> ieq c a b = false)
  /\ (forall i, P i = true -> hashable c i = true)
  /\ (forall (H : key -> Z) a l, forallb P (a :: l) = true ->
        in_set H c a l = Ok (in_list c a l) /\ in_dict H c a l = Ok (in_list c a l)).

(* all objects, the configuration of the code under test *)
Definition C16_full_statement : Prop := C16_statement_on x_cfg (fun _ => true).

(* ---- what holds for the code under test, for all objects ------------------------------------------- *)

(* equivalence: for every attribute list whatsoever, hence for the extracted one; all values, all schema depths *)
Theorem C16_equivalence :
  (forall a, ieq x_cfg a a = true)
  /\ (forall a b, ieq x_cfg a b = ieq x_cfg b a)
  /\ (forall a b d, ieq x_cfg a b = true -> ieq x_cfg b d = true -> ieq x_cfg a d = true).
Proof. split; [exact (ieq_refl x_cfg) | split; [exact (ieq_sym x_cfg) | exact (ieq_trans x_cfg)]]. Qed.
Print Assumptions C16_equivalence.

(* != is the negation of == : __ne__ looks at the same attributes as __eq__ (checked on the extracted lists) *)
Theorem C16_ne_is_not_eq : forall a b, ine x_cfg a b = negb (ieq x_cfg a b).
Proof. apply ine_negb_ieq. vm_compute. reflexivity. Qed.
Print Assumptions C16_ne_is_not_eq.

(* == distinguishes name, schema chain and alias of tables, the chain of schemas, the name of WITH queries *)
Theorem C16_distinguishes : forall a b, differ_core a b -> ieq x_cfg a b = false.
Proof. apply ieq_distinguishes. vm_compute. reflexivity. Qed.
Print Assumptions C16_distinguishes.

(* objects of different classes are never equal (Schema and Database are one class family) *)
Theorem C16_other_class_unequal : forall a b,
  (match a, b with ITable _, ITable _ | ISchema _, ISchema _ | IAliased _, IAliased _ => False | _, _ => True end) ->
  ieq x_cfg a b = false /\ ine x_cfg a b = true.
Proof. exact (ieq_cross_kind x_cfg). Qed.
Print Assumptions C16_other_class_unequal.

(* equal => equal hash key, decided on the extracted lists: either every attribute that reaches a hash is
   compared by == and the law holds for all objects, or there are two equal objects with different keys.
   (A change of __hash__ to fewer attributes keeps the first branch; the statement never mentions hash values.) *)
Theorem C16_eq_hash_verdict :
  if key_coherent x_cfg
  then forall a b, ieq x_cfg a b = true -> ikey x_cfg a = ikey x_cfg b
  else exists a b, ieq x_cfg a b = true /\ ikey x_cfg a <> ikey x_cfg b.
Proof.
  destruct (key_coherent x_cfg) eqn:E; [exact (ikey_of_ieq x_cfg E) | exact (ikey_witness x_cfg E)].
Qed.
Print Assumptions C16_eq_hash_verdict.

(* list / set / dict membership: the same verdict *)
Theorem C16_membership_verdict :
  if key_coherent x_cfg
  then forall (H : key -> Z) a l, forallb (hashable x_cfg) (a :: l) = true ->
         in_set H x_cfg a l = Ok (in_list x_cfg a l) /\ in_dict H x_cfg a l = Ok (in_list x_cfg a l)
  else exists (H : key -> Z) a b, in_list x_cfg a [b] = true /\ in_set H x_cfg a [b] <> Ok true.
Proof.
  destruct (key_coherent x_cfg) eqn:E.
  - intros H. exact (in_set_agrees H x_cfg E).
  - destruct (ikey_witness x_cfg E) as [a [b [E1 N]]].
    destruct (in_set_disagrees x_cfg a b E1 N) as [H R]. exists H, a, b. exact R.
Qed.
Print Assumptions C16_membership_verdict.

(* a set or dict never finds what the list does not (any configuration, any hash function) *)
Theorem C16_set_implies_list : forall (H : key -> Z) a l, in_set H x_cfg a l = Ok true -> in_list x_cfg a l = true.
Proof. intro H. exact (in_set_implies_in_list H x_cfg). Qed.
Print Assumptions C16_set_implies_list.

(* ---- the statement restricted to objects without temporal clause that are not bare schemas: subsumed by
   C16_holds below; kept because it was the provable part before the repairs and localises a regression ---- *)
Definition frag (i : ident) : bool := no_temporal i && not_schema i.

Theorem C16_on_fragment : C16_statement_on x_cfg frag.
Proof.
  assert (K : key_coherent_nt x_cfg = true) by (vm_compute; reflexivity).
  assert (Fn : forall i, frag i = true -> no_temporal i = true)
    by (intros i Hi; unfold frag in Hi; apply andb_true_iff in Hi; tauto).
  assert (Hh : forall i, frag i = true -> hashable x_cfg i = true).
  { intros i Hi. unfold frag in Hi. apply andb_true_iff in Hi. destruct Hi as [_ Hi].
    destruct i; try discriminate; vm_compute; reflexivity. }
  split; [exact (ieq_refl x_cfg)|]. split; [exact (ieq_sym x_cfg)|]. split; [exact (ieq_trans x_cfg)|].
  split; [apply ine_negb_ieq; vm_compute; reflexivity|].
  split; [intros a b Fa Fb; apply (ikey_of_ieq_nt x_cfg K); auto|].
  split; [apply ieq_distinguishes; vm_compute; reflexivity|].
  split; [intros a b Fa Fb D; exfalso; exact (no_temporal_no_differ a b (Fn a Fa) (Fn b Fb) D)|].
  split; [exact Hh|].
  intros H a l Hf. apply (in_set_agrees_nt H x_cfg K).
  - rewrite forallb_forall in *. intros x Hx. apply Fn. apply Hf. exact Hx.
  - rewrite forallb_forall in *. intros x Hx. apply Hh. apply Hf. exact Hx.
Qed.
Print Assumptions C16_on_fragment.

(* named (WITH) queries alone: fully coherent *)
Theorem C16_aliased_holds :
  (forall a b, ieq x_cfg (IAliased a) (IAliased b) = true -> ikey x_cfg (IAliased a) = ikey x_cfg (IAliased b))
  /\ (forall a b, aname a <> aname b -> ieq x_cfg (IAliased a) (IAliased b) = false)
  /\ (forall a, hashable x_cfg (IAliased a) = true).
Proof.
  split; [|split].
  - intros a b. apply ikey_of_ieq_nt; [vm_compute; reflexivity | reflexivity | reflexivity].
  - intros a b D. apply C16_distinguishes. exact D.
  - intro a. vm_compute. reflexivity.
Qed.
Print Assumptions C16_aliased_holds.

(* construction routes: the schema as str / tuple / list / Schema objects / attribute access gives the same
   identity; tables with the same name, chain, alias, temporal clause (and Query class) are equal with equal keys *)
Theorem C16_route_independent :
  (forall s, ev_route (RStr s) = ev_route (RSeq [s]))
  /\ (forall n0 rest, ev_route (RSeq (n0 :: rest)) = ev_route (RObj (prog_chain (PNew false n0) rest)))
  /\ (forall n0 rest s, ev_route (RSeq (n0 :: rest)) = Ok (Some s) -> chain s = rev (n0 :: rest))
  /\ (forall d s, ev_route (RAttr (PAttr (PNew true d) s)) = Ok (Some (SSub s false (SRoot d true))))
  /\ ev_route (RSeq []) = Err "IndexError"
  /\ (forall a b, same_identity a b -> tqcls a = tqcls b ->
        ieq x_cfg (ITable a) (ITable b) = true /\ ikey x_cfg (ITable a) = ikey x_cfg (ITable b)).
Proof.
  split; [exact route_str_seq|]. split; [exact route_seq_obj|]. split; [exact route_seq_chain|].
  split; [intros d s; exact (proj1 (route_attr d s))|]. split; [reflexivity|].
  apply route_independent_q; vm_compute; reflexivity.
Qed.
Print Assumptions C16_route_independent.

(* the Query class a table is bound to (Table(.., query_cls=X), X.Table(..)): either neither == nor the hash looks at
   it, and then tables of one identity are equal with equal keys whatever their Query classes; or it is looked at,
   and then coherently (whatever reaches the hash is compared).  On the current code: the first. *)
Theorem C16_query_cls_verdict :
  if tmem TQcls (c_teq x_cfg) || tmem TQcls (c_tkey x_cfg)
  then key_coherent x_cfg = true
  else forall a b, same_identity a b ->
         ieq x_cfg (ITable a) (ITable b) = true /\ ikey x_cfg (ITable a) = ikey x_cfg (ITable b).
Proof.
  assert (E : tmem TQcls (c_teq x_cfg) || tmem TQcls (c_tkey x_cfg) = false
              \/ (tmem TQcls (c_teq x_cfg) || tmem TQcls (c_tkey x_cfg) = true /\ key_coherent x_cfg = true)).
  { first [ left; vm_compute; reflexivity | right; split; vm_compute; reflexivity ]. }
  destruct E as [E | [E K]]; rewrite E; [|exact K].
  apply orb_false_iff in E. destruct E as [E1 E2].
  apply route_independent; [vm_compute; reflexivity | vm_compute; reflexivity | exact E1 | exact E2].
Qed.
Print Assumptions C16_query_cls_verdict.

(* ---- the parts that were refuted before the repairs 45f675c / 72f33c4 ------------------------------ *)

(* the temporal clause is distinguished by == *)
Theorem C16_distinguishes_temporal : forall a b, differ_temporal a b -> ieq x_cfg a b = false.
Proof. apply ieq_distinguishes_temporal. vm_compute. reflexivity. Qed.
Print Assumptions C16_distinguishes_temporal.

(* every kind is hashable: tables, schemas, databases, named queries *)
Theorem C16_all_hashable : forall i, hashable x_cfg i = true.
Proof. apply all_hashable_spec. vm_compute. reflexivity. Qed.
Print Assumptions C16_all_hashable.

(* the full statement follows from five boolean conditions on the attribute lists — for every configuration;
   conversely a failing key_coherent / dist_temporal / all_hashable yields a counterexample for that configuration (ikey_witness,
   temporal_witness, unhashable_witness in lemmas/IdentLemmas.v) *)
Theorem C16_characterisation : forall c,
  ne_coherent c = true -> key_coherent c = true -> dist_core c = true -> dist_temporal c = true -> all_hashable c = true ->
  C16_statement_on c (fun _ => true).
Proof.
  intros c H1 H2 H3 H4 H5. unfold C16_statement_on.
  split; [exact (ieq_refl c)|]. split; [exact (ieq_sym c)|]. split; [exact (ieq_trans c)|].
  split; [exact (ine_negb_ieq c H1)|]. split; [intros a b _ _; exact (ikey_of_ieq c H2 a b)|].
  split; [exact (ieq_distinguishes c H3)|]. split; [intros a b _ _; exact (ieq_distinguishes_temporal c H4 a b)|].
  split; [intros i _; exact (all_hashable_spec c H5 i)|].
  intros H a l _. apply (in_set_agrees H c H2).
  apply forallb_forall. intros x _. apply all_hashable_spec. exact H5.
Qed.
Print Assumptions C16_characterisation.

(* ---- the property, in full, for the code under test ------------------------------------------------- *)
Theorem C16_holds : C16_full_statement.
Proof. apply C16_characterisation; vm_compute; reflexivity. Qed.
Print Assumptions C16_holds.

(* ---- documentation of the repaired defects on the lists of the tree before the repairs (cfg_before_fix,
   fixed in Ident.v), and non-vacuity ---- *)

(* before 45f675c: Table('a') == Table('a').for_(crit) although their hash keys differ; the list finds it, a set
   does not; before 72f33c4 a schema in a set raises TypeError.  On the current lists the same pair is unequal. *)
Example C16_before_fix_witness :
  let a := ITable {| tname := "a"; tschema := None; talias := None; tfor := None; tportion := None; tqcls := "Query" |} in
  let b := ITable {| tname := "a"; tschema := None; talias := None; tfor := Some "SYSTEM_TIME AS OF '2020-01-01'"; tportion := None; tqcls := "Query" |} in
  ieq cfg_before_fix a b = true /\ ine cfg_before_fix a b = false /\ ikey cfg_before_fix a <> ikey cfg_before_fix b
  /\ in_list cfg_before_fix a [b] = true
  /\ in_set (fun k => Z.of_nat (List.length (filter (fun v => negb (val_eqb v (VOpt None))) (snd k)))) cfg_before_fix a [b] = Ok false
  /\ in_set (fun _ => 0%Z) cfg_before_fix (ISchema (SRoot "d" false)) [ISchema (SRoot "d" false)] = Err "TypeError"
  /\ ieq x_cfg a b = false /\ ine x_cfg a b = true
  /\ in_set (fun _ => 0%Z) x_cfg (ISchema (SRoot "d" false)) [ISchema (SRoot "d" true)] = Ok true.
Proof. vm_compute. repeat split. discriminate. Qed.
Print Assumptions C16_before_fix_witness.

Theorem C16_before_fix_refuted : ~ C16_statement_on cfg_before_fix (fun _ => true).
Proof.
  intros [_ [_ [_ [_ [_ [_ [T _]]]]]]].
  destruct (temporal_witness cfg_before_fix eq_refl) as [a [b [D E]]].
  rewrite (T a b eq_refl eq_refl D) in E. discriminate.
Qed.
Print Assumptions C16_before_fix_refuted.

(* Database('d') == Schema('d') (one class family: isinstance(other, Schema)); d.s.t built three ways is one table;
   an alias, a schema level or a name apart is unequal *)
Example C16_examples :
  ieq x_cfg (ISchema (SRoot "d" true)) (ISchema (SRoot "d" false)) = true
  /\ (match ev_tprog {| p_name := "t"; p_route := RAttr (PAttr (PNew true "d") "s"); p_alias := None; p_qcls := "Query"; p_ops := [OpAs "x"] |},
            ev_tprog {| p_name := "t"; p_route := RSeq ["d"; "s"]; p_alias := Some "x"; p_qcls := "Query"; p_ops := [] |},
            ev_tprog {| p_name := "t"; p_route := RObj (PSub false "s" (PNew false "d")); p_alias := None; p_qcls := "Query"; p_ops := [OpAs "y"; OpAs "x"] |} with
      | Ok a, Ok b, Ok d => ieq x_cfg (ITable a) (ITable b) && ieq x_cfg (ITable b) (ITable d)
                            && key_eqb (ikey x_cfg (ITable a)) (ikey x_cfg (ITable d))
      | _, _, _ => false end) = true
  /\ (match ev_tprog {| p_name := "t"; p_route := RSeq ["d"; "s"]; p_alias := None; p_qcls := "Query"; p_ops := [] |},
            ev_tprog {| p_name := "t"; p_route := RSeq ["e"; "s"]; p_alias := None; p_qcls := "Query"; p_ops := [] |},
            ev_tprog {| p_name := "t"; p_route := RSeq ["d"; "s"]; p_alias := Some "x"; p_qcls := "Query"; p_ops := [] |} with
      | Ok a, Ok b, Ok d => ieq x_cfg (ITable a) (ITable b) || ieq x_cfg (ITable a) (ITable d)
      | _, _, _ => true end) = false
  /\ ev_tprog {| p_name := "t"; p_route := RSeq []; p_alias := None; p_qcls := "Query"; p_ops := [] |} = Err "IndexError"
  /\ ev_tprog {| p_name := "t"; p_route := RNone; p_alias := None; p_qcls := "Query"; p_ops := [OpFor "x"; OpPortion "y"] |} = Err "AttributeError".
Proof. vm_compute. repeat split. Qed.
Print Assumptions C16_examples.

(* the fragment is inhabited by non-trivial objects: an aliased table in a two-level schema, a WITH query *)
Example C16_fragment_nonvacuous :
  frag (ITable {| tname := "t"; tschema := Some (SSub "s" false (SRoot "d" true)); talias := Some "x";
                  tfor := None; tportion := None; tqcls := "Query" |}) = true
  /\ frag (IAliased {| aname := "n"; abody := Some "SELECT 1" |}) = true
  /\ frag (ITable {| tname := "t"; tschema := None; talias := None; tfor := Some "x"; tportion := None; tqcls := "Query" |}) = false
  /\ frag (ISchema (SRoot "d" false)) = false.
Proof. vm_compute. repeat split. Qed.
Print Assumptions C16_fragment_nonvacuous.
