(* C07 — One dialect context governs the whole statement at every depth.
   Statement, closing [exact]s, witnesses and Print Assumptions only; the work is in lemmas/Dialect*.v.

   Objects: [query] = statement specs of the ten query classes (coq/Query.v) whose (sub-)statements each carry the class
   that built them; [rho] re-labels the classes ([fun c => c]: as labelled, [fun _ => c]: the same specification built
   by class c at every level); [str_toks rho n x] = str(query) as a list of role-tagged tokens (coq/Dialect.v), whose
   text is compared with pypika and with Query.str_query on every run; [n] is recursion fuel (one unit per nesting
   level, out-of-fuel is an error value, so "= Ok ts" excludes it).

   State after the repairs 1270518 (function arguments), 07d9040 (sub-query alias quote), 1518abd / 76524c2 / d20983c (set
   operations), 3ab11e6 (GROUP BY items), 97eddd6 (comparison alias): the property holds up to two documented,
   class-independent deviations that pypika's own tests pin — WITH names are rendered bare, and a table alias used as a
   column qualifier takes quote_char (visible for Snowflake only, whose alias quote differs from its quote_char). *)
From PV Require Import Base Crit gen.TermsTable Terms Page gen.QueryTable Query QueryCorr Dialect DialectCorr.
From PV Require Import lemmas.DialectTerms lemmas.DialectQuery lemmas.DialectProps lemmas.DialectView.

(* the property, literally *)
Definition C07_full_statement : Prop :=
  forall (rho : cls -> cls) (n : nat) (x : query) (ts : list dtok),
    str_toks rho n x = Ok ts ->
    let c := top_cls_r rho x in
    (* every identifier, alias, query alias, string literal and AS-keyword choice, at every nesting depth, follows the
       OUTER class's convention, whatever classes built the sub-queries *)
    Forall (strict_tok (conv_cls c) (qalias_quote c)) ts
    (* and, apart from the documented vendor differences (erased by [erase]: AS keyword, pagination, boolean form,
       GROUP BY alias-vs-expression, set-operation parentheses, ARRAY form, ClickHouse UPDATE/DELETE keywords), the
       token sequence is the same whichever classes build the statement *)
    /\ (forall rho' ts', str_toks rho' n x = Ok ts' -> erase ts' = erase ts).

(* the property minus the documented residue: tokens that are WITH names / table-alias qualifiers are exempt *)
Definition C07_statement_modulo_residue : Prop :=
  forall (rho : cls -> cls) (n : nat) (x : query) (ts : list dtok),
    str_toks rho n x = Ok ts ->
    let c := top_cls_r rho x in
    Forall (fun t => residue_tok t = true \/ strict_tok (conv_cls c) (qalias_quote c) t) ts
    /\ (forall rho' ts', str_toks rho' n x = Ok ts' -> erase ts' = erase ts).

(* ---- holds: all statements, all labellings of the sub-statements with classes, all depths ---- *)
Theorem C07_holds : C07_statement_modulo_residue.
Proof.
  intros rho n x ts H c. split.
  - exact (str_toks_strict_nonresidue rho n x ts H).
  - intros rho' ts' H'. exact (str_toks_same rho' rho n x ts' ts H' H).
Qed.
Print Assumptions C07_holds.

(* the residue, exactly: what the exempt tokens carry instead *)
Theorem C07_per_token_holds :
  forall rho n x ts, str_toks rho n x = Ok ts -> Forall (strict_or_residue (top_cls_r rho x)) ts.
Proof. exact str_toks_strict. Qed.
Print Assumptions C07_per_token_holds.

(* the unrestricted per-token claim for the statements / classes on which the residue coincides with the convention:
   no WITH name or quote_char empty (Oracle, Snowflake); no aliased-table qualifier or alias quote = quote_char (every class
   but Snowflake).  For OracleQuery both class conditions hold: the first sentence of the property holds for every statement. *)
Theorem C07_first_sentence_on_fragment :
  forall rho n x ts, let c := top_cls_r rho x in
    str_toks rho n x = Ok ts ->
    (cte_ok c = true \/ forallb no_cte_tok ts = true) -> (qual_ok c = true \/ forallb no_qual_tok ts = true) ->
    Forall (strict_tok (conv_cls c) (qalias_quote c)) ts.
Proof. exact str_toks_all_strict. Qed.
Print Assumptions C07_first_sentence_on_fragment.

Example C07_residue_classes :
  filter cte_ok all_cls = [COracle; CSnowflake]
  /\ filter qual_ok all_cls = [CQuery; CMySQL; CVertica; COracle; CPostgreSQL; CRedshift; CMSSQL; CClickHouse; CSQLLite]
  /\ filter (fun c => cte_ok c && qual_ok c) all_cls = [COracle].
Proof. vm_compute. repeat split. Qed.

(* ---- the literal statement stays refuted by exactly that residue ---- *)
Theorem C07_refuted : ~ C07_full_statement.
Proof.
  intros H. destruct (H rid FUEL w_cte (toks_of w_cte) eq_refl) as [Hs _].
  apply strict_all_spec in Hs. vm_compute in Hs. discriminate Hs.
Qed.
Print Assumptions C07_refuted.

Example C07_witness_cte_name_bare :             (* WITH names are never quoted (pinned by pypika's tests) *)
  query_text w_cte = w_cte_text /\ res_text (str_toks rid FUEL w_cte) = w_cte_text /\ strict_ok w_cte = false.
Proof. vm_compute. repeat split. Qed.
Example C07_witness_table_alias_qualifier :     (* Snowflake: table alias quoted where introduced, bare as qualifier (pinned) *)
  query_text w_qualifier = w_qualifier_text /\ res_text (str_toks rid FUEL w_qualifier) = w_qualifier_text /\ strict_ok w_qualifier = false.
Proof. vm_compute. repeat split. Qed.

(* the former deviations, now repaired: the witnesses render with the OUTER convention everywhere (regression pins;
   the same statements are corpus cases whose text is compared with pypika's on every run) *)
Example C07_repaired_function_arg_alias :
  query_text w_fn_alias = w_fn_alias_text /\ res_text (str_toks rid FUEL w_fn_alias) = w_fn_alias_text /\ strict_ok w_fn_alias = true.
Proof. vm_compute. repeat split. Qed.
Example C07_repaired_function_arg_as_keyword :
  query_text w_fn_as = w_fn_as_text /\ res_text (str_toks rid FUEL w_fn_as) = w_fn_as_text /\ strict_ok w_fn_as = true.
Proof. vm_compute. repeat split. Qed.
Example C07_repaired_query_alias :
  query_text w_qalias = w_qalias_text /\ res_text (str_toks rid FUEL w_qalias) = w_qalias_text /\ strict_ok w_qalias = true.
Proof. vm_compute. repeat split. Qed.
Example C07_repaired_set_operation_operands :
  query_text w_setop_mixed = w_setop_mixed_text /\ res_text (str_toks rid FUEL w_setop_mixed) = w_setop_mixed_text
  /\ strict_ok w_setop_mixed = true.
Proof. vm_compute. repeat split. Qed.
Example C07_repaired_criterion_alias :
  query_text w_crit_alias = w_crit_alias_text /\ res_text (str_toks rid FUEL w_crit_alias) = w_crit_alias_text
  /\ strict_ok w_crit_alias = true.
Proof. vm_compute. repeat split. Qed.
Example C07_repaired_set_operation_order_by :
  query_text w_setop_order = w_setop_order_text /\ res_text (str_toks rid FUEL w_setop_order) = w_setop_order_text
  /\ strict_ok w_setop_order = true.
Proof. vm_compute. repeat split. Qed.
Example C07_repaired_function_arg_term_alias :
  query_text w_fn_term_alias = w_fn_term_alias_text /\ res_text (str_toks rid FUEL w_fn_term_alias) = w_fn_term_alias_text
  /\ strict_ok w_fn_term_alias = true.
Proof. vm_compute. repeat split. Qed.
Example C07_repaired_set_operation_alias :
  query_text w_setop_alias = w_setop_alias_text /\ res_text (str_toks rid FUEL w_setop_alias) = w_setop_alias_text
  /\ strict_ok w_setop_alias = true.
Proof. vm_compute. repeat split. Qed.
Example C07_repaired_function_arg_groupby_alias :
  query_text w_fn_gba = w_fn_gba_text /\ res_text (str_toks rid FUEL w_fn_gba) = w_fn_gba_text.
Proof. vm_compute. repeat split. Qed.
Example C07_repaired_function_arg_literal_quote :
  res_text (kw_toks rid FUEL w_fn_literal_kw w_fn_literal) = w_fn_literal_text
  /\ sres_text (rquery (kw_ctx rid w_fn_literal_kw w_fn_literal) false false None w_fn_literal) = w_fn_literal_text.
Proof. vm_compute. repeat split. Qed.

(* ---- further statements, all unrestricted ---- *)

(* EXACT characterisation, also for get_sql with explicit kwargs (where the outermost call may leave keys absent) *)
Theorem C07_exact_holds :
  forall rho n x ts, str_toks rho n x = Ok ts -> Forall (exact_tok (conv_x rho x)) ts.
Proof. exact str_toks_exact. Qed.
Print Assumptions C07_exact_holds.

Theorem C07_exact_kwargs_holds :
  forall rho n kw x ts, kw_toks rho n kw x = Ok ts -> Forall (exact_tok (conv_kw rho kw x)) ts.
Proof. exact kw_toks_exact. Qed.
Print Assumptions C07_exact_kwargs_holds.

(* identifiers and string literals: the OUTER class's quote_char / secondary quote at every depth *)
Theorem C07_identifiers_literals_hold :
  forall rho n x ts, str_toks rho n x = Ok ts -> Forall (ident_lit_tok (top_cls_r rho x)) ts.
Proof. exact str_toks_ident_lit. Qed.
Print Assumptions C07_identifiers_literals_hold.

(* the second sentence of the property: devendored + quote-erased token sequences coincide for any two labellings and
   for any explicit quote kwargs *)
Theorem C07_tokens_same_holds :
  forall rho rho' n x ts ts', str_toks rho n x = Ok ts -> str_toks rho' n x = Ok ts' -> erase ts = erase ts'.
Proof. exact str_toks_same. Qed.
Print Assumptions C07_tokens_same_holds.

Theorem C07_tokens_same_kwargs_holds :
  forall rho rho' n kw kw' x ts ts', kw_toks rho n kw x = Ok ts -> kw_toks rho' n kw' x = Ok ts' -> erase ts = erase ts'.
Proof. exact kw_toks_same. Qed.
Print Assumptions C07_tokens_same_kwargs_holds.

(* explicit kwargs: the per-token claim on renderings whose tokens all originate from the kwargs themselves *)
Theorem C07_kwargs_on_fragment :
  forall rho n kw x ts qa, kw_toks rho n kw x = Ok ts ->
    forallb (benign_tok (conv_kw rho kw x) qa) ts = true -> Forall (strict_tok (conv_kw rho kw x) qa) ts.
Proof. exact kw_toks_strict_on_fragment. Qed.
Print Assumptions C07_kwargs_on_fragment.

(* outermost class wins: _set_kwargs_defaults only fills absent keys; a nested query of ANY class leaves the context alone
   (groupby_alias can only be switched off); since 1270518 this also holds below a function call *)
Theorem C07_outermost_wins :
  (forall c k, k_abs k = false -> kc (defaults c k) = kc k)
  /\ (forall c k, k_abs k = false -> k_qaq (defaults c k) = k_qaq k)
  /\ (forall c c' k, kc (defaults c' (defaults c k)) = kc (defaults c k))
  /\ (forall c k, q (kc (defaults c k)) = q (kc k) /\ dia (kc (defaults c k)) = dia (kc k))
  /\ (forall c k, k_gba (defaults c k) = cls_gba c && k_gba k)
  /\ (forall c k, k_abs k = false -> let k' := defaults c (fk k) in
        sq (kc k') = sq (kc k) /\ aq (kc k') = aq (kc k) /\ askw (kc k') = askw (kc k) /\ q (kc k') = q (kc k)
        /\ k_qaq k' = k_qaq k /\ k_gba k' = cls_gba c && k_gba k).
Proof.
  split; [exact defaults_present|]. split; [exact defaults_qaq_kept|]. split; [exact defaults_outer_wins|].
  split; [exact defaults_quote_kept|]. split; [exact defaults_gba|exact defaults_below_function].
Qed.
Print Assumptions C07_outermost_wins.

(* statements: the token view IS the shared statement renderer.  For every statement (all five kinds, WITH, joins, sub-queries
   at every position, function arguments, set operations incl. nested ones), every kwargs context, flags, alias, origin and
   every fuel: whenever the token renderer answers [Ok ts], Query.rquery / Query.ritem answer [Ok (tflat ts)].  (Query.rquery is
   re-stated in open-recursion form that is convertible with the nested fixpoint: lemmas rquery_unfold / ritem_unfold are
   proved by reflexivity.)  The statement is "as labelled" (the class labels are part of [x]; every labelling is some [x]). *)
Theorem C07_statement_token_view :
  forall n,
    (forall k og srcs c i ts, itoks (fun c => c) n k og srcs c i = Ok ts -> ritem k srcs c i = Ok (tflat ts)) /\
    (forall kin og wal sub pv ali x ts,
       qtoks (fun c => c) n kin og wal sub pv ali x = Ok ts -> rquery kin wal sub ali x = Ok (tflat ts)).
Proof. exact toks_view. Qed.
Print Assumptions C07_statement_token_view.

Theorem C07_str_token_view :
  forall n x ts, str_toks (fun c => c) n x = Ok ts -> str_query x = Ok (tflat ts).
Proof. exact str_toks_view. Qed.
Print Assumptions C07_str_token_view.

(* hence the property (modulo the documented residue) is a statement about the text Query.str_query produces: that text is
   the concatenation of tokens each of which follows the outer class's convention for its role *)
Theorem C07_holds_of_str_query :
  forall n x ts, str_toks (fun c => c) n x = Ok ts ->
    str_query x = Ok (tflat ts)
    /\ Forall (strict_or_residue (top_cls x)) ts
    /\ Forall (fun t => residue_tok t = true \/ strict_tok (conv_cls (top_cls x)) (qalias_quote (top_cls x)) t) ts.
Proof.
  intros n x ts H.
  assert (E : top_cls_r (fun c => c) x = top_cls x) by (destruct x as [? ? ? ? ? ? ? ? ? ? ? ? ? ?|? ? ? ? ? ? ?|? ? ? ? ? ? ?|? ? ?|b ? ? ? ? ?]; reflexivity).
  rewrite <- E. split; [exact (str_toks_view n x ts H)|]. split.
  - exact (str_toks_strict _ n x ts H).
  - exact (str_toks_strict_nonresidue _ n x ts H).
Qed.
Print Assumptions C07_holds_of_str_query.

(* expressions: the token view IS the shared renderer (Terms.render) *)
Theorem C07_terms_token_view :
  forall t c og, render c t = rmap tflat (ttoks c og t).
Proof. exact ttoks_render. Qed.
Print Assumptions C07_terms_token_view.

Theorem C07_terms_exact :
  forall t c og v ts, ctx_ok v og c -> ttoks c og t = Ok ts -> Forall (exact_tok v) ts.
Proof. exact ttoks_exact. Qed.
Print Assumptions C07_terms_exact.

Theorem C07_terms_quote_parametric :
  forall t c c' og og', csim c c' -> erase_res (ttoks c og t) = erase_res (ttoks c' og' t).
Proof. exact ttoks_erase. Qed.
Print Assumptions C07_terms_quote_parametric.

(* ---- non-vacuity: a three-level statement whose five sub-queries come from five classes ---- *)
Example C07_example_nested :
  query_text p_nested = p_nested_text
  /\ res_text (str_toks rid FUEL p_nested) = p_nested_text
  /\ strict_ok p_nested = true
  /\ forallb no_cte_tok (toks_of p_nested) = true
  /\ erase_res (str_toks (relabel (Some CSnowflake)) FUEL p_nested) = erase_res (str_toks rid FUEL p_nested)
  /\ erase_res (str_toks (relabel (Some CClickHouse)) FUEL p_nested) = erase_res (str_toks (relabel (Some COracle)) FUEL p_nested)
  /\ res_text (str_toks (relabel (Some CSnowflake)) FUEL p_nested) <> res_text (str_toks rid FUEL p_nested).
Proof. vm_compute. repeat split. discriminate. Qed.
