(* C07 — One dialect context governs the whole statement at every depth.
   Statement, closing [exact]s, witnesses and Print Assumptions only; the work is in lemmas/Dialect*.v.

   Objects: [query] = statement specs of the ten query classes (coq/Query.v) whose (sub-)statements each carry the class
   that built them; [rho] re-labels the classes ([fun c => c]: as labelled, [fun _ => c]: the same specification built
   by class c at every level); [str_toks rho n x] = str(query) as a list of role-tagged tokens (coq/Dialect.v), whose
   text is compared with pypika and with Query.str_query on every run; [n] is recursion fuel (one unit per nesting
   level, out-of-fuel is an error value, so "= Ok ts" excludes it). *)
From PV Require Import Base Crit gen.TermsTable Terms Page gen.QueryTable Query QueryCorr Dialect DialectCorr.
From PV Require Import lemmas.DialectTerms lemmas.DialectQuery lemmas.DialectProps.

Definition C07_full_statement : Prop :=
  forall (rho : cls -> cls) (n : nat) (x : query) (ts : list dtok),
    str_toks rho n x = Ok ts ->
    let c := top_cls_r rho x in
    (* every identifier, alias, query alias, string literal and AS-keyword choice, at every nesting depth, follows the
       OUTER class's convention, whatever classes built the sub-queries *)
    Forall (strict_tok (conv_cls c) (qalias_quote c)) ts
    (* and, apart from the documented vendor differences (erased by [erase]: AS keyword, pagination, boolean form,
       GROUP BY alias-vs-expression, set-operation parentheses, ARRAY form, ClickHouse UPDATE/DELETE keywords), the
       token sequence is the same whichever classes build the statement *)
    /\ (forall rho' ts', str_toks rho' n x = Ok ts' -> erase ts' = erase ts).

(* ---- refuted: the faithful model reproduces pypika's deviations (each witness is also a corpus case) ---- *)
Theorem C07_refuted : ~ C07_full_statement.
Proof.
  intros H. destruct (H rid FUEL w_fn_alias (toks_of w_fn_alias) eq_refl) as [Hs _].
  apply strict_all_spec in Hs. vm_compute in Hs. discriminate Hs.
Qed.
Print Assumptions C07_refuted.

(* the distinct ways in which it fails: model text = pypika's text, and some token is not strict *)
Example C07_witness_function_arg_alias :        (* Snowflake outer, generic sub-query inside COALESCE: inner alias bare *)
  query_text w_fn_alias = w_fn_alias_text /\ res_text (str_toks rid FUEL w_fn_alias) = w_fn_alias_text /\ strict_ok w_fn_alias = false.
Proof. vm_compute. repeat split. Qed.
Example C07_witness_function_arg_as_keyword :   (* generic outer, ClickHouse sub-query inside a function: keeps its AS *)
  query_text w_fn_as = w_fn_as_text /\ res_text (str_toks rid FUEL w_fn_as) = w_fn_as_text /\ strict_ok w_fn_as = false.
Proof. vm_compute. repeat split. Qed.
Example C07_witness_query_alias_inner_class :   (* MySQL outer, PostgreSQL sub-query in FROM: its alias gets PostgreSQL's quote *)
  query_text w_qalias = w_qalias_text /\ res_text (str_toks rid FUEL w_qalias) = w_qalias_text /\ strict_ok w_qalias = false.
Proof. vm_compute. repeat split. Qed.
Example C07_witness_set_operation_operands :    (* each operand of a top-level set operation fills in its own alias convention *)
  query_text w_setop_mixed = w_setop_mixed_text /\ res_text (str_toks rid FUEL w_setop_mixed) = w_setop_mixed_text
  /\ strict_ok w_setop_mixed = false.
Proof. vm_compute. repeat split. Qed.
Example C07_witness_cte_name_bare :             (* WITH names are never quoted *)
  query_text w_cte = w_cte_text /\ res_text (str_toks rid FUEL w_cte) = w_cte_text /\ strict_ok w_cte = false.
Proof. vm_compute. repeat split. Qed.
Example C07_witness_criterion_alias_bare :      (* quote_char does not reach the alias of a comparison *)
  query_text w_crit_alias = w_crit_alias_text /\ res_text (str_toks rid FUEL w_crit_alias) = w_crit_alias_text
  /\ strict_ok w_crit_alias = false.
Proof. vm_compute. repeat split. Qed.
Example C07_witness_set_operation_order_by :    (* Snowflake: selected alias quoted, the ORDER BY reference to it bare *)
  query_text w_setop_order = w_setop_order_text /\ res_text (str_toks rid FUEL w_setop_order) = w_setop_order_text
  /\ strict_ok w_setop_order = false.
Proof. vm_compute. repeat split. Qed.
Example C07_witness_function_arg_term_alias :   (* Snowflake: an aliased literal inside a function call loses the alias quote *)
  query_text w_fn_term_alias = w_fn_term_alias_text /\ res_text (str_toks rid FUEL w_fn_term_alias) = w_fn_term_alias_text
  /\ strict_ok w_fn_term_alias = false.
Proof. vm_compute. repeat split. Qed.
Example C07_witness_table_alias_qualifier :     (* Snowflake: table alias quoted where introduced, bare where it qualifies a column *)
  query_text w_qualifier = w_qualifier_text /\ res_text (str_toks rid FUEL w_qualifier) = w_qualifier_text /\ strict_ok w_qualifier = false.
Proof. vm_compute. repeat split. Qed.
Example C07_witness_set_operation_alias :       (* Snowflake: a set operation's alias is quoted, references to it are bare *)
  query_text w_setop_alias = w_setop_alias_text /\ res_text (str_toks rid FUEL w_setop_alias) = w_setop_alias_text
  /\ strict_ok w_setop_alias = false.
Proof. vm_compute. repeat split. Qed.
Example C07_witness_function_arg_groupby_alias : (* Oracle outer: groupby_alias=False is lost below a function call *)
  query_text w_fn_gba = w_fn_gba_text /\ res_text (str_toks rid FUEL w_fn_gba) = w_fn_gba_text.
Proof. vm_compute. repeat split. Qed.
Example C07_witness_function_arg_literal_quote : (* explicit secondary_quote_char is lost below a function call *)
  res_text (kw_toks rid FUEL w_fn_literal_kw w_fn_literal) = w_fn_literal_text
  /\ sres_text (rquery (kw_ctx rid w_fn_literal_kw w_fn_literal) false false None w_fn_literal) = w_fn_literal_text.
Proof. vm_compute. repeat split. Qed.

(* ---- what holds, in full generality (all statements, all labellings, all depths) ---- *)

(* 1. EXACT characterisation: every token carries the quote that its origin prescribes — identifiers always the
      outermost quote_char; aliases / literals / AS the values of whoever supplied those three kwargs (the outermost
      call, the fall-backs below a function call, or the class of a sub-query that sits below a function call);
      a sub-query's alias the query-alias quote of the class that built it; WITH names none. *)
Theorem C07_exact_holds :
  forall rho n x ts, str_toks rho n x = Ok ts -> Forall (exact_tok (conv_x rho x)) ts.
Proof. exact str_toks_exact. Qed.
Print Assumptions C07_exact_holds.

Theorem C07_exact_kwargs_holds :
  forall rho n kw x ts, kw_toks rho n kw x = Ok ts -> Forall (exact_tok (conv_kw rho kw x)) ts.
Proof. exact kw_toks_exact. Qed.
Print Assumptions C07_exact_kwargs_holds.

(* 2. identifiers and string literals of str(query): the OUTER class's quote_char / secondary quote at every depth,
      including function arguments, CASE branches, joins, set-operation operands, sub-queries of any class *)
Theorem C07_identifiers_literals_hold :
  forall rho n x ts, str_toks rho n x = Ok ts -> Forall (ident_lit_tok (top_cls_r rho x)) ts.
Proof. exact str_toks_ident_lit. Qed.
Print Assumptions C07_identifiers_literals_hold.

(* 3. the second sentence of the property, unrestricted: devendored + quote-erased token sequences coincide for any two
      labellings (in particular for any two of the ten classes building the same specification), and for any explicit
      quote kwargs *)
Theorem C07_tokens_same_holds :
  forall rho rho' n x ts ts', str_toks rho n x = Ok ts -> str_toks rho' n x = Ok ts' -> erase ts = erase ts'.
Proof. exact str_toks_same. Qed.
Print Assumptions C07_tokens_same_holds.

Theorem C07_tokens_same_kwargs_holds :
  forall rho rho' n kw kw' x ts ts', kw_toks rho n kw x = Ok ts -> kw_toks rho' n kw' x = Ok ts' -> erase ts = erase ts'.
Proof. exact kw_toks_same. Qed.
Print Assumptions C07_tokens_same_kwargs_holds.

(* 4. the per-token claim on the fragment "no alias / AS / query-alias token whose origin's convention differs from the
      outer one" (decidable on the rendering: [benign_tok]) *)
Theorem C07_on_fragment :
  forall rho n x ts qa, str_toks rho n x = Ok ts ->
    forallb (benign_tok (conv_x rho x) qa) ts = true -> Forall (strict_tok (conv_x rho x) qa) ts.
Proof. exact str_toks_strict_on_fragment. Qed.
Print Assumptions C07_on_fragment.

(* 4b. the same claim for a class-level (syntactic) fragment: an outer class whose convention survives a function call
       ([transparent]: generic, MySQL, Vertica, Oracle, PostgreSQL, Redshift, MSSQL, SQLite) and sub-statements built by
       classes whose alias / AS / query-alias convention agrees with it ([compat], e.g. any mix of the double-quote
       classes): every identifier, alias, alias reference, qualifier, sub-query alias, literal and AS choice at every depth,
       function arguments included, follows the outer class.  Only the two class-independent deviations (WITH names,
       comparison aliases) are left out. *)
Theorem C07_compatible_classes_partial :
  forall rho n x ts, let c := top_cls_r rho x in
    transparent c = true -> (forall c0, compat c (rho c0) = true) ->
    str_toks rho n x = Ok ts -> Forall (strict_core (conv_cls c) (qalias_quote c)) ts.
Proof. exact str_toks_compatible. Qed.
Print Assumptions C07_compatible_classes_partial.

Example C07_compatible_classes_nonvacuous :
  filter transparent all_cls = [CQuery; CMySQL; CVertica; COracle; CPostgreSQL; CRedshift; CMSSQL; CSQLLite]
  /\ filter (compat CQuery) all_cls = [CQuery; CMySQL; CVertica; COracle; CPostgreSQL; CRedshift; CMSSQL; CSQLLite; CSnowflake]
  /\ filter (compat CMySQL) all_cls = [CQuery; CMySQL; CVertica; COracle; CRedshift; CMSSQL; CSQLLite]
  /\ filter (compat COracle) all_cls = [CQuery; CMySQL; CVertica; COracle; CRedshift; CMSSQL; CSQLLite].
Proof. vm_compute. repeat split. Qed.

(* 5. outermost class wins: _set_kwargs_defaults only fills absent keys; once the outer query has filled them a nested
      query of ANY class leaves the context alone (up to groupby_alias, which can only be switched off); below a
      function call the keys are absent again and the inner class's values come back *)
Theorem C07_outermost_wins :
  (forall c k, k_abs k = false -> kc (defaults c k) = kc k)
  /\ (forall c c' k, kc (defaults c' (defaults c k)) = kc (defaults c k))
  /\ (forall c k, q (kc (defaults c k)) = q (kc k) /\ dia (kc (defaults c k)) = dia (kc k))
  /\ (forall c k, k_gba (defaults c k) = cls_gba c && k_gba k)
  /\ (forall c k, let k' := defaults c (fk k) in
        sq (kc k') = cls_sq c /\ aq (kc k') = cls_aq c /\ askw (kc k') = cls_askw c /\ q (kc k') = q (kc k) /\ k_gba k' = cls_gba c).
Proof.
  split; [exact defaults_present|]. split; [exact defaults_outer_wins|]. split; [exact defaults_quote_kept|].
  split; [exact defaults_gba|exact defaults_below_function].
Qed.
Print Assumptions C07_outermost_wins.

(* 6. expressions: the token view IS the shared renderer (Terms.render), so 1-3 hold of Terms.render itself *)
Theorem C07_terms_token_view :
  forall t c og, render c t = rmap tflat (ttoks c og t).
Proof. exact ttoks_render. Qed.
Print Assumptions C07_terms_token_view.

Theorem C07_terms_exact :
  forall t c og v ts, ctx_ok v og c -> ttoks c og t = Ok ts -> Forall (exact_tok v) ts.
Proof. exact ttoks_exact. Qed.
Print Assumptions C07_terms_exact.

(* quote-parametricity of Terms.render: contexts that agree on with_alias / with_namespace / subquery / subcriterion give
   the same erased tokens (and fail on the same terms), whatever their quote characters, AS keyword and dialect *)
Theorem C07_terms_quote_parametric :
  forall t c c' og og', csim c c' -> erase_res (ttoks c og t) = erase_res (ttoks c' og' t).
Proof. exact ttoks_erase. Qed.
Print Assumptions C07_terms_quote_parametric.

(* ---- non-vacuity: a three-level statement whose five sub-queries come from five classes ---- *)
Example C07_example_nested :
  query_text p_nested = p_nested_text
  /\ res_text (str_toks rid FUEL p_nested) = p_nested_text
  /\ strict_ok p_nested = true
  /\ forallb (benign_tok (conv_x rid p_nested) (qalias_quote CMySQL)) (toks_of p_nested) = true
  /\ erase_res (str_toks (relabel (Some CSnowflake)) FUEL p_nested) = erase_res (str_toks rid FUEL p_nested)
  /\ erase_res (str_toks (relabel (Some CClickHouse)) FUEL p_nested) = erase_res (str_toks (relabel (Some COracle)) FUEL p_nested)
  /\ res_text (str_toks (relabel (Some CSnowflake)) FUEL p_nested) <> res_text (str_toks rid FUEL p_nested).
Proof. vm_compute. repeat split. discriminate. Qed.
