(* C07 — stub (being built) *)
From PV Require Import Base Dialect.
Definition C07_full_statement : Prop := True.
Theorem C07_holds : C07_full_statement.
Proof. exact I. Qed.
Print Assumptions C07_holds.
