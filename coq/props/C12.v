(* C12 — limit/offset/slice/top select the requested row window in every dialect.
   This file holds only the statements, the closing [exact]s and Print Assumptions.
   Model: coq/Page.v; proofs: coq/lemmas/PageLemmas.v; agreement with the tables regenerated from the
   pypika sources on every run (coq/gen/C12Table.v): coq/lemmas/PageTable.v. *)
From PV Require Import Base Page lemmas.PageLemmas.
From PV Require Import lemmas.PageTable.
From PV Require Import gen.C12Table.

(* ---- the window clause of the property, for ALL classes, statement kinds and slot values n, m >= 0:
        the rendered tail is in the class's grammar and denotes rows m .. m+n-1 ---- *)
Definition C12_window_statement : Prop :=
  forall c k p, page_ok p = true ->
    denote_page (family_of c) (render_page c k p) = Some (requested c k p).

(* ---- the remaining clauses ---- *)
Definition C12_rest_statement : Prop :=
  (* a limit of 0 is kept: the limit piece is emitted exactly when a limit was given *)
  (forall c k p, In PLimit (page_pieces c k p) <-> lim p <> None)
  (* the last call of a kind wins, for all call lists: each slot holds what the last call writing it wrote *)
  /\ (forall c k cs p p', run c k cs p = Ok p' ->
        lim p' = wr (last_hit w_lim cs) (lim p) /\ off p' = wr (last_hit w_off cs) (off p)
        /\ lby p' = wr (last_hit w_lby cs) (lby p) /\ top p' = wr (last_hit w_top cs) (top p))
  /\ (forall c k cs1 cs2 p1 p2, page_of c k cs1 = Ok p1 -> page_of c k cs2 = Ok p2 ->
        last_hit w_lim cs1 = last_hit w_lim cs2 -> last_hit w_off cs1 = last_hit w_off cs2 ->
        last_hit w_lby cs1 = last_hit w_lby cs2 -> last_hit w_top cs1 = last_hit w_top cs2 -> p1 = p2)
  /\ (forall c k cs p, forallb (supported c k) cs = true -> exists p', run c k cs p = Ok p')
  (* any order of the limit/offset calls; q[a:b] is offset(a).limit(b) *)
  /\ (forall c k n m p, run c k [CLimit n; COffset m] p = run c k [COffset m; CLimit n] p)
  /\ (forall c k a b p, k <> KSetOp -> run c k [CSlice a b] p = run c k [COffset a; CLimit b] p)
  (* the clause follows ORDER BY and precedes FOR UPDATE: model assembly, and the order read off the code *)
  /\ (forall c d rest ob fu p,
        stmt_text c KSelect d rest ob fu p = select_head c d p rest ++ ob ++ render_page c KSelect p ++ fu)
  /\ (forall c d rest ob fu p, stmt_text c KSetOp d rest ob fu p = rest ++ ob ++ render_page c KSetOp p)
  /\ (x_select_tail_order = [ClOrderBy; ClPagination; ClForUpdate]
      /\ x_setop_tail_order = [ClOrderBy; ClPagination] /\ x_update_tail_order = [ClWhere; ClLimit])
  (* FETCH family: offset before fetch; MSSQL: an offset (0 if none was given) whenever a fetch is present *)
  /\ (forall c k p, is_fetch c = true -> k <> KUpdate -> In (page_pieces c k p) [[]; [POffset]; [PLimit]; [POffset; PLimit]])
  /\ (forall k n m lb tp, k <> KUpdate -> page_pieces CMSSQL k (mkPage (Some n) m lb tp) = [POffset; PLimit])
  /\ (forall k n, k <> KUpdate -> render_page CMSSQL k (pg (Some n) None) = " OFFSET 0 ROWS FETCH NEXT " ++ Z_to_string n ++ " ROWS ONLY")
  (* LIMIT family: LIMIT before OFFSET; ClickHouse: LIMIT BY ahead of the ordinary LIMIT *)
  /\ (forall c k p, is_fetch c = false \/ k = KUpdate -> In (page_pieces c k p) [[]; [PLimit]; [POffset]; [PLimit; POffset]])
  /\ (forall p x, lby p = Some x ->
        page_toks CClickHouse KSelect p = (limit_by_toks x ++ page_toks CClickHouse KSelect (set_lby None p))%list)
  (* the readers are strict: the wrong orders / a bare OFFSET are not in the grammars *)
  /\ (forall m, denote_toks FLimit ["OFFSET"; m] = None)
  /\ (forall r n m, denote_toks (FFetch r) ["FETCH"; "NEXT"; n; "ROWS"; "ONLY"; "OFFSET"; m; "ROWS"] = None)
  /\ (forall m n x, denote_toks FClickHouse ["LIMIT"; n; "OFFSET"; m; "LIMIT"; n; "BY"; x] = None)
  (* MSSQL TOP (top(0) included) is read back from the statement head *)
  /\ (forall d p rest, nonnegO (option_map (fun x => fst (fst x)) (top p)) = true -> rest_ok rest = true ->
        read_top (tokens (select_head CMSSQL d p rest)) = Some (top p))
  (* the model's guards/order are those tabulated from the code, for all slot values *)
  /\ (forall c k p, lookup_structure c k (classify (lim p)) (classify (off p)) = Some (page_pieces c k p)).

Definition C12_full_statement : Prop := C12_window_statement /\ C12_rest_statement.

(* ---- the full statement is refuted by the faithful model: two families of witnesses (a third, Oracle/MSSQL set operations, was repaired by 8f3d161) ---- *)
Theorem C12_refuted_bare_offset :
  render_page CSQLLite KSelect (pg None (Some 5%Z)) = " OFFSET 5"
  /\ denote_page (family_of CSQLLite) (render_page CSQLLite KSelect (pg None (Some 5%Z))) = None.
Proof. split; vm_compute; reflexivity. Qed.
Print Assumptions C12_refuted_bare_offset.

(* repaired by 8f3d161 (was C12_refuted_setop_fetch): a set operation paginates in the syntax of its base class;
   for Oracle and MSSQL the window clause now holds for ALL n, m >= 0 *)
Theorem C12_setop_fetch_holds : forall c p, is_fetch c = true -> page_ok p = true ->
  denote_page (family_of c) (render_page c KSetOp p) = Some (requested c KSetOp p).
Proof. intros c p Hc Hp. apply denote_render; [exact Hp | unfold frag; now rewrite Hc]. Qed.
Print Assumptions C12_setop_fetch_holds.

(* and for every class a set operation renders exactly the pagination tail of a SELECT of that class
   (ClickHouse: without the LIMIT BY part, which a set operation does not have) *)
Theorem C12_setop_as_select : forall c p,
  render_page c KSetOp p = render_page c KSelect (set_lby None p).
Proof. intros c p. destruct p as [n m lb tp]. destruct c; reflexivity. Qed.
Print Assumptions C12_setop_as_select.

Example C12_setop_fetch_example :
  render_page COracle KSetOp (pg (Some 7%Z) (Some 5%Z)) = " OFFSET 5 ROWS FETCH NEXT 7 ROWS ONLY"
  /\ render_page CMSSQL KSetOp (pg (Some 0%Z) None) = " OFFSET 0 ROWS FETCH NEXT 0 ROWS ONLY"
  /\ denote_page (family_of CMSSQL) (render_page CMSSQL KSetOp (pg (Some 0%Z) None)) = Some (mkW 0 (Some 0%Z) None).
Proof. vm_compute. repeat split. Qed.
Print Assumptions C12_setop_fetch_example.

Theorem C12_refuted_mssql_update :
  render_page CMSSQL KUpdate (pg (Some 2%Z) None) = " FETCH NEXT 2 ROWS ONLY"
  /\ denote_page (family_of CMSSQL) (render_page CMSSQL KUpdate (pg (Some 2%Z) None)) = None.
Proof. split; vm_compute; reflexivity. Qed.
Print Assumptions C12_refuted_mssql_update.

Theorem C12_refuted : ~ C12_full_statement.
Proof.
  intros [H _]. specialize (H CSQLLite KSelect (pg None (Some 5%Z)) eq_refl).
  rewrite (proj2 C12_refuted_bare_offset) in H. discriminate H.
Qed.
Print Assumptions C12_refuted.

(* ---- it holds on an exactly described fragment: [frag] is true precisely where the window clause holds ---- *)
Theorem C12_on_fragment : forall c k p, page_ok p = true -> frag c k p = true ->
  denote_page (family_of c) (render_page c k p) = Some (requested c k p).
Proof. exact denote_render. Qed.
Print Assumptions C12_on_fragment.

Theorem C12_fragment_exact : forall c k p, page_ok p = true -> frag c k p = false ->
  denote_page (family_of c) (render_page c k p) = None.
Proof. exact denote_render_exact. Qed.
Print Assumptions C12_fragment_exact.

(* ---- every other clause holds in full ---- *)
Theorem C12_rest_holds : C12_rest_statement.
Proof.
  unfold C12_rest_statement.
  split; [exact limit_present_iff|]. split; [exact run_last|]. split; [exact last_calls_determine_page|].
  split; [exact run_supported|]. split; [exact limit_offset_commute|]. split; [exact slice_is_offset_limit|].
  split; [exact select_position|]. split; [exact setop_position|]. split; [exact tail_orders_agree|].
  split; [exact fetch_family_offset_first|]. split; [exact mssql_offset_forced|].
  split; [exact mssql_offset_zero_text|]. split; [exact limit_family_limit_first|].
  split; [exact clickhouse_limit_by_first|]. split; [exact bare_offset_not_limit_grammar|].
  split; [exact fetch_before_offset_not_grammar|]. split; [exact limit_after_by_only|].
  split; [exact read_top_head|]. exact structure_agrees.
Qed.
Print Assumptions C12_rest_holds.

(* ---- the model reproduces every table regenerated from the sources on this run ---- *)
Theorem C12_tables_agree :
  (forallb limit_tpl_ok x_limit_tpl = true /\ forallb offset_tpl_ok x_offset_tpl = true)
  /\ forallb grid_row_ok x_grid = true /\ forallb effect_row_ok x_effects = true
  /\ forallb position_row_ok x_position = true /\ forallb limit_by_row_ok x_limit_by = true
  /\ forallb top_row_ok x_top = true
  (* other builder calls keep the slots (the model's COther); operands' own pagination does not reach the set operation's tail *)
  /\ forallb (fun r : cls * kind * string * bool => snd r) x_keep = true
  /\ forallb setop_operand_row_ok x_setop_operands = true
  (* every statement-starting class-method factory of every class builds the class's own builder and pagination *)
  /\ forallb route_row_ok x_routes = true.
Proof.
  pose proof templates_agree as (a & _ & b & _).
  repeat split; auto; first [apply grid_agrees | apply effects_agree | apply positions_agree | apply limit_by_agrees
                            | apply top_agrees | apply other_calls_keep | apply setop_operands_agree | apply routes_agree].
Qed.
Print Assumptions C12_tables_agree.

(* ---- non-vacuity: concrete non-trivial instances satisfy the hypotheses and evaluate as stated ---- *)
Example C12_example_window :
  let p := mkPage (Some 1000000000000%Z) (Some 99%Z) (Some (3%Z, 2%Z, ["""a"""; """b"""])) None in
  page_ok p = true /\ frag CClickHouse KSelect p = true
  /\ render_page CClickHouse KSelect p = " LIMIT 3 OFFSET 2 BY (""a"",""b"") LIMIT 1000000000000 OFFSET 99"
  /\ denote_page (family_of CClickHouse) (render_page CClickHouse KSelect p)
     = Some (mkW 99 (Some 1000000000000%Z) (Some (3%Z, 2%Z, """a"",""b""")))
  /\ frag CMSSQL KSelect (pg (Some 0%Z) None) = true
  /\ render_page CMSSQL KSelect (pg (Some 0%Z) None) = " OFFSET 0 ROWS FETCH NEXT 0 ROWS ONLY"
  /\ frag CQuery KSelect (pg None (Some 5%Z)) = false /\ frag COracle KSetOp (pg (Some 7%Z) None) = true /\ frag CSQLLite KSetOp (pg None (Some 5%Z)) = false.
Proof. vm_compute. repeat split. Qed.
Print Assumptions C12_example_window.

Example C12_example_calls :
  let cs := [CLimit (Some 3%Z); COffset (Some 9%Z); COther; CLimit (Some 4%Z); CSlice (Some 2%Z) (Some 6%Z); COffset (Some 38%Z); COther] in
  forallb (supported CSQLLite KSelect) cs = true
  /\ page_of CSQLLite KSelect cs = Ok (pg (Some 6%Z) (Some 38%Z))
  /\ last_hit w_lim cs = Some (Some 6%Z) /\ last_hit w_off cs = Some (Some 38%Z)
  /\ stmt_text CSQLLite KSelect false """a"" FROM ""t""" " ORDER BY ""a""" " FOR UPDATE" (pg (Some 6%Z) (Some 38%Z))
     = "SELECT ""a"" FROM ""t"" ORDER BY ""a"" LIMIT 6 OFFSET 38 FOR UPDATE"
  /\ page_of CQuery KSelect [CTop 3 false false] = Err "TypeError"
  /\ page_of CMSSQL KSelect [CTop 150 true false] = Err "QueryException"
  /\ read_top (tokens (select_head CMSSQL true (mkPage None None None (Some (0%Z, false, true))) """a"" FROM ""t"""))
     = Some (Some (0%Z, false, true))
  /\ rest_ok """a"" FROM ""t""" = true.
Proof. vm_compute. repeat split. Qed.
Print Assumptions C12_example_calls.
