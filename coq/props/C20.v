(* C20 — INTERVAL, JSON and array/tuple literals denote the value they were built from.
   This file holds only the statements, the closing proofs and Print Assumptions. *)
From PV Require Import Base gen.C20Table Interval Json lemmas.IntervalLemmas lemmas.JsonLemmas.

(* ---- INTERVAL: rendered in the dialect's template; expression read back field-wise with the unit
        it names gives the sign and the magnitudes from the largest to the smallest non-zero field
        (interior zeros kept). ---- *)
Definition C20_interval_statement : Prop :=
  (* years .. microseconds: all uniformly signed, not all zero value combinations, all dialects,
     dialect given at construction (dc) and/or at rendering (dr) *)
  (forall svals dc dr,
     List.length svals = 7 -> uniform_sign svals = true -> not_all_zero svals = true ->
     let a := lead0 svals in
     let b := a + List.length (kept svals) - 1 in
     exists e,
       render_interval dr (mk_interval svals 0 0 dc) = template_spec (eff dc dr) e (unit_name a b)
       /\ read_interval (unit_name a b) e = Some (has_neg svals, map Z.abs (kept svals)))
  (* quarters only *)
  /\ (forall q dc dr, q <> 0%Z ->
        exists e,
          render_interval dr (mk_interval (repeat 0%Z 7) q 0 dc) = template_spec (eff dc dr) e "QUARTER"
          /\ read_interval "QUARTER" e = Some ((q <? 0)%Z, [Z.abs q]))
  (* weeks only *)
  /\ (forall w dc dr, w <> 0%Z ->
        exists e,
          render_interval dr (mk_interval (repeat 0%Z 7) 0 w dc) = template_spec (eff dc dr) e "WEEK"
          /\ read_interval "WEEK" e = Some ((w <? 0)%Z, [Z.abs w]))
  (* nothing given: zero days *)
  /\ (forall dc dr,
        exists e,
          render_interval dr (mk_interval (repeat 0%Z 7) 0 0 dc) = template_spec (eff dc dr) e "DAY"
          /\ read_interval "DAY" e = Some (false, [0%Z])).

(* ---- JSON: one SQL string literal whose decoded content is the RFC 8259 text of the value, for ALL
        JSON-serialisable values (string keys; nested dicts/lists; strings with quotes, backslashes,
        control characters; booleans; None; numbers), under every keyword context with the standard
        literal quote — in particular under the contexts of all ten query classes, whatever their
        identifier quote_char is ---- *)
Definition C20_json_statement : Prop :=
  (forall c v, cx_secondary c = Some "'" -> jkeys v = true ->
     json_text v = json_spec v
     /\ json_sql_ctx c v = sql_quote (json_spec v)
     /\ sql_decode (json_sql_ctx c v) = Some (json_spec v))
  /\ (forall name c, In (name, c) class_ctxs -> cx_secondary c = Some "'")
  /\ List.length class_ctxs = 10.

(* ---- Tuple / Array / Bracket: the dialect's bracket form, every element once and in order ---- *)
Definition C20_seq_statement : Prop :=
  forall d k vs, forallb sterm_ok vs = true ->
    elements (render_seq d (SSeq k vs)) = Some (map (render_seq d) vs)
    /\ render_seq d (SSeq KTuple vs) = "(" ++ join "," (map (render_seq d) vs) ++ ")"
    /\ (pg_like d = false -> render_seq d (SSeq KArray vs) = "[" ++ join "," (map (render_seq d) vs) ++ "]")
    /\ (pg_like d = true -> vs <> [] ->
          render_seq d (SSeq KArray vs) = "ARRAY[" ++ join "," (map (render_seq d) vs) ++ "]")
    /\ (pg_like d = true -> render_seq d (SSeq KArray []) = "'{}'").

Definition C20_full_statement : Prop :=
  C20_interval_statement /\ C20_json_statement /\ C20_seq_statement.

(* ------------------------------------------------------------------------------------------ *)
(* what holds                                                                                  *)
(* ------------------------------------------------------------------------------------------ *)
(* the interval clause in full: every uniformly signed, not all zero value combination, every dialect
   (since pypika 491a488 the microseconds-only branch keeps the sign) *)
Theorem C20_interval_holds : C20_interval_statement.
Proof.
  unfold C20_interval_statement. split; [exact interval_fields_read_back|].
  split; [intros q dc dr Hq; eexists; exact (interval_quarters (repeat 0%Z 7) q 0%Z dc dr Hq)|].
  split; [intros w dc dr Hw; eexists; exact (interval_weeks (repeat 0%Z 7) w dc dr Hw)|].
  intros dc dr; eexists; exact (interval_all_zero dc dr).
Qed.
Print Assumptions C20_interval_holds.

(* quarters (and likewise weeks) silently drop every other argument: outside the quantifier
   ("year..microsecond, quarter or week counts"), recorded for the reader *)
Theorem C20_quarters_drop_other_fields : forall vals q w dc dr, q <> 0%Z ->
  render_interval dr (mk_interval vals q w dc) = template_spec (eff dc dr) (Z_to_string q) "QUARTER".
Proof. intros vals q w dc dr Hq. exact (proj1 (interval_quarters vals q w dc dr Hq)). Qed.
Print Assumptions C20_quarters_drop_other_fields.

(* the JSON clause in full (since pypika 3c1f928 / 662043c / 4d1a379: strings escaped, true/false/null,
   literal quote doubled) *)
Theorem C20_json_holds : C20_json_statement.
Proof.
  split; [|split; [exact class_ctx_secondary|reflexivity]].
  intros c v Hc H. destruct (json_holds_ctx c v Hc H) as [E1 E2].
  split; [exact (json_text_is_spec v H)|]. split; assumption.
Qed.
Print Assumptions C20_json_holds.

(* the SQL literal is right for EVERY value of the modelled type, string-keyed or not: it decodes to
   exactly the text JSON._recursive_get_sql produced *)
Theorem C20_json_literal_decodes : forall c v, cx_secondary c = Some "'" ->
  sql_decode (json_sql_ctx c v) = Some (json_text v).
Proof. intros c v Hc. unfold json_sql_ctx. rewrite Hc, json_sql_is_quote. apply sql_decode_quote. Qed.
Print Assumptions C20_json_literal_decodes.

(* nothing lost: the fragment of the earlier rounds lies inside the quantifier *)
Theorem C20_json_on_fragment : forall c v, cx_secondary c = Some "'" -> jfrag v = true ->
  json_sql_ctx c v = sql_quote (json_spec v) /\ sql_decode (json_sql_ctx c v) = Some (json_spec v).
Proof. intros c v Hc H. exact (json_holds_ctx c v Hc (jfrag_jkeys v H)). Qed.

(* the identifier quote of the context never reaches the JSON text *)
Theorem C20_json_text_independent_of_quote_char : forall q q' sq aq aq' d d' v,
  json_sql_ctx (mkCtx q sq aq d) v = json_sql_ctx (mkCtx q' sq aq' d') v.
Proof. reflexivity. Qed.
Print Assumptions C20_json_text_independent_of_quote_char.
Print Assumptions C20_json_on_fragment.

Theorem C20_seq_holds : C20_seq_statement.
Proof.
  intros d k vs H. split; [exact (seq_elements d k vs H)|]. split; [reflexivity|].
  split; [intros Hd; simpl; rewrite Hd; reflexivity|]. split.
  - intros Hd Hne. simpl. rewrite Hd.
    destruct vs as [|x vs]; [congruence|]. simpl in H. apply andb_true_iff in H as [Hx _].
    destruct (render_ok d x Hx) as (Hn & _). simpl map. rewrite (joined_nonempty _ _ Hn). reflexivity.
  - intros Hd. simpl. rewrite Hd. reflexivity.
Qed.
Print Assumptions C20_seq_holds.

Theorem C20_holds : C20_full_statement.
Proof. exact (conj C20_interval_holds (conj C20_json_holds C20_seq_holds)). Qed.
Print Assumptions C20_holds.

(* the tables read from the code on this run are the ones the model and the proofs are about *)
Theorem C20_tables_pinned :
  trim_pattern_src = "(^0+\.)|(\.0+$)|(^[0\-.: ]+[\-: ])|([\-:. ][0\-.: ]+$)"
  /\ interval_labels = label_names
  /\ (forall d e u, fmt_template 0 (template_of d) e u = template_spec d e u).
Proof. exact (conj (proj1 pattern_is_expected) (conj labels_are_expected template_is_spec)). Qed.
Print Assumptions C20_tables_pinned.

(* ------------------------------------------------------------------------------------------ *)
(* non-vacuity                                                                                 *)
(* ------------------------------------------------------------------------------------------ *)
(* regression pin for the repaired defect (fixed: pypika 491a488): Interval(microseconds=-5) *)
Example C20_negative_microseconds_keep_sign :
  render_interval None (mk_interval [0; 0; 0; 0; 0; 0; -5]%Z 0 0 None) = "INTERVAL '-5 MICROSECOND'"
  /\ read_interval "MICROSECOND" "-5" = Some (true, [5%Z]).
Proof. split; reflexivity. Qed.
Print Assumptions C20_negative_microseconds_keep_sign.

Example C20_example_interval :
  let svals := [0; 0; -10; 0; 0; -100; 0]%Z in
  uniform_sign svals = true /\ not_all_zero svals = true
  /\ render_interval (Some DMysql) (mk_interval svals 0 0 None) = "INTERVAL '-10 0:0:100' DAY_SECOND"
  /\ read_interval "DAY_SECOND" "-10 0:0:100" = Some (true, [10; 0; 0; 100]%Z)
  /\ kept svals = [-10; 0; 0; -100]%Z.
Proof. vm_compute. repeat split. Qed.
Print Assumptions C20_example_interval.

(* regression pins for the repaired JSON defects (fixed: pypika 3c1f928, 662043c, 4d1a379) *)
Example C20_json_former_witnesses :
  json_sql (Some "'") (JDict [(JStr "k", JStr "a""b")]) = "'{""k"":""a\""b""}'"
  /\ json_sql (Some "'") (JDict [(JStr "a", JBool true); (JStr "b", JNull)]) = "'{""a"":true,""b"":null}'"
  /\ json_sql (Some "'") (JStr "it's") = "'""it''s""'"
  /\ sql_decode (json_sql (Some "'") (JStr "it's")) = Some """it's"""
  /\ json_sql (Some "'") (JList [JStr (codes [10; 1; 92])]) = "'[""\n\u0001\\""]'".
Proof. repeat split; reflexivity. Qed.
Print Assumptions C20_json_former_witnesses.

Example C20_example_json :
  let v := JDict [(JStr "a", JList [JInt (-1); JStr "x y"; JFloat "1.5e+20"; JDict []])] in
  jkeys v = true /\ json_sql (Some "'") v = "'{""a"":[-1,""x y"",1.5e+20,{}]}'"
  /\ map (fun e => json_sql_ctx (snd e) (JDict [(JStr "a", JStr "foo")])) class_ctxs
     = repeat "'{""a"":""foo""}'" 10.
Proof. vm_compute. repeat split. Qed.
Print Assumptions C20_example_json.

Example C20_example_seq :
  let vs := [SAtom "1"; SAtom "'a,(b'"; SSeq KArray [SAtom "f(x,y)"; SSeq KArray []]; SSeq KTuple [SAtom """c"""]] in
  forallb sterm_ok vs = true
  /\ render_seq (Some DPostgresql) (SSeq KArray vs) = "ARRAY[1,'a,(b',ARRAY[f(x,y),'{}'],(""c"")]"
  /\ elements (render_seq (Some DPostgresql) (SSeq KArray vs)) = Some ["1"; "'a,(b'"; "ARRAY[f(x,y),'{}']"; "(""c"")"].
Proof. vm_compute. repeat split. Qed.
Print Assumptions C20_example_seq.
