(* C03 — Data values render as one literal that decodes back to the value.
   This file holds only the statements, the closing [exact]s and Print Assumptions.
   Proofs: lemmas/LexLemmas.v (readers, numeric texts), lemmas/LexTokLemmas.v (token view = render),
   lemmas/LexUniform.v (uniformity), lemmas/LexValues.v (one token per value), lemmas/LexBack.v / LexFollow.v
   (re-reading the rendered text). *)
From PV Require Import Base Crit gen.TermsTable Terms gen.C03Table Lex LexCorr.
From PV Require Import lemmas.LexLemmas lemmas.LexTokLemmas lemmas.LexUniform lemmas.LexBack lemmas.LexFollow lemmas.LexValues.

(* ------------------------------------------------------------------------------------------- *)
(* the property, as stated: for ALL strings, ALL classes, ALL terms (positions) and contexts       *)
(* ------------------------------------------------------------------------------------------- *)
Definition C03_decodes_back : Prop :=
  (* the literal a str value is rendered as, followed by any text that does not begin with the quote character,
     is read back as exactly that value by the string-literal rules of the class' engine *)
  forall k s rest, starts_with squote rest = false ->
    read_lit (lexer_of k) squote (fmt_str squote s ++ rest) = Some (s, rest).

Definition C03_one_token : Prop :=
  (* every data value of the property's list becomes exactly one token, and that token is a literal of the SQL
     grammar (string literal / signed numeric literal / boolean / null), at every wrapping site *)
  forall w k v c, sq1 c = true -> listed v = true ->
    exists tok, toks c (mk_value w k None v) = Ok [tok] /\ literal_tok tok = true.

Definition C03_uniform : Prop :=
  (* all other tokens of the statement are identical to those produced for any other strings in the same places;
     and the token list is the text: nothing is lost or added by looking at tokens *)
  (forall c t1 t2, sq1 c = true -> erase t1 = erase t2 ->
      rmap (map shape) (toks c t1) = rmap (map shape) (toks c t2))
  /\ (forall c t, rmap cflatten (toks c t) = render c t).

Definition C03_full_statement : Prop := C03_decodes_back /\ C03_one_token /\ C03_uniform.

(* ------------------------------------------------------------------------------------------- *)
(* refuted: backslash-escaping engines, non-finite numbers                                        *)
(* ------------------------------------------------------------------------------------------- *)
(* MySQLQuery.from_('t').select('*').where(Field('a') == '\\')  ->  ... WHERE `a`='\'  : the literal never ends *)
Theorem C03_refuted_bs : forall k, lexer_of k = LBs ->
  starts_with squote " AND x" = false /\
  read_lit (lexer_of k) squote (fmt_str squote one_bslash ++ " AND x") <> Some (one_bslash, " AND x").
Proof. intros k E. split; [reflexivity|]. rewrite (class_refuted_bs k E). discriminate. Qed.
Print Assumptions C03_refuted_bs.

Theorem C03_refuted : ~ C03_full_statement.
Proof.
  intros [H _]. destruct (C03_refuted_bs K_MySQLQuery eq_refl) as [Hr Hn]. apply Hn. apply H. exact Hr.
Qed.
Print Assumptions C03_refuted.

(* what a backslash does, for every escape table: with a later quote in the statement the literal ends there and
   the statement's own text becomes string content; a harmless-looking backslash changes the value *)
Theorem C03_bs_swallows : forall esc,
  read_bs esc squote (fmt_str squote one_bslash ++ " OR b='y'") = Some (esc squote ++ " OR b=", "y'")%string.
Proof. exact bs_swallows_tail. Qed.
Print Assumptions C03_bs_swallows.

Theorem C03_bs_changes_value :
  read_bs mysql_esc squote (fmt_str squote (String "a" (String bslash "nb")) ++ " AND x")
  = Some (String "a" (String (ascii_of_nat 10) "b"), " AND x").
Proof. exact bs_decodes_differently. Qed.
Print Assumptions C03_bs_changes_value.

(* float('nan'), float('inf'), Decimal('NaN') ...: the text Python prints is rendered verbatim and is no number *)
Theorem C03_refuted_nonfinite : ~ C03_one_token.
Proof.
  intros H. destruct (H WConst K_Query (PFloat "nan") str_ctx eq_refl eq_refl) as [tok [Ht Hl]].
  cbn in Ht. inversion Ht; subst. discriminate Hl.
Qed.
Print Assumptions C03_refuted_nonfinite.

(* ------------------------------------------------------------------------------------------- *)
(* what holds                                                                                     *)
(* ------------------------------------------------------------------------------------------- *)
(* ANSI reader: every byte string, any quote character *)
Theorem C03_std_roundtrip : forall q s rest, starts_with q rest = false ->
  read_std q (fmt_str q s ++ rest) = Some (s, rest).
Proof. exact std_roundtrip. Qed.
Print Assumptions C03_std_roundtrip.

(* the fragment on which C03_decodes_back holds: the six ANSI classes for every string, the four backslash
   classes for every string without a backslash *)
Theorem C03_on_fragment : forall k s rest,
  (lexer_of k = LStd \/ no_bslash s = true) -> starts_with squote rest = false ->
  read_lit (lexer_of k) squote (fmt_str squote s ++ rest) = Some (s, rest).
Proof. exact class_roundtrip. Qed.
Print Assumptions C03_on_fragment.

(* fmt_str with the class' extracted secondary quote IS what the shared renderer writes for a str value, in the DML
   builder and in the CREATE TABLE builder of every class *)
Theorem C03_literal_is_rendered : forall k s,
  render (class_ctx k) (TValS s None) = Ok (fmt_str squote s) /\ render (create_ctx k) (TValS s None) = Ok (fmt_str squote s).
Proof. intros k s. destruct k; split; reflexivity. Qed.
Print Assumptions C03_literal_is_rendered.

(* "all other tokens are identical": for every term (comparison operand, IN list, BETWEEN bound, LIKE pattern,
   function argument, CASE result, tuple / array element, arithmetic operand, any nesting, any aliases) and every
   context whose secondary quote is one character *)
Theorem C03_uniform_holds : C03_uniform.
Proof. split; [exact uniform | exact toks_flatten]. Qed.
Print Assumptions C03_uniform_holds.

(* one literal token per value: every listed value type whose float / Decimal text is a number (everything but
   nan / inf), every wrapping site, every class, every context *)
Theorem C03_value_tokens : forall w k v c, sq1 c = true -> listed v = true -> finite v = true ->
  exists tok, toks c (mk_value w k None v) = Ok [tok] /\ literal_tok tok = true.
Proof. exact value_one_token. Qed.
Print Assumptions C03_value_tokens.

(* integers: the text is a signed numeric literal and reads back as the same integer (all of Z) *)
Theorem C03_int_roundtrip : forall z, is_numeric_text (Z_to_string z) = true /\ Z_of_string (Z_to_string z) = Some z.
Proof. intros z. split; [apply int_text_numeric | apply int_text_roundtrip]. Qed.
Print Assumptions C03_int_roundtrip.

(* re-reading the rendered text: along the token list every non-literal token is found verbatim and every literal
   is read by the ANSI reader, which stops exactly at the next token and returns the payload — for every term in
   every context that writes literals with the single quote (all ten classes, str()) *)
Theorem C03_text_lexes_back : forall c t ts, sq c = Some "'" -> toks c t = Ok ts ->
  lex_along ts (cflatten ts) = true.
Proof. intros c t ts H Ht. apply lex_along_flatten. exact (toks_follow_ok c t ts H Ht). Qed.
Print Assumptions C03_text_lexes_back.

(* ------------------------------------------------------------------------------------------- *)
(* non-vacuity                                                                                    *)
(* ------------------------------------------------------------------------------------------- *)
Example C03_example_hostile :
  let s := "it's ""q"" -- /* ; \ ''" in
  read_std squote (fmt_str squote s ++ " AND x") = Some (s, " AND x")
  /\ fmt_str squote s = "'it''s ""q"" -- /* ; \ '''''".
Proof. vm_compute. split; reflexivity. Qed.

Example C03_example_uniform :
  let c := with_flags (class_ctx K_MySQLQuery) false false true in
  let t s := TCplx BAnd (TBasic CEq fa (TFunc "F" (TCons (TValS s None) TNil) None None) None)
                        (TIn fa (TTuple (TCons (TValS s (Some "n")) (TCons (TValI 1 None) TNil)) None) false None) None in
  sq1 c = true /\ erase (t "x") = erase (t "'; DROP TABLE t; --")
  /\ rmap (map shape) (toks c (t "'; DROP TABLE t; --"))
     = Ok [CText "`a`"; CText "="; CText "F("; CLit squote ""; CText ")"; CText " AND "; CText "`a`"; CText " IN ";
           CText "("; CLit squote ""; CText " `n`"; CText ","; CNum "1"; CText ")"]
  /\ render c (t "it's") = Ok "`a`=F('it''s') AND `a` IN ('it''s' `n`,1)".
Proof. vm_compute. repeat split. Qed.

Example C03_example_classes :
  map (fun k => match lexer_of k with LStd => 0 | LBs => 1 end) all_classes = [0; 1; 0; 0; 0; 1; 0; 1; 0; 1]
  /\ forallb (fun k => match class_quote k with Some ch => Ascii.eqb ch squote | None => false end) all_classes = true.
Proof. vm_compute. split; reflexivity. Qed.
