(* C14 — Documented rejections fire exactly when specified and change nothing.
   This file holds only the statements, the closing [exact]s / evaluations and Print Assumptions.
   Model: coq/Guards.v (step_* = the method bodies, guards_* = the documented table);
   gen/C14Table.v is regenerated from the pypika sources on every run. *)
From PV Require Import Base Guards lemmas.GuardsLemmas lemmas.GuardsQLemmas gen.C14Table.
Local Open Scope list_scope.

(* the table is exact for one kind of object: inside the contract [wf], a call raises class k exactly when
   the first guard of the table whose documented situation holds documents class k *)
Definition exact {S C : Type} (wf : S -> C -> bool) (step : S -> C -> res S) (gs : list (guard (S * C))) : Prop :=
  forall s c k, wf s c = true -> (step s c = Err k <-> first_fired gs (s, c) = Some k).
Definition always {S C : Type} (_ : S) (_ : C) : bool := true.

Definition C14_full_statement : Prop :=
  (* both polarities of every guard, for all states and all calls, on every kind of object *)
  exact wf_q step_q guards_q
  /\ exact wf_c step_c guards_c
  /\ exact wf_d step_d guards_d
  /\ exact always step_t guards_t
  /\ exact always step_w guards_w
  /\ exact always step_k guards_k
  /\ exact always step_f guards_f
  /\ exact always step_s guards_s
  (* a rejected call changes nothing: on the @builder copy only harmless effects precede a raise ... *)
  /\ raise_safe effects = true
  (* ... and on builders created with immutable=False nothing is left written when it happens (a method the
     path-insensitive walk flags must be one whose flagged raise the model proves dead: C14_select_atomic) *)
  /\ forallb (fun m => existsb (String.eqb m) dead_raise_methods) (mutable_unsafe effects) = true.

(* ------------------------------------------------------------------------------------------ *)
(* what holds: every conjunct but the last one, without any restriction                        *)
(* ------------------------------------------------------------------------------------------ *)
Definition ta := mkPT "a" None None.
Definition tb := mkPT "b" None None.
Definition tzz := mkPT "zz" None None.
Definition ta_s1 := mkPT "a" (Some "s1") None.
Definition upd_a := set_update (q_init QGeneric) (Some ta).
Definition sel_a := set_from (q_init QGeneric) [TTab ta].
Definition ins_a := set_insert (q_init QPostgres) (Some ta).
Definition pg_sel := set_selects (set_from (q_init QPostgres) [TTab ta]) 1 false.
Definition pg_upd := set_from (set_update (q_init QPostgres) (Some ta)) [TTab tb].
Definition crit_tableless : jterm := crit_of_pairs [((None, "x"), (Some (TTab tb), "y"))].
Definition crit_shadow : jterm :=
  crit_of_pairs [((Some (TTab ta_s1), "id"), (Some (TTab tb), "k")); ((Some (TTab ta), "id"), (Some (TTab tb), "id"))].

(* the guard half of the statement holds for every kind of object, all states and all calls of the contract: a call
   raises class k exactly when the documented table says so -- outside the one situation frag_q excludes (a join
   criterion naming a sub-query that is no source but has the alias and the FROM table of one that is) *)
Definition exact_on {S C : Type} (wf frag : S -> C -> bool) (step : S -> C -> res S) (gs : list (guard (S * C))) : Prop :=
  forall s c k, wf s c = true -> frag s c = true -> (step s c = Err k <-> first_fired gs (s, c) = Some k).
Definition C14_guards_statement : Prop :=
  exact_on wf_q frag_q step_q guards_q
  /\ exact wf_c step_c guards_c
  /\ exact wf_d step_d guards_d
  /\ exact always step_t guards_t
  /\ exact always step_w guards_w
  /\ exact always step_k guards_k
  /\ exact always step_f guards_f
  /\ exact always step_s guards_s.

Theorem C14_guards_hold : C14_guards_statement.
Proof.
  unfold C14_guards_statement, exact, exact_on.
  split; [exact guards_q_exact|]. split; [exact guards_c_exact|]. split; [exact guards_d_exact|].
  split; [intros; apply guards_t_exact|]. split; [intros; apply guards_w_exact|].
  split; [intros; apply guards_k_exact|]. split; [intros; apply guards_f_exact|].
  intros; apply guards_s_exact.
Qed.
Print Assumptions C14_guards_hold.

(* the full statement on the fragment frag_q (everything but the sub-query finding), with the exact list of flagged
   methods (select() only, and only syntactically: see C14_select_atomic) and the documented exception classes *)
Definition C14_fragment_statement : Prop :=
  C14_guards_statement
  /\ raise_safe effects = true
  /\ forallb (fun m => existsb (String.eqb m) dead_raise_methods) (mutable_unsafe effects) = true
  /\ mutable_unsafe effects = expected_mutable_unsafe
  /\ classes_ok effects expected_raises = true
  (* the operands nodes_ leaves out are exactly the known ones (recomputed from pypika/terms.py on every run) *)
  /\ nodes_gaps nodes_coverage = expected_nodes_gaps
  (* every term class votes in resolve_is_aggregate as expected (abstain / False / True / computed) *)
  /\ is_aggregate_table = expected_is_aggregate_table.

Theorem C14_on_fragment : C14_fragment_statement.
Proof.
  split; [exact C14_guards_hold|].
  split; [vm_compute; reflexivity|]. split; [vm_compute; reflexivity|]. split; [vm_compute; reflexivity|].
  split; [vm_compute; reflexivity|]. split; vm_compute; reflexivity.
Qed.
Print Assumptions C14_on_fragment.

(* select() (393df3f): the check now stands in front of the loop; once it has passed no term can be rejected, so the
   raise inside the loop -- the only reason why the path-insensitive effects walk still lists select() -- is dead
   and a rejected select() has applied nothing *)
Theorem C14_select_atomic : forall s ts,
  (forall k, step_q s (QSelect ts) = Err k ->
     Nat.eqb (List.length (q_from s)) 0 && existsb (fun t => match t with SStr _ => true | _ => false end) ts = true)
  /\ (Nat.eqb (List.length (q_from s)) 0 && existsb (fun t => match t with SStr _ => true | _ => false end) ts = false ->
      exists s', fold_res sel1 s ts = Ok s').
Proof.
  intros s ts. split; [|apply select_loop_total].
  intros k H. unfold step_q in H. cbn in H.
  destruct (Nat.eqb (Datatypes.length (q_from s)) 0 && existsb (fun t => match t with SStr _ => true | _ => false end) ts) eqn:E; auto.
  destruct (select_loop_total ts s E) as [s' Hs']. rewrite Hs' in H. discriminate.
Qed.
Print Assumptions C14_select_atomic.

(* ------------------------------------------------------------------------------------------ *)
(* the full statement is still false: the one remaining finding                                 *)
(* ------------------------------------------------------------------------------------------ *)
(* C14-join-subquery-same-alias-same-from: s1 = from_(c).select(x, y) AS s is joined; a criterion over
   s3 = from_(c).select(y, z) AS s -- another sub-query, same alias, same FROM table -- is accepted *)
Definition sub_s1 := TSub (Some "s") "c" 0.
Definition sub_s3 := TSub (Some "s") "c" 1.
Definition sub_s2 := TSub (Some "s") "d" 0.
Definition crit_sub (t : tbl) : jterm := crit_of_pairs [((Some (TTab ta), "x"), (Some t, "z"))].
Theorem C14_refuted_subquery_same_alias_same_from :
  wf_q sel_a (QJoin sub_s1 (JOn (Some (crit_sub sub_s3)))) = true
  /\ (exists s', step_q sel_a (QJoin sub_s1 (JOn (Some (crit_sub sub_s3)))) = Ok s')
  /\ first_fired guards_q (sel_a, QJoin sub_s1 (JOn (Some (crit_sub sub_s3)))) = Some JoinExc
  (* the neighbours are judged as documented: own fields accepted, same alias / other FROM table rejected *)
  /\ (exists s', step_q sel_a (QJoin sub_s1 (JOn (Some (crit_sub sub_s1)))) = Ok s')
  /\ step_q sel_a (QJoin sub_s1 (JOn (Some (crit_sub sub_s2)))) = Err JoinExc.
Proof. vm_compute. repeat split; eexists; reflexivity. Qed.
Print Assumptions C14_refuted_subquery_same_alias_same_from.

Definition fzz : jterm := JF (Some (TTab tzz), "y").
Definition fa : jterm := JF (Some (TTab ta), "x").
Definition fb : jterm := JF (Some (TTab tb), "x").
(* repaired by d11365b (findings C14-join-operand-invisible-to-nodes, ...-with): a foreign table inside -x,
   x AT TIME ZONE, FILTER(WHERE ..) or OVER(PARTITION BY .. ORDER BY ..) is rejected like anywhere else, and an undefined
   WITH query there is reported when the statement is rendered -- inside the fragment, as the table documents *)
Theorem C14_operand_positions_repaired :
  let neg := JBin fa (JUn fzz) in                                  (* a.x == -zz.y ; a.x == zz.y AT TIME ZONE .. *)
  let over := JBin fa (JFn [fb; fzz]) in                           (* a.x == SUM(b.x) OVER(PARTITION BY zz.y) / FILTER(..) *)
  let wneg := JBin fa (JUn (JF (Some (TAlq "w9"), "y"))) in
  frag_q sel_a (QJoin (TTab tb) (JOn (Some neg))) && frag_q sel_a (QJoin (TTab tb) (JOn (Some over))) = true
  /\ step_q sel_a (QJoin (TTab tb) (JOn (Some neg))) = Err JoinExc
  /\ first_fired guards_q (sel_a, QJoin (TTab tb) (JOn (Some neg))) = Some JoinExc
  /\ step_q sel_a (QJoin (TTab tb) (JOn (Some over))) = Err JoinExc
  /\ snd (run step_q sel_a [QJoin (TTab tb) (JOn (Some wneg)); QSelect [SStr true]; QRender; QWith "w9"; QRender])
     = [None; None; Some JoinExc; None; None]
  /\ spec_outs guards_q step_q sel_a [QJoin (TTab tb) (JOn (Some wneg)); QSelect [SStr true]; QRender; QWith "w9"; QRender]
     = [None; None; Some JoinExc; None; None].
Proof. vm_compute. repeat split. Qed.
Print Assumptions C14_operand_positions_repaired.

Theorem C14_refuted : ~ C14_full_statement.
Proof.
  intros [Hq _].
  destruct C14_refuted_subquery_same_alias_same_from as [Hwf [[s' Hstep] [Hfire _]]].
  pose proof (proj2 (Hq _ _ JoinExc Hwf)) as H.
  assert (E : step_q sel_a (QJoin sub_s1 (JOn (Some (crit_sub sub_s3)))) = Err JoinExc) by (apply H; exact Hfire).
  rewrite Hstep in E. discriminate.
Qed.
Print Assumptions C14_refuted.

(* the two polarities, spelled out for QueryBuilder objects *)
Theorem C14_g_fires : forall s c g, wf_q s c = true -> frag_q s c = true ->
  In g guards_q -> g_cond g (s, c) = true -> exists k, step_q s c = Err k.
Proof.
  intros s c g Hwf Hfr Hin Hc. destruct (fires_first_fired _ guards_q (s, c) g Hin Hc) as [k Hk].
  exists k. now apply guards_q_exact.
Qed.
Print Assumptions C14_g_fires.

Theorem C14_g_only_fires : forall s c k, wf_q s c = true -> frag_q s c = true -> step_q s c = Err k ->
  exists g, In g guards_q /\ g_cond g (s, c) = true /\ g_exn g = k.
Proof. intros s c k Hwf Hfr H. apply first_fired_sound. now apply guards_q_exact. Qed.
Print Assumptions C14_g_only_fires.

(* for all call histories inside the contract: per call, outcome of the model = what the table documents *)
Theorem C14_histories : forall cs s,
  hist_ok (fun s c => wf_q s c && frag_q s c) step_q s cs = true -> snd (run step_q s cs) = spec_outs guards_q step_q s cs.
Proof. apply history_exact. intros s c k H. apply andb_prop in H. destruct H. now apply guards_q_exact. Qed.
Print Assumptions C14_histories.

(* a rejected call returns no new state: the history continues from the state before it *)
Theorem C14_rejected_changes_nothing : forall s c cs e, step_q s c = Err e ->
  run step_q s (c :: cs) = (fst (run step_q s cs), Some e :: snd (run step_q s cs)).
Proof. exact (rejected_changes_nothing qst qcall step_q). Qed.
Print Assumptions C14_rejected_changes_nothing.

(* on the implementation side: in every guarded method of the current sources, whatever precedes a raise is an
   assignment on the @builder copy or an in-place change of a container that __copy__ re-copies *)
Theorem C14_raise_safe : forall row path pre k post, In row effects -> In path (snd row) ->
  path = pre ++ ERaise k :: post -> forall e, In e pre -> harmless_on_copy e = true.
Proof. apply raise_safe_spec. vm_compute. reflexivity. Qed.
Print Assumptions C14_raise_safe.

(* resolve_is_aggregate: the model function agrees with the real one on the 40 tabulated lists, and has the
   closed form for lists of every length *)
Theorem C14_resolve_table :
  List.length resolve_table = 40
  /\ forallb (fun e => option_eqb Bool.eqb (resolve_is_aggregate (fst e)) (snd e)) resolve_table = true.
Proof. vm_compute. split; reflexivity. Qed.
Print Assumptions C14_resolve_table.

Theorem C14_resolve_closed_form : forall l,
  resolve_is_aggregate l = if all_none l then None else Some (no_false l).
Proof. exact resolve_closed_form. Qed.
Print Assumptions C14_resolve_closed_form.

(* ------------------------------------------------------------------------------------------ *)
(* non-vacuity: states and calls on both sides of the guards                                   *)
(* ------------------------------------------------------------------------------------------ *)
Example C14_example_join :
  let s := set_joins sel_a [mkJ (TTab tb) (Some [ta; tb]) []] in
  let tc := mkPT "c" None None in
  let good := crit_of_pairs [((Some (TTab tb), "x"), (Some (TTab tc), "x")); ((None, "k"), (Some (TTab ta), "k"))] in
  let bad := crit_of_pairs [((Some (TTab tzz), "x"), (Some (TTab tc), "x"))] in
  wf_q s (QJoin (TTab tc) (JOn (Some good))) = true
  /\ (exists s', step_q s (QJoin (TTab tc) (JOn (Some good))) = Ok s')
  /\ wf_q s (QJoin (TTab tc) (JOn (Some bad))) = true
  /\ step_q s (QJoin (TTab tc) (JOn (Some bad))) = Err JoinExc
  /\ first_fired guards_q (s, QJoin (TTab tc) (JOn (Some bad))) = Some JoinExc.
Proof. vm_compute. repeat split. eexists. reflexivity. Qed.

(* sub-queries as join items, named explicitly or by the statement (sq<n>): own fields accepted, another sub-query
   rejected -- same alias over another table, another alias, no alias *)
Example C14_example_subquery :
  let u1 := TSub None "c" 0 in let u2 := TSub (Some "sq0") "d" 0 in let u4 := TSub None "c" 2 in
  hist_ok (fun s c => wf_q s c && frag_q s c) step_q sel_a
    [QJoin u1 (JOn (Some (crit_sub u2))); QJoin u1 (JOn (Some (crit_sub u4))); QJoin u1 (JOn (Some (crit_sub u1)));
     QJoin (TTab tb) (JOn (Some (crit_sub (TSub (Some "sq0") "c" 0)))); QJoin u4 (JOn (Some (crit_sub (TSub (Some "sq1") "c" 2))));
     QJoin (TTab tb) (JOn (Some (crit_sub (TSub (Some "other") "c" 0))))] = true
  /\ snd (run step_q sel_a
    [QJoin u1 (JOn (Some (crit_sub u2))); QJoin u1 (JOn (Some (crit_sub u4))); QJoin u1 (JOn (Some (crit_sub u1)));
     QJoin (TTab tb) (JOn (Some (crit_sub (TSub (Some "sq0") "c" 0)))); QJoin u4 (JOn (Some (crit_sub (TSub (Some "sq1") "c" 2))));
     QJoin (TTab tb) (JOn (Some (crit_sub (TSub (Some "other") "c" 0))))])
     = [Some JoinExc; Some JoinExc; None; None; None; Some JoinExc].
Proof. vm_compute. split; reflexivity. Qed.

(* the foreign table in every operand position: each criterion is rejected, and is inside the fragment *)
Example C14_example_every_position :
  let cs := [JBin fzz fb; JBin fa fzz; JTri fzz fa fb; JTri fa fzz fb; JTri fa fb fzz; JIn fzz [fb; JConst]; JIn fa [fb; fzz];
             JUn fzz; JBin (JBin fa fb) (JUn fzz); JBin fa (JFn [fb; fzz]); JBin fa (JCase [(JBin fzz JConst, fb)] (Some fb));
             JBin fa (JCase [(JBin fb JConst, fzz)] (Some fb)); JBin fa (JCase [(JBin fb JConst, fb)] (Some fzz));
             JBin fa (JBin fb (JBin JConst fzz)); JBin (JBin fa fb) (JBin (JBin fa fb) (JBin fa fzz)); JBin fa (JUn (JBin fb (JFn [JUn fzz])))] in
  forallb (fun c => wf_q sel_a (QJoin (TTab tb) (JOn (Some c))) && frag_q sel_a (QJoin (TTab tb) (JOn (Some c)))) cs = true
  /\ forallb (fun c => match step_q sel_a (QJoin (TTab tb) (JOn (Some c))) with Err e => String.eqb e JoinExc | Ok _ => false end) cs = true
  /\ (exists s', step_q sel_a (QJoin (TTab tb) (JOn (Some (JBin fa (JTri fb (JFn [fa; JConst]) (JCase [(JUn fa, fb)] None)))))) = Ok s').
Proof. vm_compute. repeat split. eexists. reflexivity. Qed.

(* a reference to a WITH query is judged when the statement is rendered: with_() may follow the join (160d589) *)
Example C14_example_with_reference :
  let w := crit_of_pairs [((Some (TAlq "w1"), "x"), (Some (TTab tb), "x"))] in
  snd (run step_q (q_init QGeneric) [QFrom (TTab ta); QJoin (TTab tb) (JOn (Some w)); QRender; QSelect [SStr true]; QRender; QWith "w1"; QRender])
  = [None; None; None; None; Some JoinExc; None; None]
  /\ hist_ok (fun s c => wf_q s c && frag_q s c) step_q (q_init QGeneric) [QFrom (TTab ta); QJoin (TTab tb) (JOn (Some w)); QRender; QSelect [SStr true]; QRender; QWith "w1"; QRender] = true.
Proof. vm_compute. split; reflexivity. Qed.

(* the situations repaired in pypika (a7c7bb0, 7e8ce52, 55ed75e, a9c45a1, f36e217, bed0bb3) agree with the table *)
Example C14_example_repaired :
  let jt := QJoin (TTab tb) (JOn (Some crit_tableless)) in
  let js := QJoin (TTab tb) (JOn (Some crit_shadow)) in
  let mixed := RArith (RField (Some ta) "x") (RField (Some tb) "y") in
  let shadow := RArith (RField (Some ta) "x") (RField (Some ta_s1) "x") in
  (exists s', step_q upd_a jt = Ok s') /\ first_fired guards_q (upd_a, jt) = None
  /\ step_q sel_a js = Err JoinExc /\ first_fired guards_q (sel_a, js) = Some JoinExc
  /\ step_q (q_init QMSSQL) (QTop TVNone false) = Err QueryExc
  /\ step_q (q_init QMSSQL) (QTop (TVFloat 5) false) = Err QueryExc
  /\ step_q pg_sel (QReturning [RStr true]) = Err QueryExc
  /\ (exists s', step_q pg_upd (QReturning [mixed]) = Ok s') /\ first_fired guards_q (pg_upd, QReturning [mixed]) = None
  /\ step_q ins_a (QReturning [shadow]) = Err QueryExc
  /\ snd (run step_c (mkC false true false false 1 None None) [CPrimaryKey 0; CPrimaryKey 1; CForeignKey 0; CForeignKey 1])
     = [None; Some AttrErr; None; Some AttrErr]
  /\ snd (run step_d (mkD true None None) [DDrop KUser false; DDrop KTable true; DOnCluster false; DOnCluster true])
     = [None; Some AttrErr; None; Some AttrErr].
Proof. vm_compute. repeat split; eexists; reflexivity. Qed.

(* RETURNING on statements with ON / USING / CROSS joins (C14-returning-join-without-criterion, repaired): fields of the
   target table and of every joined table are accepted, fields of other tables and aggregates rejected *)
Example C14_example_returning_joins :
  let tc := mkPT "c" None None in
  let prefix := [QUpdate ta; QJoin (TTab tb) (JUsing 1); QJoin (TTab tc) JCross; QSet] in
  let calls := prefix ++ [QReturning [RField (Some ta) "x"]; QReturning [RField (Some tb) "y"; RField (Some tc) "z"];
                          QReturning [RArith (RField (Some ta) "x") (RField (Some tc) "z")];
                          QReturning [RField (Some tzz) "y"]; QReturning [RFn FAgg [RField (Some tb) "y"]]; QRender] in
  hist_ok (fun s c => wf_q s c && frag_q s c) step_q (q_init QPostgres) calls = true
  /\ snd (run step_q (q_init QPostgres) calls) = [None; None; None; None; None; None; None; Some QueryExc; Some QueryExc; None].
Proof. vm_compute. split; reflexivity. Qed.

(* an abstaining operand (interval literal, parameter, wrapped value: RConst) next to an aggregate leaves the term an
   aggregate -- rejected; a literal that votes False (NULL, CURRENT_DATE: an analytic-like leaf) makes it a non-aggregate *)
Example C14_example_returning_abstainers :
  let mx := RFn FAgg [RField (Some ta) "d"] in
  snd (run step_q ins_a [QReturning [RArith mx RConst]; QReturning [RArith RConst mx]; QReturning [RFn FPlain [RArith mx RConst]];
                         QReturning [RArith mx (RFn FAnalytic [])]; QReturning [RArith RConst RConst]; QReturning [RConst]])
  = [Some QueryExc; Some QueryExc; Some QueryExc; None; None; None].
Proof. vm_compute. reflexivity. Qed.

Example C14_example_returning :
  let t1 := RFn FPlain [RFn FAgg [RField (Some ta) "x"]; RConst] in     (* COALESCE(SUM(a.x), 0): aggregate *)
  let t2 := RFn FPlain [RField (Some ta) "x"; RConst] in                (* own table *)
  let t3 := RField (Some tzz) "x" in                                    (* foreign table *)
  hist_ok (fun s c => wf_q s c && frag_q s c) step_q ins_a [QReturning [t2]; QReturning [t1]; QReturning [t2; t3]; QReturning [RStr true; t3]] = true
  /\ snd (run step_q ins_a [QReturning [t2]; QReturning [t1]; QReturning [t2; t3]; QReturning [RStr true; t3]])
     = [None; Some QueryExc; Some QueryExc; None].
Proof. vm_compute. split; reflexivity. Qed.

Example C14_example_once_only :
  snd (run step_q (q_init QGeneric) [QFrom (TTab ta); QSelect [SStr false]; QDelete; QUpdate tb; QInto tb; QInto ta; QRollup true 0; QGroupby 1; QRollup true 0; QRollup false 1])
  = [None; None; Some AttrErr; Some AttrErr; None; Some AttrErr; Some RollupExc; None; None; Some AttrErr].
Proof. vm_compute. reflexivity. Qed.
