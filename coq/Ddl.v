(* Ddl.v - model of pypika's DDL builders (queries.py: Column, PeriodFor, CreateQueryBuilder,
   CreateIndexBuilder, DropQueryBuilder; dialects.py: MySQL/Vertica/Snowflake create builders,
   MySQL/Snowflake/ClickHouse drop builders) and of a reader of the statements they print.
   Definitions only.  The enumerations and the class constants (quote characters, action texts,
   drop kinds) come from gen/C17Table.v, regenerated from the real classes on every run. *)
From PV Require Import Base gen.C17Table.

(* ------------------------------------------------------------------------------------------ *)
(* 1. identifiers, tables, columns                                                             *)
(* ------------------------------------------------------------------------------------------ *)
Definition qstr (q : quote) : option string :=
  match q with QDouble => Some """" | QBacktick => Some "`" | QNone => None end.
Definition qchar (q : quote) : option ascii :=
  match q with QDouble => Some """"%char | QBacktick => Some "`"%char | QNone => None end.
(* format_quotes(name, quote_char): no escaping *)
Definition fqq (q : quote) (s : string) : string := fq (qstr q) s.

(* Table(name, schema=..., alias=...): [tschema] is the chain of schema names OUTERMOST FIRST
   (Table('t', schema=('db','s')), Database('db').s.t, nested Schema objects: ["db"; "s"]);
   [talias] the alias a Table object shared with a SELECT may carry *)
Record table := mk_table { tname : string; tschema : list string; talias : option string }.
Definition tbl (n : string) : table := mk_table n [] None.
Definition tbls (s n : string) : table := mk_table n [s] None.
Definition tpath (t : table) : list string := (tschema t ++ [tname t])%list.
Definition render_path (q : quote) (l : list string) : string := join "." (map (fqq q) l).
(* Table.get_sql(quote_char=q): Schema.get_sql renders parent "." name recursively; no FOR clause;
   format_alias_sql(sql, alias, quote_char=q) - alias_quote_char and as_keyword are not passed by the
   DDL builders, so an alias is appended as: space, alias quoted with q *)
Definition render_table (q : quote) (t : table) : string :=
  fmt_alias (render_path q (tpath t)) (talias t) (qstr q) None false.

(* _ddl_target(table) (70f811c): every DDL builder method that takes a Table stores the table itself -
   a copy without the alias (and without the FOR clause, not modelled) *)
Definition ddl_target (t : table) : table := mk_table (tname t) (tschema t) None.

(* Column(name, type, nullable, default).  [cdefault] is the already rendered text of the default
   term (ValueWrapper(default).get_sql under the builder's keyword arguments) - opaque here. *)
Record column := mk_column { cname : string; ctype : option string; cnull : option bool; cdefault : option string }.

(* Column.get_sql: "{name}{type}{nullable}{default}"; type is tested for truthiness, nullable for
   "is not None", default for truthiness of a Term object (always true when not None) *)
Definition render_column (q : quote) (c : column) : string :=
  fqq q (cname c)
  ++ (if truthy_ostr (ctype c) then " " ++ ostr (ctype c) else "")
  ++ (match cnull c with Some b => " " ++ (if b then "NULL" else "NOT NULL") | None => "" end)
  ++ (match cdefault c with Some d => " " ++ ("DEFAULT " ++ d) | None => "" end).

(* what columns() accepts: a str, a (name, type) tuple or a Column *)
Inductive colarg := CAStr (n : string) | CATuple (n ty : string) | CACol (c : column).
Definition col_of_arg (a : colarg) : column :=
  match a with
  | CAStr n => mk_column n None None None
  | CATuple n ty => mk_column n (Some ty) None None
  | CACol c => c
  end.

(* PeriodFor(name, start, end): only the names of the two columns are rendered *)
Record period := mk_period { pname : string; pstart : string; pend : string }.
Definition render_period (q : quote) (p : period) : string :=
  "PERIOD FOR " ++ fqq q (pname p) ++ " (" ++ fqq q (pstart p) ++ "," ++ fqq q (pend p) ++ ")".

Definition render_names (q : quote) (ns : list string) : string := join "," (map (fqq q) ns).

Record fkey := mk_fkey { fk_cols : list string; fk_table : table; fk_refs : list string;
                         fk_on_delete : option refopt; fk_on_update : option refopt }.

Definition render_unique (q : quote) (ns : list string) : string := "UNIQUE (" ++ render_names q ns ++ ")".
Definition render_pk (q : quote) (ns : list string) : string := "PRIMARY KEY (" ++ render_names q ns ++ ")".
Definition render_fk (q : quote) (f : fkey) : string :=
  "FOREIGN KEY (" ++ render_names q (fk_cols f) ++ ") REFERENCES " ++ render_table q (fk_table f)
  ++ " (" ++ render_names q (fk_refs f) ++ ")"
  ++ (match fk_on_delete f with Some o => " ON DELETE " ++ refopt_text o | None => "" end)
  ++ (match fk_on_update f with Some o => " ON UPDATE " ++ refopt_text o | None => "" end).

(* ------------------------------------------------------------------------------------------ *)
(* 2. CreateQueryBuilder and its dialect subclasses                                            *)
(* ------------------------------------------------------------------------------------------ *)
Record cstate := mk_cstate {
  s_table : option table;            (* _create_table *)
  s_temporary : bool;
  s_unlogged : bool;
  s_as_select : option string;       (* _as_select: the rendered query text, opaque *)
  s_columns : list column;
  s_periods : list period;
  s_sysver : bool;                   (* _with_system_versioning *)
  s_pk : option (list string);       (* _primary_key: None or the prepared list *)
  s_uniques : list (list string);
  s_ine : bool;                      (* _if_not_exists *)
  s_fk : option fkey;                (* _foreign_key and its four companions, written together *)
  s_local : bool;                    (* VerticaCreateQueryBuilder._local *)
  s_preserve : bool                  (* VerticaCreateQueryBuilder._preserve_rows *)
}.

Definition init_cstate : cstate :=
  mk_cstate None false false None [] [] false None [] false None false false.

Inductive ccall :=
| KCreateTable (t : table)
| KTemporary | KUnlogged | KSysVer | KIfNotExists
| KLocal | KPreserveRows                                   (* Vertica only *)
| KColumns (cs : list colarg)
| KPeriodFor (n s e : string)
| KUnique (ns : list string)
| KPrimaryKey (ns : list string)
| KForeignKey (cols : list string) (t : table) (refs : list string) (ondel onupd : option refopt)
| KAsSelect (sel : string).

Definition nonempty {A} (l : list A) : bool := match l with [] => false | _ => true end.
Definition attr_err {A} : res A := Err "AttributeError".

(* the once-only guards of primary_key / foreign_key: "is not None" (identity test since 7e8ce52;
   the clauses themselves are still rendered on truthiness, see body_clauses) *)
Definition pk_set (st : cstate) : bool := is_some (s_pk st).
Definition fk_set (st : cstate) : bool := is_some (s_fk st).

Definition step (cls : ccls) (st : cstate) (c : ccall) : res cstate :=
  let '(mk_cstate tb tmp unl sel cols pers sv pk uqs ine fk loc prs) := st in
  match c with
  | KCreateTable t =>
      if is_some tb then attr_err
      else Ok (mk_cstate (Some t) tmp unl sel cols pers sv pk uqs ine fk loc prs)
  | KTemporary => Ok (mk_cstate tb true unl sel cols pers sv pk uqs ine fk loc prs)
  | KUnlogged =>
      if rejects_unlogged cls then attr_err      (* VerticaCreateQueryBuilder.unlogged raises (1e06637) *)
      else Ok (mk_cstate tb tmp true sel cols pers sv pk uqs ine fk loc prs)
  | KSysVer => Ok (mk_cstate tb tmp unl sel cols pers true pk uqs ine fk loc prs)
  | KIfNotExists => Ok (mk_cstate tb tmp unl sel cols pers sv pk uqs true fk loc prs)
  | KLocal =>
      if has_vertica_flags cls then
        if tmp then Ok (mk_cstate tb tmp unl sel cols pers sv pk uqs ine fk true prs) else attr_err
      else attr_err                      (* no such method on the other classes *)
  | KPreserveRows =>
      if has_vertica_flags cls then
        if tmp then Ok (mk_cstate tb tmp unl sel cols pers sv pk uqs ine fk loc true) else attr_err
      else attr_err
  | KColumns cs =>
      if is_some sel then attr_err
      else Ok (mk_cstate tb tmp unl sel (cols ++ map col_of_arg cs) pers sv pk uqs ine fk loc prs)
  | KPeriodFor n s e => Ok (mk_cstate tb tmp unl sel cols (pers ++ [mk_period n s e]) sv pk uqs ine fk loc prs)
  | KUnique ns => Ok (mk_cstate tb tmp unl sel cols pers sv pk (uqs ++ [ns]) ine fk loc prs)
  | KPrimaryKey ns =>
      if pk_set st then attr_err
      else Ok (mk_cstate tb tmp unl sel cols pers sv (Some ns) uqs ine fk loc prs)
  | KForeignKey fc t rc od ou =>
      if fk_set st then attr_err
      else Ok (mk_cstate tb tmp unl sel cols pers sv pk uqs ine (Some (mk_fkey fc t rc od ou)) loc prs)
  | KAsSelect q =>
      if nonempty cols then attr_err
      else Ok (mk_cstate tb tmp unl (Some q) cols pers sv pk uqs ine fk loc prs)
  end.

Fixpoint run (cls : ccls) (st : cstate) (calls : list ccall) : res cstate :=
  match calls with
  | [] => Ok st
  | c :: r => match step cls st c with Ok st' => run cls st' r | Err e => Err e end
  end.

(* <Dialect>Query.create_table(t).<calls...> *)
Definition build (cls : ccls) (t : table) (calls : list ccall) : res cstate :=
  run cls init_cstate (KCreateTable t :: calls).

(* _create_table_sql: the generic one, and Vertica's override (LOCAL, no UNLOGGED) *)
Definition create_table_sql (cls : ccls) (st : cstate) (t : table) : string :=
  let q := create_quote cls in
  match cls with
  | CVertica =>
      "CREATE " ++ (if s_local st then "LOCAL " else "") ++ (if s_temporary st then "TEMPORARY " else "")
      ++ "TABLE " ++ (if s_ine st then "IF NOT EXISTS " else "") ++ render_table q t
  | _ =>
      "CREATE " ++ (if s_temporary st then "TEMPORARY " else if s_unlogged st then "UNLOGGED " else "")
      ++ "TABLE " ++ (if s_ine st then "IF NOT EXISTS " else "") ++ render_table q t
  end.

Definition preserve_rows_sql (cls : ccls) (st : cstate) : string :=
  match cls with
  | CVertica => if s_preserve st then " ON COMMIT PRESERVE ROWS" else ""
  | _ => ""
  end.

Definition table_options_sql (cls : ccls) (st : cstate) : string :=
  (if s_sysver st then " WITH SYSTEM VERSIONING" else "") ++ preserve_rows_sql cls st.

Definition as_select_sql (cls : ccls) (st : cstate) (sel : string) : string :=
  preserve_rows_sql cls st ++ " AS (" ++ sel ++ ")".

(* _body_sql: columns, period-fors, uniques, then the primary key and the foreign key when truthy *)
Definition body_clauses (q : quote) (st : cstate) : list string :=
  map (render_column q) (s_columns st)
  ++ map (render_period q) (s_periods st)
  ++ map (render_unique q) (s_uniques st)
  ++ (match s_pk st with Some (n :: r) => [render_pk q (n :: r)] | _ => [] end)
  ++ (match s_fk st with
      | Some f => if nonempty (fk_cols f) then [render_fk q f] else []
      | None => []
      end).

(* get_sql / __str__ *)
Definition render_create (cls : ccls) (st : cstate) : string :=
  let q := create_quote cls in
  match s_table st with
  | None => ""
  | Some t =>
      match s_as_select st with
      | Some sel => create_table_sql cls st t ++ as_select_sql cls st sel
      | None =>
          match s_columns st with
          | [] => ""
          | _ => create_table_sql cls st t ++ " (" ++ join "," (body_clauses q st) ++ ")" ++ table_options_sql cls st
          end
      end
  end.

(* The methods as called: create_table / foreign_key pass their Table argument through _ddl_target
   before anything else; [step]/[run]/[build] above are the builder on already normalised calls. *)
Definition norm_ccall (c : ccall) : ccall :=
  match c with
  | KCreateTable t => KCreateTable (ddl_target t)
  | KForeignKey a t b od ou => KForeignKey a (ddl_target t) b od ou
  | _ => c
  end.
Definition api_step (cls : ccls) (st : cstate) (c : ccall) : res cstate := step cls st (norm_ccall c).
Fixpoint api_run (cls : ccls) (st : cstate) (calls : list ccall) : res cstate :=
  match calls with
  | [] => Ok st
  | c :: r => match api_step cls st c with Ok st' => api_run cls st' r | Err e => Err e end
  end.
Definition api_build (cls : ccls) (t : table) (calls : list ccall) : res cstate :=
  api_run cls init_cstate (KCreateTable t :: calls).

(* str(ddl) or the exception class *)
Definition create_text (cls : ccls) (t : table) (calls : list ccall) : string :=
  match api_build cls t calls with Ok st => render_create cls st | Err e => "!" ++ e end.

(* ------------------------------------------------------------------------------------------ *)
(* 3. CreateIndexBuilder                                                                       *)
(* ------------------------------------------------------------------------------------------ *)
(* create_index(index: str | Index) *)
Inductive iname := INStr (s : string) | INObj (s : string).
(* on(table: str | Table); a str is tested for truthiness by get_sql *)
Inductive itable := ITStr (s : string) | ITObj (t : table).

Record istate := mk_istate {
  i_index : iname; i_columns : list column; i_table : option itable;
  i_wheres : list string;      (* the criteria given to where(), rendered (opaque); folded with & *)
  i_unique : bool; i_ine : bool }.

Inductive icall :=
| XCreateIndex (i : iname) | XColumns (cs : list colarg) | XOn (t : itable) | XWhere (w : string)
| XUnique | XIfNotExists.

Definition istep (st : istate) (c : icall) : istate :=
  let '(mk_istate ix cols tb ws u ine) := st in
  match c with
  | XCreateIndex i => mk_istate i cols tb ws u ine
  | XColumns cs => mk_istate ix (cols ++ map col_of_arg cs) tb ws u ine
  | XOn t => mk_istate ix cols (Some t) ws u ine
  | XWhere w => mk_istate ix cols tb (ws ++ [w]) u ine
  | XUnique => mk_istate ix cols tb ws true ine
  | XIfNotExists => mk_istate ix cols tb ws u true
  end.

Definition ibuild (i : iname) (calls : list icall) : istate :=
  fold_left istep calls (mk_istate i [] None [] false false).

Definition snonempty_b (s : string) : bool := match s with EmptyString => false | _ => true end.
(* a str name is quoted with format_quotes and the double quote (f8ac2a6), an object through its __str__ *)
Definition iname_text (i : iname) : string := match i with INStr s => fqq QDouble s | INObj s => fqq QDouble s end.
Definition itable_text (t : itable) : string := match t with ITStr s => fqq QDouble s | ITObj t => render_table QDouble t end.
Definition itable_truthy (t : option itable) : bool :=
  match t with None => false | Some (ITStr EmptyString) => false | Some _ => true end.

(* get_sql: AttributeError without columns / table; the head is " ".join of the non-empty parts *)
Definition index_head (st : istate) : string :=
  join " " (filter snonempty_b ["CREATE"; if i_unique st then "UNIQUE" else ""; "INDEX"; if i_ine st then "IF NOT EXISTS" else ""]).

Definition render_index (st : istate) : res string :=
  if negb (nonempty (i_columns st)) then attr_err
  else if negb (itable_truthy (i_table st)) then attr_err
  else
    let base := index_head st ++ " " ++ iname_text (i_index st)
                ++ " ON " ++ match i_table st with Some t => itable_text t | None => "" end
                ++ "(" ++ join ", " (map cname (i_columns st)) ++ ")" in
    Ok (match i_wheres st with [] => base | ws => base ++ " WHERE " ++ join " AND " ws end).

(* on(table) passes a Table argument through _ddl_target *)
Definition norm_icall (c : icall) : icall :=
  match c with XOn (ITObj t) => XOn (ITObj (ddl_target t)) | _ => c end.
Definition api_ibuild (i : iname) (calls : list icall) : istate :=
  fold_left (fun st c => istep st (norm_icall c)) calls (mk_istate i [] None [] false false).

Definition index_text (i : iname) (calls : list icall) : string :=
  match render_index (api_ibuild i calls) with Ok s => s | Err e => "!" ++ e end.

(* ------------------------------------------------------------------------------------------ *)
(* 4. DropQueryBuilder (+ ClickHouse)                                                          *)
(* ------------------------------------------------------------------------------------------ *)
Inductive dtarget := DTDatabase (n : string) | DTTable (t : table) | DTStr (s : string).
Record dstate := mk_dstate { d_kind : option string; d_target : dtarget; d_if_exists : bool; d_cluster : option string }.
Definition init_dstate : dstate := mk_dstate None (DTStr "") false None.

Inductive dcall :=
| DDrop (k : dkind) (target : dtarget)      (* drop_database/table/user/view/index/dictionary/quota *)
| DIfExists
| DOnCluster (c : string).

Definition is_ch_kind (k : dkind) : bool := match k with KDictionary | KQuota => true | _ => false end.

Definition dstep (cls : dcls) (st : dstate) (c : dcall) : res dstate :=
  match c with
  | DDrop k tg =>
      if (is_ch_kind k && negb (has_clickhouse_drops cls))%bool then attr_err      (* no such method *)
      else if is_some (d_kind st) then attr_err                 (* _set_target guard: _drop_target_kind is not None *)
      else Ok (mk_dstate (Some (drop_kind_text k)) tg (d_if_exists st) (d_cluster st))
  | DIfExists => Ok (mk_dstate (d_kind st) (d_target st) true (d_cluster st))
  | DOnCluster c =>
      if negb (has_clickhouse_drops cls) then attr_err
      else if is_some (d_cluster st) then attr_err
      else Ok (mk_dstate (d_kind st) (d_target st) (d_if_exists st) (Some c))
  end.

Fixpoint drun (cls : dcls) (st : dstate) (calls : list dcall) : res dstate :=
  match calls with
  | [] => Ok st
  | c :: r => match dstep cls st c with Ok st' => drun cls st' r | Err e => Err e end
  end.

Definition render_drop (cls : dcls) (st : dstate) : string :=
  let q := drop_quote cls in
  "DROP " ++ (match d_kind st with Some k => k | None => "None" end) ++ " "
  ++ (if d_if_exists st then "IF EXISTS " else "")
  ++ (match d_target st with
      | DTDatabase n => fqq q n
      | DTTable t => render_table q t
      | DTStr s => fqq q s
      end)
  ++ (if has_clickhouse_drops cls then
        match d_cluster st with
        | Some c => if String.eqb (ostr (d_kind st)) "DICTIONARY" then "" else " ON CLUSTER " ++ fqq cluster_quote c
        | None => ""
        end
      else "").

(* drop_table(table) passes a Table argument through _ddl_target *)
Definition norm_dcall (c : dcall) : dcall :=
  match c with DDrop k (DTTable t) => DDrop k (DTTable (ddl_target t)) | _ => c end.
Fixpoint api_drun (cls : dcls) (st : dstate) (calls : list dcall) : res dstate :=
  match calls with
  | [] => Ok st
  | c :: r => match dstep cls st (norm_dcall c) with Ok st' => api_drun cls st' r | Err e => Err e end
  end.

Definition drop_text (cls : dcls) (calls : list dcall) : string :=
  match api_drun cls init_dstate calls with Ok st => render_drop cls st | Err e => "!" ++ e end.

(* ------------------------------------------------------------------------------------------ *)
(* 5. the reader: statement text -> description of the schema object                           *)
(* ------------------------------------------------------------------------------------------ *)
Fixpoint strip_prefix (p s : string) : option string :=
  match p with
  | EmptyString => Some s
  | String a p' => match s with
                   | String b s' => if Ascii.eqb a b then strip_prefix p' s' else None
                   | EmptyString => None
                   end
  end.
Definition opt_prefix (p s : string) : bool * string :=
  match strip_prefix p s with Some r => (true, r) | None => (false, s) end.

(* text before / after the first occurrence of [c] *)
Fixpoint take_until (c : ascii) (s : string) : option (string * string) :=
  match s with
  | EmptyString => None
  | String a r => if Ascii.eqb a c then Some (EmptyString, r)
                  else match take_until c r with Some (x, y) => Some (String a x, y) | None => None end
  end.

Fixpoint split_on (c : ascii) (s : string) : list string :=
  match s with
  | EmptyString => [EmptyString]
  | String a r => if Ascii.eqb a c then EmptyString :: split_on c r
                  else match split_on c r with x :: l => String a x :: l | [] => [String a EmptyString] end
  end.

(* s = x ++ [c]  ->  x *)
Fixpoint strip_last (c : ascii) (s : string) : option string :=
  match s with
  | EmptyString => None
  | String a r => match r with
                  | EmptyString => if Ascii.eqb a c then Some EmptyString else None
                  | _ => option_map (String a) (strip_last c r)
                  end
  end.

Fixpoint sforall (f : ascii -> bool) (s : string) : bool :=
  match s with EmptyString => true | String a r => (f a && sforall f r)%bool end.
Definition snonempty (s : string) : bool := match s with EmptyString => false | _ => true end.

Definition char_in (c : ascii) (s : string) : bool := negb (sforall (fun a => negb (Ascii.eqb a c)) s).
(* characters a name may contain anywhere: no quote character of any dialect, no comma, no parenthesis *)
Definition namechar (c : ascii) : bool := negb (char_in c ",()""`'").
(* characters of a bare (unquoted) identifier: additionally no space and no dot *)
Definition idchar (c : ascii) : bool := (namechar c && negb (Ascii.eqb c " ") && negb (Ascii.eqb c "."))%bool.

Definition name_ok (q : quote) (s : string) : bool :=
  match q with
  | QNone => (snonempty s && sforall idchar s)%bool
  | _ => sforall namechar s
  end.

Fixpoint take_id (s : string) : string * string :=
  match s with
  | EmptyString => (EmptyString, EmptyString)
  | String a r => if idchar a then let (x, y) := take_id r in (String a x, y) else (EmptyString, s)
  end.

(* an identifier at the head of [s]: quoted with the dialect's character, or bare *)
Definition read_name (q : quote) (s : string) : option (string * string) :=
  match qchar q with
  | Some c => match s with
              | String a r => if Ascii.eqb a c then take_until c r else None
              | EmptyString => None
              end
  | None => let (x, r) := take_id s in if snonempty x then Some (x, r) else None
  end.

(* a complete text that is one identifier *)
Definition unquote (q : quote) (x : string) : option string :=
  match qchar q with
  | Some c => match x with
              | String a r => if Ascii.eqb a c then strip_last c r else None
              | EmptyString => None
              end
  | None => if (snonempty x && sforall idchar x)%bool then Some x else None
  end.

Fixpoint omap {A B} (f : A -> option B) (l : list A) : option (list B) :=
  match l with
  | [] => Some []
  | a :: r => match f a, omap f r with Some b, Some l' => Some (b :: l') | _, _ => None end
  end.

(* a dotted chain of identifiers read with [rd]; one unit of fuel per component *)
Fixpoint read_path_gen (rd : string -> option (string * string)) (fuel : nat) (s : string) : option (list string * string) :=
  match fuel with
  | O => None
  | S f =>
      match rd s with
      | Some (a, r) =>
          match r with
          | String c r1 =>
              if Ascii.eqb c "." then
                match read_path_gen rd f r1 with Some (l, r') => Some (a :: l, r') | None => None end
              else Some ([a], r)
          | EmptyString => Some ([a], r)
          end
      | None => None
      end
  end.

(* the last component is the table, the ones before it the schema chain, outermost first *)
Definition table_of_path (l : list string) : option table :=
  match rev l with n :: sc => Some (mk_table n (rev sc) None) | [] => None end.

Definition read_table_gen (rd : string -> option (string * string)) (s : string) : option (table * string) :=
  match read_path_gen rd (S (String.length s)) s with
  | Some (l, r) => match table_of_path l with Some t => Some (t, r) | None => None end
  | None => None
  end.

Definition read_table (q : quote) (s : string) : option (table * string) := read_table_gen (read_name q) s.

(* n1,n2,...) ++ rest  ->  ([n1; n2; ...], rest) *)
Definition names_block (q : quote) (s : string) : option (list string * string) :=
  match take_until ")" s with
  | Some (inner, rest) => match omap (unquote q) (split_on "," inner) with Some ns => Some (ns, rest) | None => None end
  | None => None
  end.

(* nesting depth after [s], starting at depth [d]; None when a parenthesis closes below the start
   or a comma occurs at depth 0 *)
Fixpoint scan (d : nat) (s : string) : option nat :=
  match s with
  | EmptyString => Some d
  | String c r =>
      if Ascii.eqb c "(" then scan (S d) r
      else if Ascii.eqb c ")" then match d with O => None | S d' => scan d' r end
      else if Ascii.eqb c "," then match d with O => None | _ => scan d r end
      else scan d r
  end.
(* an opaque text that can stand inside a body item: balanced, no top-level comma *)
Definition opaque_ok (s : string) : bool := match scan 0 s with Some O => true | _ => false end.

(* the parenthesised body: items separated by commas at depth 0, closed by a parenthesis at depth 0 *)
Fixpoint split_body (d : nat) (acc : string) (s : string) : option (list string * string) :=
  match s with
  | EmptyString => None
  | String c r =>
      if Ascii.eqb c "(" then split_body (S d) (acc ++ "(") r
      else if Ascii.eqb c ")" then
        match d with O => Some ([acc], r) | S d' => split_body d' (acc ++ ")") r end
      else if Ascii.eqb c "," then
        match d with
        | O => match split_body 0 EmptyString r with Some (l, rest) => Some (acc :: l, rest) | None => None end
        | _ => split_body d (acc ++ ",") r
        end
      else split_body d (acc ++ String c EmptyString) r
  end.

(* --- column definition:  name [type] [NULL | NOT NULL] [DEFAULT literal] --- *)
Definition is_attr_kw (w : string) : bool :=
  (String.eqb w "DEFAULT" || String.eqb w "NULL" || String.eqb w "NOT")%bool.

Fixpoint cut_default (ws : list string) : list string * option (list string) :=
  match ws with
  | [] => ([], None)
  | w :: r => if String.eqb w "DEFAULT" then ([], Some r)
              else let (a, d) := cut_default r in (w :: a, d)
  end.

Definition strip_null (ws : list string) : list string * option bool :=
  match rev ws with
  | w1 :: r1 =>
      if String.eqb w1 "NULL" then
        match r1 with
        | w2 :: r2 => if String.eqb w2 "NOT" then (rev r2, Some false) else (rev r1, Some true)
        | [] => ([], Some true)
        end
      else (ws, None)
  | [] => (ws, None)
  end.

Definition analyse_attrs (ws : list string) : option string * option bool * option string :=
  let (a, d) := cut_default ws in
  let (tw, nu) := strip_null a in
  (match tw with [] => None | _ => Some (join " " tw) end, nu, option_map (join " ") d).

Definition parse_attrs (rem : string) : option (option string * option bool * option string) :=
  match rem with
  | EmptyString => Some (None, None, None)
  | String c r => if Ascii.eqb c " " then Some (analyse_attrs (split_on " " r)) else None
  end.

Definition parse_column (q : quote) (x : string) : option column :=
  match read_name q x with
  | Some (n, rem) =>
      match parse_attrs rem with
      | Some (ty, nu, df) => Some (mk_column n ty nu df)
      | None => None
      end
  | None => None
  end.

(* a column type the reader can tell from the attributes that follow it *)
Definition type_ok (ty : string) : bool :=
  (snonempty ty && opaque_ok ty && forallb (fun w => negb (is_attr_kw w)) (split_on " " ty))%bool.

(* --- constraints --- *)
Definition all_refopts : list refopt := [RCascade; RNoAction; RRestrict; RSetNull; RSetDefault].
Fixpoint read_refopt (l : list refopt) (s : string) : option (refopt * string) :=
  match l with
  | [] => None
  | o :: r => match strip_prefix (refopt_text o) s with Some rest => Some (o, rest) | None => read_refopt r s end
  end.

Definition parse_on_update (s : string) : option (option refopt) :=
  match s with
  | EmptyString => Some None
  | _ => match strip_prefix " ON UPDATE " s with
         | Some r => match read_refopt all_refopts r with Some (o, EmptyString) => Some (Some o) | _ => None end
         | None => None
         end
  end.

Definition parse_actions (s : string) : option (option refopt * option refopt) :=
  match strip_prefix " ON DELETE " s with
  | Some r => match read_refopt all_refopts r with
              | Some (od, r2) => match parse_on_update r2 with Some ou => Some (Some od, ou) | None => None end
              | None => None
              end
  | None => match parse_on_update s with Some ou => Some (None, ou) | None => None end
  end.

Inductive item :=
| IColumn (c : column)
| IPeriod (p : period)
| IUnique (ns : list string)
| IPrimary (ns : list string)
| IForeign (f : fkey).

Definition parse_period (q : quote) (s : string) : option item :=
  match read_name q s with
  | Some (n, r) =>
      match strip_prefix " (" r with
      | Some r2 => match names_block q r2 with
                   | Some ([a; b], EmptyString) => Some (IPeriod (mk_period n a b))
                   | _ => None
                   end
      | None => None
      end
  | None => None
  end.

Definition parse_foreign (q : quote) (s : string) : option item :=
  match names_block q s with
  | Some (cols, r) =>
      match strip_prefix " REFERENCES " r with
      | Some r2 =>
          match read_table q r2 with
          | Some (t, r3) =>
              match strip_prefix " (" r3 with
              | Some r4 =>
                  match names_block q r4 with
                  | Some (refs, r5) =>
                      match parse_actions r5 with
                      | Some (od, ou) => Some (IForeign (mk_fkey cols t refs od ou))
                      | None => None
                      end
                  | None => None
                  end
              | None => None
              end
          | None => None
          end
      | None => None
      end
  | None => None
  end.

(* one body item, classified by its leading keyword *)
Definition parse_item (q : quote) (x : string) : option item :=
  match strip_prefix "PERIOD FOR " x with
  | Some r => parse_period q r
  | None =>
    match strip_prefix "UNIQUE (" x with
    | Some r => match names_block q r with Some (ns, EmptyString) => Some (IUnique ns) | _ => None end
    | None =>
      match strip_prefix "PRIMARY KEY (" x with
      | Some r => match names_block q r with Some (ns, EmptyString) => Some (IPrimary ns) | _ => None end
      | None =>
        match strip_prefix "FOREIGN KEY (" x with
        | Some r => parse_foreign q r
        | None => option_map IColumn (parse_column q x)
        end
      end
    end
  end.

Inductive tkind := TPlain | TTemporary | TUnlogged.
Inductive cbody :=
| BItems (items : list item) (sysver preserve : bool)
| BSelect (preserve : bool) (sel : string).
Record create_ast := mk_create_ast { a_local : bool; a_kind : tkind; a_ine : bool; a_table : table; a_body : cbody }.

(* "CREATE [LOCAL ][TEMPORARY |UNLOGGED ]TABLE [IF NOT EXISTS ]" *)
Definition parse_header (s : string) : option (bool * tkind * bool * string) :=
  match strip_prefix "CREATE " s with
  | Some s1 =>
      let (lo, s2) := opt_prefix "LOCAL " s1 in
      let (k, s3) := match strip_prefix "TEMPORARY " s2 with
                     | Some r => (TTemporary, r)
                     | None => match strip_prefix "UNLOGGED " s2 with Some r => (TUnlogged, r) | None => (TPlain, s2) end
                     end in
      match strip_prefix "TABLE " s3 with
      | Some s4 => let (ine, s5) := opt_prefix "IF NOT EXISTS " s4 in Some (lo, k, ine, s5)
      | None => None
      end
  | None => None
  end.

Definition parse_options (s : string) : option (bool * bool) :=
  let (sv, r1) := opt_prefix " WITH SYSTEM VERSIONING" s in
  let (pr, r2) := opt_prefix " ON COMMIT PRESERVE ROWS" r1 in
  match r2 with EmptyString => Some (sv, pr) | _ => None end.

Definition parse_create (q : quote) (s : string) : option create_ast :=
  match parse_header s with
  | Some (lo, k, ine, s5) =>
      match read_table q s5 with
      | Some (t, s6) =>
          match strip_prefix " (" s6 with
          | Some s7 =>
              match split_body 0 EmptyString s7 with
              | Some (xs, tail) =>
                  match omap (parse_item q) xs, parse_options tail with
                  | Some items, Some (sv, pr) => Some (mk_create_ast lo k ine t (BItems items sv pr))
                  | _, _ => None
                  end
              | None => None
              end
          | None =>
              let (pr, s7) := opt_prefix " ON COMMIT PRESERVE ROWS" s6 in
              match strip_prefix " AS (" s7 with
              | Some s8 => match strip_last ")" s8 with
                           | Some sel => Some (mk_create_ast lo k ine t (BSelect pr sel))
                           | None => None
                           end
              | None => None
              end
          end
      | None => None
      end
  | None => None
  end.

(* --- CREATE INDEX: identifiers may be bare or double-quoted --- *)
Definition starts_dq (s : string) : bool := match s with String a _ => Ascii.eqb a """" | EmptyString => false end.
Definition read_any (s : string) : option (string * string) :=
  if starts_dq s then read_name QDouble s else read_name QNone s.
Definition unquote_any (x : string) : option string :=
  if starts_dq x then unquote QDouble x else unquote QNone x.
Definition read_table_any (s : string) : option (table * string) := read_table_gen read_any s.
Definition trim1 (s : string) : string :=
  match s with String a r => if Ascii.eqb a " " then r else s | EmptyString => s end.

Record index_ast := mk_index_ast { x_unique : bool; x_ine : bool; x_name : string; x_table : table;
                                   x_cols : list string; x_where : option string }.

Definition parse_index (s : string) : option index_ast :=
  match strip_prefix "CREATE " s with
  | Some s1 =>
      let (u, s2) := opt_prefix "UNIQUE " s1 in
      match strip_prefix "INDEX " s2 with
      | Some s3 =>
          let (ine, s4) := opt_prefix "IF NOT EXISTS " s3 in
          match read_any s4 with
          | Some (nm, s5) =>
              match strip_prefix " ON " s5 with
              | Some s6 =>
                  match read_table_any s6 with
                  | Some (t, s6') =>
                    match strip_prefix "(" s6' with
                    | Some s7 =>
                      match take_until ")" s7 with
                      | Some (inner, tail) =>
                          match omap unquote_any (map trim1 (split_on "," inner)) with
                          | Some cols =>
                              match tail with
                              | EmptyString => Some (mk_index_ast u ine nm t cols None)
                              | _ => match strip_prefix " WHERE " tail with
                                     | Some w => Some (mk_index_ast u ine nm t cols (Some w))
                                     | None => None
                                     end
                              end
                          | None => None
                          end
                      | None => None
                      end
                    | None => None
                    end
                  | None => None
                  end
              | None => None
              end
          | None => None
          end
      | None => None
      end
  | None => None
  end.

(* --- DROP --- *)
Definition all_dkinds : list dkind := [KDatabase; KTable; KUser; KView; KIndex; KDictionary; KQuota].
Fixpoint read_dkind (l : list dkind) (s : string) : option (dkind * string) :=
  match l with
  | [] => None
  | k :: r => match strip_prefix (drop_kind_text k ++ " ") s with Some rest => Some (k, rest) | None => read_dkind r s end
  end.

Record drop_ast := mk_drop_ast { y_kind : dkind; y_if_exists : bool; y_target : table; y_cluster : option string }.

Definition parse_drop (q cq : quote) (s : string) : option drop_ast :=
  match strip_prefix "DROP " s with
  | Some s1 =>
      match read_dkind all_dkinds s1 with
      | Some (k, s2) =>
          let (ie, s3) := opt_prefix "IF EXISTS " s2 in
          match read_table q s3 with
          | Some (t, EmptyString) => Some (mk_drop_ast k ie t None)
          | Some (t, s4) =>
              match strip_prefix " ON CLUSTER " s4 with
              | Some s5 => match unquote cq s5 with Some c => Some (mk_drop_ast k ie t (Some c)) | None => None end
              | None => None
              end
          | None => None
          end
      | None => None
      end
  | None => None
  end.

(* ------------------------------------------------------------------------------------------ *)
(* 6. the description a program of calls stands for (independent of the order of flag calls)  *)
(* ------------------------------------------------------------------------------------------ *)
Definition is_call_temporary (c : ccall) : bool := match c with KTemporary => true | _ => false end.
Definition is_call_unlogged (c : ccall) : bool := match c with KUnlogged => true | _ => false end.
Definition is_call_sysver (c : ccall) : bool := match c with KSysVer => true | _ => false end.
Definition is_call_ine (c : ccall) : bool := match c with KIfNotExists => true | _ => false end.
Definition is_call_local (c : ccall) : bool := match c with KLocal => true | _ => false end.
Definition is_call_preserve (c : ccall) : bool := match c with KPreserveRows => true | _ => false end.

Definition calls_columns (calls : list ccall) : list column :=
  flat_map (fun c => match c with KColumns cs => map col_of_arg cs | _ => [] end) calls.
Definition calls_periods (calls : list ccall) : list period :=
  flat_map (fun c => match c with KPeriodFor n s e => [mk_period n s e] | _ => [] end) calls.
Definition calls_uniques (calls : list ccall) : list (list string) :=
  flat_map (fun c => match c with KUnique ns => [ns] | _ => [] end) calls.
(* the primary_key / foreign_key call (a second one raises) and the last as_select call *)
Definition last_pk (calls : list ccall) : option (list string) :=
  fold_left (fun acc c => match c with KPrimaryKey ns => Some ns | _ => acc end) calls None.
Definition last_fk (calls : list ccall) : option fkey :=
  fold_left (fun acc c => match c with KForeignKey a t b od ou => Some (mk_fkey a t b od ou) | _ => acc end) calls None.
Definition last_sel (calls : list ccall) : option string :=
  fold_left (fun acc c => match c with KAsSelect q => Some q | _ => acc end) calls None.

Definition spec_kind (calls : list ccall) : tkind :=
  if existsb is_call_temporary calls then TTemporary
  else if existsb is_call_unlogged calls then TUnlogged else TPlain.

Definition spec_items (calls : list ccall) : list item :=
  map IColumn (calls_columns calls)
  ++ map IPeriod (calls_periods calls)
  ++ map IUnique (calls_uniques calls)
  ++ (match last_pk calls with Some (n :: r) => [IPrimary (n :: r)] | _ => [] end)
  ++ (match last_fk calls with Some f => if nonempty (fk_cols f) then [IForeign f] else [] | None => [] end).

(* every column and constraint exactly once, in the order given, with the attributes given *)
Definition ast_of (t : table) (calls : list ccall) : create_ast :=
  mk_create_ast (existsb is_call_local calls) (spec_kind calls) (existsb is_call_ine calls) t
    (match last_sel calls with
     | Some sel => BSelect (existsb is_call_preserve calls) sel
     | None => BItems (spec_items calls) (existsb is_call_sysver calls) (existsb is_call_preserve calls)
     end).

(* the state a successful program leaves behind, as a function of the description *)
Definition state_of (t : table) (calls : list ccall) : cstate :=
  mk_cstate (Some t) (existsb is_call_temporary calls) (existsb is_call_unlogged calls) (last_sel calls)
            (calls_columns calls) (calls_periods calls) (existsb is_call_sysver calls) (last_pk calls)
            (calls_uniques calls) (existsb is_call_ine calls) (last_fk calls)
            (existsb is_call_local calls) (existsb is_call_preserve calls).

(* --- hypotheses of the round-trip theorem, as boolean predicates --- *)
Definition table_ok (q : quote) (t : table) : bool :=
  (name_ok q (tname t) && forallb (name_ok q) (tschema t) && negb (is_some (talias t)))%bool.

(* a Table object as it may be handed to a DDL builder: possibly carrying an alias *)
Definition table_wide (q : quote) (t : table) : bool :=
  (name_ok q (tname t) && forallb (name_ok q) (tschema t)
   && match talias t with Some a => name_ok q a | None => true end)%bool.

(* a bare name must not be one of the words the reader classifies by *)
Definition kw_free (q : quote) (n : string) : bool :=
  match q with
  | QNone => negb (String.eqb n "IF" || String.eqb n "PERIOD" || String.eqb n "UNIQUE"
                   || String.eqb n "PRIMARY" || String.eqb n "FOREIGN")%bool
  | _ => true
  end.

Definition column_ok (q : quote) (c : column) : bool :=
  (name_ok q (cname c) && kw_free q (cname c)
   && match ctype c with Some ty => type_ok ty | None => true end
   && match cdefault c with Some d => opaque_ok d | None => true end)%bool.

Definition names_ok (q : quote) (ns : list string) : bool := (nonempty ns && forallb (name_ok q) ns)%bool.

Definition fkey_ok (q : quote) (f : fkey) : bool :=
  (forallb (name_ok q) (fk_cols f) && table_ok q (fk_table f) && names_ok q (fk_refs f))%bool.

Definition is_body_call (c : ccall) : bool :=
  match c with KColumns _ | KPeriodFor _ _ _ | KUnique _ | KPrimaryKey _ | KForeignKey _ _ _ _ _ | KSysVer => true | _ => false end.

(* the description is one the property speaks about and the reader can read:
   - TEMPORARY and UNLOGGED are alternatives; AS SELECT is an alternative to a column body;
   - a column body has at least one column;
   - names are quote-free (format_quotes does not escape), types/defaults are balanced opaque texts *)
Definition spec_ok (q : quote) (t : table) (calls : list ccall) : bool :=
  (table_ok q t && kw_free q (match tschema t with s :: _ => s | [] => tname t end)
   && negb (existsb is_call_temporary calls && existsb is_call_unlogged calls)
   && match last_sel calls with
      | Some _ => negb (existsb is_body_call calls)
      | None => nonempty (calls_columns calls)
      end
   && forallb (column_ok q) (calls_columns calls)
   && forallb (fun p => name_ok q (pname p) && name_ok q (pstart p) && name_ok q (pend p))%bool (calls_periods calls)
   && forallb (names_ok q) (calls_uniques calls)
   && match last_pk calls with Some ns => forallb (name_ok q) ns | None => true end
   && match last_fk calls with Some f => fkey_ok q f | None => true end)%bool.

(* the flag Vertica's _create_table_sql does not look at: since 1e06637 the Vertica builder rejects
   unlogged(), so an accepted program never contains it (lemma accepted_no_unlogged) *)
Definition create_frag (cls : ccls) (calls : list ccall) : bool :=
  negb (rejects_unlogged cls && existsb is_call_unlogged calls)%bool.

(* flag calls: they write one scalar slot each and read nothing (unlogged() may be rejected by the class) *)
Definition is_flag_call (c : ccall) : bool :=
  match c with KTemporary | KUnlogged | KSysVer | KIfNotExists => true | _ => false end.

(* --- CREATE INDEX description --- *)
Definition index_ast_of (i : iname) (calls : list icall) : index_ast :=
  let st := ibuild i calls in
  mk_index_ast (i_unique st) (i_ine st)
    (match i_index st with INStr s => s | INObj s => s end)
    (match i_table st with Some (ITObj t) => t | Some (ITStr s) => tbl s | None => tbl "" end)
    (map cname (i_columns st))
    (match i_wheres st with [] => None | ws => Some (join " AND " ws) end).

(* the fragment on which CREATE INDEX names what it was given: the column names - always printed
   bare, c.name - are bare identifiers; index and table names are merely quote-free *)
Definition iname_ok (i : iname) : bool := match i with INStr s | INObj s => name_ok QDouble s end.
Definition itable_ok (t : itable) : bool :=
  match t with ITStr s => (name_ok QDouble s && snonempty s)%bool | ITObj t => table_ok QDouble t end.

Definition index_frag (st : istate) : bool :=
  (iname_ok (i_index st)
   && match i_table st with Some t => itable_ok t | None => false end
   && nonempty (i_columns st) && forallb (fun c => name_ok QNone (cname c)) (i_columns st))%bool.

(* names that are at least quote-free: the widest set the statement could be asked about *)
Definition index_wide (st : istate) : bool :=
  (match i_index st with INStr s | INObj s => name_ok QDouble s end
   && match i_table st with
      | Some (ITStr s) => (name_ok QDouble s && snonempty s)%bool
      | Some (ITObj t) => table_ok QDouble t
      | None => false
      end
   && nonempty (i_columns st) && forallb (fun c => name_ok QDouble (cname c)) (i_columns st))%bool.

(* --- DROP description --- *)
Definition target_table (tg : dtarget) : table :=
  match tg with DTDatabase n => tbl n | DTTable t => t | DTStr s => tbl s end.
Definition target_ok (q : quote) (tg : dtarget) : bool :=
  let t := target_table tg in
  (table_ok q t && kw_free q (match tschema t with s :: _ => s | [] => tname t end))%bool.

(* one drop_xxx call, optional if_exists / on_cluster in any order around it *)
Record drop_spec := mk_drop_spec { ds_kind : dkind; ds_target : dtarget; ds_if_exists : bool; ds_cluster : option string }.
Definition drop_ast_of (sp : drop_spec) : drop_ast :=
  mk_drop_ast (ds_kind sp) (ds_if_exists sp) (target_table (ds_target sp))
    (match ds_kind sp with KDictionary => None | _ => ds_cluster sp end).   (* DROP DICTIONARY takes no cluster *)
