(* PurityCorr.v — executable checker for the C09 correspondence cases. Definitions only.
   A case carries what the harness saw on the implementation: the vars()-graph of every object reachable from
   the case's objects before the history (object 0 = digest of the module state), the history (which object,
   which observation), the cells the implementation changed, three verdicts (every observation repeated with
   the same result / a freshly rebuilt twin gave the same results / sub-processes with other PYTHONHASHSEEDs
   gave the same texts) and the pypika functions that ran.  The model (Purity.v driven by gen/C09Table.v, the
   table extracted from the current sources) runs the same history and must predict that state; where the
   table promises purity the verdicts must be positive; every function that ran must have been analysed. *)
From PV Require Import Base Purity gen.C09Table.

Inductive ccase :=
| Case (w : world) (hist : list (nat * string)) (diff : list (nat * string * value))
       (repeat_ok twin_ok seeds_ok : bool) (executed : list string).

Fixpoint vmatch (a b : value) : bool :=
  match a, b with
  | VAny, _ => true
  | _, VAny => true
  | VAtom s, VAtom t => String.eqb s t
  | VRef l, VRef m => Nat.eqb l m
  | VList xs, VList ys =>
      (fix go (xs ys : list value) : bool :=
         match xs, ys with
         | [], [] => true
         | x :: xs', y :: ys' => vmatch x y && go xs' ys'
         | _, _ => false
         end) xs ys
  | VSet xs, VSet ys =>
      (fix go (xs ys : list value) : bool :=
         match xs, ys with
         | [], [] => true
         | x :: xs', y :: ys' => vmatch x y && go xs' ys'
         | _, _ => false
         end) xs ys
  | VDict k1 v1, VDict k2 v2 =>
      (fix go (xs ys : list value) : bool :=
         match xs, ys with
         | [], [] => true
         | x :: xs', y :: ys' => vmatch x y && go xs' ys'
         | _, _ => false
         end) k1 k2
      && (fix go (xs ys : list value) : bool :=
         match xs, ys with
         | [], [] => true
         | x :: xs', y :: ys' => vmatch x y && go xs' ys'
         | _, _ => false
         end) v1 v2
  | _, _ => false
  end.

Definition field_match (f g : string * value) : bool := String.eqb (fst f) (fst g) && vmatch (snd f) (snd g).
Definition obj_match (o p : object) : bool :=
  String.eqb (o_cls o) (o_cls p) && list_eqb field_match (o_fields o) (o_fields p).
Definition world_match (w1 w2 : world) : bool := list_eqb obj_match w1 w2.

Definition apply_diff (w : world) (d : list (nat * string * value)) : world :=
  fold_left (fun w e => match e with
                        | (l, a, v) => map_idx (fun i o => if Nat.eqb i l
                                                            then mkObj (o_cls o) (set_field (o_fields o) a v) else o) 0 w
                        end) d w.

Definition corr_sem : semantics := mkSem 0 (fun _ _ _ _ => "") (fun _ _ _ => VAny).

Definition to_obs (h : nat * string) : obs := (fst h, mkCall (snd h) [], canon).

Definition state_ok (c : ccase) : bool :=
  match c with Case w hist diff _ _ _ _ => world_match (run table corr_sem w (map to_obs hist)) (apply_diff w diff) end.
Definition predicts_pure (c : ccase) : bool :=
  match c with Case w hist _ _ _ _ _ => forallb (fun h => pure_on table w (fst h)) hist end.
Definition predicts_order_free (c : ccase) : bool :=
  match c with Case w hist _ _ _ _ _ => negb (existsb (fun h => ord_visible table w (fst h)) hist) end.
Definition executed_ok (c : ccase) : bool :=
  match c with Case _ _ _ _ _ _ ex => forallb (fun f => mem_str f (analysed table) || mem_str f (excluded table)) ex end.

Definition check_case (c : ccase) : bool :=
  match c with
  | Case w hist diff r t s ex =>
      state_ok c && implb (predicts_pure c) (r && t) && implb (predicts_order_free c) s && executed_ok c
  end.

Definition b2s (b : bool) : string := if b then "true" else "false".
Definition show_case (c : ccase) : string :=
  match c with
  | Case w hist diff r t s ex =>
      "model: state_predicted=" ++ b2s (state_ok c) ++ " predicts_pure=" ++ b2s (predicts_pure c)
      ++ " predicts_order_free=" ++ b2s (predicts_order_free c) ++ " executed_all_analysed=" ++ b2s (executed_ok c)
      ++ " not-analysed: " ++ join "," (filter (fun f => negb (mem_str f (analysed table) || mem_str f (excluded table))) ex)
  end.
