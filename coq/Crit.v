(* Crit.v — model of pypika's criterion algebra (terms.py: Criterion.__and__/__or__/__xor__,
   EmptyCriterion, Criterion.all/any, Not, ComplexCriterion.get_sql/needs_brackets) and of
   QueryBuilder.where/having accumulation (queries.py).  Definitions only. *)
From PV Require Import Base.

Inductive bop := BAnd | BOr | BXor.
Definition bop_eqb (a b : bop) : bool :=
  match a, b with BAnd, BAnd | BOr, BOr | BXor, BXor => true | _, _ => false end.
Definition bop_text (o : bop) : string := match o with BAnd => "AND" | BOr => "OR" | BXor => "XOR" end.

(* A criterion: Empty, an opaque non-complex criterion (its rendering is its text), a
   ComplexCriterion, or Not.  *)
(* An atom carries its text without and with namespace (table-qualified fields) and whether it mentions a table
   that is not part of the statement (then QueryBuilder.where sets _foreign_table, which turns with_namespace on). *)
Inductive crit :=
| Empty
| Atom (txt : string)
| AtomT (plain ns : string) (foreign : bool)
| Cplx (op : bop) (l r : crit)
| Not (c : crit).

Definition is_empty (c : crit) : bool := match c with Empty => true | _ => false end.

(* Python evaluates [a OP b] as type(a).__OP__(a, b):
   EmptyCriterion.__and__ returns other; Criterion.__and__ returns self when other is empty. *)
Definition cbin (op : bop) (a b : crit) : crit :=
  match a with
  | Empty => b
  | _ => match b with Empty => a | _ => Cplx op a b end
  end.
Definition cand := cbin BAnd.
Definition cor := cbin BOr.
Definition cxor := cbin BXor.

(* ~c : EmptyCriterion.__invert__ returns self, Term.__invert__ wraps in Not.
   c.negate(): the same (EmptyCriterion.negate returns self). *)
Definition cinv (c : crit) : crit := match c with Empty => Empty | _ => Not c end.
Definition cneg (c : crit) : crit := match c with Empty => Empty | _ => Not c end.

(* Criterion.all / Criterion.any: crit = EmptyCriterion(); for t in terms: crit &= t *)
Definition call_all (cs : list crit) : crit := fold_left cand cs Empty.
Definition call_any (cs : list crit) : crit := fold_left cor cs Empty.

(* QueryBuilder.where / having:  ignore EmptyCriterion; slot &= criterion if slot else slot = criterion *)
Definition add_filter (slot : option crit) (c : crit) : option crit :=
  match c with
  | Empty => slot
  | _ => match slot with Some w => Some (cand w c) | None => Some c end
  end.

(* ---- rendering ---- *)
Definition needs_brackets (op : bop) (t : crit) : bool :=
  match t with Cplx op' _ _ => negb (bop_eqb op' op) | _ => false end.

(* does the criterion mention a foreign table?  (_validate_table over criterion.fields_()) *)
Fixpoint has_foreign (c : crit) : bool :=
  match c with
  | AtomT _ _ f => f
  | Cplx _ l r => has_foreign l || has_foreign r
  | Not t => has_foreign t
  | _ => false
  end.

Section Render.
Variable wns : bool.    (* with_namespace of the statement *)
(* None = the TypeError raised by EmptyCriterion.get_sql when called with keyword arguments *)
Fixpoint rc (sub : bool) (c : crit) : option string :=
  match c with
  | Empty => None
  | Atom s => Some s
  | AtomT p n _ => Some (if wns then n else p)
  | Cplx op l r =>
      match rc (needs_brackets op l) l, rc (needs_brackets op r) r with
      | Some a, Some b =>
          let s := a ++ " " ++ bop_text op ++ " " ++ b in
          Some (if sub then "(" ++ s ++ ")" else s)
      | _, _ => None
      end
  | Not t => match rc true t with Some a => Some ("NOT " ++ a) | None => None end
  end.

(* the statement  <head> [WHERE w] [HAVING h]  as QueryBuilder.get_sql assembles it; <head> is SELECT * FROM "t"
   in the quoting of the query class *)
Definition render_stmt_h (head : string) (w h : option crit) : option string :=
  let part (kw : string) (o : option crit) : option string :=
      match o with None => Some "" | Some c => option_map (fun s => kw ++ s) (rc false c) end in
  match part " WHERE " w, part " HAVING " h with
  | Some a, Some b => Some (head ++ a ++ b)
  | _, _ => None
  end.
Definition render_stmt := render_stmt_h "SELECT * FROM ""t""".
End Render.

(* QueryBuilder.where: besides accumulating, a criterion with a foreign table sets the sticky flag *)
Definition add_where (st : option crit * bool) (c : crit) : option crit * bool :=
  match c with
  | Empty => st
  | _ => (add_filter (fst st) c, snd st || has_foreign c)
  end.
