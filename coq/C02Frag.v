(* C02Frag.v — the decidable fragment on which C02 is proved, and the entry points used by the
   correspondence check.  Definitions only. *)
From PV Require Import Base Crit gen.TermsTable Terms TermsCorr Parse C02Model.
Local Open Scope list_scope.

(* The scope of the C02 theorem, a purely syntactic condition on the context and the term:
   (1) the context's subcriterion flag is off (no position of a statement sets it) and no NOT hands the flag through a
       CASE or a value list to an AND/OR term (which would bracket it although no operator asked for it);
   (2) the tree is clean: NOT is never an operand of an operator or predicate (pinned by pypika's own suite);
   (3) the leaves are lexically well-formed (raw SQL leaves do not end in '-' or '/' ...). *)
Definition frag02 (c : ctx) (t : term) : bool :=
  match rtoks c t, to_expr c t with
  | Some _, Some e => negb (subc c) && nl false t && clean e && lex_ok e
  | _, _ => false
  end.

(* how each engine table reads the rendered tokens *)
Definition read_with (T : ptable) (ts : list tok) : option expr :=
  match parse T (fuel_for T ts) 0 ts with Some (e, []) => Some e | _ => None end.

(* structural verdict of the model for a term:  0 = outside the syntactic scope of rtoks/to_expr,
   1 = in scope, every engine reads back the normal form and the lexical check passes,
   2 = in scope but some engine reads a different tree / fails, or a comment introducer appears *)
Fixpoint expr_eqb (a b : expr) {struct a} : bool :=
  match a, b with
  | EAtom x, EAtom y => String.eqb x y
  | ENeg x, ENeg y | ENot x, ENot y => expr_eqb x y
  | EBin o l r, EBin o' l' r' => binop_eqb o o' && expr_eqb l l' && expr_eqb r r'
  | EPost p x, EPost p' y => (match p, p' with PIsNull, PIsNull | PIsNotNull, PIsNotNull => true | _, _ => false end) && expr_eqb x y
  | EIn n x i, EIn n' y i' => Bool.eqb n n' && expr_eqb x y && elist_eqb i i'
  | EBetween x l h, EBetween y l' h' => expr_eqb x y && expr_eqb l l' && expr_eqb h h'
  | ECall f i, ECall g i' => String.eqb f g && elist_eqb i i'
  | ECase w e, ECase w' e' => ewlist_eqb w w' && eopt_eqb e e'
  | _, _ => false
  end
with elist_eqb (a b : elist) {struct a} : bool :=
  match a, b with ENil, ENil => true | ECons x r, ECons y r' => expr_eqb x y && elist_eqb r r' | _, _ => false end
with ewlist_eqb (a b : ewlist) {struct a} : bool :=
  match a, b with
  | EWNil, EWNil => true
  | EWCons c v r, EWCons c' v' r' => expr_eqb c c' && expr_eqb v v' && ewlist_eqb r r'
  | _, _ => false end
with eopt_eqb (a b : eopt) {struct a} : bool :=
  match a, b with EONone, EONone => true | EOSome x, EOSome y => expr_eqb x y | _, _ => false end.

Definition verdict (c : ctx) (t : term) : nat :=
  match rtoks c t, to_expr c t with
  | Some ts, Some e =>
      if forallb (fun T => match read_with T ts with Some e' => expr_eqb e' (norm e) | None => false end) engines
         && adjacency_ok ts
      then 1 else 2
  | _, _ => 0
  end.

(* correspondence case: context, term, implementation text, and the harness's independent structural verdict
   (computed by evaluating the Python tree and the rendered text; 1 = same function, 2 = differs, 0 = not judged) *)
Definition c02_case := (ctx * term * string * nat)%type.
Definition check_c02 (x : c02_case) : bool :=
  let '(c, t, expected, hv) := x in
  String.eqb (render_text c t) expected
  && (* the proved fragment must never contain a term the harness found to denote another function *)
     negb (frag02 c t && Nat.eqb hv 2)
  && (* inside the syntactic scope the token view must flatten to the implementation's text *)
     match rtoks c t with Some ts => String.eqb (flatten ts) expected | None => true end.
Definition show_c02 (x : c02_case) : string :=
  let '(c, t, _, _) := x in
  render_text c t ++ " | frag=" ++ (if frag02 c t then "1" else "0") ++ " verdict=" ++ nat_to_string (verdict c t).
