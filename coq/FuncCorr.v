(* FuncCorr.v — executable interpreter for the C18 correspondence cases and the committed
   expected wrapper catalogue.  Definitions only. *)
From PV Require Import Base Func gen.C18Table.
Open Scope string_scope.

(* ---- the expected catalogue: class -> SQL name, supported clauses, argument slots per probed
   arity, exactly as extracted from the pinned sources.  coq/gen/C18Table.v (regenerated from the
   current tree on every run) is compared with it per class in lemmas/FuncCatalogue.v. ---- *)
Definition expected_catalogue : list wrapper := [
  {| w_module := "pypika.terms"; w_class := "AggregateFunction"; w_sql := ""; w_named := true; w_agg := true; w_distinct := false;
     w_analytic := false; w_frame := false; w_ignore_nulls := false; w_schema := true; w_alias := true; w_bare := false;
     w_probes := [{| p_kinds := []; p_slots := []; p_special := None |};
       {| p_kinds := [PTerm]; p_slots := [(SParam 0)]; p_special := None |};
       {| p_kinds := [PTerm; PTerm]; p_slots := [(SParam 0); (SParam 1)]; p_special := None |};
       {| p_kinds := [PTerm; PTerm; PTerm]; p_slots := [(SParam 0); (SParam 1); (SParam 2)]; p_special := None |};
       {| p_kinds := [PTerm; PTerm; PTerm; PTerm]; p_slots := [(SParam 0); (SParam 1); (SParam 2); (SParam 3)]; p_special := None |};
       {| p_kinds := [PTerm; PTerm; PTerm; PTerm; PTerm]; p_slots := [(SParam 0); (SParam 1); (SParam 2); (SParam 3); (SParam 4)]; p_special := None |};
       {| p_kinds := [PTerm; PTerm; PTerm; PTerm; PTerm; PTerm]; p_slots := [(SParam 0); (SParam 1); (SParam 2); (SParam 3); (SParam 4); (SParam 5)]; p_special := None |}] |};
  {| w_module := "pypika.terms"; w_class := "AnalyticFunction"; w_sql := ""; w_named := true; w_agg := true; w_distinct := false;
     w_analytic := true; w_frame := false; w_ignore_nulls := false; w_schema := true; w_alias := true; w_bare := false;
     w_probes := [{| p_kinds := []; p_slots := []; p_special := None |};
       {| p_kinds := [PTerm]; p_slots := [(SParam 0)]; p_special := None |};
       {| p_kinds := [PTerm; PTerm]; p_slots := [(SParam 0); (SParam 1)]; p_special := None |};
       {| p_kinds := [PTerm; PTerm; PTerm]; p_slots := [(SParam 0); (SParam 1); (SParam 2)]; p_special := None |};
       {| p_kinds := [PTerm; PTerm; PTerm; PTerm]; p_slots := [(SParam 0); (SParam 1); (SParam 2); (SParam 3)]; p_special := None |};
       {| p_kinds := [PTerm; PTerm; PTerm; PTerm; PTerm]; p_slots := [(SParam 0); (SParam 1); (SParam 2); (SParam 3); (SParam 4)]; p_special := None |};
       {| p_kinds := [PTerm; PTerm; PTerm; PTerm; PTerm; PTerm]; p_slots := [(SParam 0); (SParam 1); (SParam 2); (SParam 3); (SParam 4); (SParam 5)]; p_special := None |}] |};
  {| w_module := "pypika.terms"; w_class := "Function"; w_sql := ""; w_named := true; w_agg := false; w_distinct := false;
     w_analytic := false; w_frame := false; w_ignore_nulls := false; w_schema := true; w_alias := true; w_bare := false;
     w_probes := [{| p_kinds := []; p_slots := []; p_special := None |};
       {| p_kinds := [PTerm]; p_slots := [(SParam 0)]; p_special := None |};
       {| p_kinds := [PTerm; PTerm]; p_slots := [(SParam 0); (SParam 1)]; p_special := None |};
       {| p_kinds := [PTerm; PTerm; PTerm]; p_slots := [(SParam 0); (SParam 1); (SParam 2)]; p_special := None |};
       {| p_kinds := [PTerm; PTerm; PTerm; PTerm]; p_slots := [(SParam 0); (SParam 1); (SParam 2); (SParam 3)]; p_special := None |};
       {| p_kinds := [PTerm; PTerm; PTerm; PTerm; PTerm]; p_slots := [(SParam 0); (SParam 1); (SParam 2); (SParam 3); (SParam 4)]; p_special := None |};
       {| p_kinds := [PTerm; PTerm; PTerm; PTerm; PTerm; PTerm]; p_slots := [(SParam 0); (SParam 1); (SParam 2); (SParam 3); (SParam 4); (SParam 5)]; p_special := None |}] |};
  {| w_module := "pypika.terms"; w_class := "IgnoreNullsAnalyticFunction"; w_sql := ""; w_named := true; w_agg := true; w_distinct := false;
     w_analytic := true; w_frame := false; w_ignore_nulls := true; w_schema := true; w_alias := true; w_bare := false;
     w_probes := [{| p_kinds := []; p_slots := []; p_special := None |};
       {| p_kinds := [PTerm]; p_slots := [(SParam 0)]; p_special := None |};
       {| p_kinds := [PTerm; PTerm]; p_slots := [(SParam 0); (SParam 1)]; p_special := None |};
       {| p_kinds := [PTerm; PTerm; PTerm]; p_slots := [(SParam 0); (SParam 1); (SParam 2)]; p_special := None |};
       {| p_kinds := [PTerm; PTerm; PTerm; PTerm]; p_slots := [(SParam 0); (SParam 1); (SParam 2); (SParam 3)]; p_special := None |};
       {| p_kinds := [PTerm; PTerm; PTerm; PTerm; PTerm]; p_slots := [(SParam 0); (SParam 1); (SParam 2); (SParam 3); (SParam 4)]; p_special := None |};
       {| p_kinds := [PTerm; PTerm; PTerm; PTerm; PTerm; PTerm]; p_slots := [(SParam 0); (SParam 1); (SParam 2); (SParam 3); (SParam 4); (SParam 5)]; p_special := None |}] |};
  {| w_module := "pypika.terms"; w_class := "Mod"; w_sql := "MOD"; w_named := false; w_agg := false; w_distinct := false;
     w_analytic := false; w_frame := false; w_ignore_nulls := false; w_schema := false; w_alias := true; w_bare := false;
     w_probes := [{| p_kinds := [PTerm; PTerm]; p_slots := [(SParam 0); (SParam 1)]; p_special := None |}] |};
  {| w_module := "pypika.terms"; w_class := "Pow"; w_sql := "POW"; w_named := false; w_agg := false; w_distinct := false;
     w_analytic := false; w_frame := false; w_ignore_nulls := false; w_schema := false; w_alias := true; w_bare := false;
     w_probes := [{| p_kinds := [PTerm; PTerm]; p_slots := [(SParam 0); (SParam 1)]; p_special := None |}] |};
  {| w_module := "pypika.terms"; w_class := "Rollup"; w_sql := "ROLLUP"; w_named := false; w_agg := false; w_distinct := false;
     w_analytic := false; w_frame := false; w_ignore_nulls := false; w_schema := false; w_alias := false; w_bare := false;
     w_probes := [{| p_kinds := []; p_slots := []; p_special := None |};
       {| p_kinds := [PTerm]; p_slots := [(SParam 0)]; p_special := None |};
       {| p_kinds := [PTerm; PTerm]; p_slots := [(SParam 0); (SParam 1)]; p_special := None |};
       {| p_kinds := [PTerm; PTerm; PTerm]; p_slots := [(SParam 0); (SParam 1); (SParam 2)]; p_special := None |};
       {| p_kinds := [PTerm; PTerm; PTerm; PTerm]; p_slots := [(SParam 0); (SParam 1); (SParam 2); (SParam 3)]; p_special := None |};
       {| p_kinds := [PTerm; PTerm; PTerm; PTerm; PTerm]; p_slots := [(SParam 0); (SParam 1); (SParam 2); (SParam 3); (SParam 4)]; p_special := None |};
       {| p_kinds := [PTerm; PTerm; PTerm; PTerm; PTerm; PTerm]; p_slots := [(SParam 0); (SParam 1); (SParam 2); (SParam 3); (SParam 4); (SParam 5)]; p_special := None |}] |};
  {| w_module := "pypika.terms"; w_class := "WindowFrameAnalyticFunction"; w_sql := ""; w_named := true; w_agg := true; w_distinct := false;
     w_analytic := true; w_frame := true; w_ignore_nulls := false; w_schema := true; w_alias := true; w_bare := false;
     w_probes := [{| p_kinds := []; p_slots := []; p_special := None |};
       {| p_kinds := [PTerm]; p_slots := [(SParam 0)]; p_special := None |};
       {| p_kinds := [PTerm; PTerm]; p_slots := [(SParam 0); (SParam 1)]; p_special := None |};
       {| p_kinds := [PTerm; PTerm; PTerm]; p_slots := [(SParam 0); (SParam 1); (SParam 2)]; p_special := None |};
       {| p_kinds := [PTerm; PTerm; PTerm; PTerm]; p_slots := [(SParam 0); (SParam 1); (SParam 2); (SParam 3)]; p_special := None |};
       {| p_kinds := [PTerm; PTerm; PTerm; PTerm; PTerm]; p_slots := [(SParam 0); (SParam 1); (SParam 2); (SParam 3); (SParam 4)]; p_special := None |};
       {| p_kinds := [PTerm; PTerm; PTerm; PTerm; PTerm; PTerm]; p_slots := [(SParam 0); (SParam 1); (SParam 2); (SParam 3); (SParam 4); (SParam 5)]; p_special := None |}] |};
  {| w_module := "pypika.functions"; w_class := "Abs"; w_sql := "ABS"; w_named := false; w_agg := true; w_distinct := false;
     w_analytic := false; w_frame := false; w_ignore_nulls := false; w_schema := false; w_alias := true; w_bare := false;
     w_probes := [{| p_kinds := [PTerm]; p_slots := [(SParam 0)]; p_special := None |}] |};
  {| w_module := "pypika.functions"; w_class := "ApproximatePercentile"; w_sql := "APPROXIMATE_PERCENTILE"; w_named := false; w_agg := true; w_distinct := false;
     w_analytic := false; w_frame := false; w_ignore_nulls := false; w_schema := false; w_alias := true; w_bare := false;
     w_probes := [{| p_kinds := [PTerm; PNum]; p_slots := [(SParam 0)]; p_special := (Some ("USING PARAMETERS percentile=", (Some 1))) |}] |};
  {| w_module := "pypika.functions"; w_class := "Ascii"; w_sql := "ASCII"; w_named := false; w_agg := false; w_distinct := false;
     w_analytic := false; w_frame := false; w_ignore_nulls := false; w_schema := false; w_alias := true; w_bare := false;
     w_probes := [{| p_kinds := [PTerm]; p_slots := [(SParam 0)]; p_special := None |}] |};
  {| w_module := "pypika.functions"; w_class := "Avg"; w_sql := "AVG"; w_named := false; w_agg := true; w_distinct := false;
     w_analytic := false; w_frame := false; w_ignore_nulls := false; w_schema := false; w_alias := true; w_bare := false;
     w_probes := [{| p_kinds := [PTerm]; p_slots := [(SParam 0)]; p_special := None |}] |};
  {| w_module := "pypika.functions"; w_class := "Bin"; w_sql := "BIN"; w_named := false; w_agg := false; w_distinct := false;
     w_analytic := false; w_frame := false; w_ignore_nulls := false; w_schema := false; w_alias := true; w_bare := false;
     w_probes := [{| p_kinds := [PTerm]; p_slots := [(SParam 0)]; p_special := None |}] |};
  {| w_module := "pypika.functions"; w_class := "Cast"; w_sql := "CAST"; w_named := false; w_agg := false; w_distinct := false;
     w_analytic := false; w_frame := false; w_ignore_nulls := false; w_schema := false; w_alias := true; w_bare := false;
     w_probes := [{| p_kinds := [PTerm; PTerm]; p_slots := [(SParam 0)]; p_special := (Some ("AS ", (Some 1))) |};
       {| p_kinds := [PTerm; PWord]; p_slots := [(SParam 0)]; p_special := (Some ("AS ", (Some 1))) |}] |};
  {| w_module := "pypika.functions"; w_class := "Coalesce"; w_sql := "COALESCE"; w_named := false; w_agg := false; w_distinct := false;
     w_analytic := false; w_frame := false; w_ignore_nulls := false; w_schema := true; w_alias := true; w_bare := false;
     w_probes := [{| p_kinds := [PTerm]; p_slots := [(SParam 0)]; p_special := None |};
       {| p_kinds := [PTerm; PTerm]; p_slots := [(SParam 0); (SParam 1)]; p_special := None |};
       {| p_kinds := [PTerm; PTerm; PTerm]; p_slots := [(SParam 0); (SParam 1); (SParam 2)]; p_special := None |};
       {| p_kinds := [PTerm; PTerm; PTerm; PTerm]; p_slots := [(SParam 0); (SParam 1); (SParam 2); (SParam 3)]; p_special := None |};
       {| p_kinds := [PTerm; PTerm; PTerm; PTerm; PTerm]; p_slots := [(SParam 0); (SParam 1); (SParam 2); (SParam 3); (SParam 4)]; p_special := None |};
       {| p_kinds := [PTerm; PTerm; PTerm; PTerm; PTerm; PTerm]; p_slots := [(SParam 0); (SParam 1); (SParam 2); (SParam 3); (SParam 4); (SParam 5)]; p_special := None |};
       {| p_kinds := [PTerm; PTerm; PTerm; PTerm; PTerm; PTerm; PTerm]; p_slots := [(SParam 0); (SParam 1); (SParam 2); (SParam 3); (SParam 4); (SParam 5); (SParam 6)]; p_special := None |}] |};
  {| w_module := "pypika.functions"; w_class := "Concat"; w_sql := "CONCAT"; w_named := false; w_agg := false; w_distinct := false;
     w_analytic := false; w_frame := false; w_ignore_nulls := false; w_schema := true; w_alias := true; w_bare := false;
     w_probes := [{| p_kinds := []; p_slots := []; p_special := None |};
       {| p_kinds := [PTerm]; p_slots := [(SParam 0)]; p_special := None |};
       {| p_kinds := [PTerm; PTerm]; p_slots := [(SParam 0); (SParam 1)]; p_special := None |};
       {| p_kinds := [PTerm; PTerm; PTerm]; p_slots := [(SParam 0); (SParam 1); (SParam 2)]; p_special := None |};
       {| p_kinds := [PTerm; PTerm; PTerm; PTerm]; p_slots := [(SParam 0); (SParam 1); (SParam 2); (SParam 3)]; p_special := None |};
       {| p_kinds := [PTerm; PTerm; PTerm; PTerm; PTerm]; p_slots := [(SParam 0); (SParam 1); (SParam 2); (SParam 3); (SParam 4)]; p_special := None |};
       {| p_kinds := [PTerm; PTerm; PTerm; PTerm; PTerm; PTerm]; p_slots := [(SParam 0); (SParam 1); (SParam 2); (SParam 3); (SParam 4); (SParam 5)]; p_special := None |}] |};
  {| w_module := "pypika.functions"; w_class := "Convert"; w_sql := "CONVERT"; w_named := false; w_agg := false; w_distinct := false;
     w_analytic := false; w_frame := false; w_ignore_nulls := false; w_schema := false; w_alias := true; w_bare := false;
     w_probes := [{| p_kinds := [PTerm; PEnum]; p_slots := [(SParam 0)]; p_special := (Some ("USING ", (Some 1))) |}] |};
  {| w_module := "pypika.functions"; w_class := "Count"; w_sql := "COUNT"; w_named := false; w_agg := true; w_distinct := true;
     w_analytic := false; w_frame := false; w_ignore_nulls := false; w_schema := false; w_alias := true; w_bare := false;
     w_probes := [{| p_kinds := [PTerm]; p_slots := [(SParam 0)]; p_special := None |}] |};
  {| w_module := "pypika.functions"; w_class := "CurDate"; w_sql := "CURRENT_DATE"; w_named := false; w_agg := false; w_distinct := false;
     w_analytic := false; w_frame := false; w_ignore_nulls := false; w_schema := false; w_alias := true; w_bare := false;
     w_probes := [{| p_kinds := []; p_slots := []; p_special := None |}] |};
  {| w_module := "pypika.functions"; w_class := "CurTime"; w_sql := "CURRENT_TIME"; w_named := false; w_agg := false; w_distinct := false;
     w_analytic := false; w_frame := false; w_ignore_nulls := false; w_schema := false; w_alias := true; w_bare := false;
     w_probes := [{| p_kinds := []; p_slots := []; p_special := None |}] |};
  {| w_module := "pypika.functions"; w_class := "CurTimestamp"; w_sql := "CURRENT_TIMESTAMP"; w_named := false; w_agg := false; w_distinct := false;
     w_analytic := false; w_frame := false; w_ignore_nulls := false; w_schema := false; w_alias := true; w_bare := true;
     w_probes := [{| p_kinds := []; p_slots := []; p_special := None |}] |};
  {| w_module := "pypika.functions"; w_class := "Date"; w_sql := "DATE"; w_named := false; w_agg := false; w_distinct := false;
     w_analytic := false; w_frame := false; w_ignore_nulls := false; w_schema := false; w_alias := true; w_bare := false;
     w_probes := [{| p_kinds := [PTerm]; p_slots := [(SParam 0)]; p_special := None |}] |};
  {| w_module := "pypika.functions"; w_class := "DateAdd"; w_sql := "DATE_ADD"; w_named := false; w_agg := false; w_distinct := false;
     w_analytic := false; w_frame := false; w_ignore_nulls := false; w_schema := false; w_alias := true; w_bare := false;
     w_probes := [{| p_kinds := [PWord; PTerm; PTerm]; p_slots := [(SParam 0); (SParam 1); (SParam 2)]; p_special := None |};
       {| p_kinds := [PEnum; PTerm; PTerm]; p_slots := [(SParam 0); (SParam 1); (SParam 2)]; p_special := None |}] |};
  {| w_module := "pypika.functions"; w_class := "DateDiff"; w_sql := "DATEDIFF"; w_named := false; w_agg := false; w_distinct := false;
     w_analytic := false; w_frame := false; w_ignore_nulls := false; w_schema := false; w_alias := true; w_bare := false;
     w_probes := [{| p_kinds := [PTerm; PTerm; PTerm]; p_slots := [(SParam 0); (SParam 1); (SParam 2)]; p_special := None |}] |};
  {| w_module := "pypika.functions"; w_class := "DistinctOptionFunction"; w_sql := ""; w_named := true; w_agg := true; w_distinct := true;
     w_analytic := false; w_frame := false; w_ignore_nulls := false; w_schema := false; w_alias := true; w_bare := false;
     w_probes := [{| p_kinds := []; p_slots := []; p_special := None |};
       {| p_kinds := [PTerm]; p_slots := [(SParam 0)]; p_special := None |};
       {| p_kinds := [PTerm; PTerm]; p_slots := [(SParam 0); (SParam 1)]; p_special := None |};
       {| p_kinds := [PTerm; PTerm; PTerm]; p_slots := [(SParam 0); (SParam 1); (SParam 2)]; p_special := None |};
       {| p_kinds := [PTerm; PTerm; PTerm; PTerm]; p_slots := [(SParam 0); (SParam 1); (SParam 2); (SParam 3)]; p_special := None |};
       {| p_kinds := [PTerm; PTerm; PTerm; PTerm; PTerm]; p_slots := [(SParam 0); (SParam 1); (SParam 2); (SParam 3); (SParam 4)]; p_special := None |};
       {| p_kinds := [PTerm; PTerm; PTerm; PTerm; PTerm; PTerm]; p_slots := [(SParam 0); (SParam 1); (SParam 2); (SParam 3); (SParam 4); (SParam 5)]; p_special := None |}] |};
  {| w_module := "pypika.functions"; w_class := "Extract"; w_sql := "EXTRACT"; w_named := false; w_agg := false; w_distinct := false;
     w_analytic := false; w_frame := false; w_ignore_nulls := false; w_schema := false; w_alias := true; w_bare := false;
     w_probes := [{| p_kinds := [PWord; PTerm]; p_slots := [(SParam 0)]; p_special := (Some ("FROM ", (Some 1))) |};
       {| p_kinds := [PEnum; PTerm]; p_slots := [(SParam 0)]; p_special := (Some ("FROM ", (Some 1))) |}] |};
  {| w_module := "pypika.functions"; w_class := "First"; w_sql := "FIRST"; w_named := false; w_agg := true; w_distinct := false;
     w_analytic := false; w_frame := false; w_ignore_nulls := false; w_schema := false; w_alias := true; w_bare := false;
     w_probes := [{| p_kinds := [PTerm]; p_slots := [(SParam 0)]; p_special := None |}] |};
  {| w_module := "pypika.functions"; w_class := "Floor"; w_sql := "FLOOR"; w_named := false; w_agg := false; w_distinct := false;
     w_analytic := false; w_frame := false; w_ignore_nulls := false; w_schema := false; w_alias := true; w_bare := false;
     w_probes := [{| p_kinds := [PTerm]; p_slots := [(SParam 0)]; p_special := None |}] |};
  {| w_module := "pypika.functions"; w_class := "IfNull"; w_sql := "IFNULL"; w_named := false; w_agg := false; w_distinct := false;
     w_analytic := false; w_frame := false; w_ignore_nulls := false; w_schema := true; w_alias := true; w_bare := false;
     w_probes := [{| p_kinds := [PTerm; PTerm]; p_slots := [(SParam 0); (SParam 1)]; p_special := None |}] |};
  {| w_module := "pypika.functions"; w_class := "Insert"; w_sql := "INSERT"; w_named := false; w_agg := false; w_distinct := false;
     w_analytic := false; w_frame := false; w_ignore_nulls := false; w_schema := false; w_alias := true; w_bare := false;
     w_probes := [{| p_kinds := [PTerm; PTerm; PTerm; PTerm]; p_slots := [(SParam 0); (SParam 1); (SParam 2); (SParam 3)]; p_special := None |}] |};
  {| w_module := "pypika.functions"; w_class := "IsNull"; w_sql := "ISNULL"; w_named := false; w_agg := false; w_distinct := false;
     w_analytic := false; w_frame := false; w_ignore_nulls := false; w_schema := false; w_alias := true; w_bare := false;
     w_probes := [{| p_kinds := [PTerm]; p_slots := [(SParam 0)]; p_special := None |}] |};
  {| w_module := "pypika.functions"; w_class := "Last"; w_sql := "LAST"; w_named := false; w_agg := true; w_distinct := false;
     w_analytic := false; w_frame := false; w_ignore_nulls := false; w_schema := false; w_alias := true; w_bare := false;
     w_probes := [{| p_kinds := [PTerm]; p_slots := [(SParam 0)]; p_special := None |}] |};
  {| w_module := "pypika.functions"; w_class := "Length"; w_sql := "LENGTH"; w_named := false; w_agg := false; w_distinct := false;
     w_analytic := false; w_frame := false; w_ignore_nulls := false; w_schema := false; w_alias := true; w_bare := false;
     w_probes := [{| p_kinds := [PTerm]; p_slots := [(SParam 0)]; p_special := None |}] |};
  {| w_module := "pypika.functions"; w_class := "Lower"; w_sql := "LOWER"; w_named := false; w_agg := false; w_distinct := false;
     w_analytic := false; w_frame := false; w_ignore_nulls := false; w_schema := false; w_alias := true; w_bare := false;
     w_probes := [{| p_kinds := [PTerm]; p_slots := [(SParam 0)]; p_special := None |}] |};
  {| w_module := "pypika.functions"; w_class := "Max"; w_sql := "MAX"; w_named := false; w_agg := true; w_distinct := false;
     w_analytic := false; w_frame := false; w_ignore_nulls := false; w_schema := false; w_alias := true; w_bare := false;
     w_probes := [{| p_kinds := [PTerm]; p_slots := [(SParam 0)]; p_special := None |}] |};
  {| w_module := "pypika.functions"; w_class := "Min"; w_sql := "MIN"; w_named := false; w_agg := true; w_distinct := false;
     w_analytic := false; w_frame := false; w_ignore_nulls := false; w_schema := false; w_alias := true; w_bare := false;
     w_probes := [{| p_kinds := [PTerm]; p_slots := [(SParam 0)]; p_special := None |}] |};
  {| w_module := "pypika.functions"; w_class := "NVL"; w_sql := "NVL"; w_named := false; w_agg := false; w_distinct := false;
     w_analytic := false; w_frame := false; w_ignore_nulls := false; w_schema := false; w_alias := true; w_bare := false;
     w_probes := [{| p_kinds := [PTerm; PTerm]; p_slots := [(SParam 0); (SParam 1)]; p_special := None |}] |};
  {| w_module := "pypika.functions"; w_class := "Now"; w_sql := "NOW"; w_named := false; w_agg := false; w_distinct := false;
     w_analytic := false; w_frame := false; w_ignore_nulls := false; w_schema := false; w_alias := true; w_bare := false;
     w_probes := [{| p_kinds := []; p_slots := []; p_special := None |}] |};
  {| w_module := "pypika.functions"; w_class := "NullIf"; w_sql := "NULLIF"; w_named := false; w_agg := false; w_distinct := false;
     w_analytic := false; w_frame := false; w_ignore_nulls := false; w_schema := true; w_alias := true; w_bare := false;
     w_probes := [{| p_kinds := [PTerm; PTerm]; p_slots := [(SParam 0); (SParam 1)]; p_special := None |}] |};
  {| w_module := "pypika.functions"; w_class := "RegexpLike"; w_sql := "REGEXP_LIKE"; w_named := false; w_agg := false; w_distinct := false;
     w_analytic := false; w_frame := false; w_ignore_nulls := false; w_schema := false; w_alias := true; w_bare := false;
     w_probes := [{| p_kinds := [PTerm; PTerm]; p_slots := [(SParam 0); (SParam 1); (SConst "NULL")]; p_special := None |};
       {| p_kinds := [PTerm; PTerm; PTerm]; p_slots := [(SParam 0); (SParam 1); (SParam 2)]; p_special := None |}] |};
  {| w_module := "pypika.functions"; w_class := "RegexpMatches"; w_sql := "REGEXP_MATCHES"; w_named := false; w_agg := false; w_distinct := false;
     w_analytic := false; w_frame := false; w_ignore_nulls := false; w_schema := false; w_alias := true; w_bare := false;
     w_probes := [{| p_kinds := [PTerm; PTerm]; p_slots := [(SParam 0); (SParam 1); (SConst "NULL")]; p_special := None |};
       {| p_kinds := [PTerm; PTerm; PTerm]; p_slots := [(SParam 0); (SParam 1); (SParam 2)]; p_special := None |}] |};
  {| w_module := "pypika.functions"; w_class := "Replace"; w_sql := "REPLACE"; w_named := false; w_agg := false; w_distinct := false;
     w_analytic := false; w_frame := false; w_ignore_nulls := false; w_schema := false; w_alias := true; w_bare := false;
     w_probes := [{| p_kinds := [PTerm; PTerm; PTerm]; p_slots := [(SParam 0); (SParam 1); (SParam 2)]; p_special := None |}] |};
  {| w_module := "pypika.functions"; w_class := "Reverse"; w_sql := "REVERSE"; w_named := false; w_agg := false; w_distinct := false;
     w_analytic := false; w_frame := false; w_ignore_nulls := false; w_schema := false; w_alias := true; w_bare := false;
     w_probes := [{| p_kinds := [PTerm]; p_slots := [(SParam 0)]; p_special := None |}] |};
  {| w_module := "pypika.functions"; w_class := "Signed"; w_sql := "CAST"; w_named := false; w_agg := false; w_distinct := false;
     w_analytic := false; w_frame := false; w_ignore_nulls := false; w_schema := false; w_alias := true; w_bare := false;
     w_probes := [{| p_kinds := [PTerm]; p_slots := [(SParam 0)]; p_special := (Some ("AS SIGNED", None)) |}] |};
  {| w_module := "pypika.functions"; w_class := "SplitPart"; w_sql := "SPLIT_PART"; w_named := false; w_agg := false; w_distinct := false;
     w_analytic := false; w_frame := false; w_ignore_nulls := false; w_schema := false; w_alias := true; w_bare := false;
     w_probes := [{| p_kinds := [PTerm; PTerm; PTerm]; p_slots := [(SParam 0); (SParam 1); (SParam 2)]; p_special := None |}] |};
  {| w_module := "pypika.functions"; w_class := "Sqrt"; w_sql := "SQRT"; w_named := false; w_agg := false; w_distinct := false;
     w_analytic := false; w_frame := false; w_ignore_nulls := false; w_schema := false; w_alias := true; w_bare := false;
     w_probes := [{| p_kinds := [PTerm]; p_slots := [(SParam 0)]; p_special := None |}] |};
  {| w_module := "pypika.functions"; w_class := "Std"; w_sql := "STD"; w_named := false; w_agg := true; w_distinct := false;
     w_analytic := false; w_frame := false; w_ignore_nulls := false; w_schema := false; w_alias := true; w_bare := false;
     w_probes := [{| p_kinds := [PTerm]; p_slots := [(SParam 0)]; p_special := None |}] |};
  {| w_module := "pypika.functions"; w_class := "StdDev"; w_sql := "STDDEV"; w_named := false; w_agg := true; w_distinct := false;
     w_analytic := false; w_frame := false; w_ignore_nulls := false; w_schema := false; w_alias := true; w_bare := false;
     w_probes := [{| p_kinds := [PTerm]; p_slots := [(SParam 0)]; p_special := None |}] |};
  {| w_module := "pypika.functions"; w_class := "Substring"; w_sql := "SUBSTRING"; w_named := false; w_agg := false; w_distinct := false;
     w_analytic := false; w_frame := false; w_ignore_nulls := false; w_schema := false; w_alias := true; w_bare := false;
     w_probes := [{| p_kinds := [PTerm; PTerm; PTerm]; p_slots := [(SParam 0); (SParam 1); (SParam 2)]; p_special := None |}] |};
  {| w_module := "pypika.functions"; w_class := "Sum"; w_sql := "SUM"; w_named := false; w_agg := true; w_distinct := true;
     w_analytic := false; w_frame := false; w_ignore_nulls := false; w_schema := false; w_alias := true; w_bare := false;
     w_probes := [{| p_kinds := [PTerm]; p_slots := [(SParam 0)]; p_special := None |}] |};
  {| w_module := "pypika.functions"; w_class := "TimeDiff"; w_sql := "TIMEDIFF"; w_named := false; w_agg := false; w_distinct := false;
     w_analytic := false; w_frame := false; w_ignore_nulls := false; w_schema := false; w_alias := true; w_bare := false;
     w_probes := [{| p_kinds := [PTerm; PTerm]; p_slots := [(SParam 0); (SParam 1)]; p_special := None |}] |};
  {| w_module := "pypika.functions"; w_class := "Timestamp"; w_sql := "TIMESTAMP"; w_named := false; w_agg := false; w_distinct := false;
     w_analytic := false; w_frame := false; w_ignore_nulls := false; w_schema := false; w_alias := true; w_bare := false;
     w_probes := [{| p_kinds := [PTerm]; p_slots := [(SParam 0)]; p_special := None |}] |};
  {| w_module := "pypika.functions"; w_class := "TimestampAdd"; w_sql := "TIMESTAMPADD"; w_named := false; w_agg := false; w_distinct := false;
     w_analytic := false; w_frame := false; w_ignore_nulls := false; w_schema := false; w_alias := true; w_bare := false;
     w_probes := [{| p_kinds := [PWord; PTerm; PTerm]; p_slots := [(SParam 0); (SParam 1); (SParam 2)]; p_special := None |};
       {| p_kinds := [PEnum; PTerm; PTerm]; p_slots := [(SParam 0); (SParam 1); (SParam 2)]; p_special := None |}] |};
  {| w_module := "pypika.functions"; w_class := "ToChar"; w_sql := "TO_CHAR"; w_named := false; w_agg := false; w_distinct := false;
     w_analytic := false; w_frame := false; w_ignore_nulls := false; w_schema := false; w_alias := true; w_bare := false;
     w_probes := [{| p_kinds := [PTerm; PTerm]; p_slots := [(SParam 0); (SParam 1)]; p_special := None |}] |};
  {| w_module := "pypika.functions"; w_class := "ToDate"; w_sql := "TO_DATE"; w_named := false; w_agg := false; w_distinct := false;
     w_analytic := false; w_frame := false; w_ignore_nulls := false; w_schema := false; w_alias := true; w_bare := false;
     w_probes := [{| p_kinds := [PTerm; PTerm]; p_slots := [(SParam 0); (SParam 1)]; p_special := None |}] |};
  {| w_module := "pypika.functions"; w_class := "Trim"; w_sql := "TRIM"; w_named := false; w_agg := false; w_distinct := false;
     w_analytic := false; w_frame := false; w_ignore_nulls := false; w_schema := false; w_alias := true; w_bare := false;
     w_probes := [{| p_kinds := [PTerm]; p_slots := [(SParam 0)]; p_special := None |}] |};
  {| w_module := "pypika.functions"; w_class := "Unsigned"; w_sql := "CAST"; w_named := false; w_agg := false; w_distinct := false;
     w_analytic := false; w_frame := false; w_ignore_nulls := false; w_schema := false; w_alias := true; w_bare := false;
     w_probes := [{| p_kinds := [PTerm]; p_slots := [(SParam 0)]; p_special := (Some ("AS UNSIGNED", None)) |}] |};
  {| w_module := "pypika.functions"; w_class := "Upper"; w_sql := "UPPER"; w_named := false; w_agg := false; w_distinct := false;
     w_analytic := false; w_frame := false; w_ignore_nulls := false; w_schema := false; w_alias := true; w_bare := false;
     w_probes := [{| p_kinds := [PTerm]; p_slots := [(SParam 0)]; p_special := None |}] |};
  {| w_module := "pypika.functions"; w_class := "UtcTimestamp"; w_sql := "UTC_TIMESTAMP"; w_named := false; w_agg := false; w_distinct := false;
     w_analytic := false; w_frame := false; w_ignore_nulls := false; w_schema := false; w_alias := true; w_bare := false;
     w_probes := [{| p_kinds := []; p_slots := []; p_special := None |}] |};
  {| w_module := "pypika.analytics"; w_class := "Avg"; w_sql := "AVG"; w_named := false; w_agg := true; w_distinct := false;
     w_analytic := true; w_frame := true; w_ignore_nulls := false; w_schema := true; w_alias := true; w_bare := false;
     w_probes := [{| p_kinds := [PTerm]; p_slots := [(SParam 0)]; p_special := None |}] |};
  {| w_module := "pypika.analytics"; w_class := "Count"; w_sql := "COUNT"; w_named := false; w_agg := true; w_distinct := false;
     w_analytic := true; w_frame := true; w_ignore_nulls := false; w_schema := true; w_alias := true; w_bare := false;
     w_probes := [{| p_kinds := [PTerm]; p_slots := [(SParam 0)]; p_special := None |}] |};
  {| w_module := "pypika.analytics"; w_class := "DenseRank"; w_sql := "DENSE_RANK"; w_named := false; w_agg := true; w_distinct := false;
     w_analytic := true; w_frame := false; w_ignore_nulls := false; w_schema := true; w_alias := true; w_bare := false;
     w_probes := [{| p_kinds := []; p_slots := []; p_special := None |}] |};
  {| w_module := "pypika.analytics"; w_class := "FirstValue"; w_sql := "FIRST_VALUE"; w_named := false; w_agg := true; w_distinct := false;
     w_analytic := true; w_frame := true; w_ignore_nulls := true; w_schema := true; w_alias := true; w_bare := false;
     w_probes := [{| p_kinds := []; p_slots := []; p_special := None |};
       {| p_kinds := [PTerm]; p_slots := [(SParam 0)]; p_special := None |};
       {| p_kinds := [PTerm; PTerm]; p_slots := [(SParam 0); (SParam 1)]; p_special := None |};
       {| p_kinds := [PTerm; PTerm; PTerm]; p_slots := [(SParam 0); (SParam 1); (SParam 2)]; p_special := None |};
       {| p_kinds := [PTerm; PTerm; PTerm; PTerm]; p_slots := [(SParam 0); (SParam 1); (SParam 2); (SParam 3)]; p_special := None |};
       {| p_kinds := [PTerm; PTerm; PTerm; PTerm; PTerm]; p_slots := [(SParam 0); (SParam 1); (SParam 2); (SParam 3); (SParam 4)]; p_special := None |};
       {| p_kinds := [PTerm; PTerm; PTerm; PTerm; PTerm; PTerm]; p_slots := [(SParam 0); (SParam 1); (SParam 2); (SParam 3); (SParam 4); (SParam 5)]; p_special := None |}] |};
  {| w_module := "pypika.analytics"; w_class := "Lag"; w_sql := "LAG"; w_named := false; w_agg := true; w_distinct := false;
     w_analytic := true; w_frame := false; w_ignore_nulls := false; w_schema := true; w_alias := true; w_bare := false;
     w_probes := [{| p_kinds := []; p_slots := []; p_special := None |};
       {| p_kinds := [PTerm]; p_slots := [(SParam 0)]; p_special := None |};
       {| p_kinds := [PTerm; PTerm]; p_slots := [(SParam 0); (SParam 1)]; p_special := None |};
       {| p_kinds := [PTerm; PTerm; PTerm]; p_slots := [(SParam 0); (SParam 1); (SParam 2)]; p_special := None |};
       {| p_kinds := [PTerm; PTerm; PTerm; PTerm]; p_slots := [(SParam 0); (SParam 1); (SParam 2); (SParam 3)]; p_special := None |};
       {| p_kinds := [PTerm; PTerm; PTerm; PTerm; PTerm]; p_slots := [(SParam 0); (SParam 1); (SParam 2); (SParam 3); (SParam 4)]; p_special := None |};
       {| p_kinds := [PTerm; PTerm; PTerm; PTerm; PTerm; PTerm]; p_slots := [(SParam 0); (SParam 1); (SParam 2); (SParam 3); (SParam 4); (SParam 5)]; p_special := None |}] |};
  {| w_module := "pypika.analytics"; w_class := "LastValue"; w_sql := "LAST_VALUE"; w_named := false; w_agg := true; w_distinct := false;
     w_analytic := true; w_frame := true; w_ignore_nulls := true; w_schema := true; w_alias := true; w_bare := false;
     w_probes := [{| p_kinds := []; p_slots := []; p_special := None |};
       {| p_kinds := [PTerm]; p_slots := [(SParam 0)]; p_special := None |};
       {| p_kinds := [PTerm; PTerm]; p_slots := [(SParam 0); (SParam 1)]; p_special := None |};
       {| p_kinds := [PTerm; PTerm; PTerm]; p_slots := [(SParam 0); (SParam 1); (SParam 2)]; p_special := None |};
       {| p_kinds := [PTerm; PTerm; PTerm; PTerm]; p_slots := [(SParam 0); (SParam 1); (SParam 2); (SParam 3)]; p_special := None |};
       {| p_kinds := [PTerm; PTerm; PTerm; PTerm; PTerm]; p_slots := [(SParam 0); (SParam 1); (SParam 2); (SParam 3); (SParam 4)]; p_special := None |};
       {| p_kinds := [PTerm; PTerm; PTerm; PTerm; PTerm; PTerm]; p_slots := [(SParam 0); (SParam 1); (SParam 2); (SParam 3); (SParam 4); (SParam 5)]; p_special := None |}] |};
  {| w_module := "pypika.analytics"; w_class := "Lead"; w_sql := "LEAD"; w_named := false; w_agg := true; w_distinct := false;
     w_analytic := true; w_frame := false; w_ignore_nulls := false; w_schema := true; w_alias := true; w_bare := false;
     w_probes := [{| p_kinds := []; p_slots := []; p_special := None |};
       {| p_kinds := [PTerm]; p_slots := [(SParam 0)]; p_special := None |};
       {| p_kinds := [PTerm; PTerm]; p_slots := [(SParam 0); (SParam 1)]; p_special := None |};
       {| p_kinds := [PTerm; PTerm; PTerm]; p_slots := [(SParam 0); (SParam 1); (SParam 2)]; p_special := None |};
       {| p_kinds := [PTerm; PTerm; PTerm; PTerm]; p_slots := [(SParam 0); (SParam 1); (SParam 2); (SParam 3)]; p_special := None |};
       {| p_kinds := [PTerm; PTerm; PTerm; PTerm; PTerm]; p_slots := [(SParam 0); (SParam 1); (SParam 2); (SParam 3); (SParam 4)]; p_special := None |};
       {| p_kinds := [PTerm; PTerm; PTerm; PTerm; PTerm; PTerm]; p_slots := [(SParam 0); (SParam 1); (SParam 2); (SParam 3); (SParam 4); (SParam 5)]; p_special := None |}] |};
  {| w_module := "pypika.analytics"; w_class := "Max"; w_sql := "MAX"; w_named := false; w_agg := true; w_distinct := false;
     w_analytic := true; w_frame := true; w_ignore_nulls := false; w_schema := true; w_alias := true; w_bare := false;
     w_probes := [{| p_kinds := [PTerm]; p_slots := [(SParam 0)]; p_special := None |}] |};
  {| w_module := "pypika.analytics"; w_class := "Median"; w_sql := "MEDIAN"; w_named := false; w_agg := true; w_distinct := false;
     w_analytic := true; w_frame := false; w_ignore_nulls := false; w_schema := true; w_alias := true; w_bare := false;
     w_probes := [{| p_kinds := [PTerm]; p_slots := [(SParam 0)]; p_special := None |}] |};
  {| w_module := "pypika.analytics"; w_class := "Min"; w_sql := "MIN"; w_named := false; w_agg := true; w_distinct := false;
     w_analytic := true; w_frame := true; w_ignore_nulls := false; w_schema := true; w_alias := true; w_bare := false;
     w_probes := [{| p_kinds := [PTerm]; p_slots := [(SParam 0)]; p_special := None |}] |};
  {| w_module := "pypika.analytics"; w_class := "NTile"; w_sql := "NTILE"; w_named := false; w_agg := true; w_distinct := false;
     w_analytic := true; w_frame := false; w_ignore_nulls := false; w_schema := true; w_alias := true; w_bare := false;
     w_probes := [{| p_kinds := [PTerm]; p_slots := [(SParam 0)]; p_special := None |}] |};
  {| w_module := "pypika.analytics"; w_class := "Rank"; w_sql := "RANK"; w_named := false; w_agg := true; w_distinct := false;
     w_analytic := true; w_frame := false; w_ignore_nulls := false; w_schema := true; w_alias := true; w_bare := false;
     w_probes := [{| p_kinds := []; p_slots := []; p_special := None |}] |};
  {| w_module := "pypika.analytics"; w_class := "RowNumber"; w_sql := "ROW_NUMBER"; w_named := false; w_agg := true; w_distinct := false;
     w_analytic := true; w_frame := false; w_ignore_nulls := false; w_schema := true; w_alias := true; w_bare := false;
     w_probes := [{| p_kinds := []; p_slots := []; p_special := None |}] |};
  {| w_module := "pypika.analytics"; w_class := "StdDev"; w_sql := "STDDEV"; w_named := false; w_agg := true; w_distinct := false;
     w_analytic := true; w_frame := true; w_ignore_nulls := false; w_schema := true; w_alias := true; w_bare := false;
     w_probes := [{| p_kinds := [PTerm]; p_slots := [(SParam 0)]; p_special := None |}] |};
  {| w_module := "pypika.analytics"; w_class := "StdDevPop"; w_sql := "STDDEV_POP"; w_named := false; w_agg := true; w_distinct := false;
     w_analytic := true; w_frame := true; w_ignore_nulls := false; w_schema := true; w_alias := true; w_bare := false;
     w_probes := [{| p_kinds := [PTerm]; p_slots := [(SParam 0)]; p_special := None |}] |};
  {| w_module := "pypika.analytics"; w_class := "StdDevSamp"; w_sql := "STDDEV_SAMP"; w_named := false; w_agg := true; w_distinct := false;
     w_analytic := true; w_frame := true; w_ignore_nulls := false; w_schema := true; w_alias := true; w_bare := false;
     w_probes := [{| p_kinds := [PTerm]; p_slots := [(SParam 0)]; p_special := None |}] |};
  {| w_module := "pypika.analytics"; w_class := "Sum"; w_sql := "SUM"; w_named := false; w_agg := true; w_distinct := false;
     w_analytic := true; w_frame := true; w_ignore_nulls := false; w_schema := true; w_alias := true; w_bare := false;
     w_probes := [{| p_kinds := [PTerm]; p_slots := [(SParam 0)]; p_special := None |}] |};
  {| w_module := "pypika.analytics"; w_class := "VarPop"; w_sql := "VAR_POP"; w_named := false; w_agg := true; w_distinct := false;
     w_analytic := true; w_frame := true; w_ignore_nulls := false; w_schema := true; w_alias := true; w_bare := false;
     w_probes := [{| p_kinds := [PTerm]; p_slots := [(SParam 0)]; p_special := None |}] |};
  {| w_module := "pypika.analytics"; w_class := "VarSamp"; w_sql := "VAR_SAMP"; w_named := false; w_agg := true; w_distinct := false;
     w_analytic := true; w_frame := true; w_ignore_nulls := false; w_schema := true; w_alias := true; w_bare := false;
     w_probes := [{| p_kinds := [PTerm]; p_slots := [(SParam 0)]; p_special := None |}] |};
  {| w_module := "pypika.analytics"; w_class := "Variance"; w_sql := "VARIANCE"; w_named := false; w_agg := true; w_distinct := false;
     w_analytic := true; w_frame := true; w_ignore_nulls := false; w_schema := true; w_alias := true; w_bare := false;
     w_probes := [{| p_kinds := [PTerm]; p_slots := [(SParam 0)]; p_special := None |}] |};
  {| w_module := "pypika.terms"; w_class := "CustomFunction"; w_sql := ""; w_named := true; w_agg := false; w_distinct := false;
     w_analytic := false; w_frame := false; w_ignore_nulls := false; w_schema := false; w_alias := true; w_bare := false;
     w_probes := [{| p_kinds := []; p_slots := []; p_special := None |};
       {| p_kinds := [PTerm]; p_slots := [(SParam 0)]; p_special := None |};
       {| p_kinds := [PTerm; PTerm]; p_slots := [(SParam 0); (SParam 1)]; p_special := None |};
       {| p_kinds := [PTerm; PTerm; PTerm]; p_slots := [(SParam 0); (SParam 1); (SParam 2)]; p_special := None |};
       {| p_kinds := [PTerm; PTerm; PTerm; PTerm]; p_slots := [(SParam 0); (SParam 1); (SParam 2); (SParam 3)]; p_special := None |};
       {| p_kinds := [PTerm; PTerm; PTerm; PTerm; PTerm]; p_slots := [(SParam 0); (SParam 1); (SParam 2); (SParam 3); (SParam 4)]; p_special := None |};
       {| p_kinds := [PTerm; PTerm; PTerm; PTerm; PTerm; PTerm]; p_slots := [(SParam 0); (SParam 1); (SParam 2); (SParam 3); (SParam 4); (SParam 5)]; p_special := None |}] |}
].

(* ---- clause-building calls, exactly the methods the harness calls on the pypika object ---- *)
Inductive op :=
| ODistinct                                          (* .distinct() *)
| OFilter (cs : list (option crit))                  (* .filter(c1, c2, ...) ; None = an EmptyCriterion argument *)
| OOver (ts : list string)                           (* .over(t1, ...) *)
| OOrderby (ts : list string) (o : option order)     (* .orderby(t1, ..., order=o) *)
| OFrame (k : fkind) (b : bound) (ab : option bound) (* .rows(b[, ab]) / .range(b[, ab]) *)
| OIgnoreNulls.                                      (* .ignore_nulls() *)

Definition upd (fd : func_desc) (special : option string) (distinct : bool) (filters : list crit) (inc_f : bool)
           (partition : list string) (orderbys : list (string * option order)) (inc_o : bool) : func_desc :=
  {| fd_name := fd_name fd; fd_schema := fd_schema fd; fd_alias := fd_alias fd; fd_special := special;
     fd_distinct := distinct; fd_filters := filters; fd_include_filter := inc_f; fd_partition := partition;
     fd_orderbys := orderbys; fd_include_over := inc_o; fd_frame := fd_frame fd; fd_bare := fd_bare fd |}.

Fixpoint somes {A} (l : list (option A)) : list A :=
  match l with [] => [] | Some x :: r => x :: somes r | None :: r => somes r end.

(* a method the class does not have: AttributeError *)
Definition apply_op (w : wrapper) (fd : func_desc) (o : op) : res func_desc :=
  let same sp d fs fi ps os oi := Ok (upd fd sp d fs fi ps os oi) in
  match o with
  | ODistinct =>
      if w_distinct w then same (fd_special fd) true (fd_filters fd) (fd_include_filter fd) (fd_partition fd) (fd_orderbys fd) (fd_include_over fd)
      else Err "AttributeError"
  | OFilter cs =>
      (* filter(): EmptyCriterion arguments are dropped; with nothing left the call is a no-op; otherwise
         _include_filter is set and the remaining criteria are appended *)
      if w_agg w then
        match somes cs with
        | [] => Ok fd
        | cs' => same (fd_special fd) (fd_distinct fd) (fd_filters fd ++ cs')%list true (fd_partition fd) (fd_orderbys fd) (fd_include_over fd)
        end
      else Err "AttributeError"
  | OOver ts =>
      if w_analytic w then same (fd_special fd) (fd_distinct fd) (fd_filters fd) (fd_include_filter fd) (fd_partition fd ++ ts)%list (fd_orderbys fd) true
      else Err "AttributeError"
  | OOrderby ts od =>
      if w_analytic w then same (fd_special fd) (fd_distinct fd) (fd_filters fd) (fd_include_filter fd) (fd_partition fd)
                                (fd_orderbys fd ++ map (fun t => (t, od)) ts)%list true
      else Err "AttributeError"
  | OFrame k b ab => if w_frame w then set_frame fd k b ab else Err "AttributeError"
  | OIgnoreNulls =>
      if w_ignore_nulls w then same (Some "IGNORE NULLS") (fd_distinct fd) (fd_filters fd) (fd_include_filter fd) (fd_partition fd) (fd_orderbys fd) (fd_include_over fd)
      else Err "AttributeError"
  end.

Fixpoint apply_ops (w : wrapper) (fd : func_desc) (ops : list op) : res func_desc :=
  match ops with
  | [] => Ok fd
  | o :: r => match apply_op w fd o with Ok fd' => apply_ops w fd' r | Err e => Err e end
  end.

Record wcase := {
  c_mod : string; c_cls : string;
  c_name : option string;                  (* SQL name for the generic bases / CustomFunction *)
  c_params : option (option nat);          (* CustomFunction only: declared parameter count (None = params=None) *)
  c_kinds : list pkind;                    (* how each constructor argument was passed *)
  c_ts : list string;                      (* each constructor argument rendered alone (from the implementation) *)
  c_alias : option string;
  c_schema : option string;                (* rendered schema, when schema= was passed *)
  c_ops : list op;
  c_ro : ropts;
  c_out : string                           (* implementation: text, or "!ExceptionClass" *)
}.

Fixpoint find_probe (kinds : list pkind) (ps : list probe) : option probe :=
  match ps with
  | [] => None
  | p :: r => if list_eqb pkind_eqb (p_kinds p) kinds then Some p else find_probe kinds r
  end.

(* a class that is not in the expected catalogue (a wrapper added later) is modelled by its extracted entry;
   lemmas/FuncCatalogue.v requires that entry to have the generic shape *)
Definition find_wrapper (m c : string) : option wrapper :=
  match lookup_wrapper m c expected_catalogue with
  | Some w => Some w
  | None => lookup_wrapper m c catalogue
  end.

(* the description, argument list and render options a case denotes, or "!Exception" *)
Definition build_case (c : wcase) : res (func_desc * list string) :=
  match find_wrapper (c_mod c) (c_cls c) with
  | None => Err "unknown-wrapper"
  | Some w =>
      if is_some (c_schema c) && negb (w_schema w) then Err "TypeError" else
      match find_probe (c_kinds c) (w_probes w) with
      | None => Err "unprobed-arguments"
      | Some p =>
          let args0 := inst_args p (c_ts c) in
          match (match c_params c with
                 | Some params => custom_call (option_map (fun n => repeat "p" n) params) args0
                 | None => Ok args0
                 end) with
          | Err e => Err e
          | Ok args =>
              let fd0 :=
                {| fd_name := if w_named w then ostr (c_name c) else w_sql w; fd_schema := c_schema c; fd_alias := c_alias c;
                   fd_special := inst_special p (c_ts c); fd_distinct := false; fd_filters := []; fd_include_filter := false;
                   fd_partition := []; fd_orderbys := []; fd_include_over := false; fd_frame := None; fd_bare := w_bare w |} in
              match apply_ops w fd0 (c_ops c) with
              | Err e => Err e
              | Ok fd => Ok (fd, args)
              end
          end
      end
  end.

Definition run_case (c : wcase) : string :=
  match build_case c with
  | Err e => "!" ++ e
  | Ok (fd, args) => match get_sql (c_ro c) fd args with Ok s => s | Err e => "!" ++ e end
  end.

(* ---- the reader applied to the IMPLEMENTATION's text ---- *)
Definition frame_eqb (a b : frame) : bool :=
  let '(k, lo, hi) := a in let '(k', lo', hi') := b in
  fkind_eqb k k' && bound_eqb lo lo' && option_eqb bound_eqb hi hi'.
Definition ord_eqb (a b : string * option order) : bool :=
  String.eqb (fst a) (fst b) && option_eqb order_eqb (snd a) (snd b).
Definition window_eqb (a b : window_ast) : bool :=
  list_eqb String.eqb (wa_partition a) (wa_partition b) && list_eqb ord_eqb (wa_order a) (wa_order b)
  && option_eqb frame_eqb (wa_frame a) (wa_frame b).
Definition ast_eqb (a b : call_ast) : bool :=
  option_eqb String.eqb (a_schema a) (a_schema b) && String.eqb (a_name a) (a_name b)
  && Bool.eqb (a_distinct a) (a_distinct b) && list_eqb String.eqb (a_args a) (a_args b)
  && option_eqb String.eqb (a_special a) (a_special b) && option_eqb String.eqb (a_filter a) (a_filter b)
  && option_eqb window_eqb (a_over a) (a_over b) && option_eqb String.eqb (a_tail a) (a_tail b).

(* the hypotheses of the round-trip theorem (props/C18.v, C18_on_fragment) *)
Definition in_fragment (c : wcase) : bool :=
  match build_case c with
  | Ok (fd, args) => texts_ok fd && combo_ok fd && forallb arg_ok args && tail_ok (tail_text (c_ro c) fd)
  | Err _ => false
  end.

(* whenever they hold, the text the implementation produced must read back as exactly the requested parts *)
Definition reads_back (c : wcase) : bool :=
  match build_case c with
  | Ok (fd, args) =>
      if in_fragment c then
        match parse_call (c_out c) with
        | Some a => ast_eqb a (expected_ast (c_ro c) fd args)
        | None => false
        end
      else true
  | Err _ => true
  end.

Definition check_case (c : wcase) : bool := String.eqb (run_case c) (c_out c) && reads_back c.
Definition show_case (c : wcase) : string := run_case c.
Definition count_fragment (cs : list wcase) : nat := List.length (filter in_fragment cs).
