(* QueryCorr.v — correspondence entry points for the statement renderer. Definitions only. *)
From PV Require Import Base Crit gen.TermsTable Terms Page gen.QueryTable Query.

Definition query_text (x : query) : string :=
  match str_query x with Ok s => s | Err e => "!" ++ e end.
Definition query_case := (query * string)%type.
Definition check_query (c : query_case) : bool := String.eqb (query_text (fst c)) (snd c).
Definition show_query (c : query_case) : string := query_text (fst c).
