(* Lex.v — lexical side of property C03 ("data values render as one literal that decodes back").
   Definitions only.

   Part 1: how a string literal is written (fmt_str = what ValueWrapper.get_formatted_value does for a str:
           value.replace(q, q*2) wrapped by format_quotes) and how SQL engines read one: the ANSI reader
           read_std and the backslash-escape reader read_bs; lexer_of says which one a query class' target uses.
   Part 2: numeric-literal texts.
   Part 3: a token view of the shared expression model (Terms.render): the same recursion as render, but
           every data value becomes ONE token (CLit / CNum / CBool / CNull) and everything else is CText.
   Part 4: re-reading a rendered statement along its token list.

   Strings are Coq strings of bytes (UTF-8 of the Python str); quote doubling and both readers work byte-wise,
   which is transparent to UTF-8 because the quote and the backslash are ASCII and never occur inside a
   multi-byte sequence. *)
From PV Require Import Base Crit gen.TermsTable Terms gen.C03Table.

(* ------------------------------------------------------------------------------------------- *)
(* Part 1. string literals                                                                       *)
(* ------------------------------------------------------------------------------------------- *)
Definition bslash : ascii := ascii_of_nat 92.
Definition squote : ascii := ascii_of_nat 39.

(* terms.py 445-447:  value = value.replace(q, q*2); return format_quotes(value, q)   (q one character) *)
Definition fmt_str (q : ascii) (s : string) : string := String q (double_char q s ++ String q EmptyString).

Definition starts_with (q : ascii) (s : string) : bool :=
  match s with String a _ => Ascii.eqb a q | EmptyString => false end.

Definition ocons (a : ascii) (o : option (string * string)) : option (string * string) :=
  match o with Some (v, r) => Some (String a v, r) | None => None end.
Definition oapp (p : string) (o : option (string * string)) : option (string * string) :=
  match o with Some (v, r) => Some (p ++ v, r) | None => None end.

(* ANSI SQL (ISO 9075 5.3 <character string literal>): after the opening quote the literal ends at a quote that
   is not followed by a quote; a doubled quote denotes one quote; every other byte denotes itself.
   Result: (decoded value, rest of the input after the closing quote); None = unterminated literal. *)
Fixpoint body_std (q : ascii) (s : string) {struct s} : option (string * string) :=
  match s with
  | EmptyString => None
  | String a r =>
      if Ascii.eqb a q then
        match r with
        | String b r' => if Ascii.eqb b q then ocons q (body_std q r') else Some (EmptyString, r)
        | EmptyString => Some (EmptyString, EmptyString)
        end
      else ocons a (body_std q r)
  end.
Definition read_std (q : ascii) (s : string) : option (string * string) :=
  match s with String a r => if Ascii.eqb a q then body_std q r else None | EmptyString => None end.

(* Engines with backslash escapes inside '...': the byte after a backslash is consumed together with it and
   decoded by [esc]; a backslash at the end of the input leaves the literal unterminated. *)
Fixpoint body_bs (esc : ascii -> string) (q : ascii) (s : string) {struct s} : option (string * string) :=
  match s with
  | EmptyString => None
  | String a r =>
      if Ascii.eqb a bslash then
        match r with
        | String b r' => oapp (esc b) (body_bs esc q r')
        | EmptyString => None
        end
      else if Ascii.eqb a q then
        match r with
        | String b r' => if Ascii.eqb b q then ocons q (body_bs esc q r') else Some (EmptyString, r)
        | EmptyString => Some (EmptyString, EmptyString)
        end
      else ocons a (body_bs esc q r)
  end.
Definition read_bs (esc : ascii -> string) (q : ascii) (s : string) : option (string * string) :=
  match s with String a r => if Ascii.eqb a q then body_bs esc q r else None | EmptyString => None end.

(* MySQL 8.0 manual 9.1.1 "String Literals", table of escape sequences (default sql_mode, i.e. without
   NO_BACKSLASH_ESCAPES):  \0 NUL, \b BS, \n LF, \r CR, \t TAB, \Z ^Z; \% and \_ keep the backslash; for every
   other byte the backslash is dropped.  ClickHouse, Snowflake and Redshift differ in which letters are
   special (\x.., \u...., \f, \a ...) but agree on the only fact the theorems use: the byte after a backslash is
   part of the escape, so a quote there does not end the literal. *)
Definition mysql_esc (b : ascii) : string :=
  match nat_of_ascii b with
  | 48 => String (ascii_of_nat 0) EmptyString      (* \0 *)
  | 98 => String (ascii_of_nat 8) EmptyString      (* \b *)
  | 110 => String (ascii_of_nat 10) EmptyString    (* \n *)
  | 114 => String (ascii_of_nat 13) EmptyString    (* \r *)
  | 116 => String (ascii_of_nat 9) EmptyString     (* \t *)
  | 90 => String (ascii_of_nat 26) EmptyString     (* \Z *)
  | 37 => String bslash (String b EmptyString)     (* \% *)
  | 95 => String bslash (String b EmptyString)     (* \_ *)
  | _ => String b EmptyString
  end.

Inductive lexer := LStd | LBs.
Definition read_lit (l : lexer) (q : ascii) (s : string) : option (string * string) :=
  match l with LStd => read_std q s | LBs => read_bs mysql_esc q s end.

(* SPECIFICATION TABLE (hand-written, trusted): how the engine behind each query class reads '...' in its default
   configuration.
     Query          generic ANSI SQL                                                         -> standard
     MySQLQuery     MySQL 8.0 9.1.1: backslash escapes unless sql_mode has NO_BACKSLASH_ESCAPES -> backslash
     VerticaQuery   StandardConformingStrings is on by default (since 4.0)                     -> standard
     OracleQuery    no escapes inside '...' (SQL Language Reference, Text Literals)            -> standard
     PostgreSQLQuery standard_conforming_strings = on by default since 9.1                     -> standard
     RedshiftQuery  forked from PostgreSQL 8.0: plain '...' processes backslash escapes (the LIKE page of the
                    Database Developer Guide writes the default escape as like '%start\\_%')   -> backslash
     MSSQLQuery     T-SQL: no escapes inside '...'                                             -> standard
     ClickHouseQuery "Syntax / String literals": backslash escapes                             -> backslash
     SQLLiteQuery   lang_expr.html: "C-style escapes using the backslash character are not supported" -> standard
     SnowflakeQuery "String & binary data types / Escape sequences in single-quoted string constants" -> backslash
   The match lists every class: a new query class makes this file fail to compile (fail closed). *)
Definition lexer_of (k : qclass) : lexer :=
  match k with
  | K_Query => LStd
  | K_MySQLQuery => LBs
  | K_VerticaQuery => LStd
  | K_OracleQuery => LStd
  | K_PostgreSQLQuery => LStd
  | K_RedshiftQuery => LBs
  | K_MSSQLQuery => LStd
  | K_ClickHouseQuery => LBs
  | K_SQLLiteQuery => LStd
  | K_SnowflakeQuery => LBs
  end.

(* the quote character a class' literals are written with: its secondary_quote_char (extracted) when that is a
   single character *)
Definition one_char (o : option string) : option ascii :=
  match o with Some (String ch EmptyString) => Some ch | _ => None end.
Definition class_quote (k : qclass) : option ascii := one_char (sq (class_ctx k)).
Definition sq1 (c : ctx) : bool := match one_char (sq c) with Some _ => true | None => false end.

Fixpoint no_bslash (s : string) : bool :=
  match s with EmptyString => true | String a r => negb (Ascii.eqb a bslash) && no_bslash r end.

(* ------------------------------------------------------------------------------------------- *)
(* Part 2. numeric literal texts                                                                 *)
(* ------------------------------------------------------------------------------------------- *)
(* <signed numeric literal> (ISO 9075 5.3):  [-] digits [ . digits ] [ (e|E) [+|-] digits ]  — the texts Python's
   str() produces for int, finite float and finite Decimal are of this form; nan / inf / Infinity / NaN are not. *)
Definition is_digit (a : ascii) : bool := let n := nat_of_ascii a in Nat.leb 48 n && Nat.leb n 57.
Fixpoint all_digits (s : string) : bool :=
  match s with EmptyString => true | String a r => is_digit a && all_digits r end.
(* drop leading digits; how many were dropped *)
Fixpoint span_digits (s : string) : nat * string :=
  match s with
  | String a r => if is_digit a then let (n, t) := span_digits r in (S n, t) else (O, s)
  | EmptyString => (O, EmptyString)
  end.
Definition is_char_of (a : ascii) (n : nat) : bool := Nat.eqb (nat_of_ascii a) n.
Definition exp_ok (s : string) : bool :=       (* after e/E *)
  let s' := match s with String a r => if is_char_of a 43 || is_char_of a 45 then r else s | EmptyString => s end in
  match span_digits s' with (S _, EmptyString) => true | _ => false end.
Definition after_digits (s : string) (k : string -> bool) : bool :=
  match span_digits s with (S _, t) => k t | _ => false end.
Definition tail_ok (t : string) : bool :=      (* after the integer part *)
  match t with
  | EmptyString => true
  | String a r =>
      if is_char_of a 46 then
        after_digits r (fun t2 => match t2 with
                                  | EmptyString => true
                                  | String b r2 => (is_char_of b 101 || is_char_of b 69) && exp_ok r2 end)
      else (is_char_of a 101 || is_char_of a 69) && exp_ok r
  end.
Definition is_numeric_text (s : string) : bool :=
  let s' := match s with String a r => if is_char_of a 45 then r else s | EmptyString => s end in
  after_digits s' tail_ok.

(* ------------------------------------------------------------------------------------------- *)
(* Part 3. token view of Terms.render                                                            *)
(* ------------------------------------------------------------------------------------------- *)
Local Open Scope list_scope.
Inductive ctok :=
| CText (s : string)              (* keywords, identifiers, operators, punctuation, aliases: not data *)
| CLit (qc : ascii) (s : string)  (* a string literal: payload s written with quote qc *)
| CNum (s : string)               (* a numeric payload: str(int) / str(float) / str(Decimal) *)
| CBool (s : string)              (* true / false, or 1 / 0 from SQLLiteValueWrapper *)
| CNull.                          (* ValueWrapper(None) *)

Definition ctok_text (t : ctok) : string :=
  match t with CText s => s | CLit qc s => fmt_str qc s | CNum s => s | CBool s => s | CNull => "null" end.
Definition cflatten (ts : list ctok) : string := sconcat (map ctok_text ts).

(* erase the payload of string literals: what is left is "all other tokens of the statement" *)
Definition shape (t : ctok) : ctok := match t with CLit qc _ => CLit qc EmptyString | _ => t end.

Definition rmap {A B} (f : A -> B) (x : res A) : res B := match x with Ok a => Ok (f a) | Err e => Err e end.

Definition alias_toks (c : ctx) (qc : option string) (ts : list ctok) (alias : option string) : list ctok :=
  match alias with
  | None => ts
  | Some a => ts ++ [CText ((if askw c then " AS " else " ") ++ fq (or_ostr (aq c) qc) a)%string]
  end.
Definition tparen (b : bool) (ts : list ctok) : list ctok := if b then CText "(" :: ts ++ [CText ")"] else ts.
Fixpoint tjoin (sep : string) (l : list (list ctok)) : list ctok :=
  match l with
  | [] => []
  | [x] => x
  | x :: r => x ++ CText sep :: tjoin sep r
  end.
Definition tok_empty (t : ctok) : bool := match ctok_text t with EmptyString => true | _ => false end.
Definition all_empty (ts : list ctok) : bool := forallb tok_empty ts.

(* a str payload: one literal token when the secondary quote that reaches it is a single character (it always
   is for the ten classes and for str()); otherwise (None / "" / longer) the raw text format_quotes produces *)
Definition lit_toks (c : ctx) (s : string) : list ctok :=
  match one_char (sq c) with
  | Some ch => [CLit ch s]
  | None => [CText (fq (sq c) (double_quote (sq c) s))]
  end.

(* _operand_sql at token level: parentheses around an operand that is a predicate (Terms.opnd) *)
Definition topnd (sl : oslot) (t : term) (ts : list ctok) : list ctok := tparen (operand_parens sl (okind_of t)) ts.
(* "the operand's text starts with a minus sign" (Negative / the right operand of '-') *)
Definition tstarts_minus (ts : list ctok) : bool := starts_minus (cflatten ts).

(* same recursion, same context threading as Terms.render *)
Fixpoint toks (c : ctx) (t : term) {struct t} : res (list ctok) :=
  match t with
  | TValS s alias => Ok (alias_toks c (q c) (lit_toks c s) alias)
  | TValI z alias => Ok (alias_toks c (q c) [CNum (Z_to_string z)] alias)
  | TValB b sqlite alias =>
      Ok (alias_toks c (q c) [CBool (if sqlite then (if b then "1" else "0") else (if b then "true" else "false"))] alias)
  | TValNone alias => Ok (alias_toks c (q c) [CNull] alias)
  | TValRaw txt alias => Ok (alias_toks c (q c) [CNum txt] alias)
  | TNeg t' =>
      a0 <- toks (opc SNeg t' (set_wa c false)) t' ;;
      let a := topnd SNeg t' a0 in
      Ok (CText "-" :: tparen (match t' with TArith _ _ _ _ => neg_parens_arith | TNeg _ => neg_parens_neg | _ => false end
                               || (neg_parens_minus && tstarts_minus a)) a)
  | TArith op l r alias =>
      let c' := set_wa c false in
      a0 <- toks (opc SArithL l c') l ;; b0 <- toks (opc SArithR r c') r ;;
      let a := topnd SArithL l a0 in
      let b := topnd SArithR r b0 in
      let rp := right_needs_parens op (top_op r)
                || (sub_parens_minus && (match op with OSub => true | _ => false end) && tstarts_minus b) in
      let s := tparen (left_needs_parens op (top_op l)) a ++ CText (aop_text op) :: tparen rp b in
      Ok (if wa c then alias_toks c (q c) s alias else s)
  | TBasic cm l r alias =>
      let c' := set_wa c false in
      a0 <- toks (opc SCmpL l c') l ;; b0 <- toks (opc SCmpR r c') r ;;
      let s := topnd SCmpL l a0 ++ CText (cmp_text cm) :: topnd SCmpR r b0 in
      Ok (if wa c then alias_toks c (q c) s alias else s)
  | TCplx bo l r alias =>
      let c' := set_wa c false in
      a <- toks (set_subc c' (needs_brackets_x bo (top_bop l))) l ;;
      b <- toks (set_subc c' (needs_brackets_x bo (top_bop r))) r ;;
      let s := tparen (subc c) (a ++ CText (" " ++ bop_text_x bo ++ " ")%string :: b) in
      Ok (if wa c then alias_toks c (q c) s alias else s)
  | TIn t' cont negated alias =>
      a <- toks (opc SInTerm t' (set_wa (set_subq c false) false)) t' ;; b <- toks (set_wa (set_subq c true) false) cont ;;
      Ok (alias_toks c (q c) (topnd SInTerm t' a ++ CText (" " ++ (if negated then "NOT " else "") ++ "IN ")%string :: b) alias)
  | TBetween t' lo hi alias =>
      let c' := set_wa c false in
      a <- toks (opc SBetTerm t' c') t' ;; b <- toks (opc SBetLo lo c') lo ;; d <- toks (opc SBetHi hi c') hi ;;
      Ok (alias_toks c (q c) (topnd SBetTerm t' a ++ CText " BETWEEN " :: topnd SBetLo lo b ++ CText " AND " :: topnd SBetHi hi d) alias)
  | TBitAnd t' v alias =>
      a <- toks (set_wa c false) t' ;; Ok (alias_toks c (q c) (CText "(" :: a ++ [CText (" & " ++ v ++ ")")%string]) alias)
  | TIsNull t' alias =>
      a <- toks (opc SIsNull t' (set_wa c false)) t' ;; Ok (alias_toks c (q c) (topnd SIsNull t' a ++ [CText " IS NULL"]) alias)
  | TNotNull t' alias =>
      a <- toks (opc SNotNull t' (set_wa c false)) t' ;; Ok (alias_toks c (q c) (topnd SNotNull t' a ++ [CText " IS NOT NULL"]) alias)
  | TNot t' alias => a <- toks (set_wa (set_subc c true) false) t' ;; Ok (alias_toks (set_subc c true) (q c) (CText "NOT " :: a) alias)
  | TAll t' alias => a <- toks (set_wa c false) t' ;; Ok (alias_toks c (q c) (a ++ [CText " ALL"]) alias)
  | TCase ws els alias =>
      let c' := set_wa c false in
      match ws with
      | WNil => Err "CaseException"
      | _ =>
        cs <- toks_whens c' ws ;;
        e <- match els with ONone => Ok [] | OSome t' => s <- toks c' t' ;; Ok (CText " ELSE " :: s) end ;;
        let s := CText "CASE " :: tjoin " " cs ++ e ++ [CText " END"] in
        Ok (if wa c then alias_toks c (q c) s alias else s)
      end
  | TFunc name args special alias =>
      ss <- toks_list (fctx c) args ;;
      let s := CText (name ++ "(")%string :: tjoin "," ss
               ++ [CText ((match special with Some sp => " " ++ sp | None => "" end) ++ ")")%string] in
      Ok (if wa c then alias_toks c (q c) s alias else s)
  | TTuple vs alias => ss <- toks_list (set_wa c false) vs ;; Ok (alias_toks c (q c) (CText "(" :: tjoin "," ss ++ [CText ")"]) alias)
  | TArray vs alias =>
      ss <- toks_list (set_wa c false) vs ;;
      let body := tjoin "," ss in
      let s := if is_pg (dia c)
               then (if all_empty body then [CText "'{}'"] else CText "ARRAY[" :: body ++ [CText "]"])
               else CText "[" :: body ++ [CText "]"] in
      Ok (alias_toks c (q c) s alias)
  (* constructors that carry no data value and no sub-term: their text as Terms.render gives it *)
  | TField _ _ _ | TStar _ | TLit _ _ | TParam _ | TEmpty | TSub _ _ _ => s <- render c t ;; Ok [CText s]
  end
with toks_list (c : ctx) (l : tlist) {struct l} : res (list (list ctok)) :=
  match l with
  | TNil => Ok []
  | TCons t r => a <- toks c t ;; rest <- toks_list c r ;; Ok (a :: rest)
  end
with toks_whens (c : ctx) (l : wlist) {struct l} : res (list (list ctok)) :=
  match l with
  | WNil => Ok []
  | WCons cr v r =>
      a <- toks c cr ;; b <- toks c v ;; rest <- toks_whens c r ;;
      Ok ((CText "WHEN " :: a ++ CText " THEN " :: b) :: rest)
  end.

(* replace the payload of every str value of a term *)
Fixpoint map_strs (f : string -> string) (t : term) {struct t} : term :=
  match t with
  | TValS s alias => TValS (f s) alias
  | TNeg t' => TNeg (map_strs f t')
  | TArith op l r alias => TArith op (map_strs f l) (map_strs f r) alias
  | TBasic cm l r alias => TBasic cm (map_strs f l) (map_strs f r) alias
  | TCplx bo l r alias => TCplx bo (map_strs f l) (map_strs f r) alias
  | TIn t' cont negated alias => TIn (map_strs f t') (map_strs f cont) negated alias
  | TBetween t' lo hi alias => TBetween (map_strs f t') (map_strs f lo) (map_strs f hi) alias
  | TBitAnd t' v alias => TBitAnd (map_strs f t') v alias
  | TIsNull t' alias => TIsNull (map_strs f t') alias
  | TNotNull t' alias => TNotNull (map_strs f t') alias
  | TNot t' alias => TNot (map_strs f t') alias
  | TAll t' alias => TAll (map_strs f t') alias
  | TCase ws els alias => TCase (map_strs_w f ws) (map_strs_o f els) alias
  | TFunc name args special alias => TFunc name (map_strs_l f args) special alias
  | TTuple vs alias => TTuple (map_strs_l f vs) alias
  | TArray vs alias => TArray (map_strs_l f vs) alias
  | TField _ _ _ | TStar _ | TValI _ _ | TValB _ _ _ | TValNone _ | TValRaw _ _ | TLit _ _ | TParam _ | TEmpty
  | TSub _ _ _ => t
  end
with map_strs_l (f : string -> string) (l : tlist) {struct l} : tlist :=
  match l with TNil => TNil | TCons t r => TCons (map_strs f t) (map_strs_l f r) end
with map_strs_w (f : string -> string) (l : wlist) {struct l} : wlist :=
  match l with WNil => WNil | WCons cr v r => WCons (map_strs f cr) (map_strs f v) (map_strs_w f r) end
with map_strs_o (f : string -> string) (o : oterm) {struct o} : oterm :=
  match o with ONone => ONone | OSome t => OSome (map_strs f t) end.

(* the term with every str payload emptied: two terms with the same [erase] differ only in their strings *)
Definition erase (t : term) : term := map_strs (fun _ => EmptyString) t.

(* ------------------------------------------------------------------------------------------- *)
(* Part 4. reading the flattened text back along the token list                                  *)
(* ------------------------------------------------------------------------------------------- *)
Fixpoint strip_prefix (p s : string) : option string :=
  match p with
  | EmptyString => Some s
  | String a p' => match s with String b s' => if Ascii.eqb a b then strip_prefix p' s' else None | EmptyString => None end
  end.

(* consume [text] token by token: non-literal tokens must be spelled out verbatim, every literal token is read
   by the ANSI reader, which has to stop exactly where the next token starts and return the payload *)
Fixpoint lex_along (ts : list ctok) (text : string) : bool :=
  match ts with
  | [] => match text with EmptyString => true | _ => false end
  | CLit qc s :: r =>
      match read_std qc text with
      | Some (v, rest) => String.eqb v s && lex_along r rest
      | None => false
      end
  | t :: r => match strip_prefix (ctok_text t) text with Some rest => lex_along r rest | None => false end
  end.

(* what follows a literal does not begin with its quote character *)
Fixpoint follow_ok (ts : list ctok) : bool :=
  match ts with
  | [] => true
  | CLit qc _ :: r => negb (starts_with qc (cflatten r)) && follow_ok r
  | _ :: r => follow_ok r
  end.
