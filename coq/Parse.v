(* Parse.v — a generic operator-precedence grammar of SQL value/boolean expressions:
   tokens, expression trees, engine precedence tables, a printer parameterised by a
   parenthesisation policy, and a level-stratified recursive-descent parser on explicit fuel.
   Definitions only; the print/parse theorem is in lemmas/ParsePrint.v. *)
From PV Require Import Base Crit gen.TermsTable.

Inductive binop := BA (o : aop) | BC (c : cmp) | BB (b : bop).
Inductive postfix := PIsNull | PIsNotNull.

Inductive tok :=
| KAtom (a : string)        (* one atomic token: identifier chain, literal, placeholder, star ... *)
| KOp (o : binop)           (* infix operator *)
| KNeg                      (* prefix minus *)
| KNot                      (* prefix NOT *)
| KPost (p : postfix)       (* IS NULL / IS NOT NULL *)
| KIn (neg : bool)          (* IN / NOT IN, followed by a parenthesised list *)
| KBetween                  (* BETWEEN lo AND hi *)
| KLP | KRP | KComma
| KName (f : string)        (* function name, followed by a parenthesised argument list *)
| KCase | KWhen | KThen | KElse | KEnd.

Inductive expr :=
| EAtom (a : string)
| ENeg (e : expr)
| ENot (e : expr)
| EBin (o : binop) (l r : expr)
| EPost (p : postfix) (e : expr)
| EIn (neg : bool) (e : expr) (items : elist)
| EBetween (e lo hi : expr)
| ECall (f : string) (args : elist)
| ECase (ws : ewlist) (els : eopt)
with elist := ENil | ECons (e : expr) (r : elist)
with ewlist := EWNil | EWCons (c v : expr) (r : ewlist)
with eopt := EONone | EOSome (e : expr).

(* An engine's expression grammar. Levels: 0 = loosest. Atoms, calls, CASE and unary minus live at S maxl. *)
Record ptable := {
  maxl : nat;
  prec : binop -> nat;          (* level of each infix operator *)
  nonassoc : nat -> bool;       (* levels whose operators do not chain (a = b = c is rejected) *)
  lvl_not : nat;
  lvl_is : nat;                 (* postfix IS [NOT] NULL *)
  lvl_in : nat;
  lvl_between : nat
}.

(* positions of a child inside its parent *)
Inductive pos :=
| PNeg | PNot | PBinL (o : binop) | PBinR (o : binop) | PPost | PInL | PBetE | PBetLo | PBetHi.

Section Grammar.
Variable T : ptable.

Definition atomlvl : nat := S (maxl T).

Definition level (e : expr) : nat :=
  match e with
  | EAtom _ | ENeg _ | ECall _ _ | ECase _ _ => atomlvl
  | ENot _ => lvl_not T
  | EBin o _ _ => prec T o
  | EPost _ _ => lvl_is T
  | EIn _ _ _ => lvl_in T
  | EBetween _ _ _ => lvl_between T
  end.

(* left operand position of a node living at level j *)
Definition lmin (j : nat) : nat := if nonassoc T j then S j else j.

(* the loosest level a child may have at a position and still be printed bare *)
Definition ctxmin (p : pos) : nat :=
  match p with
  | PNeg => atomlvl
  | PNot => lvl_not T
  | PBinL o => lmin (prec T o)
  | PBinR o => S (prec T o)
  | PPost => lmin (lvl_is T)
  | PInL => lmin (lvl_in T)
  | PBetE => lmin (lvl_between T)
  | PBetLo | PBetHi => S (lvl_between T)
  end.

(* the textbook rule: parentheses are needed iff the child binds looser than the position allows *)
Definition spec_needs (p : pos) (c : expr) : bool := Nat.ltb (level c) (ctxmin p).

(* level at which the operator loop consumes a token (None: the token ends every loop) *)
Definition tok_level (t : tok) : option nat :=
  match t with
  | KOp o => Some (prec T o)
  | KPost _ => Some (lvl_is T)
  | KIn _ => Some (lvl_in T)
  | KBetween => Some (lvl_between T)
  | _ => None
  end.

(* ---- printer, parameterised by the parenthesisation policy ---- *)
Variable pol : pos -> expr -> bool.

Definition par (b : bool) (l : list tok) : list tok := if b then KLP :: l ++ [KRP] else l.

Fixpoint pr (e : expr) : list tok :=
  match e with
  | EAtom a => [KAtom a]
  | ENeg c => KNeg :: par (pol PNeg c) (pr c)
  | ENot c => KNot :: par (pol PNot c) (pr c)
  | EBin o l r => par (pol (PBinL o) l) (pr l) ++ KOp o :: par (pol (PBinR o) r) (pr r)
  | EPost p c => par (pol PPost c) (pr c) ++ [KPost p]
  | EIn neg c items => par (pol PInL c) (pr c) ++ KIn neg :: KLP :: pr_items items ++ [KRP]
  | EBetween c lo hi =>
      par (pol PBetE c) (pr c) ++ KBetween :: par (pol PBetLo lo) (pr lo)
        ++ KOp (BB BAnd) :: par (pol PBetHi hi) (pr hi)
  | ECall f args => KName f :: KLP :: pr_items args ++ [KRP]
  | ECase ws els => KCase :: pr_whens ws ++ pr_else els ++ [KEnd]
  end
with pr_items (l : elist) : list tok :=
  match l with
  | ENil => []
  | ECons e ENil => pr e
  | ECons e r => pr e ++ KComma :: pr_items r
  end
with pr_whens (l : ewlist) : list tok :=
  match l with
  | EWNil => []
  | EWCons c v r => KWhen :: pr c ++ KThen :: pr v ++ pr_whens r
  end
with pr_else (o : eopt) : list tok :=
  match o with EONone => [] | EOSome e => KElse :: pr e end.

(* ---- parser ---- *)
Fixpoint parse (fuel : nat) (k : nat) (ts : list tok) {struct fuel} : option (expr * list tok) :=
  match fuel with O => None | S f =>
    if Nat.leb k (maxl T) then
      match ts with
      | KNot :: r =>
          if Nat.eqb k (lvl_not T) then
            match parse f k r with
            | Some (c, r') => loop f k (ENot c) r'
            | None => None end
          else descend f k ts
      | _ => descend f k ts
      end
    else (* atom level *)
      match ts with
      | KAtom a :: r => Some (EAtom a, r)
      | KNeg :: r => match parse f atomlvl r with Some (c, r') => Some (ENeg c, r') | None => None end
      | KLP :: r => match parse f 0 r with Some (c, KRP :: r') => Some (c, r') | _ => None end
      | KName g :: KLP :: r =>
          match parse_items f r with Some (args, KRP :: r') => Some (ECall g args, r') | _ => None end
      | KCase :: r =>
          match parse_whens f r with
          | Some (ws, KElse :: r1) =>
              match parse f 0 r1 with Some (e, KEnd :: r2) => Some (ECase ws (EOSome e), r2) | _ => None end
          | Some (ws, KEnd :: r1) => Some (ECase ws EONone, r1)
          | _ => None
          end
      | _ => None
      end
  end
with descend (fuel : nat) (k : nat) (ts : list tok) {struct fuel} : option (expr * list tok) :=
  match fuel with O => None | S f =>
    match parse f (S k) ts with
    | Some (a, r) => loop f k a r
    | None => None end
  end
with loop (fuel : nat) (k : nat) (acc : expr) (ts : list tok) {struct fuel} : option (expr * list tok) :=
  match fuel with O => None | S f =>
    match ts with
    | KOp o :: r =>
        if Nat.eqb (prec T o) k then
          match parse f (S k) r with
          | Some (rhs, r') => if nonassoc T k then Some (EBin o acc rhs, r') else loop f k (EBin o acc rhs) r'
          | None => None end
        else Some (acc, ts)
    | KPost p :: r =>
        if Nat.eqb (lvl_is T) k then
          (if nonassoc T k then Some (EPost p acc, r) else loop f k (EPost p acc) r)
        else Some (acc, ts)
    | KIn neg :: KLP :: r =>
        if Nat.eqb (lvl_in T) k then
          match parse_items f r with
          | Some (items, KRP :: r') =>
              if nonassoc T k then Some (EIn neg acc items, r') else loop f k (EIn neg acc items) r'
          | _ => None end
        else Some (acc, ts)
    | KBetween :: r =>
        if Nat.eqb (lvl_between T) k then
          match parse f (S k) r with
          | Some (lo, KOp (BB BAnd) :: r1) =>
              match parse f (S k) r1 with
              | Some (hi, r2) =>
                  if nonassoc T k then Some (EBetween acc lo hi, r2) else loop f k (EBetween acc lo hi) r2
              | None => None end
          | _ => None end
        else Some (acc, ts)
    | _ => Some (acc, ts)
    end
  end
with parse_items (fuel : nat) (ts : list tok) {struct fuel} : option (elist * list tok) :=
  match fuel with O => None | S f =>
    match ts with
    | KRP :: _ => Some (ENil, ts)
    | _ => parse_items1 f ts
    end
  end
with parse_items1 (fuel : nat) (ts : list tok) {struct fuel} : option (elist * list tok) :=
  match fuel with O => None | S f =>
    match parse f 0 ts with
    | Some (e, KComma :: r) =>
        match parse_items1 f r with Some (rest, r') => Some (ECons e rest, r') | None => None end
    | Some (e, r) => Some (ECons e ENil, r)
    | None => None
    end
  end
with parse_whens (fuel : nat) (ts : list tok) {struct fuel} : option (ewlist * list tok) :=
  match fuel with O => None | S f =>
    match ts with
    | KWhen :: r =>
        match parse f 0 r with
        | Some (c, KThen :: r1) =>
            match parse f 0 r1 with
            | Some (v, r2) =>
                match parse_whens f r2 with Some (ws, r3) => Some (EWCons c v ws, r3) | None => None end
            | None => None end
        | _ => None end
    | _ => Some (EWNil, ts)
    end
  end.

End Grammar.

(* size of a token list bounds the fuel the harness uses: every recursive call consumes fuel, and
   the number of calls is at most (levels + 3) per token *)
Definition fuel_for (T : ptable) (ts : list tok) : nat := (maxl T + 6) * (List.length ts + 2).
