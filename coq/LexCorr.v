(* LexCorr.v — Python data values, the sites that wrap them, the statement positions, and the executable check
   used by the C03 correspondence.  Definitions only. *)
From PV Require Import Base Crit gen.TermsTable Terms gen.C03Table Lex.

(* ------------------------------------------------------------------------------------------- *)
(* Python values as data (property C03: str, int, float, Decimal, bool, None, date/datetime, UUID, Enum)        *)
(* ------------------------------------------------------------------------------------------- *)
Inductive pyval :=
| PStr (s : string)            (* str and subclasses of str *)
| PInt (z : Z)
| PBool (b : bool)
| PNone
| PFloat (repr : string)       (* str(value) as Python prints it *)
| PDecimal (repr : string)
| PDate (iso : string)         (* date / datetime: value.isoformat() *)
| PUuid (txt : string)         (* str(value) *)
| PEnum (v : pyval)            (* an Enum member: its .value *)
| POther (repr : string).      (* not in the property's list (bytes, time, ...): falls through to str(value) *)

(* ValueWrapper.get_formatted_value (terms.py 434-454), in its dispatch order:
     Term (not data) ; Enum -> recurse on .value ; date -> isoformat() through the str branch ; str -> quoted ;
     bool -> true/false (tested AFTER str and BEFORE the fall-through, so True never reaches str(value)) ;
     UUID -> str() through the str branch ; None -> null ; anything else -> str(value). *)
Fixpoint fmt_value (al : option string) (v : pyval) : term :=
  match v with
  | PEnum v' => fmt_value al v'
  | PDate iso => TValS iso al
  | PStr s => TValS s al
  | PBool b => TValB b false al
  | PUuid txt => TValS txt al
  | PNone => TValNone al
  | PInt z => TValI z al
  | PFloat r => TValRaw r al
  | PDecimal r => TValRaw r al
  | POther r => TValRaw r al
  end.

(* SQLLiteValueWrapper.get_value_sql (dialects.py 932-936) looks at the wrapped object itself: only a bare bool
   becomes 1/0; an Enum whose value is a bool goes to the base class *)
Definition wrap_value (sqlite : bool) (al : option string) (v : pyval) : term :=
  match v with PBool b => TValB b sqlite al | _ => fmt_value al v end.

(* how a raw value becomes a term *)
Inductive wrapping :=
| WConst       (* Term.wrap_constant(v): None -> NullValue(), otherwise ValueWrapper(v) *)
| WConstCls    (* wrap_constant(v, wrapper_cls=self._wrapper_cls)   (QueryBuilder.select, INSERT rows since e7a5678) *)
| WCls         (* self._wrapper_cls(v)                              (QueryBuilder.set) *)
| WPlain.      (* ValueWrapper(v)   (on_duplicate_key_update, do_update, Column.default, explicit ValueWrapper) *)

Definition is_sqlite_wrapper (k : qclass) : bool := String.eqb (class_wrapper k) "SQLLiteValueWrapper".

Definition mk_value (w : wrapping) (k : qclass) (al : option string) (v : pyval) : term :=
  match w, v with
  | WConst, PNone | WConstCls, PNone => TLit "NULL" None
  | WConst, _ | WPlain, _ => wrap_value false al v
  | WConstCls, _ | WCls, _ => wrap_value (is_sqlite_wrapper k) al v
  end.

(* the property's list of data types, and the finite numbers among them *)
Fixpoint listed (v : pyval) : bool := match v with POther _ => false | PEnum v' => listed v' | _ => true end.
Fixpoint finite (v : pyval) : bool :=
  match v with PFloat r | PDecimal r => is_numeric_text r | PEnum v' => finite v' | _ => true end.
(* a token that is a literal of the SQL grammar: string literal, signed numeric literal, boolean, null *)
Definition literal_tok (t : ctok) : bool :=
  match t with
  | CLit _ _ => true
  | CNum r => is_numeric_text r
  | CBool s => existsb (String.eqb s) ["true"; "false"; "1"; "0"]
  | CNull => true
  | CText s => String.eqb s "NULL"          (* NullValue(), from wrap_constant(None) *)
  end.

(* ------------------------------------------------------------------------------------------- *)
(* statement positions: the expression the harness builds through the public API around the value               *)
(* ------------------------------------------------------------------------------------------- *)
Inductive pos :=
| PWhereEq | PWhereIn | PWhereBetween | PWhereLike | PSelectFunc | PWhereFunc | PSelectCase | PSelectVal | PSelectAlias
| PInsert | PSet | POnDup | POnConflict | PDefault | PHaving | PJoinOn | PSubWhere | PFromSub | PTupleEq | PArrayElem
| PArith | PCaseWhen | PCaseElse | PWithOne | PWithTwo | PArithSub | PDeleteWhere | PReplaceRow | PInsertSelect | PUpdateWhere
| PMethod.   (* Field("a").<any public method or operator spelling>(v): only the value is modelled, the rest is frame *)

Definition fa : term := TField "a" None None.
Definition tbl (n : string) : option tref := Some {| tname := n; tschema := []; talias := None |}.

Definition plug (p : pos) (v : term) : term :=
  match p with
  | PWhereEq | PHaving | PDeleteWhere => TBasic CEq fa v None                                   (* Field("a") == v *)
  | PWhereIn => TIn fa (TTuple (TCons v (TCons (TValI 1 None) TNil)) None) false None   (* Field("a").isin([v, 1]) *)
  | PWhereBetween => TBetween fa v (TValS "z" None) None                         (* Field("a").between(v, "z") *)
  | PWhereLike => TBasic CLike fa v None                                         (* Field("a").like(v) *)
  | PSelectFunc => TFunc "F" (TCons v (TCons (TValI 2 None) TNil)) None None     (* Function("F", v, 2) *)
  | PWhereFunc => TBasic CEq (TFunc "G" (TCons fa (TCons v TNil)) None None) (TValI 1 None) None
  | PSelectCase => TCase (WCons (TBasic CEq fa (TValI 1 None) None) v WNil) (OSome v) None   (* Case().when(a==1, v).else_(v) *)
  | PSelectVal | PSelectAlias | PInsert | PReplaceRow | PSet | POnDup | POnConflict | PDefault | PMethod => v
  | PJoinOn => TBasic CEq (TField "a" (tbl "t") None) v None                     (* t.a == v *)
  | PSubWhere | PFromSub | PInsertSelect => TBasic CEq (TField "y" (tbl "u") None) v None        (* u.y == v inside a sub-query *)
  | PTupleEq => TBasic CEq (TTuple (TCons fa (TCons (TField "b" None None) TNil)) None)
                           (TTuple (TCons v (TCons (TValI 1 None) TNil)) None) None
  | PArrayElem => TArray (TCons v (TCons (TValS "b" None) TNil)) None            (* Array(v, "b") *)
  | PArith => TArith OAdd fa v None                                              (* Field("a") + v *)
  | PArithSub => TArith OSub fa v None                                           (* Field("a") - v *)
  | PCaseWhen => TCase (WCons (TBasic CEq fa v None) (TValI 1 None) WNil) (OSome (TValI 2 None)) None   (* Case().when(a==v, 1).else_(2) *)
  | PCaseElse => TCase (WCons (TBasic CEq fa (TValI 1 None) None) (TValI 0 None) WNil) (OSome v) None   (* Case().when(a==1, 0).else_(v) *)
  | PWithOne | PWithTwo | PUpdateWhere => TBasic CEq (TField "b" None None) v None             (* Field("b") == v in the body of a CTE *)
  end.

Definition pos_wrap (p : pos) : wrapping :=
  match p with
  | PSelectVal | PInsert | PReplaceRow => WConstCls
  | PSet => WCls
  | PSelectAlias | POnDup | POnConflict | PDefault => WPlain
  | _ => WConst
  end.
Definition pos_alias (p : pos) : option string := match p with PSelectAlias => Some "al" | _ => None end.

Definition with_flags (c : ctx) (wa' wn' subq' : bool) : ctx :=
  {| q := q c; sq := sq c; aq := aq c; askw := askw c; dia := dia c; wa := wa'; wn := wn'; subq := subq'; subc := false |}.

(* the keyword arguments that reach the expression (queries.py: _select_sql passes with_alias=True, subquery=True;
   _values_sql with_alias=False, subquery=True; _where_sql and JoinOn.get_sql pass subquery=True; _having_sql, _set_sql, MySQL's
   _on_duplicate_key_update_sql pass kwargs unchanged; PostgreSQL's _on_conflict_action_sql adds
   with_namespace=True; a join switches with_namespace on; Column.get_sql gets the CREATE builder's kwargs;
   _with_sql renders each CTE body through its own QueryBuilder.get_sql, i.e. an ordinary WHERE) *)
Definition pos_ctx (p : pos) (k : qclass) : ctx :=
  let c := class_ctx k in
  match p with
  | PWhereEq | PWhereIn | PWhereBetween | PWhereLike | PWhereFunc | PTupleEq | PSubWhere | PFromSub | PWithOne | PWithTwo | PInsert | PReplaceRow | PDeleteWhere | PInsertSelect | PUpdateWhere | PMethod =>
      with_flags c false false true
  | PSelectFunc | PSelectCase | PSelectVal | PSelectAlias | PArrayElem | PArith | PArithSub | PCaseWhen | PCaseElse =>
      with_flags c true false true
  | PSet | POnDup | PHaving => with_flags c false false false
  | POnConflict => with_flags c false true false
  | PJoinOn => with_flags c false true true
  | PDefault => create_ctx k
  end.

Definition value_term (p : pos) (k : qclass) (v : pyval) : term := plug p (mk_value (pos_wrap p) k (pos_alias p) v).
Definition placeholder : pyval := PStr "PLH".

(* ------------------------------------------------------------------------------------------- *)
(* statement wrapper: the frame (everything around the modelled expression) is cut out of the text the         *)
(* implementation produced for the placeholder value, at the place where the model's rendering of the          *)
(* placeholder expression occurs                                                                               *)
(* ------------------------------------------------------------------------------------------- *)
Definition cut (needle hay : string) : option (string * string) :=
  match String.index 0 needle hay with
  | Some n => Some (String.substring 0 n hay,
                    String.substring (n + String.length needle) (String.length hay - n - String.length needle) hay)
  | None => None
  end.

Definition frame (p : pos) (k : qclass) (text_ph : string) : option (string * string) :=
  match render (pos_ctx p k) (value_term p k placeholder) with
  | Ok rph => cut rph text_ph
  | Err _ => None
  end.

Definition model_stmt (p : pos) (k : qclass) (v : pyval) (text_ph : string) : string :=
  match frame p k text_ph, render (pos_ctx p k) (value_term p k v) with
  | Some (pre, suf), Ok r => pre ++ r ++ suf
  | None, _ => "!noframe"
  | _, Err e => "!" ++ e
  end.

(* the whole statement as a token list, and its re-reading *)
Definition stmt_toks (p : pos) (k : qclass) (v : pyval) (text_ph : string) : option (list ctok) :=
  match frame p k text_ph, toks (pos_ctx p k) (value_term p k v) with
  | Some (pre, suf), Ok ts => Some (CText pre :: ts ++ [CText suf])%list
  | _, _ => None
  end.

Definition opair_eqb (x y : option (string * string)) : bool :=
  option_eqb (fun a b => String.eqb (fst a) (fst b) && String.eqb (snd a) (snd b)) x y.

(* a correspondence case *)
Record vcase := {
  vc_class : qclass; vc_pos : pos; vc_val : pyval;
  vc_text : string;          (* str(query) for the value *)
  vc_text_ph : string;       (* str(query) for the placeholder string in the same place *)
  (* cross-check of the Python twin of the two readers: a source text beginning at a literal, and what the
     Python readers returned for it *)
  vc_src : option string;
  vc_py_std : option (string * string);
  vc_py_bs : option (string * string)
}.

Definition check_case (x : vcase) : bool :=
  let p := vc_pos x in let k := vc_class x in
  String.eqb (model_stmt p k (vc_val x) (vc_text_ph x)) (vc_text x)
  && match stmt_toks p k (vc_val x) (vc_text_ph x) with
     | Some ts => String.eqb (cflatten ts) (vc_text x) && follow_ok ts && lex_along ts (vc_text x)
     | None => false
     end
  && match vc_src x with
     | Some src => opair_eqb (read_std squote src) (vc_py_std x) && opair_eqb (read_bs mysql_esc squote src) (vc_py_bs x)
     | None => true
     end.

Definition show_case (x : vcase) : string := model_stmt (vc_pos x) (vc_class x) (vc_val x) (vc_text_ph x).
