(* PageCorr.v — executable interpreter for the C12 correspondence cases. Definitions only.
   A case: class, statement kind, DISTINCT flag, the pagination calls in program order, the opaque statement
   parts cut out of renderings without pagination (rest, ORDER BY text, FOR UPDATE text), and the text (or
   "!ExceptionName") the implementation produced for the full program. *)
From PV Require Import Base Page.

Definition ccase := (cls * kind * bool * list call * (string * string * string) * string)%type.

Definition model_text (x : ccase) : string :=
  let '(c, k, d, calls, (rest, ob, fu), _) := x in
  match page_of c k calls with
  | Ok p => stmt_text c k d rest ob fu p
  | Err e => "!" ++ e
  end.

Definition check_case (x : ccase) : bool := String.eqb (model_text x) (snd x).
Definition show_case (x : ccase) : string := model_text x.
