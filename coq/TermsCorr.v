(* TermsCorr.v — correspondence entry points for the expression renderer. Definitions only. *)
From PV Require Import Base Crit gen.TermsTable Terms.

Definition render_text (c : ctx) (t : term) : string :=
  match render c t with Ok s => s | Err e => "!" ++ e end.

(* a case: context, term, and the text (or "!ExceptionClass") the implementation produced *)
Definition term_case := (ctx * term * string)%type.
Definition check_term (x : term_case) : bool :=
  let '(c, t, expected) := x in String.eqb (render_text c t) expected.
Definition show_term (x : term_case) : string :=
  let '(c, t, _) := x in render_text c t.
