(* DdlCorr.v - executable interpreter for the C17 correspondence cases. Definitions only.
   A case is a program of builder calls (exactly what the harness performs on pypika objects)
   together with what the implementation printed: str(ddl), or "!" ++ the exception class. *)
From PV Require Import Base gen.C17Table Ddl.

Inductive dcase :=
| CaseCreate (cls : ccls) (t : table) (calls : list ccall) (out : string)
| CaseIndex (i : iname) (calls : list icall) (out : string)
| CaseDrop (cls : dcls) (calls : list dcall) (out : string).

Definition model_text (c : dcase) : string :=
  match c with
  | CaseCreate cls t calls _ => create_text cls t calls
  | CaseIndex i calls _ => index_text i calls
  | CaseDrop cls calls _ => drop_text cls calls
  end.

Definition impl_text (c : dcase) : string :=
  match c with CaseCreate _ _ _ o | CaseIndex _ _ o | CaseDrop _ _ o => o end.

Definition check_case (c : dcase) : bool := String.eqb (model_text c) (impl_text c).
Definition show_case (c : dcase) : string := model_text c.
