(* DdlCorr.v - executable interpreter for the C17 correspondence cases. Definitions only.
   A case is a program of builder calls (exactly what the harness performs on pypika objects)
   together with what the implementation printed: str(ddl), or "!" ++ the exception class. *)
From PV Require Import Base gen.C17Table Ddl.

Inductive dcase :=
| CaseCreate (cls : ccls) (t : table) (calls : list ccall) (out : string)
| CaseIndex (i : iname) (calls : list icall) (out : string)
| CaseDrop (cls : dcls) (calls : list dcall) (out : string).

Definition model_text (c : dcase) : string :=
  match c with
  | CaseCreate cls t calls _ => create_text cls t calls
  | CaseIndex i calls _ => index_text i calls
  | CaseDrop cls calls _ => drop_text cls calls
  end.

Definition impl_text (c : dcase) : string :=
  match c with CaseCreate _ _ _ o | CaseIndex _ _ o | CaseDrop _ _ o => o end.

Definition check_one (c : dcase) : bool := String.eqb (model_text c) (impl_text c).

(* A correspondence case is a list of observations: one for a single fluent chain; for a branching program (a base
   builder, several builders derived from it, each rendered at some moment) one per rendering - every rendering must be
   what the model prints for that builder's own call list. *)
Definition check_case (l : list dcase) : bool := forallb check_one l.
Definition show_case (l : list dcase) : string := join " || " (map model_text l).
