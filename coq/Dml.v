(* Dml.v — C05: the builder-call layer of INSERT / REPLACE / INSERT OR REPLACE / UPDATE / DELETE
   (pypika/queries.py: columns 908-920, insert/replace 922-930, _apply_terms 1217-1232, set 1115-1118,
   where, limit; dialects.py: SQLLiteQueryBuilder.insert_or_replace, SQLLiteValueWrapper), the mapping of the
   final builder state to a statement of Query.v (whose renderer is shared and tied to the code by the
   `queries` correspondence family), and a positional reader of the rendered DML text.
   Definitions only. *)
From PV Require Import Base Crit gen.TermsTable Terms Page gen.QueryTable Query.

(* ------------------------------------------------------------------------------------------------ *)
(* 1. Python values handed to insert()/set()                                                          *)
(* ------------------------------------------------------------------------------------------------ *)
Inductive pyval :=
| VStr (s : string)          (* str, as its UTF-8 bytes *)
| VInt (z : Z)               (* int (not bool) *)
| VBool (b : bool)
| VNone
| VFloat (txt : string)      (* float: txt = str(value) *)
| VTerm (t : term).          (* already a pypika Term: passes through unwrapped *)

(* which Python class the stored object has (for the state dump compared with the real builder) *)
Inductive wk := WValue | WSqlite | WNull | WTerm | WTuple | WArray.
Definition wk_name (k : wk) : string :=
  match k with WValue => "ValueWrapper" | WSqlite => "SQLLiteValueWrapper" | WNull => "NullValue" | WTerm => "Term"
             | WTuple => "Tuple" | WArray => "Array" end.
Definition cell := (wk * term)%type.

(* Term.wrap_constant(val, wrapper_cls): a Term passes through, None becomes NullValue, everything else is wrapped.
   [wrap_plain] is the call without wrapper_cls (the items of a nested Tuple / Array); [wrap_constant c] is what
   _apply_terms does since e7a5678: wrapper_cls = the class's _wrapper_cls (SQLLiteValueWrapper for SQLLiteQuery) *)
Definition wrap_with (sqlite : bool) (v : pyval) : cell :=
  match v with
  | VTerm t => (WTerm, t)
  | VNone => (WNull, TLit "NULL" None)
  | VStr s => (if sqlite then WSqlite else WValue, TValS s None)
  | VInt z => (if sqlite then WSqlite else WValue, TValI z None)
  | VBool b => (if sqlite then WSqlite else WValue, TValB b sqlite None)
  | VFloat x => (if sqlite then WSqlite else WValue, TValRaw x None)
  end.
Definition wrap_plain (v : pyval) : cell := wrap_with false v.
Definition wrap_constant (c : cls) (v : pyval) : cell := wrap_with (cls_sqlite_bool c) v.

(* set(): self._wrapper_cls(value) — unconditionally, also around a Term (ValueWrapper(Term) renders the term) *)
Definition wrap_set (c : cls) (v : pyval) : cell :=
  let sqlite := cls_sqlite_bool c in
  (if sqlite then WSqlite else WValue,
   match v with
   | VTerm t => t
   | VNone => TValNone None
   | VStr s => TValS s None
   | VInt z => TValI z None
   | VBool b => TValB b sqlite None
   | VFloat x => TValRaw x None
   end).

(* ------------------------------------------------------------------------------------------------ *)
(* 2. calls                                                                                           *)
(* ------------------------------------------------------------------------------------------------ *)
Inductive seqkind := SqTuple | SqList | SqSet.
Inductive arg := AVal (v : pyval) | ASeq (k : seqkind) (l : list pyval).
Inductive colarg := CStr (s : string) | CFld (t : term).
Inductive colitem := ColOne (c : colarg) | ColSeq (l : list colarg).

(* how the builder is obtained: Q.into(t) | Q.update(t) | Q.from_(t).delete() *)
Inductive start := SInto (t : tref) | SUpdate (t : tref) | SDelete (t : tref)
                 | SBuilder.   (* Q._builder(): nothing chosen yet; into() / from_() / select() come as calls, in any order *)

Inductive call :=
| KColumns (args : list colitem)
| KInsert (args : list arg)
| KReplace (args : list arg)
| KInsertOrReplace (args : list arg)
| KSet (f : colarg) (v : pyval)
| KFromSelect (t : tref) (sels : list term)     (* .from_(t).select( *sels ), sels being Field / arithmetic / function terms *)
| KWhere (c : term)
| KLimit (n : Z)
| KInto (t : tref)                              (* .into(t) on a builder that has no INSERT target yet *)
| KFrom (t : tref)                              (* .from_(t) *)
| KSel (sels : list term).                   (* .select( *sels ) *)

Record dstate := mkD {
  d_cls : cls;
  d_into : option tref;                (* _insert_table *)
  d_update : option tref;              (* _update_table *)
  d_delete : bool;                     (* _delete_from *)
  d_from : list tref;                  (* _from *)
  d_columns : list term;               (* _columns *)
  d_values : list (list cell);         (* _values *)
  d_updates : list (term * cell);      (* _updates *)
  d_replace : bool;                    (* _replace *)
  d_ior : bool;                        (* SQLLiteQueryBuilder._insert_or_replace *)
  d_selects : list term;               (* _selects *)
  d_where : option term;               (* _wheres *)
  d_limit : option Z                   (* _limit *)
}.

Definition init (c : cls) (s : start) : dstate :=
  match s with
  | SInto t => mkD c (Some t) None false [] [] [] [] false false [] None None
  | SUpdate t => mkD c None (Some t) false [] [] [] [] false false [] None None
  | SDelete t => mkD c None None true [t] [] [] [] false false [] None None
  | SBuilder => mkD c None None false [] [] [] [] false false [] None None
  end.

Definition set_into (s : dstate) (x : option tref) : dstate :=
  mkD (d_cls s) x (d_update s) (d_delete s) (d_from s) (d_columns s) (d_values s) (d_updates s) (d_replace s) (d_ior s)
      (d_selects s) (d_where s) (d_limit s).
Definition set_columns (s : dstate) (x : list term) : dstate :=
  mkD (d_cls s) (d_into s) (d_update s) (d_delete s) (d_from s) x (d_values s) (d_updates s) (d_replace s) (d_ior s)
      (d_selects s) (d_where s) (d_limit s).
Definition set_values (s : dstate) (x : list (list cell)) : dstate :=
  mkD (d_cls s) (d_into s) (d_update s) (d_delete s) (d_from s) (d_columns s) x (d_updates s) (d_replace s) (d_ior s)
      (d_selects s) (d_where s) (d_limit s).
Definition set_updates (s : dstate) (x : list (term * cell)) : dstate :=
  mkD (d_cls s) (d_into s) (d_update s) (d_delete s) (d_from s) (d_columns s) (d_values s) x (d_replace s) (d_ior s)
      (d_selects s) (d_where s) (d_limit s).
Definition set_replace (s : dstate) (r i : bool) : dstate :=
  mkD (d_cls s) (d_into s) (d_update s) (d_delete s) (d_from s) (d_columns s) (d_values s) (d_updates s) r i
      (d_selects s) (d_where s) (d_limit s).
Definition set_from_selects (s : dstate) (f : list tref) (x : list term) : dstate :=
  mkD (d_cls s) (d_into s) (d_update s) (d_delete s) f (d_columns s) (d_values s) (d_updates s) (d_replace s) (d_ior s)
      x (d_where s) (d_limit s).
Definition set_where (s : dstate) (x : option term) : dstate :=
  mkD (d_cls s) (d_into s) (d_update s) (d_delete s) (d_from s) (d_columns s) (d_values s) (d_updates s) (d_replace s)
      (d_ior s) (d_selects s) x (d_limit s).
Definition set_limit (s : dstate) (x : option Z) : dstate :=
  mkD (d_cls s) (d_into s) (d_update s) (d_delete s) (d_from s) (d_columns s) (d_values s) (d_updates s) (d_replace s)
      (d_ior s) (d_selects s) (d_where s) x.

Fixpoint mapM {A B} (f : A -> res B) (l : list A) : res (list B) :=
  match l with
  | [] => Ok []
  | x :: r => match f x with Ok y => match mapM f r with Ok ys => Ok (y :: ys) | Err e => Err e end | Err e => Err e end
  end.

(* iterating a Python str yields its characters: split the UTF-8 bytes in front of every non-continuation byte *)
Definition is_cont (a : ascii) : bool := match a with Ascii _ _ _ _ _ _ false true => true | _ => false end.
Fixpoint utf8_chars (s : string) : list string :=
  match s with
  | EmptyString => []
  | String a r =>
      match r with
      | String b _ =>
          if is_cont b then match utf8_chars r with x :: xs => String a x :: xs | [] => [String a EmptyString] end
          else String a EmptyString :: utf8_chars r
      | EmptyString => [String a EmptyString]
      end
  end.

Definition tl_of (l : list term) : tlist := fold_right TCons TNil l.

(* one value of a single-row call: value if isinstance(value, Term) else self.wrap_constant(value) *)
Definition wrap_arg (c : cls) (a : arg) : res cell :=
  match a with
  | AVal v => Ok (wrap_constant c v)
  | ASeq SqTuple l => Ok (WTuple, TTuple (tl_of (map (fun v => snd (wrap_plain v)) l)) None)
  | ASeq SqList l => Ok (WArray, TArray (tl_of (map (fun v => snd (wrap_plain v)) l)) None)
  | ASeq SqSet _ => Err "unmodelled"       (* ValueWrapper(set): str(set) is not modelled *)
  end.
(* `for value in values` over one argument of a several-rows call *)
Definition iter_arg (a : arg) : res (list pyval) :=
  match a with
  | ASeq _ l => Ok l                        (* a set iterates in Python's order: the harness reports that order *)
  | AVal (VStr s) => Ok (map VStr (utf8_chars s))
  | AVal _ => Err "TypeError"               (* int / None / float / Term: not iterable *)
  end.

(* the rows one insert-like call contributes: `if not isinstance(terms[0], (list, tuple, set)): terms = [terms]` *)
Definition arg_rows (c : cls) (args : list arg) : res (list (list cell)) :=
  match args with
  | [] => Ok []
  | AVal _ :: _ => match mapM (wrap_arg c) args with Ok row => Ok [row] | Err e => Err e end
  | ASeq _ _ :: _ => match mapM iter_arg args with Ok rows => Ok (map (map (wrap_constant c)) rows) | Err e => Err e end
  end.

Definition apply_terms (args : list arg) (st : dstate) : res dstate :=
  match d_into st with
  | None => Err "AttributeError"
  | Some _ => match arg_rows (d_cls st) args with
              | Ok rows => Ok (set_values st (d_values st ++ rows))
              | Err e => Err e end
  end.

(* columns( *terms ): `if terms and isinstance(terms[0], (list, tuple)): terms = terms[0]` *)
Definition col_args (args : list colitem) : res (list colarg) :=
  match args with
  | ColSeq l :: _ => Ok l
  | _ => mapM (fun i => match i with ColOne c => Ok c | ColSeq _ => Err "unmodelled" end) args
  end.
Definition col_term (tb : tref) (c : colarg) : term :=
  match c with CStr s => TField s (Some tb) None | CFld t => t end.
(* set(): Field(field) if not isinstance(field, Field) else field *)
Definition set_field (c : colarg) : term := match c with CStr s => TField s None None | CFld t => t end.

Definition step (cl : call) (st : dstate) : res dstate :=
  match cl with
  | KColumns args =>
      match d_into st with
      | None => Err "AttributeError"
      | Some tb => match col_args args with
                   | Ok cs => Ok (set_columns st (d_columns st ++ map (col_term tb) cs))
                   | Err e => Err e end
      end
  | KInsert args => match apply_terms args st with Ok s' => Ok (set_replace s' false (d_ior s')) | Err e => Err e end
  | KReplace args => match apply_terms args st with Ok s' => Ok (set_replace s' true (d_ior s')) | Err e => Err e end
  | KInsertOrReplace args =>
      match d_cls st with
      | CSQLLite => match apply_terms args st with Ok s' => Ok (set_replace s' true true) | Err e => Err e end
      | _ => Err "TypeError"               (* Selectable.__getattr__ gives a Field; calling it raises TypeError *)
      end
  | KSet f v => Ok (set_updates st (d_updates st ++ [(set_field f, wrap_set (d_cls st) v)]))
  | KFromSelect t sels => Ok (set_from_selects st (d_from st ++ [t]) (d_selects st ++ sels))
  | KWhere c => Ok (set_where st (match d_where st with None => Some c | Some w => Some (TCplx BAnd w c None) end))
  | KLimit n => Ok (set_limit st (Some n))
  | KInto t =>
      match d_into st with
      | Some _ => Err "AttributeError"
      | None => match d_selects st with
                | [] => Ok (set_into st (Some t))
                | _ => Err "unmodelled"      (* _select_into: a SELECT ... INTO statement, not an INSERT *)
                end
      end
  | KFrom t => Ok (set_from_selects st (d_from st ++ [t]) (d_selects st))
  | KSel sels => Ok (set_from_selects st (d_from st) (d_selects st ++ sels))
  end.

Fixpoint run_from (cs : list call) (st : dstate) : res dstate :=
  match cs with
  | [] => Ok st
  | cl :: r => match step cl st with Ok s' => run_from r s' | Err e => Err e end
  end.
Definition run (c : cls) (s : start) (cs : list call) : res dstate := run_from cs (init c s).

(* ------------------------------------------------------------------------------------------------ *)
(* 3. the final state as a statement of Query.v, and str(q)                                           *)
(* ------------------------------------------------------------------------------------------------ *)
Definition sel_query (st : dstate) : option query :=
  match d_selects st with
  | [] => None
  | sels => Some (QSel (d_cls st) [] false (map IT sels) (map SrcT (d_from st)) [] (option_map IT (d_where st)) None [] []
                       (d_limit st) None false None)
  end.
Inductive skind := SkUpdate | SkDelete | SkInsert | SkNone.
Definition state_kind (st : dstate) : skind :=
  match d_update st with
  | Some _ => SkUpdate
  | None => if d_delete st then SkDelete else match d_into st with Some _ => SkInsert | None => SkNone end
  end.
Definition state_query (st : dstate) : option query :=
  match d_update st with
  | Some t => Some (QUpd (d_cls st) t (map (fun fv => (fst fv, IT (snd (snd fv)))) (d_updates st)) (map SrcT (d_from st)) []
                         (option_map IT (d_where st)) (d_limit st))
  | None =>
      if d_delete st then Some (QDel (d_cls st) (map SrcT (d_from st)) (option_map IT (d_where st)))
      else match d_into st with
           | Some t => Some (QIns (d_cls st) t (d_columns st) (map (map (fun c => IT (snd c))) (d_values st)) (sel_query st)
                                  (d_replace st) None)
           | None => None
           end
  end.
Definition nonempty_str (s : string) : bool := match s with EmptyString => false | _ => true end.
(* str(q): Query.str_query of the state, plus the two pieces Query.v has no slot for: SQLite's "INSERT OR " prefix
   of _replace_sql, and the pagination tail of a DELETE *)
Definition dml_text (st : dstate) : res string :=
  match state_query st with
  | None => Ok ""
  | Some x =>
      match str_query x with
      | Err e => Err e
      | Ok s =>
          match state_kind st with
          | SkInsert => Ok (if d_replace st && d_ior st && nonempty_str s then "INSERT OR " ++ s else s)
          | SkDelete => Ok (s ++ page_tail (d_cls st) KSelect (d_limit st) None)
          | _ => Ok s
          end
      end
  end.

(* the state dump compared with the real builder's _columns/_values/_updates/_replace/_insert_or_replace *)
Definition ns_ctx : ctx :=
  {| q := Some """"; sq := Some "'"; aq := None; askw := false; dia := None; wa := false; wn := true; subq := false; subc := false |}.
Definition rtext (c : ctx) (t : term) : string := match render c t with Ok s => s | Err e => "!" ++ e end.
Definition cell_dump (c : cell) : string := wk_name (fst c) ++ ":" ++ rtext str_ctx (snd c).
Record dump := mkDump { u_cols : list string; u_vals : list (list string); u_upds : list (string * string);
                        u_replace : bool; u_ior : bool }.
Definition dump_of (st : dstate) : dump :=
  mkDump (map (rtext ns_ctx) (d_columns st)) (map (map cell_dump) (d_values st))
         (map (fun fv => (rtext ns_ctx (fst fv), cell_dump (snd fv))) (d_updates st)) (d_replace st) (d_ior st).
Definition dump_eqb (a b : dump) : bool :=
  list_eqb String.eqb (u_cols a) (u_cols b) && list_eqb (list_eqb String.eqb) (u_vals a) (u_vals b)
  && list_eqb (fun x y => String.eqb (fst x) (fst y) && String.eqb (snd x) (snd y)) (u_upds a) (u_upds b)
  && Bool.eqb (u_replace a) (u_replace b) && Bool.eqb (u_ior a) (u_ior b).

(* ------------------------------------------------------------------------------------------------ *)
(* 4. what a call list asks for, positionally                                                         *)
(* ------------------------------------------------------------------------------------------------ *)
(* legal argument shapes: all scalars (one row), or all tuples/lists (one row each) *)
Definition is_scalar (a : arg) : bool := match a with AVal _ => true | ASeq _ _ => false end.
Definition is_row (a : arg) : bool := match a with ASeq SqTuple _ | ASeq SqList _ => true | _ => false end.
Definition legal_args (args : list arg) : bool := forallb is_scalar args || forallb is_row args.
Definition rows_of_args (args : list arg) : list (list pyval) :=
  match args with
  | [] => []
  | AVal _ :: _ => [flat_map (fun a => match a with AVal v => [v] | ASeq _ _ => [] end) args]
  | ASeq _ _ :: _ => map (fun a => match a with ASeq _ l => l | AVal _ => [] end) args
  end.
Definition rows_of_call (cl : call) : list (list pyval) :=
  match cl with KInsert a | KReplace a | KInsertOrReplace a => rows_of_args a | _ => [] end.
Definition rows_of_calls (cs : list call) : list (list pyval) := flat_map rows_of_call cs.

Definition legal_cols (args : list colitem) : bool :=
  match args with
  | [ColSeq _] => true
  | _ => forallb (fun i => match i with ColOne _ => true | ColSeq _ => false end) args
  end.
Definition cols_of_args (args : list colitem) : list colarg :=
  match args with
  | ColSeq l :: _ => l
  | _ => flat_map (fun i => match i with ColOne c => [c] | ColSeq _ => [] end) args
  end.
Definition cols_of_calls (cs : list call) : list colarg :=
  flat_map (fun cl => match cl with KColumns a => cols_of_args a | _ => [] end) cs.
Definition sets_of_calls (cs : list call) : list (colarg * pyval) :=
  flat_map (fun cl => match cl with KSet f v => [(f, v)] | _ => [] end) cs.
Definition where_step (acc : option term) (cl : call) : option term :=
  match cl with
  | KWhere c => match acc with None => Some c | Some w => Some (TCplx BAnd w c None) end
  | _ => acc
  end.
Definition where_of_calls (cs : list call) : option term := fold_left where_step cs None.
(* (_replace, _insert_or_replace) after the calls *)
Definition flag_step (acc : bool * bool) (cl : call) : bool * bool :=
  match cl with
  | KInsert _ => (false, snd acc)
  | KReplace _ => (true, snd acc)
  | KInsertOrReplace _ => (true, true)
  | _ => acc
  end.
Definition flags_of_calls (cs : list call) : bool * bool := fold_left flag_step cs (false, false).
Definition limit_step (acc : option Z) (cl : call) : option Z := match cl with KLimit n => Some n | _ => acc end.
Definition froms_of_calls (cs : list call) : list tref :=
  flat_map (fun cl => match cl with KFromSelect t _ | KFrom t => [t] | _ => [] end) cs.
Definition sels_of_calls (cs : list call) : list term :=
  flat_map (fun cl => match cl with KFromSelect _ s | KSel s => s | _ => [] end) cs.
Inductive imode := MInsert | MReplace | MInsertOrReplace.
Definition mode_of_flags (f : bool * bool) : imode :=
  if fst f then (if snd f then MInsertOrReplace else MReplace) else MInsert.
Definition mode_of_calls (cs : list call) : imode := mode_of_flags (flags_of_calls cs).

(* legal shapes, whatever the statement kind *)
Definition call_ok (c : cls) (cl : call) : bool :=
  match cl with
  | KColumns a => legal_cols a
  | KInsert a | KReplace a => legal_args a
  | KInsertOrReplace a => legal_args a && cls_eqb c CSQLLite
  | KInto _ => false          (* a second into() raises *)
  | _ => true
  end.
Definition nodml_call (cl : call) : bool :=
  match cl with KSet _ _ | KFromSelect _ _ | KWhere _ | KLimit _ | KFrom _ | KSel _ => true | _ => false end.
(* what may come in front of into() without changing anything: from_(), where(), limit() *)
Definition pre_into_call (cl : call) : bool := match cl with KFrom _ | KWhere _ | KLimit _ => true | _ => false end.
(* call lists of an INSERT with literal rows / of an UPDATE / of a DELETE *)
Definition insert_call_ok (c : cls) (cl : call) : bool :=
  match cl with
  | KColumns a => legal_cols a
  | KInsert a | KReplace a => legal_args a
  | KInsertOrReplace a => legal_args a && cls_eqb c CSQLLite
  | _ => false
  end.
Definition update_call_ok (cl : call) : bool := match cl with KSet _ _ | KWhere _ => true | _ => false end.
Definition delete_call_ok (cl : call) : bool := match cl with KWhere _ => true | _ => false end.
(* INSERT ... SELECT: columns, from+select, where, and insert()/replace() without arguments to choose the verb *)
Definition inssel_call_ok (cl : call) : bool :=
  match cl with
  | KColumns a => legal_cols a
  | KFromSelect _ _ | KWhere _ | KFrom _ | KSel _ => true
  | KInsert [] | KReplace [] => true
  | _ => false
  end.

(* ------------------------------------------------------------------------------------------------ *)
(* 5. literal tokens and the positional reader                                                         *)
(* ------------------------------------------------------------------------------------------------ *)
Inductive lit := LStr (s : string) | LBare (s : string).
Definition sqc : ascii := "'"%char.
Definition dqc : ascii := """"%char.
Definition fmt_lit (l : lit) : string :=
  match l with LStr s => String sqc (double_char sqc s ++ String sqc EmptyString) | LBare t => t end.

Inductive dml_ast :=
| AInsert (m : imode) (tbl : string) (cols : list string) (rows : list (list lit))
| AInsertSelect (m : imode) (tbl : string) (cols : list string) (sel : string)
| AUpdate (tbl : string) (sets : list (string * lit)) (wh : option string)
| ADelete (tbl : string) (wh : option string).

(* the token an inserted / assigned Python value is written as *)
Definition value_tok_ins (c : cls) (v : pyval) : lit :=
  match v with
  | VStr s => LStr s
  | VInt z => LBare (Z_to_string z)
  | VBool b => LBare (if cls_sqlite_bool c then (if b then "1" else "0") else (if b then "true" else "false"))
  | VNone => LBare "NULL"
  | VFloat x => LBare x
  | VTerm _ => LBare ""
  end.
Definition value_tok_set (c : cls) (v : pyval) : lit :=
  match v with
  | VStr s => LStr s
  | VInt z => LBare (Z_to_string z)
  | VBool b => LBare (if cls_sqlite_bool c then (if b then "1" else "0") else (if b then "true" else "false"))
  | VNone => LBare "null"
  | VFloat x => LBare x
  | VTerm _ => LBare ""
  end.

(* text after an opening quote [qc]: content with doubled quotes undone, and the rest after the closing quote *)
Fixpoint read_quoted (qc : ascii) (s : string) : option (string * string) :=
  match s with
  | EmptyString => None
  | String a r =>
      if Ascii.eqb a qc then
        match r with
        | String b r' =>
            if Ascii.eqb b qc then
              match read_quoted qc r' with Some (x, rest) => Some (String qc x, rest) | None => None end
            else Some (EmptyString, r)
        | EmptyString => Some (EmptyString, EmptyString)
        end
      else match read_quoted qc r with Some (x, rest) => Some (String a x, rest) | None => None end
  end.
Definition is_delim (a : ascii) : bool := Ascii.eqb a ","%char || Ascii.eqb a ")"%char || Ascii.eqb a " "%char.
Fixpoint read_bare (s : string) : string * string :=
  match s with
  | EmptyString => (EmptyString, EmptyString)
  | String a r => if is_delim a then (EmptyString, s) else let (t, rest) := read_bare r in (String a t, rest)
  end.
Definition read_lit (s : string) : option (lit * string) :=
  match s with
  | EmptyString => None
  | String a r =>
      if Ascii.eqb a sqc then match read_quoted sqc r with Some (x, rest) => Some (LStr x, rest) | None => None end
      else match read_bare s with
           | (EmptyString, _) => None
           | (t, rest) => Some (LBare t, rest)
           end
  end.
Definition read_ident (s : string) : option (string * string) :=
  match s with
  | String a r => if Ascii.eqb a dqc then read_quoted dqc r else None
  | EmptyString => None
  end.
Fixpoint strip_prefix (p s : string) : option string :=
  match p with
  | EmptyString => Some s
  | String a p' => match s with
                   | String b s' => if Ascii.eqb a b then strip_prefix p' s' else None
                   | EmptyString => None end
  end.

(* x1,x2,...,xn)  — consumes the closing parenthesis; [fuel] bounds the number of items *)
Section Items.
Context {A : Type} (rd : string -> option (A * string)).
Fixpoint read_items (fuel : nat) (s : string) : option (list A * string) :=
  match fuel with
  | O => None
  | S f =>
      match rd s with
      | Some (x, String a r) =>
          if Ascii.eqb a ","%char then
            match read_items f r with Some (xs, rest) => Some (x :: xs, rest) | None => None end
          else if Ascii.eqb a ")"%char then Some ([x], r)
          else None
      | _ => None
      end
  end.
End Items.
(* (row),(row),...,(row) up to the end of the text; [fi] bounds the width of a row, [fuel] the number of rows *)
Fixpoint read_rows (fi fuel : nat) (s : string) : option (list (list lit)) :=
  match fuel with
  | O => None
  | S f =>
      match s with
      | String a r =>
          if Ascii.eqb a "("%char then
            match read_items read_lit fi r with
            | Some (row, EmptyString) => Some [row]
            | Some (row, String b r2) =>
                if Ascii.eqb b ","%char then
                  match read_rows fi f r2 with Some rows => Some (row :: rows) | None => None end
                else None
            | None => None
            end
          else None
      | EmptyString => None
      end
  end.
(* "c1"=v1,"c2"=v2,...  — stops in front of whatever follows the last literal *)
Fixpoint read_sets (fuel : nat) (s : string) : option (list (string * lit) * string) :=
  match fuel with
  | O => None
  | S f =>
      match read_ident s with
      | Some (c, String a r) =>
          if Ascii.eqb a "="%char then
            match read_lit r with
            | Some (l, String b r2) =>
                if Ascii.eqb b ","%char then
                  match read_sets f r2 with Some (ps, rest) => Some ((c, l) :: ps, rest) | None => None end
                else Some ([(c, l)], String b r2)
            | Some (l, EmptyString) => Some ([(c, l)], EmptyString)
            | None => None
            end
          else None
      | _ => None
      end
  end.

Definition read_head (s : string) : option (imode * string) :=
  match strip_prefix "INSERT OR REPLACE INTO " s with
  | Some r => Some (MInsertOrReplace, r)
  | None =>
      match strip_prefix "INSERT INTO " s with
      | Some r => Some (MInsert, r)
      | None => match strip_prefix "REPLACE INTO " s with Some r => Some (MReplace, r) | None => None end
      end
  end.
(* [ WHERE <anything>] at the end of the statement *)
Definition read_where (s : string) : option (option string) :=
  match s with
  | EmptyString => Some None
  | _ => match strip_prefix " WHERE " s with Some w => Some (Some w) | None => None end
  end.
Definition after_cols (fuel : nat) (m : imode) (tbl : string) (cols : list string) (s : string) : option dml_ast :=
  match strip_prefix " VALUES " s with
  | Some r => match read_rows fuel fuel r with Some rows => Some (AInsert m tbl cols rows) | None => None end
  | None =>
      match strip_prefix " " s with
      | Some body => match strip_prefix "SELECT " body with
                     | Some _ => Some (AInsertSelect m tbl cols body)
                     | None => None end
      | None => None
      end
  end.
Definition parse_dml_fuel (fuel : nat) (s : string) : option dml_ast :=
  match read_head s with
  | Some (m, r) =>
      match read_ident r with
      | Some (tbl, r1) =>
          match strip_prefix " (" r1 with
          | Some r2 => match read_items read_ident fuel r2 with
                       | Some (cols, r3) => after_cols fuel m tbl cols r3
                       | None => None end
          | None => after_cols fuel m tbl [] r1
          end
      | None => None
      end
  | None =>
      match strip_prefix "UPDATE " s with
      | Some r =>
          match read_ident r with
          | Some (tbl, r1) =>
              match strip_prefix " SET " r1 with
              | Some r2 => match read_sets fuel r2 with
                           | Some (sets, r3) => match read_where r3 with
                                                | Some w => Some (AUpdate tbl sets w)
                                                | None => None end
                           | None => None end
              | None => None
              end
          | None => None
          end
      | None =>
          match strip_prefix "DELETE FROM " s with
          | Some r => match read_ident r with
                      | Some (tbl, r1) => match read_where r1 with Some w => Some (ADelete tbl w) | None => None end
                      | None => None end
          | None => None
          end
      end
  end.
(* every item is at least one character long, so the length of the text is enough fuel *)
Definition parse_dml (s : string) : option dml_ast := parse_dml_fuel (S (String.length s)) s.

(* ---- the value a literal token denotes for the engine (SQLite): storage class and content ---- *)
Inductive sqlval := QNull | QInt (z : Z) | QText (s : string) | QReal (txt : string).
Definition lit_value (l : lit) : sqlval :=
  match l with
  | LStr s => QText s
  | LBare t =>
      if String.eqb t "NULL" || String.eqb t "null" then QNull
      else if String.eqb t "true" then QInt 1
      else if String.eqb t "false" then QInt 0
      else match Z_of_string t with Some z => QInt z | None => QReal t end
  end.
Definition pyval_value (v : pyval) : sqlval :=
  match v with
  | VStr s => QText s
  | VInt z => QInt z
  | VBool b => QInt (if b then 1 else 0)%Z
  | VNone => QNull
  | VFloat x => QReal x
  | VTerm _ => QNull
  end.

(* ---- well-formedness of the data (boolean, so that examples decide it) ---- *)
Fixpoint no_char (c : ascii) (s : string) : bool :=
  match s with EmptyString => true | String a r => negb (Ascii.eqb a c) && no_char c r end.
Fixpoint no_delim (s : string) : bool :=
  match s with EmptyString => true | String a r => negb (is_delim a) && no_delim r end.
(* a float text as Python writes it: non-empty, no delimiter, no quote in front, not an integer numeral or a keyword *)
Definition float_ok (x : string) : bool :=
  nonempty_str x && no_delim x && no_char sqc x
  && match Z_of_string x with Some _ => false | None => true end
  && negb (String.eqb x "NULL" || String.eqb x "null" || String.eqb x "true" || String.eqb x "false").
Definition lit_val (v : pyval) : bool :=
  match v with VTerm _ => false | VFloat x => float_ok x | _ => true end.
Definition name_ok (s : string) : bool := no_char dqc s.
Definition plain_table (t : tref) : bool :=
  name_ok (tname t) && match tschema t with [] => true | _ => false end && match talias t with None => true | _ => false end.
Definition col_name (c : colarg) : option string := match c with CStr s => Some s | CFld _ => None end.
Definition str_col (c : colarg) : bool := match c with CStr s => name_ok s | CFld _ => false end.
Definition col_str (c : colarg) : string := match c with CStr s => s | CFld _ => "" end.

(* the class constants the SQLite text relies on (re-checked against the regenerated table on every run) *)
Definition dml_cls_ok (c : cls) : bool :=
  option_eqb String.eqb (cls_q c) (Some """") && option_eqb String.eqb (cls_sq c) (Some "'")
  && option_eqb String.eqb (cls_aq c) None && negb (cls_askw c) && negb (cls_is_clickhouse c).

(* ------------------------------------------------------------------------------------------------ *)
(* 6. literal cells of a state and the statement a literal state asks for                              *)
(* ------------------------------------------------------------------------------------------------ *)
Definition term_lit (t : term) : option lit :=
  match t with
  | TValS s None => Some (LStr s)
  | TValI z None => Some (LBare (Z_to_string z))
  | TValB b sqlite None => Some (LBare (if sqlite then (if b then "1" else "0") else (if b then "true" else "false")))
  | TValNone None => Some (LBare "null")
  | TValRaw x None => Some (LBare x)
  | TLit x None => Some (LBare x)
  | _ => None
  end.
Definition lit_of (t : term) : lit := match term_lit t with Some l => l | None => LBare "" end.
Definition is_litterm (t : term) : bool := match term_lit t with Some _ => true | None => false end.
Definition plain_field (t : term) : option string :=
  match t with TField n _ None => Some n | _ => None end.
Definition field_name (t : term) : string := match plain_field t with Some n => n | None => "" end.

Definition lit_eqb (a b : lit) : bool :=
  match a, b with LStr x, LStr y => String.eqb x y | LBare x, LBare y => String.eqb x y | _, _ => false end.
Definition imode_eqb (a b : imode) : bool :=
  match a, b with MInsert, MInsert | MReplace, MReplace | MInsertOrReplace, MInsertOrReplace => true | _, _ => false end.
Definition ast_eqb (a b : dml_ast) : bool :=
  match a, b with
  | AInsert m t c r, AInsert m' t' c' r' =>
      imode_eqb m m' && String.eqb t t' && list_eqb String.eqb c c' && list_eqb (list_eqb lit_eqb) r r'
  | AInsertSelect m t c s, AInsertSelect m' t' c' s' =>
      imode_eqb m m' && String.eqb t t' && list_eqb String.eqb c c' && String.eqb s s'
  | AUpdate t s w, AUpdate t' s' w' =>
      String.eqb t t' && list_eqb (fun x y => String.eqb (fst x) (fst y) && lit_eqb (snd x) (snd y)) s s'
      && option_eqb String.eqb w w'
  | ADelete t w, ADelete t' w' => String.eqb t t' && option_eqb String.eqb w w'
  | _, _ => false
  end.

(* the text Query.rquery writes for the criterion of an UPDATE / a DELETE (the criterion is an arbitrary term; the
   with_namespace flag is the renderer's "reference to a foreign table" decision) *)
Definition upd_wns (tbl : tref) (w : option term) : bool :=
  existsb (fun o : option tref => match o with
                                  | Some tb => negb (existsb (tref_eqb (resolve_tref [] tb)) [tbl])
                                  | None => false end)
          (match option_map IT w with Some w0 => item_tables w0 | None => [] end) || false.
Definition upd_where_res (c : cls) (tbl : tref) (w : term) : res string :=
  render (set_subq (set_wn (kc (defaults c (top_ctx c))) (upd_wns tbl (Some w))) true) (map_tref (resolve_tref []) w).
Definition del_wns (tbl : tref) (w : option term) : bool :=
  Nat.ltb 1 (List.length [SrcT tbl]) || false ||
  existsb (fun o : option tref => match o with
                                  | Some tb => negb (existsb (tref_eqb (resolve_tref [src_ref (SrcT tbl) None] tb))
                                                             [src_ref (SrcT tbl) None])
                                  | None => false end)
          (match option_map IT w with Some w0 => item_tables w0 | None => [] end).
Definition del_where_res (c : cls) (tbl : tref) (w : term) : res string :=
  render (set_subq (set_wn (kc (defaults c (top_ctx c))) (del_wns tbl (Some w))) true)
         (map_tref (resolve_tref [src_ref (SrcT tbl) None]) w).
(* the text of the SELECT of an INSERT ... SELECT *)
Definition ins_sel_res (c : cls) (y : query) : res string :=
  rquery (with_c (defaults c (top_ctx c)) (set_wn (kc (defaults c (top_ctx c))) false)) false false (qalias y) y.

(* ------------------------------------------------------------------------------------------------ *)
(* 7. the engine's lexical pre-pass: a "--" outside quoted regions starts a comment up to the end of the line      *)
(*    (used only to state what the known findings about expressions do to a statement)                              *)
(* ------------------------------------------------------------------------------------------------ *)
Inductive lexst := LOut | LSq | LDq | LComment.
Definition nl_char : ascii := ascii_of_nat 10.
Fixpoint strip_comments (st : lexst) (s : string) : string :=
  match s with
  | EmptyString => EmptyString
  | String a r =>
      match st with
      | LComment => if Ascii.eqb a nl_char then String a (strip_comments LOut r) else strip_comments LComment r
      | LSq => String a (strip_comments (if Ascii.eqb a sqc then LOut else LSq) r)
      | LDq => String a (strip_comments (if Ascii.eqb a dqc then LOut else LDq) r)
      | LOut =>
          if Ascii.eqb a "-"%char then
            match r with
            | String b r' => if Ascii.eqb b "-"%char then strip_comments LComment r' else String a (strip_comments LOut r)
            | EmptyString => String a EmptyString
            end
          else String a (strip_comments (if Ascii.eqb a sqc then LSq else if Ascii.eqb a dqc then LDq else LOut) r)
      end
  end.
Definition engine_lex (s : string) : string := strip_comments LOut s.

(* ------------------------------------------------------------------------------------------------ *)
(* 8. value TERMS (expressions over columns, functions, sub-queries ...): the text the shared renderer writes for a    *)
(*    value in the VALUES position of an INSERT / in the SET-value position of an UPDATE                               *)
(* ------------------------------------------------------------------------------------------------ *)
Definition ins_value_ctx (c : cls) : ctx :=
  set_subq (set_wa (set_wn (kc (defaults c (top_ctx c))) false) false) true.
Definition ins_value_res (c : cls) (v : term) : res string :=
  render (ins_value_ctx c) (map_tref (resolve_tref []) v).
Definition set_value_ctx (c : cls) (tbl : tref) (w : option term) : ctx :=
  let B := set_wn (kc (defaults c (top_ctx c))) (upd_wns tbl w) in
  if clause_subq_setvalue then set_subq B true else B.
Definition set_value_res (c : cls) (tbl : tref) (w : option term) (v : term) : res string :=
  render (set_value_ctx c tbl w) (map_tref (resolve_tref []) v).
